package logic

// C32 — AVM opcodes compute exactly their specified results.
//
// Engine E-ENUM, level exploration.
//
// What is enumerated (every tuple of the stated finite domains, nothing sampled):
//   - uint ops (+ - * / % < > <= >= == != && || | & ^ addw mulw): ALL pairs of
//     B64 = {0,1,2,3, 2^k-1, 2^k, 2^k+1 (k in 8,16,31,32,33,63), 2^64-2, 2^64-1} (24 values; the
//     thorough tier adds k in 4,24,48,62 and six mixed patterns: 42 values);
//     shl shr exp expw: B64 x (B64 u {0..130});  ! ~ sqrt bitlen itob: an extended unary set
//     (B64, perfect squares +-1, 2^k +-1 for every k); divw: B64^3; divmodw: B64^4.
//   - byte-math (b+ b- b* b/ b% b< b> b<= b>= b== b!= and == != on bytes): all pairs of ~35 big-endian
//     values with lengths {0,1,8,9,63,64,65} and patterns {0..0, 0..1, ff..ff, 80..0, leading
//     zeros, ff..fe}; b| b& b^ b~ additionally with 66/100/4096-byte operands; bsqrt also on
//     perfect squares +-1 up to 512 bits.
//   - conversions/indexing: itob, btoi (every length 0..9 x 5 patterns), bitlen (uint and bytes), len,
//     getbit/setbit (uint and bytes), getbyte/setbyte over an index grid containing 8*len-1,
//     8*len, 8*len+1 / len-1, len, len+1 for every enumerated length, and values C in
//     {0,1,2,255,256,2^64-1}; substring/extract (all immediate pairs of a 10-value uint8 grid),
//     substring3/extract3/extract_uint16/32/64/replace2/replace3/concat/bzero over boundary grids
//     including 2^64-1 (uint64 wrap of B+C) and 4095/4096/4097-byte lengths.
//   - every case is run in signature mode in the newest AVM version AND in the oldest version
//     that has the opcode (pushes via intcblock/bytecblock there when pushint is missing);
//     every case whose operand A is a byte array (and every 1/2-operand case) is run a second
//     time with `dup` after pushing A: the copy below the operands must be unchanged.
//
// How a case is executed: a real bytecode program `<version> push SENTINEL; push A; push B..; OP`
// is evaluated by EvalSignatureFull under the vFuture consensus parameters; the final stack
// and the failing pc are observed from the returned EvalContext.
//
// Oracle: per-opcode reference written with math/big from the opcode specification
// (TEAL_opcodes_v13.md / langspec_v13.json texts quoted at each function), NOT from eval.go:
// the opcode must fail exactly when the spec says (overflow, underflow, /0, bigint operand
// > 64 bytes, index out of range, 0^0, shift > 63 ...), otherwise the stack must be
// [SENTINEL, results...] with the specified values. For sqrt/bsqrt the defining property
// I^2 <= A < (I+1)^2 is checked on the produced value.
// Byte-math results are required in the shortest big-endian encoding (AVM spec, "Byte Array
// Arithmetic": "the returned values are the shortest byte-array that can represent the
// returned value"); a value-equal but non-minimal encoding is reported under a separate key.
//
// Not covered: operands off the grids; crypto/EC/hash/json/base64 opcodes; txn/global/state
// opcodes; mixed-type == / != (unspecified); application mode (the opcodes are mode independent,
// one pass of the pair ops in app mode is left to C31's coverage).
//
// Mutants (bin/mut C32 data/transactions/logic/eval.go ... --only), all DETECTED:
//   1. opExpwImpl `answer.BitLen() > 128` -> `> 129`           (2^32 expw 4 silently truncated)
//   2. opBytesBinOp `if result.Sign() < 0 {` -> `if false {`    (b- returns |A-B|)
//   3. opShiftRight `> 63` -> `> 64`                            (shr by 64 accepted)
//   4. opDivModw remainder words swapped
//   5. nonzero(): `return b[i:]` -> `return b`                  (b< / b== ignore leading zeros only sometimes)
//   6. opBtoi `len(ibytes) > 8` -> `> 9`
//   7. opSetBit: `slices.Clone(target.Bytes)` -> `target.Bytes` (in-place write seen through a dup: needs dup+setbit)

import (
	"bytes"
	"encoding/binary"
	"encoding/hex"
	"encoding/json"
	"fmt"
	"math"
	"math/big"
	"runtime"
	"strconv"
	"strings"
	"sync"
	"sync/atomic"
	"testing"

	"github.com/algorand/go-algorand/config"
	"github.com/algorand/go-algorand/data/transactions"
	"github.com/algorand/go-algorand/protocol"
	ve "github.com/algorand/go-algorand/verifeng"
)

// c32v is one AVM stack value of the reference model.
type c32v struct {
	b   []byte
	u   uint64
	isB bool
}

func c32u(x uint64) c32v { return c32v{u: x} }
func c32b(b []byte) c32v {
	if b == nil {
		b = []byte{}
	}
	return c32v{b: b, isB: true}
}

func (v c32v) String() string {
	if !v.isB {
		return fmt.Sprintf("%d", v.u)
	}
	if len(v.b) > 40 {
		return fmt.Sprintf("0x%s..(%d bytes)..%s", hex.EncodeToString(v.b[:8]), len(v.b), hex.EncodeToString(v.b[len(v.b)-8:]))
	}
	return "0x" + hex.EncodeToString(v.b)
}

func c32strs(vs []c32v) []string {
	out := make([]string, len(vs))
	for i, v := range vs {
		out[i] = v.String()
	}
	return out
}

func (v c32v) big() *big.Int {
	if v.isB {
		return new(big.Int).SetBytes(v.b)
	}
	return new(big.Int).SetUint64(v.u)
}

var (
	c32two64  = new(big.Int).Lsh(big.NewInt(1), 64)
	c32two128 = new(big.Int).Lsh(big.NewInt(1), 128)
	c32one    = big.NewInt(1)
)

func c32bool(b bool) []c32v {
	if b {
		return []c32v{c32u(1)}
	}
	return []c32v{c32u(0)}
}

// c32fitU returns x as a uint64 result, or fail if it is not representable.
func c32fitU(x *big.Int) ([]c32v, bool) {
	if x.Sign() < 0 || x.Cmp(c32two64) >= 0 {
		return nil, true
	}
	return []c32v{c32u(x.Uint64())}, false
}

// c32hiLo splits a value < 2^128 into (high, low) words.
func c32hiLo(x *big.Int) []c32v {
	hi := new(big.Int).Rsh(x, 64)
	lo := new(big.Int).Mod(x, c32two64)
	return []c32v{c32u(hi.Uint64()), c32u(lo.Uint64())}
}

func c32bigBytes(x *big.Int) c32v { return c32b(x.Bytes()) }

// c32pow computes a^b exactly when the result is below limit; ok=false when it is >= limit.
// For a >= 2 and b >= bitlen(limit) the power certainly exceeds the limit.
func c32pow(a, b uint64, limit *big.Int) (*big.Int, bool) {
	if b == 0 {
		return big.NewInt(1), true
	}
	if a == 0 {
		return big.NewInt(0), true
	}
	if a == 1 {
		return big.NewInt(1), true
	}
	if b >= uint64(limit.BitLen()) {
		return nil, false
	}
	r := new(big.Int).Exp(new(big.Int).SetUint64(a), new(big.Int).SetUint64(b), nil)
	if r.Cmp(limit) >= 0 {
		return nil, false
	}
	return r, true
}

type c32ref func(a []c32v, imm []byte) (out []c32v, fail bool)

// c32op describes one opcode under test. code/since are taken from the "Bytecode" and
// "Availability" lines of TEAL_opcodes_v13.md.
type c32op struct {
	name   string
	code   byte
	since  uint64
	doms   [][]c32v // domain of each stack operand, A first
	imms   [][]byte // alternatives for the immediate bytes (nil: none)
	ref    c32ref
	sqrtOf bool // result checked by the defining property of the integer square root
}

// ---------------------------------------------------------------------------------------
// domains

func c32B64() []uint64 {
	g := []uint64{0, 1, 2, 3}
	for _, k := range []uint{8, 16, 31, 32, 33, 63} {
		g = append(g, (uint64(1)<<k)-1, uint64(1)<<k, (uint64(1)<<k)+1)
	}
	g = append(g, math.MaxUint64-1, math.MaxUint64)
	if ve.Thorough() { // thorough tier: 42 values
		for _, k := range []uint{4, 24, 48, 62} {
			g = append(g, (uint64(1)<<k)-1, uint64(1)<<k, (uint64(1)<<k)+1)
		}
		g = append(g, 10, 1_000_000_000, 1_000_000_000_000_000_000, 0xffffffff00000000, 0x5555555555555555, 0xaaaaaaaaaaaaaaaa)
	}
	return c32dedupU(g)
}

func c32dedupU(g []uint64) []uint64 {
	seen := map[uint64]bool{}
	var out []uint64
	for _, v := range g {
		if !seen[v] {
			seen[v] = true
			out = append(out, v)
		}
	}
	return out
}

func c32uvals(g []uint64) []c32v {
	out := make([]c32v, len(g))
	for i, x := range g {
		out[i] = c32u(x)
	}
	return out
}

// c32unary: B64 plus every 2^k-1, 2^k, 2^k+1 and perfect squares +-1.
func c32unary() []uint64 {
	g := c32B64()
	for k := uint(0); k < 64; k++ {
		g = append(g, (uint64(1)<<k)-1, uint64(1)<<k, (uint64(1)<<k)+1)
	}
	for _, s := range []uint64{2, 3, 4, 10, 255, 256, 65535, 65536, 1 << 31, (1 << 32) - 2, (1 << 32) - 1, 3037000499, 3037000500, 4294967295} {
		sq := s * s // all fit: s < 2^32
		g = append(g, sq-1, sq, sq+1)
	}
	return c32dedupU(g)
}

func c32exponents() []uint64 {
	g := c32B64()
	for i := uint64(0); i <= 130; i++ {
		g = append(g, i)
	}
	return c32dedupU(g)
}

func c32pat(n int, kind string) []byte {
	b := make([]byte, n)
	switch kind {
	case "zero":
	case "one":
		if n > 0 {
			b[n-1] = 1
		}
	case "ff":
		for i := range b {
			b[i] = 0xff
		}
	case "fe":
		for i := range b {
			b[i] = 0xff
		}
		if n > 0 {
			b[n-1] = 0xfe
		}
	case "80":
		if n > 0 {
			b[0] = 0x80
		}
	case "lead": // two leading zero bytes then ff..
		for i := range b {
			if i >= 2 {
				b[i] = 0xff
			}
		}
	case "mix":
		for i := range b {
			b[i] = byte(i*37 + 0xa5)
		}
	}
	return b
}

func c32dedupB(g [][]byte) []c32v {
	seen := map[string]bool{}
	var out []c32v
	for _, v := range g {
		if !seen[string(v)] {
			seen[string(v)] = true
			out = append(out, c32b(v))
		}
	}
	return out
}

// c32bigints: the byte-math operand set.
func c32bigints() []c32v {
	var g [][]byte
	for _, n := range []int{0, 1, 8, 9, 63, 64, 65} {
		for _, k := range []string{"zero", "one", "ff", "80", "lead", "fe"} {
			g = append(g, c32pat(n, k))
		}
	}
	g = append(g, c32pat(32, "ff"), []byte{2}, []byte{0, 0, 3})
	return c32dedupB(g)
}

// c32bitwise: operands for b| b& b^ b~ (any length allowed).
func c32bitwise() []c32v {
	var g [][]byte
	for _, n := range []int{0, 1, 8, 9, 63, 64, 65} {
		for _, k := range []string{"zero", "ff", "80", "mix"} {
			g = append(g, c32pat(n, k))
		}
	}
	g = append(g, c32pat(66, "mix"), c32pat(100, "ff"), c32pat(4096, "mix"), c32pat(4095, "ff"))
	return c32dedupB(g)
}

func c32sqrtBytes() []c32v {
	var g [][]byte
	for _, v := range c32bigints() {
		g = append(g, v.b)
	}
	for _, k := range []uint{4, 32, 64, 100, 128, 255, 256} {
		for _, d := range []int64{-1, 0, 1} {
			s := new(big.Int).Lsh(big.NewInt(1), k)
			s.Add(s, big.NewInt(d))
			sq := new(big.Int).Mul(s, s)
			for _, e := range []int64{-1, 0, 1} {
				x := new(big.Int).Add(sq, big.NewInt(e))
				if x.Sign() >= 0 {
					g = append(g, x.Bytes())
				}
			}
		}
	}
	return c32dedupB(g)
}

// c32indexed: byte arrays used by the indexing ops.
func c32indexed() []c32v {
	var g [][]byte
	for _, n := range []int{0, 1, 2, 8, 9, 63, 64, 65} {
		for _, k := range []string{"mix", "zero", "ff"} {
			g = append(g, c32pat(n, k))
		}
	}
	return c32dedupB(g)
}

// c32idx: index grid: contains len-1,len,len+1 and 8len-1,8len,8len+1 for the lengths above.
func c32idx() []c32v {
	g := []uint64{0, 1, 2, 3, 6, 7, 8, 9, 10, 15, 16, 17, 55, 56, 57, 58, 61, 62, 63, 64, 65, 66, 71, 72, 73,
		503, 504, 505, 511, 512, 513, 519, 520, 521, 1 << 32, 1 << 63, math.MaxUint64 - 7, math.MaxUint64 - 1, math.MaxUint64}
	return c32uvals(c32dedupU(g))
}

func c32slices() []c32v {
	var g [][]byte
	for _, n := range []int{0, 1, 2, 3, 8, 255, 256, 257, 4095, 4096} {
		g = append(g, c32pat(n, "mix"))
	}
	return c32dedupB(g)
}

func c32ranges() []c32v {
	g := []uint64{0, 1, 2, 3, 4, 7, 8, 9, 254, 255, 256, 257, 258, 4094, 4095, 4096, 4097, 1 << 32, 1 << 63,
		math.MaxUint64 - 4095, math.MaxUint64 - 7, math.MaxUint64 - 1, math.MaxUint64}
	return c32uvals(g)
}

func c32immPairs() [][]byte {
	g := []byte{0, 1, 2, 3, 4, 7, 8, 9, 254, 255}
	var out [][]byte
	for _, a := range g {
		for _, b := range g {
			out = append(out, []byte{a, b})
		}
	}
	return out
}

func c32immSmall() []c32v {
	var g [][]byte
	for _, n := range []int{0, 1, 2, 3, 8, 9, 253, 254, 255, 256, 257} {
		g = append(g, c32pat(n, "mix"))
	}
	return c32dedupB(g)
}

// ---------------------------------------------------------------------------------------
// references (each comment quotes the spec line it implements)

func c32uintBin(f func(a, b *big.Int) ([]c32v, bool)) c32ref {
	return func(a []c32v, _ []byte) ([]c32v, bool) { return f(a[0].big(), a[1].big()) }
}

func c32cmp(f func(c int) bool) c32ref {
	return func(a []c32v, _ []byte) ([]c32v, bool) { return c32bool(f(a[0].big().Cmp(a[1].big()))), false }
}

// byte-math: "bigint" operands are []byte of length <= 64 (langspec NamedTypes bigint bound [0,64]).
func c32bigBin(f func(a, b *big.Int) ([]c32v, bool)) c32ref {
	return func(a []c32v, _ []byte) ([]c32v, bool) {
		if len(a[0].b) > 64 || len(a[1].b) > 64 {
			return nil, true
		}
		return f(a[0].big(), a[1].big())
	}
}

func c32bigCmp(f func(c int) bool) c32ref {
	return c32bigBin(func(a, b *big.Int) ([]c32v, bool) { return c32bool(f(a.Cmp(b))), false })
}

// "A and B are zero-left extended to the greater of their lengths"
func c32bitwiseRef(f func(x, y byte) byte) c32ref {
	return func(a []c32v, _ []byte) ([]c32v, bool) {
		x, y := a[0].b, a[1].b
		n := len(x)
		if len(y) > n {
			n = len(y)
		}
		px := append(make([]byte, n-len(x)), x...)
		py := append(make([]byte, n-len(y)), y...)
		out := make([]byte, n)
		for i := range out {
			out[i] = f(px[i], py[i])
		}
		return []c32v{c32b(out)}, false
	}
}

// c32extractRef: bytes of A from start up to but not including start+length, computed over the
// integers (no uint64 wrap): fails if start or start+length is larger than len(A).
func c32extractRef(a []byte, start, length *big.Int) ([]c32v, bool) {
	n := big.NewInt(int64(len(a)))
	end := new(big.Int).Add(start, length)
	if start.Cmp(n) > 0 || end.Cmp(n) > 0 {
		return nil, true
	}
	return []c32v{c32b(append([]byte{}, a[start.Int64():end.Int64()]...))}, false
}

func c32extractUint(nbytes int64) c32ref {
	// "A uintN formed from a range of big-endian bytes from A starting at B up to but not
	// including B+n. If B+n is larger than the array length, the program fails"
	return func(a []c32v, _ []byte) ([]c32v, bool) {
		out, fail := c32extractRef(a[0].b, a[1].big(), big.NewInt(nbytes))
		if fail {
			return nil, true
		}
		return []c32v{c32u(new(big.Int).SetBytes(out[0].b).Uint64())}, false
	}
}

// "Copy of A with the bytes starting at S replaced by the bytes of B. Fails if S+len(B) exceeds len(A)"
func c32replaceRef(a []byte, start *big.Int, repl []byte) ([]c32v, bool) {
	end := new(big.Int).Add(start, big.NewInt(int64(len(repl))))
	if end.Cmp(big.NewInt(int64(len(a)))) > 0 {
		return nil, true
	}
	out := append([]byte{}, a...)
	copy(out[start.Int64():], repl)
	return []c32v{c32b(out)}, false
}

func c32ops() []c32op {
	B := c32uvals(c32B64())
	U := c32uvals(c32unary())
	E := c32uvals(c32exponents())
	I := c32bigints()
	W := c32bitwise()
	X := c32indexed()
	IDX := c32idx()
	S := c32slices()
	R := c32ranges()
	bitC := c32uvals([]uint64{0, 1, 2, 255, 256, math.MaxUint64})
	pair := [][]c32v{B, B}

	var btoiDom [][]byte
	for n := 0; n <= 9; n++ {
		for _, k := range []string{"zero", "one", "ff", "80", "mix"} {
			btoiDom = append(btoiDom, c32pat(n, k))
		}
	}
	var allBytes []c32v
	allBytes = append(allBytes, I...)
	allBytes = append(allBytes, W...)
	allBytes = append(allBytes, S...)
	var concatDom [][]byte
	for _, n := range []int{0, 1, 2, 2047, 2048, 2049, 4095, 4096} {
		concatDom = append(concatDom, c32pat(n, "mix"))
	}

	ops := []c32op{
		// "A plus B. Fail on overflow."
		{name: "+", code: 0x08, since: 1, doms: pair, ref: c32uintBin(func(a, b *big.Int) ([]c32v, bool) { return c32fitU(new(big.Int).Add(a, b)) })},
		// "A minus B. Fail if B > A."
		{name: "-", code: 0x09, since: 1, doms: pair, ref: c32uintBin(func(a, b *big.Int) ([]c32v, bool) { return c32fitU(new(big.Int).Sub(a, b)) })},
		// "A divided by B (truncated division). Fail if B == 0."
		{name: "/", code: 0x0a, since: 1, doms: pair, ref: c32uintBin(func(a, b *big.Int) ([]c32v, bool) {
			if b.Sign() == 0 {
				return nil, true
			}
			return c32fitU(new(big.Int).Quo(a, b))
		})},
		// "A times B. Fail on overflow."
		{name: "*", code: 0x0b, since: 1, doms: pair, ref: c32uintBin(func(a, b *big.Int) ([]c32v, bool) { return c32fitU(new(big.Int).Mul(a, b)) })},
		{name: "<", code: 0x0c, since: 1, doms: pair, ref: c32cmp(func(c int) bool { return c < 0 })},
		{name: ">", code: 0x0d, since: 1, doms: pair, ref: c32cmp(func(c int) bool { return c > 0 })},
		{name: "<=", code: 0x0e, since: 1, doms: pair, ref: c32cmp(func(c int) bool { return c <= 0 })},
		{name: ">=", code: 0x0f, since: 1, doms: pair, ref: c32cmp(func(c int) bool { return c >= 0 })},
		// "A is not zero and B is not zero => {0 or 1}"
		{name: "&&", code: 0x10, since: 1, doms: pair, ref: c32uintBin(func(a, b *big.Int) ([]c32v, bool) { return c32bool(a.Sign() != 0 && b.Sign() != 0), false })},
		// "A is not zero or B is not zero => {0 or 1}"
		{name: "||", code: 0x11, since: 1, doms: pair, ref: c32uintBin(func(a, b *big.Int) ([]c32v, bool) { return c32bool(a.Sign() != 0 || b.Sign() != 0), false })},
		{name: "==", code: 0x12, since: 1, doms: pair, ref: c32cmp(func(c int) bool { return c == 0 })},
		{name: "!=", code: 0x13, since: 1, doms: pair, ref: c32cmp(func(c int) bool { return c != 0 })},
		// == / != on byte arrays: equality of the arrays themselves (not of the integers they encode)
		{name: "==(bytes)", code: 0x12, since: 1, doms: [][]c32v{I, I}, ref: func(a []c32v, _ []byte) ([]c32v, bool) { return c32bool(bytes.Equal(a[0].b, a[1].b)), false }},
		{name: "!=(bytes)", code: 0x13, since: 1, doms: [][]c32v{I, I}, ref: func(a []c32v, _ []byte) ([]c32v, bool) { return c32bool(!bytes.Equal(a[0].b, a[1].b)), false }},
		// "A == 0 yields 1; else 0"
		{name: "!", code: 0x14, since: 1, doms: [][]c32v{U}, ref: func(a []c32v, _ []byte) ([]c32v, bool) { return c32bool(a[0].u == 0), false }},
		// "yields length of byte value A"
		{name: "len", code: 0x15, since: 1, doms: [][]c32v{allBytes}, ref: func(a []c32v, _ []byte) ([]c32v, bool) { return []c32v{c32u(uint64(len(a[0].b)))}, false }},
		// "converts uint64 A to big-endian byte array, always of length 8"
		{name: "itob", code: 0x16, since: 1, doms: [][]c32v{U}, ref: func(a []c32v, _ []byte) ([]c32v, bool) {
			raw := a[0].big().Bytes()
			return []c32v{c32b(append(make([]byte, 8-len(raw)), raw...))}, false
		}},
		// "converts big-endian byte array A to uint64. Fails if len(A) > 8. Padded by leading 0s if len(A) < 8."
		{name: "btoi", code: 0x17, since: 1, doms: [][]c32v{c32dedupB(btoiDom)}, ref: func(a []c32v, _ []byte) ([]c32v, bool) {
			if len(a[0].b) > 8 {
				return nil, true
			}
			return c32fitU(a[0].big())
		}},
		// "A modulo B. Fail if B == 0."
		{name: "%", code: 0x18, since: 1, doms: pair, ref: c32uintBin(func(a, b *big.Int) ([]c32v, bool) {
			if b.Sign() == 0 {
				return nil, true
			}
			return c32fitU(new(big.Int).Rem(a, b))
		})},
		{name: "|", code: 0x19, since: 1, doms: pair, ref: c32uintBin(func(a, b *big.Int) ([]c32v, bool) { return c32fitU(new(big.Int).Or(a, b)) })},
		{name: "&", code: 0x1a, since: 1, doms: pair, ref: c32uintBin(func(a, b *big.Int) ([]c32v, bool) { return c32fitU(new(big.Int).And(a, b)) })},
		{name: "^", code: 0x1b, since: 1, doms: pair, ref: c32uintBin(func(a, b *big.Int) ([]c32v, bool) { return c32fitU(new(big.Int).Xor(a, b)) })},
		// "bitwise invert value A": 2^64-1-A
		{name: "~", code: 0x1c, since: 1, doms: [][]c32v{U}, ref: func(a []c32v, _ []byte) ([]c32v, bool) {
			return c32fitU(new(big.Int).Sub(new(big.Int).Sub(c32two64, c32one), a[0].big()))
		}},
		// "A times B as a 128-bit result in two uint64s. X is the high 64 bits, Y is the low"
		{name: "mulw", code: 0x1d, since: 1, doms: pair, ref: c32uintBin(func(a, b *big.Int) ([]c32v, bool) { return c32hiLo(new(big.Int).Mul(a, b)), false })},
		// "A plus B as a 128-bit result. X is the carry-bit, Y is the low-order 64 bits."
		{name: "addw", code: 0x1e, since: 2, doms: pair, ref: c32uintBin(func(a, b *big.Int) ([]c32v, bool) { return c32hiLo(new(big.Int).Add(a, b)), false })},
		// "W,X = (A,B / C,D); Y,Z = (A,B modulo C,D). Fail if C,D == 0"
		{name: "divmodw", code: 0x1f, since: 4, doms: [][]c32v{B, B, B, B}, ref: func(a []c32v, _ []byte) ([]c32v, bool) {
			num := new(big.Int).Add(new(big.Int).Lsh(a[0].big(), 64), a[1].big())
			den := new(big.Int).Add(new(big.Int).Lsh(a[2].big(), 64), a[3].big())
			if den.Sign() == 0 {
				return nil, true
			}
			q, m := new(big.Int).QuoRem(num, den, new(big.Int))
			return append(c32hiLo(q), c32hiLo(m)...), false
		}},
		// "A times 2^B, modulo 2^64. Fail if B > 63"
		{name: "shl", code: 0x90, since: 4, doms: [][]c32v{B, E}, ref: func(a []c32v, _ []byte) ([]c32v, bool) {
			if a[1].u > 63 {
				return nil, true
			}
			x := new(big.Int).Mul(a[0].big(), new(big.Int).Exp(big.NewInt(2), a[1].big(), nil))
			return c32fitU(x.Mod(x, c32two64))
		}},
		// "A divided by 2^B. Fail if B > 63"
		{name: "shr", code: 0x91, since: 4, doms: [][]c32v{B, E}, ref: func(a []c32v, _ []byte) ([]c32v, bool) {
			if a[1].u > 63 {
				return nil, true
			}
			return c32fitU(new(big.Int).Quo(a[0].big(), new(big.Int).Exp(big.NewInt(2), a[1].big(), nil)))
		}},
		// "The largest integer I such that I^2 <= A"
		{name: "sqrt", code: 0x92, since: 4, doms: [][]c32v{U}, sqrtOf: true},
		// "The highest set bit in A. ... bitlen of 0 is 0, bitlen of 8 is 4"
		{name: "bitlen", code: 0x93, since: 4, doms: [][]c32v{U}, ref: func(a []c32v, _ []byte) ([]c32v, bool) { return []c32v{c32u(uint64(a[0].big().BitLen()))}, false }},
		// "If A is a byte-array, it is interpreted as a big-endian unsigned integer"
		{name: "bitlen(bytes)", code: 0x93, since: 4, doms: [][]c32v{allBytes}, ref: func(a []c32v, _ []byte) ([]c32v, bool) { return []c32v{c32u(uint64(a[0].big().BitLen()))}, false }},
		// "A raised to the Bth power. Fail if A == B == 0 and on overflow"
		{name: "exp", code: 0x94, since: 4, doms: [][]c32v{B, E}, ref: func(a []c32v, _ []byte) ([]c32v, bool) {
			if a[0].u == 0 && a[1].u == 0 {
				return nil, true
			}
			p, ok := c32pow(a[0].u, a[1].u, c32two64)
			if !ok {
				return nil, true
			}
			return c32fitU(p)
		}},
		// "A raised to the Bth power as a 128-bit result in two uint64s. X is the high 64 bits, Y is
		// the low. Fail if A == B == 0 or if the results exceeds 2^128-1"
		{name: "expw", code: 0x95, since: 4, doms: [][]c32v{B, E}, ref: func(a []c32v, _ []byte) ([]c32v, bool) {
			if a[0].u == 0 && a[1].u == 0 {
				return nil, true
			}
			p, ok := c32pow(a[0].u, a[1].u, c32two128)
			if !ok {
				return nil, true
			}
			return c32hiLo(p), false
		}},
		// "The largest integer I such that I^2 <= A. A and I are interpreted as big-endian unsigned integers"
		{name: "bsqrt", code: 0x96, since: 6, doms: [][]c32v{c32sqrtBytes()}, sqrtOf: true},
		// "A,B / C. Fail if C == 0 or if result overflows."
		{name: "divw", code: 0x97, since: 6, doms: [][]c32v{B, B, B}, ref: func(a []c32v, _ []byte) ([]c32v, bool) {
			if a[2].u == 0 {
				return nil, true
			}
			num := new(big.Int).Add(new(big.Int).Lsh(a[0].big(), 64), a[1].big())
			return c32fitU(num.Quo(num, a[2].big()))
		}},
		// byte math
		{name: "b+", code: 0xa0, since: 4, doms: [][]c32v{I, I}, ref: c32bigBin(func(a, b *big.Int) ([]c32v, bool) { return []c32v{c32bigBytes(new(big.Int).Add(a, b))}, false })},
		// "A minus B. ... Fail on underflow."
		{name: "b-", code: 0xa1, since: 4, doms: [][]c32v{I, I}, ref: c32bigBin(func(a, b *big.Int) ([]c32v, bool) {
			d := new(big.Int).Sub(a, b)
			if d.Sign() < 0 {
				return nil, true
			}
			return []c32v{c32bigBytes(d)}, false
		})},
		// "A divided by B (truncated division). ... Fail if B is zero."
		{name: "b/", code: 0xa2, since: 4, doms: [][]c32v{I, I}, ref: c32bigBin(func(a, b *big.Int) ([]c32v, bool) {
			if b.Sign() == 0 {
				return nil, true
			}
			return []c32v{c32bigBytes(new(big.Int).Quo(a, b))}, false
		})},
		{name: "b*", code: 0xa3, since: 4, doms: [][]c32v{I, I}, ref: c32bigBin(func(a, b *big.Int) ([]c32v, bool) { return []c32v{c32bigBytes(new(big.Int).Mul(a, b))}, false })},
		{name: "b<", code: 0xa4, since: 4, doms: [][]c32v{I, I}, ref: c32bigCmp(func(c int) bool { return c < 0 })},
		{name: "b>", code: 0xa5, since: 4, doms: [][]c32v{I, I}, ref: c32bigCmp(func(c int) bool { return c > 0 })},
		{name: "b<=", code: 0xa6, since: 4, doms: [][]c32v{I, I}, ref: c32bigCmp(func(c int) bool { return c <= 0 })},
		{name: "b>=", code: 0xa7, since: 4, doms: [][]c32v{I, I}, ref: c32bigCmp(func(c int) bool { return c >= 0 })},
		{name: "b==", code: 0xa8, since: 4, doms: [][]c32v{I, I}, ref: c32bigCmp(func(c int) bool { return c == 0 })},
		{name: "b!=", code: 0xa9, since: 4, doms: [][]c32v{I, I}, ref: c32bigCmp(func(c int) bool { return c != 0 })},
		// "A modulo B. ... Fail if B is zero."
		{name: "b%", code: 0xaa, since: 4, doms: [][]c32v{I, I}, ref: c32bigBin(func(a, b *big.Int) ([]c32v, bool) {
			if b.Sign() == 0 {
				return nil, true
			}
			return []c32v{c32bigBytes(new(big.Int).Rem(a, b))}, false
		})},
		{name: "b|", code: 0xab, since: 4, doms: [][]c32v{W, W}, ref: c32bitwiseRef(func(x, y byte) byte { return x | y })},
		{name: "b&", code: 0xac, since: 4, doms: [][]c32v{W, W}, ref: c32bitwiseRef(func(x, y byte) byte { return x & y })},
		{name: "b^", code: 0xad, since: 4, doms: [][]c32v{W, W}, ref: c32bitwiseRef(func(x, y byte) byte { return x ^ y })},
		// "A with all bits inverted"
		{name: "b~", code: 0xae, since: 4, doms: [][]c32v{W}, ref: func(a []c32v, _ []byte) ([]c32v, bool) {
			out := make([]byte, len(a[0].b))
			for i, x := range a[0].b {
				out[i] = 0xff - x
			}
			return []c32v{c32b(out)}, false
		}},
		// "zero filled byte-array of length A. Fail if A exceeds 4096"
		{name: "bzero", code: 0xaf, since: 4, doms: [][]c32v{append(c32uvals([]uint64{64, 4094, 4095, 4096, 4097, 4098, 8192}), B...)}, ref: func(a []c32v, _ []byte) ([]c32v, bool) {
			if a[0].u > 4096 {
				return nil, true
			}
			return []c32v{c32b(make([]byte, a[0].u))}, false
		}},
		// "join A and B" / "concat fails if the result would be greater than 4096 bytes."
		{name: "concat", code: 0x50, since: 2, doms: [][]c32v{c32dedupB(concatDom), c32dedupB(concatDom)}, ref: func(a []c32v, _ []byte) ([]c32v, bool) {
			if len(a[0].b)+len(a[1].b) > 4096 {
				return nil, true
			}
			return []c32v{c32b(append(append([]byte{}, a[0].b...), a[1].b...))}, false
		}},
		// "A range of bytes from A starting at S up to but not including E. If E < S, or either is
		// larger than the array length, the program fails"
		{name: "substring", code: 0x51, since: 2, doms: [][]c32v{c32immSmall()}, imms: c32immPairs(), ref: func(a []c32v, imm []byte) ([]c32v, bool) {
			s, e := big.NewInt(int64(imm[0])), big.NewInt(int64(imm[1]))
			if e.Cmp(s) < 0 {
				return nil, true
			}
			return c32extractRef(a[0].b, s, new(big.Int).Sub(e, s))
		}},
		{name: "substring3", code: 0x52, since: 2, doms: [][]c32v{S, R, R}, ref: func(a []c32v, _ []byte) ([]c32v, bool) {
			s, e := a[1].big(), a[2].big()
			if e.Cmp(s) < 0 {
				return nil, true
			}
			return c32extractRef(a[0].b, s, new(big.Int).Sub(e, s))
		}},
		// "Bth bit of (byte-array or integer) A. If B is greater than or equal to the bit length of
		// the value (8*byte length), the program fails" + bit ordering from setbit
		{name: "getbit(uint)", code: 0x53, since: 3, doms: [][]c32v{U, IDX}, ref: func(a []c32v, _ []byte) ([]c32v, bool) {
			if a[1].u >= 64 {
				return nil, true
			}
			return []c32v{c32u(uint64(a[0].big().Bit(int(a[1].u))))}, false
		}},
		{name: "getbit(bytes)", code: 0x53, since: 3, doms: [][]c32v{X, IDX}, ref: func(a []c32v, _ []byte) ([]c32v, bool) {
			nbits := uint64(8 * len(a[0].b))
			if a[1].u >= nbits {
				return nil, true
			}
			// "index 0 is the leftmost bit of the leftmost byte": bit i of the array is bit
			// (nbits-1-i) of the big-endian integer.
			return []c32v{c32u(uint64(a[0].big().Bit(int(nbits - 1 - a[1].u))))}, false
		}},
		// "Copy of (byte-array or integer) A, with the Bth bit set to (0 or 1) C."
		{name: "setbit(uint)", code: 0x54, since: 3, doms: [][]c32v{B, IDX, bitC}, ref: func(a []c32v, _ []byte) ([]c32v, bool) {
			if a[1].u >= 64 || a[2].u > 1 {
				return nil, true
			}
			return c32fitU(new(big.Int).SetBit(a[0].big(), int(a[1].u), uint(a[2].u)))
		}},
		{name: "setbit(bytes)", code: 0x54, since: 3, doms: [][]c32v{X, IDX, bitC}, ref: func(a []c32v, _ []byte) ([]c32v, bool) {
			nbits := uint64(8 * len(a[0].b))
			if a[1].u >= nbits || a[2].u > 1 {
				return nil, true
			}
			v := new(big.Int).SetBit(a[0].big(), int(nbits-1-a[1].u), uint(a[2].u))
			raw := v.Bytes()
			return []c32v{c32b(append(make([]byte, len(a[0].b)-len(raw)), raw...))}, false
		}},
		// "Bth byte of A, as an integer. If B is greater than or equal to the array length, the program fails"
		{name: "getbyte", code: 0x55, since: 3, doms: [][]c32v{X, IDX}, ref: func(a []c32v, _ []byte) ([]c32v, bool) {
			if a[1].u >= uint64(len(a[0].b)) {
				return nil, true
			}
			return []c32v{c32u(uint64(a[0].b[a[1].u]))}, false
		}},
		// "Copy of A with the Bth byte set to small integer (between 0..255) C. If B is greater than
		// or equal to the array length, the program fails"
		{name: "setbyte", code: 0x56, since: 3, doms: [][]c32v{X, IDX, bitC}, ref: func(a []c32v, _ []byte) ([]c32v, bool) {
			if a[1].u >= uint64(len(a[0].b)) || a[2].u > 255 {
				return nil, true
			}
			out := append([]byte{}, a[0].b...)
			out[a[1].u] = byte(a[2].u)
			return []c32v{c32b(out)}, false
		}},
		// "A range of bytes from A starting at S up to but not including S+L. If L is 0, then
		// extract to the end of the string. If S or S+L is larger than the array length, the program fails"
		{name: "extract", code: 0x57, since: 5, doms: [][]c32v{c32immSmall()}, imms: c32immPairs(), ref: func(a []c32v, imm []byte) ([]c32v, bool) {
			s, l := big.NewInt(int64(imm[0])), big.NewInt(int64(imm[1]))
			if imm[1] == 0 {
				if int(imm[0]) > len(a[0].b) {
					return nil, true
				}
				l = big.NewInt(int64(len(a[0].b) - int(imm[0])))
			}
			return c32extractRef(a[0].b, s, l)
		}},
		// "A range of bytes from A starting at B up to but not including B+C. If B+C is larger than
		// the array length, the program fails"
		{name: "extract3", code: 0x58, since: 5, doms: [][]c32v{S, R, R}, ref: func(a []c32v, _ []byte) ([]c32v, bool) {
			return c32extractRef(a[0].b, a[1].big(), a[2].big())
		}},
		{name: "extract_uint16", code: 0x59, since: 5, doms: [][]c32v{X, IDX}, ref: c32extractUint(2)},
		{name: "extract_uint32", code: 0x5a, since: 5, doms: [][]c32v{X, IDX}, ref: c32extractUint(4)},
		{name: "extract_uint64", code: 0x5b, since: 5, doms: [][]c32v{X, IDX}, ref: c32extractUint(8)},
		{name: "replace2", code: 0x5c, since: 7, doms: [][]c32v{c32immSmall(), c32immSmall()}, imms: [][]byte{{0}, {1}, {2}, {3}, {7}, {8}, {9}, {253}, {254}, {255}},
			ref: func(a []c32v, imm []byte) ([]c32v, bool) { return c32replaceRef(a[0].b, big.NewInt(int64(imm[0])), a[1].b) }},
		{name: "replace3", code: 0x5d, since: 7, doms: [][]c32v{S, R, c32immSmall()},
			ref: func(a []c32v, _ []byte) ([]c32v, bool) { return c32replaceRef(a[0].b, a[1].big(), a[2].b) }},
	}
	return ops
}

// ---------------------------------------------------------------------------------------
// execution

const c32sentinel = 0x5e4715e1

func c32uvarint(dst []byte, x uint64) []byte {
	var tmp [binary.MaxVarintLen64]byte
	n := binary.PutUvarint(tmp[:], x)
	return append(dst, tmp[:n]...)
}

// c32program builds `<version> push sentinel; push args...; op imm`. It returns the program
// and the pc of the opcode under test.
func c32program(version uint64, args []c32v, code byte, imm []byte, dupFirst bool) ([]byte, int) {
	p := c32uvarint(nil, version)
	all := append([]c32v{c32u(c32sentinel)}, args...)
	if version >= 3 {
		for i, a := range all {
			if a.isB {
				p = append(p, 0x80) // pushbytes
				p = c32uvarint(p, uint64(len(a.b)))
				p = append(p, a.b...)
			} else {
				p = append(p, 0x81) // pushint
				p = c32uvarint(p, a.u)
			}
			if i == 1 && dupFirst {
				p = append(p, 0x49) // dup: the copy shares the byte slice with operand A
			}
		}
	} else {
		var ints []uint64
		var bss [][]byte
		for _, a := range all {
			if a.isB {
				bss = append(bss, a.b)
			} else {
				ints = append(ints, a.u)
			}
		}
		p = append(p, 0x20) // intcblock
		p = c32uvarint(p, uint64(len(ints)))
		for _, x := range ints {
			p = c32uvarint(p, x)
		}
		if len(bss) > 0 {
			p = append(p, 0x26) // bytecblock
			p = c32uvarint(p, uint64(len(bss)))
			for _, b := range bss {
				p = c32uvarint(p, uint64(len(b)))
				p = append(p, b...)
			}
		}
		ni, nb := 0, 0
		for i, a := range all {
			if a.isB {
				p = append(p, 0x27, byte(nb)) // bytec
				nb++
			} else {
				p = append(p, 0x21, byte(ni)) // intc
				ni++
			}
			if i == 1 && dupFirst {
				p = append(p, 0x49) // dup
			}
		}
	}
	oppc := len(p)
	p = append(p, code)
	p = append(p, imm...)
	return p, oppc
}

type c32env struct {
	ep     *EvalParams
	budget int
}

var c32pool = sync.Pool{New: func() any {
	proto := config.Consensus[protocol.ConsensusFuture]
	var stxn transactions.SignedTxn
	stxn.Lsig.Logic = []byte{1} // so that the pooled budget is allocated
	ep := NewSigEvalParams([]transactions.SignedTxn{stxn}, &proto, &NoHeaderLedger{})
	return &c32env{ep: ep, budget: int(proto.LogicSigMaxCost)}
}}

// c32run evaluates prog with the real evaluator; it returns the final stack, the pc at which
// evaluation stopped, and the evaluation error.
func c32run(prog []byte) (stack []stackValue, pc int, pass bool, err error) {
	env := c32pool.Get().(*c32env)
	defer c32pool.Put(env)
	env.ep.TxnGroup[0].Lsig.Logic = prog
	if env.ep.PooledLogicSigBudget != nil {
		*env.ep.PooledLogicSigBudget = env.budget
	}
	pass, cx, err := EvalSignatureFull(0, env.ep)
	if cx == nil {
		return nil, -1, pass, err
	}
	return cx.Stack, cx.pc, pass, err
}

type c32case struct {
	Op      string   `json:"op"`
	Version uint64   `json:"version"`
	Args    []string `json:"args"`
	Imm     []int    `json:"imm,omitempty"`
	DupA    bool     `json:"dup_a,omitempty"` // operand A is dup'ed below the operands (aliasing probe)
	Raw     []string `json:"raw_args"`        // machine readable operands: "u:<decimal>" or "b:<hex>"
	Program string   `json:"program_hex,omitempty"`
}

type c32rep struct {
	r     *ve.Run
	fails atomic.Int64
}

func (c *c32rep) bad(key string, cs c32case, what string) {
	if c.fails.Add(1) > 4 {
		return
	}
	c.r.Report("C32:"+key, fmt.Sprintf("%s v%d args=%v imm=%v: %s", cs.Op, cs.Version, cs.Args, cs.Imm, what), cs)
}

func c32svString(sv stackValue) string {
	if sv.Bytes != nil {
		return c32b(sv.Bytes).String()
	}
	return fmt.Sprintf("%d", sv.Uint)
}

func c32stackString(st []stackValue) string {
	s := "["
	for i, sv := range st {
		if i > 0 {
			s += ", "
		}
		s += c32svString(sv)
	}
	return s + "]"
}

// c32check runs one case and compares with the reference. It returns the outcome kind.
func c32check(c *c32rep, op *c32op, version uint64, args []c32v, imm []byte, dupFirst bool) string {
	prog, oppc := c32program(version, args, op.code, imm, dupFirst)
	mk := func() c32case {
		cs := c32case{Op: op.name, Version: version, Args: c32strs(args), DupA: dupFirst}
		for _, a := range args {
			if a.isB {
				cs.Raw = append(cs.Raw, "b:"+hex.EncodeToString(a.b))
			} else {
				cs.Raw = append(cs.Raw, fmt.Sprintf("u:%d", a.u))
			}
		}
		for _, b := range imm {
			cs.Imm = append(cs.Imm, int(b))
		}
		if len(prog) <= 300 {
			cs.Program = hex.EncodeToString(prog)
		}
		return cs
	}
	stack, pc, _, err := c32run(prog)
	executed := pc == len(prog)
	if !executed {
		if err == nil {
			c.bad(op.name+":no-error", mk(), fmt.Sprintf("evaluation stopped at pc=%d of %d without an error", pc, len(prog)))
			return "bad"
		}
		if pc != oppc {
			c.bad(op.name+":setup", mk(), fmt.Sprintf("evaluation failed at pc=%d before the opcode under test (pc=%d): %v", pc, oppc, err))
			return "bad"
		}
	}
	if dupFirst && executed {
		// stack is [sentinel, copy of A, results...]: "Copy of A ..." / value semantics: the
		// copy below the operands must still be A.
		if len(stack) < 2 || (stack[1].Bytes != nil) != args[0].isB || (args[0].isB && !bytes.Equal(stack[1].Bytes, args[0].b)) || (!args[0].isB && stack[1].Uint != args[0].u) {
			c.bad(op.name+":alias", mk(), fmt.Sprintf("a dup of operand A below the operands was modified by the opcode: stack %s", c32stackString(stack)))
			return "bad"
		}
		stack = append([]stackValue{stack[0]}, stack[2:]...)
	}
	if op.sqrtOf {
		return c32checkSqrt(c, op, mk, args, executed, stack, err)
	}
	want, wantFail := op.ref(args, imm)
	switch {
	case wantFail && executed:
		c.bad(op.name+":should-fail", mk(), fmt.Sprintf("spec says the opcode fails; it succeeded leaving stack %s", c32stackString(stack)))
		return "bad"
	case wantFail:
		return "fail"
	case !executed:
		c.bad(op.name+":should-succeed", mk(), fmt.Sprintf("spec says result %v; the opcode failed: %v", c32strs(want), err))
		return "bad"
	}
	if len(stack) != 1+len(want) {
		c.bad(op.name+":stack-height", mk(), fmt.Sprintf("want [sentinel %v], got %s", c32strs(want), c32stackString(stack)))
		return "bad"
	}
	if stack[0].Bytes != nil || stack[0].Uint != c32sentinel {
		c.bad(op.name+":sentinel", mk(), fmt.Sprintf("value below the operands was changed: %s", c32stackString(stack)))
		return "bad"
	}
	for i, w := range want {
		got := stack[1+i]
		if w.isB != (got.Bytes != nil) {
			c.bad(op.name+":type", mk(), fmt.Sprintf("result %d: want %s, got %s", i, w, c32svString(got)))
			return "bad"
		}
		if !w.isB && got.Uint != w.u {
			c.bad(op.name+":value", mk(), fmt.Sprintf("result %d: want %s, got %s (stack %s)", i, w, c32svString(got), c32stackString(stack)))
			return "bad"
		}
		if w.isB && !bytes.Equal(got.Bytes, w.b) {
			key := ":value"
			if new(big.Int).SetBytes(got.Bytes).Cmp(w.big()) == 0 && len(op.name) > 1 && op.name[0] == 'b' && len(got.Bytes) != len(w.b) {
				key = ":encoding"
			}
			c.bad(op.name+key, mk(), fmt.Sprintf("result %d: want %s, got %s", i, w, c32svString(got)))
			return "bad"
		}
	}
	return "ok"
}

func c32checkSqrt(c *c32rep, op *c32op, mk func() c32case, args []c32v, executed bool, stack []stackValue, err error) string {
	a := args[0]
	if a.isB && len(a.b) > 64 { // bigint operand bound
		if executed {
			c.bad(op.name+":should-fail", mk(), "operand longer than 64 bytes accepted")
			return "bad"
		}
		return "fail"
	}
	if !executed {
		c.bad(op.name+":should-succeed", mk(), fmt.Sprintf("the opcode failed: %v", err))
		return "bad"
	}
	if len(stack) != 2 || stack[0].Bytes != nil || stack[0].Uint != c32sentinel || (stack[1].Bytes != nil) != a.isB {
		c.bad(op.name+":stack", mk(), fmt.Sprintf("unexpected stack %s", c32stackString(stack)))
		return "bad"
	}
	var root *big.Int
	if a.isB {
		root = new(big.Int).SetBytes(stack[1].Bytes)
		if len(stack[1].Bytes) != len(root.Bytes()) {
			c.bad(op.name+":encoding", mk(), fmt.Sprintf("result %s is not the shortest encoding", c32svString(stack[1])))
			return "bad"
		}
	} else {
		root = new(big.Int).SetUint64(stack[1].Uint)
	}
	A := a.big()
	lo := new(big.Int).Mul(root, root)
	r1 := new(big.Int).Add(root, c32one)
	hi := r1.Mul(r1, r1)
	if lo.Cmp(A) > 0 || hi.Cmp(A) <= 0 {
		c.bad(op.name+":value", mk(), fmt.Sprintf("I=%s does not satisfy I^2 <= A < (I+1)^2", root.String()))
		return "bad"
	}
	return "ok"
}

func TestVerif_C32(t *testing.T) {
	r := ve.NewRun("C32", "exploration")
	c := &c32rep{r: r}
	// every evaluation allocates a fresh ~10 KB EvalContext while the live heap is tiny: an untouched
	// ballast makes the collector run once per ~256 MB of garbage
	ballast := make([]byte, 256<<20)
	defer runtime.KeepAlive(ballast)
	r.Assume("reference semantics are the opcode texts of TEAL_opcodes_v13.md/langspec_v13.json (quoted in the harness) evaluated over the integers with math/big")
	r.Assume("byte-math results must use the shortest big-endian encoding (AVM specification, Byte Array Arithmetic); bigint operands are limited to 64 bytes (langspec NamedTypes)")
	r.Assume("setbit with C > 1 and setbyte with C > 255 are required to fail (the spec defines C as '0 or 1' / 'between 0..255')")
	r.Assume("evaluation under config.Consensus[vFuture] in signature mode; pushes via pushint/pushbytes (v3+) or intcblock/bytecblock (v1, v2)")

	ops := c32ops()
	if raw := r.ReplayRequest(); raw != nil { // bin/vcheck C32 --replay <file>
		var cs c32case
		if err := json.Unmarshal(raw, &cs); err != nil {
			t.Fatalf("bad replay file: %v", err)
		}
		var args []c32v
		for _, a := range cs.Raw {
			if strings.HasPrefix(a, "b:") {
				b, _ := hex.DecodeString(a[2:])
				args = append(args, c32b(b))
			} else {
				u, _ := strconv.ParseUint(strings.TrimPrefix(a, "u:"), 10, 64)
				args = append(args, c32u(u))
			}
		}
		var imm []byte
		for _, x := range cs.Imm {
			imm = append(imm, byte(x))
		}
		for oi := range ops {
			if ops[oi].name == cs.Op {
				kind := c32check(c, &ops[oi], cs.Version, args, imm, cs.DupA)
				fmt.Printf("REPLAY C32 %s v%d args=%v imm=%v -> %s\n", cs.Op, cs.Version, cs.Args, cs.Imm, kind)
				r.Eval()
				r.Class("replay/" + kind)
			}
		}
		r.Class("replay")
		if r.Finish(ve.Coverage{Rule: "replay of one recorded case", Exhaustive: false}) > 0 {
			t.Fatalf("violation reproduced")
		}
		return
	}
	var perOp = map[string]int64{}
	var total int64
	for oi := range ops {
		op := &ops[oi]
		versions := []uint64{LogicVersion}
		if op.since != LogicVersion {
			versions = append(versions, op.since)
		}
		imms := op.imms
		if imms == nil {
			imms = [][]byte{nil}
		}
		dims := []int{len(versions), len(imms)}
		for _, d := range op.doms {
			dims = append(dims, len(d))
		}
		// aliasing probe for every op whose operand A is a byte array (and the cheap uint ones)
		ndup := 1
		if op.doms[0][0].isB || len(op.doms) < 3 {
			ndup = 2
		}
		dims = append(dims, ndup)
		n := ve.ProductSize(dims)
		var okN, failN atomic.Int64
		visited := r.ParallelFor(n, func(i int) {
			idx := make([]int, len(dims))
			ve.Unrank(i, dims, idx)
			args := make([]c32v, len(op.doms))
			for k := range op.doms {
				args[k] = op.doms[k][idx[2+k]]
			}
			switch c32check(c, op, versions[idx[0]], args, imms[idx[1]], idx[len(idx)-1] == 1) {
			case "ok":
				okN.Add(1)
			case "fail":
				failN.Add(1)
			}
			r.Eval()
		})
		if okN.Load() > 0 {
			r.Class(op.name + "/ok")
		}
		if failN.Load() > 0 {
			r.Class(op.name + "/fail")
		}
		perOp[op.name] = visited
		total += visited
		if oi%9 == 0 {
			args := make([]c32v, len(op.doms))
			for k := range op.doms {
				args[k] = op.doms[k][len(op.doms[k])/2]
			}
			r.Sample(c32case{Op: op.name, Version: LogicVersion, Args: c32strs(args)})
		}
	}
	r.Set("opcodes", len(ops))
	r.Set("cases_per_opcode", perOp)
	r.Set("b64_size", len(c32B64()))
	r.Set("bigint_operands", len(c32bigints()))
	nv := r.Finish(ve.Coverage{
		Rule:       "every operand tuple of the per-opcode boundary grids (B64 pairs/triples/quads, byte-math value pairs, index/length grids) for the listed arithmetic/byte-math/conversion/indexing opcodes (see cases_per_opcode), each also with operand A aliased by a dup below the operands, in the newest AVM version and in the version that introduced the opcode, against a math/big reference written from the opcode specification; classes = (opcode, ok|fail)",
		Exhaustive: true,
	})
	if nv > 0 {
		t.Fatalf("%d violations", nv)
	}
}
