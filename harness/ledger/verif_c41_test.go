package ledger

// C41 — Decoding untrusted bytes is safe and bounded. Part "ledger": the catchpoint file
// formats read during fast catchup from files served by untrusted peers — file header,
// snapshot chunks V5/V6, the state-proof verification context list, and the encoded records
// inside the chunks (ledger/encoded). Engine, mutations and oracle: verif_c41_engine_test.go
// (identical copy of the one in harness/agreement).

import (
	"testing"

	"github.com/algorand/go-algorand/crypto"
	"github.com/algorand/go-algorand/ledger/encoded"
	ve "github.com/algorand/go-algorand/verifeng"
)

func TestVerif_C41_ledger(t *testing.T) {
	r := ve.NewRun("C41", "exploration")
	p := c41newPart(r, "ledger", c41bounds{
		expr: map[string]int{
			"ledger:BalancesPerCatchpointFileChunk":                            BalancesPerCatchpointFileChunk,
			"ledger:SPContextPerCatchpointFile":                                SPContextPerCatchpointFile,
			"ledger/encoded:KVRecordV6MaxKeyLength":                            encoded.KVRecordV6MaxKeyLength,
			"ledger/encoded:KVRecordV6MaxValueLength":                          encoded.KVRecordV6MaxValueLength,
			"ledger/encoded:resourcesPerCatchpointFileChunkBackwardCompatible": 300000, // unexported constant of ledger/encoded
			"crypto.DigestSize":                                                crypto.DigestSize,
		},
		typ: map[string][]int{},
	})
	p.run([]c41target{
		{proto: new(CatchpointFileHeader)},
		{proto: new(CatchpointSnapshotChunkV6)},
		{proto: new(CatchpointSnapshotChunkV5)},
		{proto: new(catchpointStateProofVerificationContext)},
		{proto: new(encoded.BalanceRecordV6)},
		{proto: new(encoded.BalanceRecordV5)},
		{proto: new(encoded.KVRecordV6), pairs: true},
		{proto: new(encoded.OnlineAccountRecordV6)},
		{proto: new(encoded.OnlineRoundParamsRecordV6), pairs: true},
	})
	n := r.Finish(ve.Coverage{
		Rule:       "part ledger: CatchpointFileHeader, CatchpointSnapshotChunkV6/V5, catchpointStateProofVerificationContext and the encoded.* records of catchpoint chunks — same seeds, mutation classes (T,B,H,K,N,P,O) and oracle as part agreement",
		Exhaustive: true,
	})
	if n > 0 {
		t.Fatal("violations")
	}
}
