//go:build verifshim

package verifeng

// Self-test of E-SCHED on toy programs with known answers: a check-then-act lost update
// that needs exactly one preemption, a lock-order inversion deadlock, and a correct
// program. Registered as check "SCHED-SELFTEST" (not a property check).

import (
	"fmt"
	"testing"

	deadlock "github.com/algorand/go-deadlock"
)

type selfCounter struct {
	mu deadlock.Mutex
	n  int
}

func (c *selfCounter) get() int { c.mu.Lock(); defer c.mu.Unlock(); return c.n }
func (c *selfCounter) set(v int) { c.mu.Lock(); c.n = v; c.mu.Unlock() }
func (c *selfCounter) inc()      { c.mu.Lock(); c.n++; c.mu.Unlock() }

func TestVerif_SCHEDSELF(t *testing.T) {
	t.Setenv("VERIF_EVIDENCE", Root()+"/.build/tmp/schedself.json")
	// 1. lost update: must be found with bound 1, not with bound 0
	for bound := 0; bound <= 1; bound++ {
		r := NewRun("SCHEDSELF", "model_checking")
		p := &SchedProgram{Name: "lost-update", PreemptionBound: bound, Setup: func(s *Sched) (func() error, func()) {
			c := &selfCounter{}
			for i := 0; i < 2; i++ {
				s.Go(fmt.Sprintf("T%d", i), func() { v := c.get(); c.set(v + 1) })
			}
			return func() error {
				if c.n != 2 {
					return Violationf("lost", "counter=%d", c.n)
				}
				return nil
			}, nil
		}}
		res := ExploreSchedules(t, r, p)
		t.Logf("lost-update bound=%d: %+v violations=%d", bound, res, r.Violations())
		if (bound == 0) != (r.Violations() == 0) {
			t.Fatalf("bound %d: expected violation=%v got %d", bound, bound == 1, r.Violations())
		}
	}
	// 2. correct program: all interleavings of 3 threads x 2 incs with bound 2
	{
		r := NewRun("SCHEDSELF", "model_checking")
		p := &SchedProgram{Name: "atomic-inc", PreemptionBound: 2, Setup: func(s *Sched) (func() error, func()) {
			c := &selfCounter{}
			for i := 0; i < 3; i++ {
				s.Go(fmt.Sprintf("T%d", i), func() { c.inc(); c.inc() })
			}
			return func() error {
				if c.n != 6 {
					return Violationf("lost", "counter=%d", c.n)
				}
				return nil
			}, nil
		}}
		res := ExploreSchedules(t, r, p)
		t.Logf("atomic-inc: %+v", res)
		if r.Violations() != 0 || res.Executions < 10 || !res.Exhaustive {
			t.Fatalf("atomic-inc: unexpected %+v viol=%d", res, r.Violations())
		}
	}
	// 3. deadlock by lock-order inversion: needs one preemption
	{
		r := NewRun("SCHEDSELF", "model_checking")
		p := &SchedProgram{Name: "abba", PreemptionBound: 1, Setup: func(s *Sched) (func() error, func()) {
			var a, b deadlock.Mutex
			s.Go("T0", func() { a.Lock(); b.Lock(); b.Unlock(); a.Unlock() })
			s.Go("T1", func() { b.Lock(); a.Lock(); a.Unlock(); b.Unlock() })
			return nil, nil
		}}
		res := ExploreSchedules(t, r, p)
		t.Logf("abba: %+v viol=%d", res, r.Violations())
		if r.Violations() == 0 {
			t.Fatalf("deadlock not found")
		}
	}
	// 4. cond wait (unhooked primitive) + rwmutex
	{
		r := NewRun("SCHEDSELF", "model_checking")
		p := &SchedProgram{Name: "chan-handoff", PreemptionBound: 2, Setup: func(s *Sched) (func() error, func()) {
			c := &selfCounter{}
			ch := make(chan int)
			s.Go("P", func() { c.inc(); ch <- 1; c.inc() })
			s.Go("Q", func() { <-ch; c.inc() })
			return func() error {
				if c.n != 3 {
					return Violationf("lost", "counter=%d", c.n)
				}
				return nil
			}, nil
		}}
		res := ExploreSchedules(t, r, p)
		t.Logf("chan-handoff: %+v viol=%d", res, r.Violations())
		if r.Violations() != 0 || !res.Exhaustive {
			t.Fatalf("chan-handoff failed: %+v", res)
		}
	}
}
