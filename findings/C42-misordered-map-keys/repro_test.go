package vpack

// Plain reproduction (no explorer) of the C42 finding: StatelessEncoder.CompressVote accepts
// a msgpack vote whose "r" (rawVote) map keys are not in canonical order — valid msgpack that
// the generated codec decodes to the very same vote — and silently emits a frame whose values
// are in parse order, while StatelessDecoder assumes canonical order. The receiver therefore
// gets a DIFFERENT vote (fields swapped) or an undecodable frame; no error on the encoder side.

import (
	"bytes"
	"testing"

	"github.com/algorand/go-algorand/agreement"
	"github.com/algorand/go-algorand/protocol"
)

func reproC42Vote(rKeys []string) []byte {
	fill := func(seed byte, n int) []byte {
		b := make([]byte, n)
		for i := range b {
			b[i] = seed + byte(i)
		}
		return b
	}
	bin := func(d []byte) []byte { return append([]byte{0xc4, byte(len(d))}, d...) }
	key := func(k string) []byte { return append([]byte{0xa0 | byte(len(k))}, k...) }
	vals := map[string][]byte{
		"per":  {0x05},             // period 5
		"rnd":  {0x09},             // round 9
		"snd":  bin(fill(0x11, 32)), // sender
		"step": {0x02},             // step 2
	}
	var b []byte
	b = append(b, 0x83)
	b = append(b, key("cred")...)
	b = append(b, 0x81)
	b = append(b, key("pf")...)
	b = append(b, bin(fill(0x21, 80))...)
	b = append(b, key("r")...)
	b = append(b, 0x80|byte(len(rKeys)))
	for _, k := range rKeys {
		b = append(b, key(k)...)
		b = append(b, vals[k]...)
	}
	b = append(b, key("sig")...)
	b = append(b, 0x86)
	for _, e := range []struct {
		k string
		n int
	}{{"p", 32}, {"p1s", 64}, {"p2", 32}, {"p2s", 64}} {
		b = append(b, key(e.k)...)
		b = append(b, bin(fill(0x31+byte(e.n), e.n))...)
	}
	b = append(b, key("ps")...)
	b = append(b, bin(make([]byte, 64))...)
	b = append(b, key("s")...)
	b = append(b, bin(fill(0x41, 64))...)
	return b
}

func TestReproC42MisorderedKeys(t *testing.T) {
	canonical := reproC42Vote([]string{"per", "rnd", "snd", "step"})
	swapped := reproC42Vote([]string{"rnd", "per", "snd", "step"}) // same vote, other key order

	var v0, v1 agreement.UnauthenticatedVote
	if err := protocol.Decode(canonical, &v0); err != nil {
		t.Fatal(err)
	}
	if !bytes.Equal(protocol.Encode(&v0), canonical) {
		t.Fatal("helper does not produce the canonical encoding")
	}
	if err := protocol.Decode(swapped, &v1); err != nil {
		t.Fatal(err)
	}
	if v0 != v1 {
		t.Fatal("the two encodings should denote the same vote")
	}

	comp, err := NewStatelessEncoder().CompressVote(nil, swapped)
	if err != nil {
		t.Logf("OK: encoder rejects the non-canonical ordering: %v", err)
		return
	}
	out, err := NewStatelessDecoder().DecompressVote(nil, comp)
	if err != nil {
		t.Fatalf("encoder accepted the vote but its own frame does not decompress: %v", err)
	}
	var v2 agreement.UnauthenticatedVote
	if err := protocol.Decode(out, &v2); err != nil {
		t.Fatalf("decompressed bytes are not a vote: %v", err)
	}
	if v2 != v1 {
		t.Fatalf("compress->decompress silently produced a DIFFERENT vote:\n sent     %+v\n received %+v", v1.R, v2.R)
	}
}
