package bookkeeping

// C26 — Protocol upgrades switch only when approved, at the announced round.
//
// Engine E-SEQ (explicit-state BFS over per-round upgrade votes) on the real
// UpgradeState.applyUpgradeVote / ProcessUpgradeParams / MakeBlock / BlockHeader.PreCheck.
//
// Setup. Private consensus versions registered in config.Consensus for the duration of the
// test (copies of the current version): chain version A -> target B, UpgradeVoteRounds=3,
// UpgradeThreshold=2, and two wait-round regimes:
//   w12: MinUpgradeWaitRounds=1 MaxUpgradeWaitRounds=2 DefaultUpgradeWaitRounds=2 (the DESIGN.md
//        regime; a proposal with delay 0 is out of range there), A.ApprovedUpgrades = {} | {B:1} | {B:2}
//   w02: Min=0 Max=2 Default=1, A.ApprovedUpgrades = {B:0} (the only way to reach the documented
//        "delay 0 means DefaultUpgradeWaitRounds" rule)
//   w00: Min=0 Max=2 Default=0, A.ApprovedUpgrades = {B:0}: the switch round coincides with the vote deadline
// B has the same vote parameters and no approved upgrade.
//
// Alphabet per round (18 ops, all tried in every reached state, so "propose while pending",
// "approve without proposal", "approve at / after the deadline" are all instances):
//   honest        the block MakeBlock(prev) builds by itself (vote decided by ProcessUpgradeParams)
//   none, approve
//   propose(B,d) and propose(B,d)+approve for d in {0,1,2,3}
//   delay-only (non-zero delay without proposal), delay+approve without proposal
//   propose(unsupported version, 1)+approve        (name of exactly MaxVersionStringLen bytes: accepted)
//   propose(over-long version string, 1)+approve   (MaxVersionStringLen+1 bytes: rejected)
//   propose(unsupported,2)                         (no approval)
// A vote the oracle calls illegal must be rejected (applyUpgradeVote error, PreCheck error) and
// leaves the chain where it was (self-loop); a legal vote appends a block.
// Bound: every sequence of <= 8 (quick) / <= 11 (thorough) accepted rounds with the absolute
// round in the state key ("abs" pass); plus a second pass with the state key taken relative to
// the round, run until the frontier is empty (the complete reachable quotient; sound because
// applyUpgradeVote uses r only in comparisons with the two stored rounds).
//
// Oracle = ledger of facts, not the transition function: the harness keeps the list of accepted
// votes (round, vote). From the ledger it derives: the open proposal (made at round p, announced
// delay d' = d or the default when d = 0, target), its accepted approvals (rounds in [p, p+3)),
// and the protocol in effect. Statements checked on every transition against the real header:
//   * the protocol changes at round r iff r == p+3+d' for a proposal with >= 2 approvals; never
//     otherwise (CurrentProtocol is compared in every round);
//   * a proposal is pending from p until the round that resolves it (p+3 when it failed, the switch
//     round when it passed); proposing while one is pending, approving when none is open or at/after
//     p+3, a delay outside [Min,Max], a non-zero delay without proposal, an over-long version string
//     are rejected; everything else is accepted;
//   * the header's five UpgradeState fields equal what the facts announce (NextProtocol, approvals
//     count, p+3, p+3+d');
//   * MakeBlock's header passes PreCheck, agrees with ProcessUpgradeParams, and its vote is legal;
//   * every single-field mutation of an accepted header's UpgradeState / UpgradeVote (protocol,
//     next protocol set/cleared/changed, approvals +-1, vote-before +-1, switch-on +-1, propose
//     set/cleared, delay +-1, approve flipped) is accepted by PreCheck iff the oracle says the
//     mutated (vote, state) pair is itself consistent with the facts (only happens for the
//     delay 0 <-> default equivalence in regime w02; counted in the evidence);
//   * stale states: for every reached (prev header, vote of the alphabet) the header carrying that vote
//     together with (a) the previous header's UpgradeState unchanged, (b) the UpgradeState of every
//     earlier header on the path, (c) the state any OTHER legal vote of the alphabet would announce,
//     is accepted by PreCheck iff the oracle finds the pair consistent — in particular "no vote +
//     unchanged state" must be rejected at the deadline round of a failed proposal and at the switch
//     round, where the round-driven transition is mandatory (seeded change C26-B).
//
// Not covered: vote windows other than 3/2, switching *to* an unsupported version is followed
// only up to the switch block (PreCheck must reject it as unsupported; MakeBlock is not called
// there because it is documented to panic), rounds near 2^64.
//
// Unexported identifiers used: UpgradeState.applyUpgradeVote.
//
// Mutants (bin/mut, quick tier, data/bookkeeping/block.go) — all DETECTED:
//   M1 failed-proposal clearing `NextProtocolApprovals <= threshold`      (state/protocol-switch mismatch after propose, 2 approvals, deadline)
//   M2 approval deadline `r > s.NextProtocolVoteBefore`                   (illegal-vote-accepted:approve-at-deadline)
//   M3 ProcessUpgradeParams approving while `round <= VoteBefore` (own)   (MakeBlock panics at the deadline round of an approved-upgrade config)
//   M4 PreCheck comparing the UpgradeState without the approvals count (own) (mutation:approvals+1 accepted)
// Seeded changes by independent agents: C26-A DETECTED; C26-B (PreCheck 'nothing to replay' fast path for
// empty vote + unchanged state) MISSED by the first version, DETECTED since the stale-state check.

import (
	"fmt"
	"strings"
	"testing"

	"github.com/algorand/go-algorand/config"
	"github.com/algorand/go-algorand/crypto"
	"github.com/algorand/go-algorand/data/basics"
	"github.com/algorand/go-algorand/protocol"
	ve "github.com/algorand/go-algorand/verifeng"
)

const (
	c26VoteRounds = 3
	c26Threshold  = 2
)

// c26rules is what the oracle knows about a supported version (stated by the setup, not read
// back from config.Consensus).
type c26rules struct {
	min, max, def uint64
	maxLen        int
}

type c26cfg struct {
	name     string
	a, b     protocol.ConsensusVersion
	rules    c26rules
	approved map[protocol.ConsensusVersion]uint64
	unk      protocol.ConsensusVersion // unsupported, exactly maxLen bytes
	long     protocol.ConsensusVersion // maxLen+1 bytes
}

type c26op struct {
	name   string
	honest bool
	vote   UpgradeVote
}

type c26entry struct {
	r    basics.Round
	vote UpgradeVote
}

// c26facts is what the ledger says right after its last entry.
type c26facts struct {
	cur       protocol.ConsensusVersion
	open      bool
	target    protocol.ConsensusVersion
	p         basics.Round   // round of the proposal
	d         uint64         // announced (effective) delay
	approvals []basics.Round // rounds of accepted approvals
}

type c26st struct {
	cfg    *c26cfg
	rel    bool
	prev   BlockHeader // last accepted header
	ledger []c26entry  // accepted votes since genesis
	halted bool        // chain switched to an unsupported version
	r      *ve.Run
	ops    []c26op
	hist   []UpgradeState // UpgradeState of every earlier header on the path (stale-state candidates)
	tmpl   *BlockHeader   // MakeBlock(prev) template, computed once per prev
}

func (c *c26cfg) supported(v protocol.ConsensusVersion) bool { return v == c.a || v == c.b }

// c26derive reads the facts off the ledger.
func c26derive(c *c26cfg, ledger []c26entry) c26facts {
	f := c26facts{cur: c.a}
	for _, e := range ledger {
		if e.vote.UpgradePropose != "" {
			d := uint64(e.vote.UpgradeDelay)
			if d == 0 {
				d = c.rules.def
			}
			f.open, f.target, f.p, f.d, f.approvals = true, e.vote.UpgradePropose, e.r, d, nil
		}
		if e.vote.UpgradeApprove {
			f.approvals = append(append([]basics.Round{}, f.approvals...), e.r)
		}
		if !f.open {
			continue
		}
		deadline := f.p + c26VoteRounds
		inWindow := 0
		for _, a := range f.approvals {
			if a >= f.p && a < deadline {
				inWindow++
			}
		}
		switch {
		case e.r == deadline && inWindow < c26Threshold: // proposal failed
			f.open, f.target, f.p, f.d, f.approvals = false, "", 0, 0, nil
		case e.r == deadline+basics.Round(f.d) && inWindow >= c26Threshold: // announced switch round
			f.cur = f.target
			f.open, f.target, f.p, f.d, f.approvals = false, "", 0, 0, nil
		}
	}
	return f
}

// c26legal says whether vote may appear in the block of round r after the given facts.
func c26legal(c *c26cfg, f c26facts, r basics.Round, v UpgradeVote) (bool, string) {
	open, p := f.open, f.p
	if v.UpgradePropose != "" {
		if open {
			return false, "propose-while-pending"
		}
		if len(v.UpgradePropose) > c.rules.maxLen {
			return false, "version-too-long"
		}
		if uint64(v.UpgradeDelay) < c.rules.min || uint64(v.UpgradeDelay) > c.rules.max {
			return false, "delay-out-of-range"
		}
		open, p = true, r
	} else if v.UpgradeDelay != 0 {
		return false, "delay-without-proposal"
	}
	if v.UpgradeApprove {
		if !open {
			return false, "approve-without-proposal"
		}
		if r == p+c26VoteRounds {
			return false, "approve-at-deadline"
		}
		if r > p+c26VoteRounds {
			return false, "approve-after-deadline"
		}
	}
	return true, "ok"
}

// c26announced is the UpgradeState a header must carry given the facts.
func c26announced(f c26facts) UpgradeState {
	us := UpgradeState{CurrentProtocol: f.cur}
	if f.open {
		us.NextProtocol = f.target
		us.NextProtocolApprovals = basics.Round(len(f.approvals))
		us.NextProtocolVoteBefore = f.p + c26VoteRounds
		us.NextProtocolSwitchOn = f.p + c26VoteRounds + basics.Round(f.d)
	}
	return us
}

func (s *c26st) phase(f c26facts, r basics.Round) string {
	if !f.open {
		return "idle@" + c26short(s.cfg, f.cur)
	}
	dl := f.p + c26VoteRounds
	switch {
	case r < dl:
		return fmt.Sprintf("voting(left=%d,yes=%d)", dl-r, len(f.approvals))
	case r == dl:
		return fmt.Sprintf("deadline(yes=%d)", len(f.approvals))
	case r == dl+basics.Round(f.d):
		return "switch-round"
	default:
		return "waiting"
	}
}

func c26short(c *c26cfg, v protocol.ConsensusVersion) string {
	switch v {
	case c.a:
		return "A"
	case c.b:
		return "B"
	case c.unk:
		return "UNK"
	case c.long:
		return "LONG"
	case "":
		return "-"
	}
	return "?"
}

// c26headerFor returns the candidate header for round prev+1 carrying (vote, state).
func (s *c26st) headerFor(vote UpgradeVote, us UpgradeState) BlockHeader {
	if s.cfg.supported(us.CurrentProtocol) {
		// template from the real constructor (it never panics here: its own vote is legal
		// whenever the chain is on a supported version), then our vote/state
		if s.tmpl == nil {
			var h BlockHeader
			func() {
				defer func() {
					if e := recover(); e != nil {
						h = s.manualHeader()
					}
				}()
				h = MakeBlock(s.prev).BlockHeader
			}()
			h.TimeStamp = 0
			s.tmpl = &h
		}
		h := *s.tmpl
		h.UpgradeVote = vote
		h.UpgradeState = us
		return h
	}
	h := s.manualHeader()
	h.UpgradeVote = vote
	h.UpgradeState = us
	return h
}

// advance records the accepted header h as the new tip.
func (s *c26st) advance(h BlockHeader, ledger []c26entry) {
	s.hist = append(append([]UpgradeState{}, s.hist...), s.prev.UpgradeState)
	s.prev = h
	s.ledger = ledger
	s.tmpl = nil
}

// staleCheck: a header for this round carrying `vote` together with an UpgradeState that is NOT
// the result of this round's transition — the previous header's state carried over unchanged, the
// state of any earlier header on the path, or the state that some OTHER legal vote of the alphabet
// would announce — must be accepted by PreCheck iff the oracle finds the pair consistent (which
// only happens when the candidate coincides with the correct next state). This is what catches
// "no vote + unchanged state" being waved through at the deadline / switch round, where the
// round-driven transition (clear the failed proposal, switch the protocol) is mandatory.
func (s *c26st) staleCheck(f c26facts, r basics.Round, vote UpgradeVote, ph, opname string) error {
	type cand struct {
		us  UpgradeState
		why string
	}
	var cands []cand
	seen := map[UpgradeState]bool{}
	add := func(us UpgradeState, why string) {
		if !seen[us] {
			seen[us] = true
			cands = append(cands, cand{us, why})
		}
	}
	add(s.prev.UpgradeState, "prev-state-carried-over")
	for i := len(s.hist) - 1; i >= 0; i-- {
		add(s.hist[i], "earlier-header-state")
	}
	for _, w := range s.ops {
		if w.honest {
			continue
		}
		if ok, _ := c26legal(s.cfg, f, r, w.vote); ok {
			add(c26announced(c26derive(s.cfg, append(append([]c26entry{}, s.ledger...), c26entry{r, w.vote}))), "state-of-other-vote")
		}
	}
	for _, cd := range cands {
		h := s.headerFor(vote, cd.us)
		exp := s.oracleAccepts(f, h)
		got := h.PreCheck(s.prev) == nil
		s.r.Eval()
		if cd.why != "state-of-other-vote" || exp {
			s.r.Class(fmt.Sprintf("%s|stale|%s|%s|oracle=%v", s.cfg.name, ph, cd.why, exp))
		}
		if got != exp {
			return ve.Violationf("C26:stale-state:"+cd.why, "round %d phase %s op %s: header with vote %+v and UpgradeState %+v (%s) -> PreCheck accepted=%v, oracle says %v (previous header state %+v)", r, ph, opname, vote, cd.us, cd.why, got, exp, s.prev.UpgradeState)
		}
	}
	return nil
}

func (s *c26st) manualHeader() BlockHeader {
	h := BlockHeader{Round: s.prev.Round + 1, Branch: s.prev.Hash(), GenesisID: s.prev.GenesisID, GenesisHash: s.prev.GenesisHash}
	if config.Consensus[s.prev.CurrentProtocol].EnableSha512BlockHash {
		h.Branch512 = s.prev.Hash512()
	}
	h.Bonus = s.prev.Bonus
	h.CongestionTax = NextCongestionTax(s.prev.Load, s.prev.CongestionTax)
	return h
}

// c26mutations lists every single-field mutation of h's UpgradeState / UpgradeVote.
func c26mutations(c *c26cfg, h BlockHeader) (out []BlockHeader, names []string) {
	add := func(n string, f func(*BlockHeader)) {
		m := h
		f(&m)
		out = append(out, m)
		names = append(names, n)
	}
	vers := []protocol.ConsensusVersion{"", c.a, c.b, c.unk}
	for _, v := range vers {
		v := v
		if v != "" && v != h.CurrentProtocol {
			add("proto="+c26short(c, v), func(m *BlockHeader) { m.CurrentProtocol = v })
		}
		if v != h.NextProtocol {
			add("next="+c26short(c, v), func(m *BlockHeader) { m.NextProtocol = v })
		}
		if v != h.UpgradePropose {
			add("propose="+c26short(c, v), func(m *BlockHeader) { m.UpgradePropose = v })
		}
	}
	add("approvals+1", func(m *BlockHeader) { m.NextProtocolApprovals++ })
	add("approvals-1", func(m *BlockHeader) { m.NextProtocolApprovals-- })
	add("votebefore+1", func(m *BlockHeader) { m.NextProtocolVoteBefore++ })
	add("votebefore-1", func(m *BlockHeader) { m.NextProtocolVoteBefore-- })
	add("switchon+1", func(m *BlockHeader) { m.NextProtocolSwitchOn++ })
	add("switchon-1", func(m *BlockHeader) { m.NextProtocolSwitchOn-- })
	add("delay+1", func(m *BlockHeader) { m.UpgradeDelay++ })
	add("delay-1", func(m *BlockHeader) { m.UpgradeDelay-- })
	add("approve-flip", func(m *BlockHeader) { m.UpgradeApprove = !m.UpgradeApprove })
	return
}

// oracleAccepts: is header h (for round prev+1) consistent with the facts?
func (s *c26st) oracleAccepts(f c26facts, h BlockHeader) bool {
	r := s.prev.Round + 1
	if ok, _ := c26legal(s.cfg, f, r, h.UpgradeVote); !ok {
		return false
	}
	nf := c26derive(s.cfg, append(append([]c26entry{}, s.ledger...), c26entry{r, h.UpgradeVote}))
	return c26announced(nf) == h.UpgradeState && s.cfg.supported(nf.cur)
}

func (s *c26st) apply(opi int) (bool, error) {
	if s.halted {
		return false, nil
	}
	c := s.cfg
	op := s.ops[opi]
	r := s.prev.Round + 1
	f := c26derive(c, s.ledger)
	ph := s.phase(f, r)
	// does the ledger announce a switch to an unsupported version in this very round?
	switchesToUnsupported := f.open && len(f.approvals) >= c26Threshold && r == f.p+c26VoteRounds+basics.Round(f.d) && !c.supported(f.target)

	vote := op.vote
	var honestHdr BlockHeader
	if op.honest {
		if switchesToUnsupported {
			return false, nil // MakeBlock is documented to panic when it cannot support the next protocol
		}
		var perr any
		func() {
			defer func() { perr = recover() }()
			honestHdr = MakeBlock(s.prev).BlockHeader
		}()
		if perr != nil {
			return true, ve.Violationf("C26:makeblock-panic", "MakeBlock panicked in phase %s: %v", ph, perr)
		}
		if err := honestHdr.PreCheck(s.prev); err != nil {
			return true, ve.Violationf("C26:makeblock-precheck", "header built by MakeBlock fails PreCheck in phase %s: %v", ph, err)
		}
		uv, us, err := ProcessUpgradeParams(s.prev)
		if err != nil || uv != honestHdr.UpgradeVote || us != honestHdr.UpgradeState {
			return true, ve.Violationf("C26:makeblock-vs-process", "MakeBlock header (%v,%v) differs from ProcessUpgradeParams (%v,%v,%v)", honestHdr.UpgradeVote, honestHdr.UpgradeState, uv, us, err)
		}
		vote = honestHdr.UpgradeVote
	}

	legal, why := c26legal(c, f, r, vote)
	if op.honest && !legal {
		return true, ve.Violationf("C26:honest-illegal", "MakeBlock voted %+v in phase %s, which the rules forbid (%s)", vote, ph, why)
	}
	if serr := s.staleCheck(f, r, vote, ph, op.name); serr != nil {
		return true, serr
	}
	ns, err := s.prev.UpgradeState.applyUpgradeVote(r, vote)
	s.r.Class(fmt.Sprintf("%s|%s|%s|%s", c.name, ph, op.name, why))
	if !legal {
		if err == nil {
			return true, ve.Violationf("C26:illegal-vote-accepted:"+why, "round %d phase %s: vote %+v is illegal (%s) but applyUpgradeVote accepted it -> %+v", r, ph, vote, why, ns)
		}
		// no header carrying this vote may pass, whatever state it claims
		cands := []UpgradeState{s.prev.UpgradeState, c26announced(f)}
		if vote.UpgradePropose != "" || vote.UpgradeApprove {
			// the state a too-lenient implementation would announce
			cands = append(cands, c26announced(c26derive(c, append(append([]c26entry{}, s.ledger...), c26entry{r, vote}))))
		}
		for _, us := range cands {
			if !c.supported(us.CurrentProtocol) {
				continue
			}
			h := s.headerFor(vote, us)
			s.r.Eval()
			if e := h.PreCheck(s.prev); e == nil {
				return true, ve.Violationf("C26:illegal-vote-precheck:"+why, "round %d phase %s: header with illegal vote %+v (%s) and state %+v passes PreCheck", r, ph, vote, why, us)
			}
		}
		return true, nil // rejected: the chain stays where it was
	}
	if err != nil {
		return true, ve.Violationf("C26:legal-vote-rejected", "round %d phase %s: vote %+v is legal but applyUpgradeVote says %v", r, ph, vote, err)
	}

	// accepted: extend the ledger and compare the real state with what the facts announce
	ledger := append(append([]c26entry{}, s.ledger...), c26entry{r, vote})
	nf := c26derive(c, ledger)
	want := c26announced(nf)
	if ns != want {
		key := "C26:state-mismatch"
		if ns.CurrentProtocol != want.CurrentProtocol {
			key = "C26:protocol-switch"
		}
		return true, ve.Violationf(key, "round %d phase %s vote %+v: real UpgradeState %+v, the ledger of accepted votes announces %+v (facts %+v)", r, ph, vote, ns, want, nf)
	}
	if nf.cur != f.cur {
		s.r.Class(fmt.Sprintf("%s|switched %s->%s", c.name, c26short(c, f.cur), c26short(c, nf.cur)))
	}
	var h BlockHeader
	if op.honest {
		h = honestHdr
		h.TimeStamp = 0
	} else {
		h = s.headerFor(vote, ns)
	}
	perr := h.PreCheck(s.prev)
	if !c.supported(ns.CurrentProtocol) {
		if perr == nil {
			return true, ve.Violationf("C26:unsupported-accepted", "round %d: header switching to unsupported %q passes PreCheck", r, ns.CurrentProtocol)
		}
		s.halted = true
		s.advance(h, ledger)
		return true, nil
	}
	if perr != nil {
		return true, ve.Violationf("C26:valid-header-rejected", "round %d phase %s vote %+v: header with the correct state fails PreCheck: %v", r, ph, vote, perr)
	}
	// single-field mutations
	muts, names := c26mutations(c, h)
	for i, m := range muts {
		exp := s.oracleAccepts(f, m)
		got := m.PreCheck(s.prev) == nil
		s.r.Eval()
		if exp {
			s.r.Class(c.name + "|equivalent-mutation|" + names[i])
			s.r.Add("mutations_legitimately_accepted_"+c.name, 1)
		}
		if got != exp {
			return true, ve.Violationf("C26:mutation:"+names[i], "round %d phase %s vote %+v: mutation %s of the accepted header -> PreCheck accepted=%v, oracle says %v (state %+v vote %+v)", r, ph, vote, names[i], got, exp, m.UpgradeState, m.UpgradeVote)
		}
	}
	s.advance(h, ledger)
	return true, nil
}

func (s *c26st) key() string {
	f := c26derive(s.cfg, s.ledger)
	us := s.prev.UpgradeState
	rd := s.prev.Round
	relr := func(x basics.Round) int64 {
		if x == 0 {
			return -1 << 40
		}
		return int64(x) - int64(rd)
	}
	var b strings.Builder
	if !s.rel {
		fmt.Fprintf(&b, "r%d|", rd)
	}
	fmt.Fprintf(&b, "%s|%s|%d|%d|%d|h%v|", c26short(s.cfg, us.CurrentProtocol), c26short(s.cfg, us.NextProtocol), us.NextProtocolApprovals, relr(us.NextProtocolVoteBefore), relr(us.NextProtocolSwitchOn), s.halted)
	fmt.Fprintf(&b, "F:%s|%v|%s|%d|%d|", c26short(s.cfg, f.cur), f.open, c26short(s.cfg, f.target), relr(f.p), f.d)
	for _, a := range f.approvals {
		fmt.Fprintf(&b, "%d,", relr(a))
	}
	return b.String()
}

func c26ops(c *c26cfg) []c26op {
	ops := []c26op{
		{name: "honest", honest: true},
		{name: "none"},
		{name: "approve", vote: UpgradeVote{UpgradeApprove: true}},
	}
	for d := 0; d <= 3; d++ {
		ops = append(ops, c26op{name: fmt.Sprintf("propose(B,%d)", d), vote: UpgradeVote{UpgradePropose: c.b, UpgradeDelay: basics.Round(d)}})
	}
	for d := 0; d <= 3; d++ {
		ops = append(ops, c26op{name: fmt.Sprintf("propose(B,%d)+approve", d), vote: UpgradeVote{UpgradePropose: c.b, UpgradeDelay: basics.Round(d), UpgradeApprove: true}})
	}
	ops = append(ops,
		c26op{name: "delay-only", vote: UpgradeVote{UpgradeDelay: 1}},
		c26op{name: "delay+approve", vote: UpgradeVote{UpgradeDelay: 2, UpgradeApprove: true}},
		c26op{name: "propose(UNK,1)+approve", vote: UpgradeVote{UpgradePropose: c.unk, UpgradeDelay: 1, UpgradeApprove: true}},
		c26op{name: "propose(LONG,1)+approve", vote: UpgradeVote{UpgradePropose: c.long, UpgradeDelay: 1, UpgradeApprove: true}},
		c26op{name: "propose(UNK,2)", vote: UpgradeVote{UpgradePropose: c.unk, UpgradeDelay: 2}},
	)
	return ops
}

func TestVerif_C26(t *testing.T) {
	r := ve.NewRun("C26", "model_checking")
	r.Assume("vote parameters fixed to UpgradeVoteRounds=3, UpgradeThreshold=2 and wait regimes (Min,Max,Default) in {(1,2,2),(0,2,1),(0,2,0)}; the upgrade logic reads no other parameter")
	r.Assume("a proposal counts as pending up to and including the round that resolves it (deadline round p+3 when it failed, switch round when it passed): a new proposal in that round is illegal")
	r.Assume("the relative-key pass merges states that differ only by a shift of all rounds (applyUpgradeVote compares r with stored rounds only); the absolute-key pass does not rely on this")

	base := config.Consensus[protocol.ConsensusCurrentVersion]
	maxLen := base.MaxVersionStringLen
	mk := func(name string, min, max, def uint64, approved map[string]uint64) *c26cfg {
		c := &c26cfg{name: name, a: protocol.ConsensusVersion("c26-A-" + name), b: protocol.ConsensusVersion("c26-B-" + name),
			rules: c26rules{min: min, max: max, def: def, maxLen: maxLen}}
		c.unk = protocol.ConsensusVersion("c26-unsupported-" + strings.Repeat("u", maxLen-len("c26-unsupported-")))
		c.long = c.unk + "x"
		pa := base
		pa.UpgradeVoteRounds, pa.UpgradeThreshold = c26VoteRounds, c26Threshold
		pa.MinUpgradeWaitRounds, pa.MaxUpgradeWaitRounds, pa.DefaultUpgradeWaitRounds = min, max, def
		pb := pa
		pa.ApprovedUpgrades = map[protocol.ConsensusVersion]uint64{}
		c.approved = map[protocol.ConsensusVersion]uint64{}
		for k, v := range approved {
			ver := c.b
			if k == "UNK" {
				ver = c.unk
			}
			pa.ApprovedUpgrades[ver] = v
			c.approved[ver] = v
		}
		pb.ApprovedUpgrades = map[protocol.ConsensusVersion]uint64{}
		config.Consensus[c.a] = pa
		config.Consensus[c.b] = pb
		return c
	}
	cfgs := []*c26cfg{
		mk("w12-none", 1, 2, 2, nil),
		mk("w12-B1", 1, 2, 2, map[string]uint64{"B": 1}),
		mk("w12-B2", 1, 2, 2, map[string]uint64{"B": 2}),
		mk("w02-B0", 0, 2, 1, map[string]uint64{"B": 0}),
		// zero effective wait: delay 0 and default 0 put the switch round ON the vote deadline, so the
		// "failed proposal is cleared" and "switch" rules meet in one round
		mk("w00-B0", 0, 2, 0, map[string]uint64{"B": 0}),
	}
	defer func() {
		for _, c := range cfgs {
			delete(config.Consensus, c.a)
			delete(config.Consensus, c.b)
		}
	}()

	depth := ve.Pick(8, 11)
	var cov ve.Coverage
	allEx := true
	for _, c := range cfgs {
		for _, rel := range []bool{false, true} {
			c, rel := c, rel
			ops := c26ops(c)
			name := "C26/" + c.name + map[bool]string{false: "/abs", true: "/rel"}[rel]
			q := &ve.Seq[*c26st]{
				Name:   name,
				NumOps: len(ops),
				OpName: func(i int) string { return ops[i].name },
				New: func() *c26st {
					var g BlockHeader
					g.Round = 0
					if rel {
						g.Round = 1000
					}
					g.GenesisID = "c26"
					g.GenesisHash = crypto.Digest{0xc2, 0x6}
					g.CurrentProtocol = c.a
					return &c26st{cfg: c, rel: rel, prev: g, r: r, ops: ops}
				},
				Clone: func(s *c26st) *c26st {
					n := *s
					n.ledger = append([]c26entry{}, s.ledger...)
					n.hist = append([]UpgradeState{}, s.hist...)
					n.tmpl = nil
					return &n
				},
				Apply:    func(s *c26st, op int) (bool, error) { return s.apply(op) },
				Key:      func(s *c26st) string { return s.key() },
				Observe:  func(s *c26st) string { return c26short(c, s.prev.CurrentProtocol) + "/" + c26short(c, s.prev.NextProtocol) },
				MaxDepth: depth,
			}
			if rel {
				q.MaxDepth = 64
			}
			res := q.Explore(r)
			cov.AddSeq(res)
			if rel {
				if !res.FrontierEmptied {
					allEx = false
					r.Note("%s: relative-key frontier did not empty within depth %d", name, q.MaxDepth)
				}
				r.Set("rel_fixpoint_"+c.name, fmt.Sprintf("states=%d depth=%d emptied=%v", res.States, res.DepthCompleted, res.FrontierEmptied))
			} else if !res.Exhaustive {
				allEx = false
			}
		}
	}
	cov.Exhaustive = allEx
	cov.Rule = fmt.Sprintf("BFS over all sequences of per-round upgrade votes (18-op alphabet incl. MakeBlock's own vote) on real applyUpgradeVote/ProcessUpgradeParams/MakeBlock/PreCheck, 4 configurations (ApprovedUpgrades {} / {B:1} / {B:2} / {B:0 with default}), VoteRounds=3 Threshold=2: every sequence of <= %d accepted rounds with absolute-round state keys, plus the complete reachable state space under round-relative keys; every accepted header additionally single-field mutated (~%d mutations each)", depth, 20)
	if n := r.Finish(cov); n > 0 {
		t.Fatalf("C26: %d violation(s)", n)
	}
}
