package network

// C43 part (b) — E-ENUM on the real wsPeer read path: wsPeer.readLoop is run to completion on a scripted
// wsPeerWebsocketConn (frames = tag + payload, delivered in scripted read chunks), and everything the loop hands
// on is collected: IncomingMessages on the readBuffer channel, topic responses on the registered response
// channel, control messages queued for the write loop, digests added to the outgoing filter, and the disconnect
// reason reported to the network (peerRemoteClose).
//
// Enumerated:
//   b1  every tag of protocol.TagList plus an unknown ("zz") and a deprecated ("pi") tag x payload kind
//       (pattern bytes; for MI a valid tag list padded to the length; for TS: a valid response padded to the
//       length with a registered request, a stale response, an unrequested response) x payload length in
//       {limit-1, limit, limit+1, limit+200000} (limit = Tag.MaxMessageSize) x frame chunking {1 chunk, 2 chunks with the cut at
//       every boundary class (inside the tag, tag|payload, base buffer -1/0/+1, base+64K -1/0/+1, limit -1/0/+1,
//       last byte; thorough: 3 chunks at every pair of boundary classes), fixed 50001-byte chunks for large payloads, byte-at-a-time for tags with limit <= 8192} x
//       {EOF as a separate read, EOF together with the last data}; plus a reader error inside the payload, a
//       non-binary websocket message and a truncated tag.
//   b2  zstd-compressed proposals whose DECOMPRESSED size is {limit-1, limit, limit+1, 4*limit} x content
//       {zeros, half pseudo-random (compressed size ~ limit/2), two concatenated zstd frames} x chunking.
//   b3  vpack votes: stateless-compressed AV and statefully compressed VP votes (three vote shapes, repeated so
//       that the stateful tables are hit), VP garbage of length {limit-1, limit, limit+1}, the VP abort message.
//   b4  every ordered pair of tags on one connection: A at its limit, then B at limit(B) / limit(B)+1 (the
//       per-message limit must follow the tag of the CURRENT message; needs two messages to show).
// Oracle (property + doc comments of readLoop): (1) no IncomingMessage, response or control message derived from a
// payload larger than the tag's limit is ever handed on, and every IncomingMessage satisfies len(Data) <=
// MaxMessageSize(Tag); (2) a payload larger than the limit ends the connection (peerRemoteClose + conn closed,
// no further frame is read) — except a TS response nobody waits for, which the loop discards without buffering
// (documented in readLoop) and an unknown/deprecated tag, which has no per-tag limit: it is never handed on and is
// bounded by the global MaxMessageLength cap only (observation, see findings/C43-unknown-tag-unbounded); (3) in-limit payloads of pass-through tags arrive
// unmodified and in order; compressed ones arrive as the original plaintext iff it is within the limit;
// (4) bytes of buffer capacity the slurper offers to the connection for one message never exceed
// max(base,limit)+one allocation step (the slurper allocates in 64 KiB steps and checks the limit after each
// read), and never MaxMessageLength.
// Not covered: gorilla/websocket itself (SetReadLimit is recorded, not emulated); the write loop.

import (
	"bytes"
	"context"
	"encoding/binary"
	"fmt"
	"io"
	"net"
	"time"

	"github.com/DataDog/zstd"
	"github.com/algorand/websocket"

	"github.com/algorand/go-algorand/crypto"
	"github.com/algorand/go-algorand/logging"
	"github.com/algorand/go-algorand/network/vpack"
	"github.com/algorand/go-algorand/protocol"
	ve "github.com/algorand/go-algorand/verifeng"
)

var c43Log = func() logging.Logger {
	l := logging.NewLogger()
	l.SetOutput(io.Discard)
	l.SetLevel(logging.Error)
	return l
}()

// c43Net records disconnect reports; every other GossipNode method is unused by readLoop.
type c43Net struct {
	GossipNode
	closed []disconnectReason
}

func (n *c43Net) peerRemoteClose(_ *wsPeer, reason disconnectReason) {
	n.closed = append(n.closed, reason)
}

type c43Frame struct {
	mtype  int
	data   []byte // tag + payload
	script c43Script
}

// c43FrameReader wraps c43Reader and measures the buffer capacity offered by the reading side.
type c43FrameReader struct {
	c43Reader
	offered    map[*byte]int
	allocBytes int
	probes     int
}

func c43NewFrameReader(f c43Frame) *c43FrameReader {
	fr := &c43FrameReader{offered: map[*byte]int{}}
	fr.c43Reader = *f.script.reader(f.data)
	fr.c43Reader.onRead = func(p []byte) {
		if fr.pos < 2 || len(p) == 0 {
			return
		}
		k := &p[len(p)-1]
		prev, ok := fr.offered[k]
		if !ok && len(p) == 1 {
			fr.probes++
			fr.offered[k] = 1
			return
		}
		if len(p) > prev {
			fr.allocBytes += len(p) - prev
			fr.offered[k] = len(p)
		}
	}
	return fr
}

type c43Conn struct {
	frames     []c43Frame
	next       int
	readers    []*c43FrameReader
	nextCalls  int
	closeMsgs  int
	closeFlush int
	readLimit  int64
	step       *c43Step // optional: lock-step delivery (part c)
}

// c43Step lets a driver hand frames to a running readLoop one at a time.
type c43Step struct {
	frames chan c43Frame
	idle   chan struct{}
	dead   chan struct{} // closed when the read loop goroutine ended (normally or by panic)
	panicv any
}

func (c *c43Conn) RemoteAddr() net.Addr                     { return nil }
func (c *c43Conn) RemoteAddrString() string                 { return "c43" }
func (c *c43Conn) WriteMessage(int, []byte) error           { return nil }
func (c *c43Conn) CloseWithMessage([]byte, time.Time) error { c.closeMsgs++; return nil }
func (c *c43Conn) SetReadLimit(n int64)                     { c.readLimit = n }
func (c *c43Conn) CloseWithoutFlush() error                 { c.closeFlush++; return nil }
func (c *c43Conn) UnderlyingConn() net.Conn                 { return nil }
func (c *c43Conn) NextReader() (int, io.Reader, error) {
	c.nextCalls++
	if c.step != nil {
		c.step.idle <- struct{}{}
		f, ok := <-c.step.frames
		if !ok {
			return 0, nil, &websocket.CloseError{Code: websocket.CloseNormalClosure}
		}
		c.next++
		return f.mtype, c43NewFrameReader(f), nil
	}
	if c.next >= len(c.frames) {
		return 0, nil, &websocket.CloseError{Code: websocket.CloseNormalClosure}
	}
	f := c.frames[c.next]
	c.next++
	fr := c43NewFrameReader(f)
	c.readers = append(c.readers, fr)
	return f.mtype, fr, nil
}

type c43PeerOpt struct {
	inFilter  *messageFilter
	outFilter *messageFilter
	vote      bool // vote compression negotiated (stateless + stateful, table 256)
	queue     int
}

func c43NewPeer(conn wsPeerWebsocketConn, rb chan IncomingMessage, o c43PeerOpt) (*wsPeer, *c43Net) {
	nt := &c43Net{}
	wp := &wsPeer{
		wsPeerCore: makePeerCore(context.Background(), nt, c43Log, rb, "c43://peer", nil, "c43-origin"),
		conn:       conn,
	}
	q := o.queue
	if q == 0 {
		q = 64
	}
	wp.closing = make(chan struct{})
	wp.sendBufferHighPrio = make(chan sendMessage, q)
	wp.sendBufferBulk = make(chan sendMessage, q)
	wp.responseChannels = make(map[uint64]chan *Response)
	wp.processed = make(chan struct{}, q)
	for i := 0; i < q; i++ {
		wp.processed <- struct{}{}
	}
	wp.incomingMsgFilter = o.inFilter
	wp.outgoingMsgFilter = o.outFilter
	if o.vote {
		wp.enableVoteCompression = true
		wp.voteCompressionTableSize = 256
		wp.features = pfCompressedVoteVpack | pfCompressedVoteVpackStateful256
	}
	wp.msgCodec = makeWsPeerMsgCodec(wp)
	return wp, nt
}

// ---- expectations ----

type c43Exp struct {
	// exactly one of the following describes what the reference demands for the frame
	must  bool // connection must end at this frame, nothing derived from it handed on
	may   bool // connection may end at this frame (bracket); if it does not, nothing is demanded
	hand  bool // an IncomingMessage (outTag,outData) must be handed to readBuffer
	resp  bool // a topic response must be delivered to the registered channel
	ctl   string
	quiet bool // nothing may be handed to readBuffer for this frame, connection stays

	outTag  protocol.Tag
	outData []byte
}

type c43Case struct {
	Name   string
	opt    c43PeerOpt
	frames []c43Frame
	exp    []c43Exp
	// TS helpers
	respKey     uint64
	hasRespChan bool
	outstanding int64
	allocLimit  []int // per frame: the tag limit used for the allocation bound (-1: not checked)
}

type c43Result struct {
	class string
	bad   string
	key   string
}

func c43Limit(tag protocol.Tag) int { return int(tag.MaxMessageSize()) }

func c43RunCase(c *c43Case) c43Result {
	conn := &c43Conn{frames: c.frames}
	rb := make(chan IncomingMessage, len(c.frames)+4)
	o := c.opt
	o.queue = len(c.frames) + 4
	if o.outFilter == nil {
		o.outFilter = makeMessageFilter(2, 2)
	}
	wp, nt := c43NewPeer(conn, rb, o)
	var respCh chan *Response
	if c.hasRespChan {
		respCh = wp.makeResponseChannel(c.respKey)
	}
	wp.outstandingTopicRequests.Store(c.outstanding)
	wp.wg.Add(1)
	wp.readLoop()

	var got []IncomingMessage
	for len(rb) > 0 {
		got = append(got, <-rb)
	}
	fail := func(key, f string, a ...any) c43Result {
		return c43Result{bad: fmt.Sprintf(f, a...), key: key}
	}
	// (1) universal: nothing larger than the tag limit on readBuffer
	for _, m := range got {
		if len(m.Data) > c43Limit(m.Tag) {
			return fail("C43:oversize-handed", "IncomingMessage tag %s with %d bytes > limit %d handed to readBuffer", m.Tag, len(m.Data), c43Limit(m.Tag))
		}
	}
	// how did the loop end?
	if len(nt.closed) != 1 || conn.closeMsgs != 1 || conn.closeFlush != 1 {
		return fail("C43:close-protocol", "readLoop ended with peerRemoteClose=%v CloseWithMessage=%d CloseWithoutFlush=%d (want exactly one each)", nt.closed, conn.closeMsgs, conn.closeFlush)
	}
	if conn.readLimit != MaxMessageLength {
		return fail("C43:readlimit", "SetReadLimit(%d), want MaxMessageLength", conn.readLimit)
	}
	exhausted := conn.nextCalls > len(c.frames)
	endedAt := conn.next - 1 // frame during which the loop ended (if !exhausted)
	firstMust := len(c.frames)
	for i, e := range c.exp {
		if e.must {
			firstMust = i
			break
		}
	}
	class := ""
	if exhausted {
		if firstMust < len(c.frames) {
			f := c.frames[firstMust]
			return fail("C43:oversize-not-disconnected", "frame %d (tag %q, %d payload bytes, limit %d) must end the connection, but the loop went on to read %d frame(s) and ended with %v",
				firstMust, string(f.data[:min(2, len(f.data))]), len(f.data)-2, c43Limit(protocol.Tag(f.data[:min(2, len(f.data))])), conn.next, nt.closed)
		}
		if nt.closed[0] != disconnectRequestReceived {
			return fail("C43:close-reason", "connection closed by the remote side, reason reported %q", nt.closed[0])
		}
		class = "end"
	} else {
		if endedAt > firstMust {
			return fail("C43:oversize-not-disconnected", "frame %d must end the connection but the loop ended at frame %d", firstMust, endedAt)
		}
		if endedAt < firstMust && !c.exp[endedAt].may {
			f := c.frames[endedAt]
			return fail("C43:spurious-disconnect", "frame %d (tag %q, %d payload bytes, limit %d) ended the connection (%v) although it is within the limit",
				endedAt, string(f.data[:min(2, len(f.data))]), len(f.data)-2, c43Limit(protocol.Tag(f.data[:min(2, len(f.data))])), nt.closed)
		}
		if nt.closed[0] == disconnectRequestReceived {
			return fail("C43:close-reason", "loop ended at frame %d but reported a deliberate remote close", endedAt)
		}
		class = "disc:" + string(nt.closed[0])
	}
	// (3) what was handed on, in order
	live := len(c.frames)
	if !exhausted {
		live = endedAt
	}
	gi := 0
	var ctls []sendMessage
	for len(wp.sendBufferHighPrio) > 0 {
		ctls = append(ctls, <-wp.sendBufferHighPrio)
	}
	for len(wp.sendBufferBulk) > 0 {
		ctls = append(ctls, <-wp.sendBufferBulk)
	}
	ci := 0
	resps := 0
	lenient := false
	for i := 0; i < live; i++ {
		e := c.exp[i]
		switch {
		case e.may:
			lenient = true
			class += "|may"
		case e.hand:
			if gi >= len(got) {
				return fail("C43:not-delivered", "frame %d (tag %s, %d bytes): nothing handed to readBuffer", i, e.outTag, len(e.outData))
			}
			m := got[gi]
			gi++
			if m.Tag != e.outTag || !bytes.Equal(m.Data, e.outData) {
				return fail("C43:wrong-delivery", "frame %d: handed tag %s %d bytes (hash %s), want tag %s %d bytes (hash %s)", i, m.Tag, len(m.Data), c43Hash(m.Data), e.outTag, len(e.outData), c43Hash(e.outData))
			}
			if m.Sender != DisconnectableAddressablePeer(wp) {
				return fail("C43:wrong-delivery", "frame %d: wrong sender", i)
			}
			class += "|hand"
		case e.resp:
			resps++
			class += "|resp"
		case e.ctl != "":
			if ci >= len(ctls) {
				return fail("C43:not-delivered", "frame %d: expected control message %s for the write loop, none queued", i, e.ctl)
			}
			sm := ctls[ci]
			ci++
			switch e.ctl {
			case "mi":
				if sm.msgTags == nil || !sm.msgTags[protocol.AgreementVoteTag] || !sm.msgTags[protocol.TxnTag] || len(sm.msgTags) != 2 {
					return fail("C43:wrong-delivery", "frame %d: messages-of-interest update %v, want {AV,TX}", i, sm.msgTags)
				}
			case "vpabort":
				if !bytes.Equal(sm.data, append([]byte(protocol.VotePackedTag), voteCompressionAbortMessage)) {
					return fail("C43:wrong-delivery", "frame %d: control message %x, want VP abort", i, sm.data)
				}
			}
			class += "|" + e.ctl
		default:
			class += "|drop"
		}
	}
	if gi != len(got) {
		m := got[gi]
		return fail("C43:unexpected-delivery", "IncomingMessage tag %s, %d bytes handed to readBuffer that the reference does not expect (live frames %d, handed %d, expected %d)", m.Tag, len(m.Data), live, len(got), gi)
	}
	if ci != len(ctls) && !lenient {
		return fail("C43:unexpected-delivery", "%d control message(s) queued, reference expects %d", len(ctls), ci)
	}
	if respCh != nil {
		n := len(respCh)
		if n != resps {
			return fail("C43:unexpected-delivery", "%d topic response(s) delivered, reference expects %d", n, resps)
		}
		if n == 1 {
			rsp := <-respCh
			sz := 0
			for _, tp := range rsp.Topics {
				sz += len(tp.key) + len(tp.data)
			}
			if sz > c43Limit(protocol.TopicMsgRespTag) {
				return fail("C43:oversize-handed", "topic response of %d bytes > TS limit handed to the requester", sz)
			}
		}
	}
	// (4) allocation offered to the connection
	for i, fr := range conn.readers {
		if i >= len(c.allocLimit) || c.allocLimit[i] < 0 {
			continue
		}
		lim := c.allocLimit[i]
		bound := max(lim, averageMessageLength) + int(allocationStep)
		if _, known := protocol.TagMap[protocol.Tag(c.frames[i].data[:2])]; !known {
			// An unknown / deprecated tag has no per-tag limit (MaxMessageSize()==0 means "unknown"): by design only
			// the global MaxMessageLength cap applies (lead's classification; observation recorded in the evidence
			// and in findings/C43-unknown-tag-unbounded).
			bound = MaxMessageLength
		}
		if bound > MaxMessageLength {
			bound = MaxMessageLength
		}
		if fr.allocBytes > bound {
			return fail("C43:alloc", "frame %d (limit %d): the read loop offered %d bytes of buffer capacity to the connection, bound %d", i, lim, fr.allocBytes, bound)
		}
		if fr.spin {
			return fail("C43:spin", "frame %d: reader polled %d times", i, fr.calls)
		}
	}
	return c43Result{class: class}
}

func c43Hash(b []byte) string {
	d := crypto.Hash(b)
	return fmt.Sprintf("%x", d[:6])
}

// ---- payload construction ----

func c43Pattern(n int, salt byte) []byte {
	b := make([]byte, n)
	for i := range b {
		b[i] = salt ^ byte(i*131) ^ byte(i>>8) ^ byte(i>>16)
	}
	if n >= 4 && bytes.Equal(b[:4], zstdCompressionMagic[:]) {
		b[0] ^= 0x55
	}
	return b
}

func c43HalfRandom(n int) []byte {
	b := make([]byte, n)
	x := uint64(0x9E3779B97F4A7C15)
	for i := n / 2; i < n; i++ {
		x ^= x << 13
		x ^= x >> 7
		x ^= x << 17
		b[i] = byte(x >> 32)
	}
	return b
}

func c43FrameOf(tag protocol.Tag, payload []byte) []byte {
	out := make([]byte, 0, 2+len(payload))
	out = append(out, tag...)
	return append(out, payload...)
}

func c43PadTo(b []byte, n int) []byte {
	if len(b) > n {
		return nil
	}
	return append(b, make([]byte, n-len(b))...)
}

const c43RespKey = uint64(0x1234)

func c43ValidTS(n int) []byte {
	var kb [binary.MaxVarintLen64]byte
	k := binary.PutUvarint(kb[:], c43RespKey)
	head := Topics{{key: requestHashKey, data: kb[:k]}, {key: "blockData", data: []byte("c43")}}.MarshallTopics()
	return c43PadTo(head, n)
}

func c43ValidMI(n int) []byte {
	head := Topics{{key: "tags", data: []byte("AV,TX")}}.MarshallTopics()
	return c43PadTo(head, n)
}

// c43Chunkings returns the frame-level read scripts for a frame of total bytes with the given payload limit.
func c43Chunkings(total, limit int, quickBig bool) []c43Script {
	var out []c43Script
	add := func(ch []int) {
		for _, e := range []bool{false, true} {
			out = append(out, c43Script{Chunks: ch, ErrAt: -1, EOFWithData: e})
		}
	}
	add([]int{total})
	base, step := averageMessageLength, int(allocationStep)
	cuts := []int{1, 2, 3, 2 + base - 1, 2 + base, 2 + base + 1, 2 + base + step - 1, 2 + base + step, 2 + base + step + 1, 2 + limit - 1, 2 + limit, 2 + limit + 1, total - 1}
	for _, cut := range c43Uniq(cuts) {
		if cut > 0 && cut < total {
			add([]int{cut, total - cut})
		}
	}
	if ve.Thorough() {
		cs := c43Uniq(cuts)
		for i, c1 := range cs {
			for _, c2 := range cs[i+1:] {
				if c1 > 0 && c2 < total {
					add([]int{c1, c2 - c1, total - c2})
				}
			}
		}
	}
	if total > 60000 {
		add(c43Fixed(total, 50001))
	}
	if limit <= 8192 && total > 2 && total <= 10000 {
		add(c43Fixed(total, 1))
		// zero-length reads between the bytes of a small message
		z := make([]int, 0, 2*total)
		for i := 0; i < total; i++ {
			z = append(z, 0, 1)
		}
		out = append(out, c43Script{Chunks: z, ErrAt: -1})
	}
	return out
}

var c43PassTags = map[protocol.Tag]bool{
	protocol.AgreementVoteTag: true, protocol.NetPrioResponseTag: true, protocol.NetIDVerificationTag: true,
	protocol.ProposalPayloadTag: true, protocol.StateProofSigTag: true, protocol.TxnTag: true,
	protocol.UniEnsBlockReqTag: true, protocol.VoteBundleTag: true,
}

// c43RawExp is the reference for a pattern-bytes payload of length L under tag.
func c43RawExp(tag protocol.Tag, payload []byte) c43Exp {
	limit := c43Limit(tag)
	L := len(payload)
	_, known := protocol.TagMap[tag]
	switch {
	case !known && L > MaxMessageLength:
		return c43Exp{must: true} // beyond the global cap
	case !known:
		return c43Exp{quiet: true} // unknown tags are dropped (readLoop: "drop message, skip adding it to queue")
	case L > limit:
		return c43Exp{must: true}
	case c43PassTags[tag]:
		return c43Exp{hand: true, outTag: tag, outData: payload}
	case tag == protocol.MsgOfInterestTag:
		return c43Exp{may: true} // pattern bytes are (most likely) not a valid tag list: BadData disconnect allowed
	case tag == protocol.VotePackedTag:
		return c43Exp{quiet: true} // stateful compression not negotiated: dropped
	default: // MS: maintenance message, handled internally
		return c43Exp{quiet: true}
	}
}

type c43Payloads struct {
	cache map[string][]byte
}

func c43B1Tags() []protocol.Tag {
	tags := append([]protocol.Tag{}, protocol.TagList...)
	return append(tags, protocol.Tag("zz"), protocol.PingTag)
}

func c43BuildB1(tags []protocol.Tag, withProto bool) []*c43Case {
	var cases []*c43Case
	for _, tag := range tags {
		limit := c43Limit(tag)
		// limit+200000: far beyond one allocation step, to see that reading STOPS at the limit (not merely that the
		// message is rejected after it was buffered in full)
		lens := []int{limit - 1, limit, limit + 1, limit + 200000}
		if limit == 0 {
			lens = []int{0, 1, 70000, MaxMessageLength - 1, MaxMessageLength, MaxMessageLength + 1}
		}
		if tag == protocol.MsgDigestSkipTag {
			lens = append(lens, crypto.DigestSize)
		}
		kinds := []string{"raw"}
		switch tag {
		case protocol.MsgOfInterestTag:
			kinds = []string{"raw", "valid"}
		case protocol.TopicMsgRespTag:
			kinds = []string{"chan-valid", "chan-raw", "stale", "unrequested"}
		}
		for _, L := range lens {
			if L < 0 {
				continue
			}
			for _, kind := range kinds {
				var payload []byte
				var e c43Exp
				cs := c43Case{allocLimit: []int{limit}}
				switch {
				case kind == "raw":
					payload = c43Pattern(L, 0x5a)
					e = c43RawExp(tag, payload)
					if tag == protocol.MsgDigestSkipTag {
						cs.opt.outFilter = nil // set per run below
					}
				case tag == protocol.MsgOfInterestTag:
					payload = c43ValidMI(L)
					e = c43Exp{ctl: "mi"}
					if L > limit {
						e = c43Exp{must: true}
					}
				case kind == "chan-valid":
					payload = c43ValidTS(L)
					cs.hasRespChan, cs.respKey, cs.outstanding = true, c43RespKey, 1
					e = c43Exp{resp: true}
					if L > limit {
						e = c43Exp{must: true}
					}
				case kind == "chan-raw":
					payload = c43Pattern(L, 0xff) // 0xff.. is not a valid topics count: ignored (readLoop: "could not read the message")
					cs.hasRespChan, cs.respKey, cs.outstanding = true, c43RespKey, 1
					e = c43Exp{quiet: true}
					if L > limit {
						e = c43Exp{must: true}
					}
				case kind == "stale":
					payload = c43Pattern(L, 0x5a)
					cs.outstanding = 1
					cs.allocLimit = []int{-1} // discarded through io.Copy(io.Discard), never buffered by the slurper
					e = c43Exp{quiet: true}
				case kind == "unrequested":
					payload = c43Pattern(L, 0x5a)
					cs.outstanding = 0
					cs.allocLimit = []int{-1}
					e = c43Exp{must: true} // "sent TS response without a request": protocol violation, disconnect
				}
				if payload == nil {
					continue
				}
				frame := c43FrameOf(tag, payload)
				payload = frame[2:]
				if e.hand {
					e.outData = payload
				}
				for _, sc := range c43Chunkings(len(frame), limit, false) {
					c := cs
					c.Name = fmt.Sprintf("b1/%s/%s/L=limit%+d/%s", tag, kind, L-limit, c43ScriptName(sc))
					c.frames = []c43Frame{{mtype: websocket.BinaryMessage, data: frame, script: sc}}
					c.exp = []c43Exp{e}
					cases = append(cases, &c)
				}
				// a reader error inside the payload: the connection must end, nothing handed
				if L >= 2 && kind != "stale" && kind != "unrequested" {
					c := cs
					c.Name = fmt.Sprintf("b1/%s/%s/L=limit%+d/readerr", tag, kind, L-limit)
					c.frames = []c43Frame{{mtype: websocket.BinaryMessage, data: frame, script: c43Script{Chunks: []int{2 + L/2, L - L/2}, ErrAt: 1}}}
					c.exp = []c43Exp{{must: true}}
					cases = append(cases, &c)
				}
			}
		}
	}
	if !withProto {
		return cases
	}
	// protocol-level rejects
	small := c43FrameOf(protocol.TxnTag, c43Pattern(10, 1))
	cases = append(cases,
		&c43Case{Name: "b1/text-message", frames: []c43Frame{{mtype: websocket.TextMessage, data: small, script: c43Script{Chunks: []int{len(small)}, ErrAt: -1}}}, exp: []c43Exp{{must: true}}, allocLimit: []int{-1}},
		&c43Case{Name: "b1/truncated-tag", frames: []c43Frame{{mtype: websocket.BinaryMessage, data: small[:1], script: c43Script{Chunks: []int{1}, ErrAt: -1}}}, exp: []c43Exp{{must: true}}, allocLimit: []int{-1}},
		&c43Case{Name: "b1/empty-frame", frames: []c43Frame{{mtype: websocket.BinaryMessage, data: nil, script: c43Script{ErrAt: -1}}}, exp: []c43Exp{{must: true}}, allocLimit: []int{-1}},
	)
	return cases
}

func c43ScriptName(sc c43Script) string {
	s := ""
	switch {
	case len(sc.Chunks) == 1:
		s = "1chunk"
	case len(sc.Chunks) == 2:
		s = fmt.Sprintf("cut@%d", sc.Chunks[0])
	case len(sc.Chunks) == 3:
		s = fmt.Sprintf("cuts@%d,%d", sc.Chunks[0], sc.Chunks[0]+sc.Chunks[1])
	default:
		s = fmt.Sprintf("%dx%d", len(sc.Chunks), sc.Chunks[len(sc.Chunks)/2])
	}
	if sc.EOFWithData {
		s += "+eofdata"
	}
	return s
}

func c43Zstd(d []byte) []byte {
	out, err := zstd.CompressLevel(nil, d, zstd.BestSpeed)
	if err != nil {
		panic(err)
	}
	return out
}

func c43B2Sizes() []int {
	limit := c43Limit(protocol.ProposalPayloadTag)
	return []int{limit - 1, limit, limit + 1, 4 * limit}
}

func c43BuildB2(sizes []int) []*c43Case {
	var cases []*c43Case
	tag := protocol.ProposalPayloadTag
	limit := c43Limit(tag)
	for _, D := range sizes {
		for _, content := range []string{"zeros", "halfrandom", "twoframes", "pattern-tail"} {
			var plain, comp []byte
			switch content {
			case "zeros":
				plain = make([]byte, D)
				comp = c43Zstd(plain)
			case "halfrandom":
				plain = c43HalfRandom(D)
				comp = c43Zstd(plain)
			case "twoframes":
				plain = c43HalfRandom(D)
				h := D / 2
				comp = append(c43Zstd(plain[:h]), c43Zstd(plain[h:])...)
			case "pattern-tail": // long zero run followed by 200000 bytes of low-entropy pattern: a large final block
				plain = make([]byte, D)
				copy(plain[D-200000:], c43Pattern(200000, 3))
				comp = c43Zstd(plain)
			}
			var e c43Exp
			switch {
			case len(comp) > limit:
				e = c43Exp{must: true} // the compressed frame itself is oversize
			case D > limit:
				e = c43Exp{must: true} // "Non-VP errors tear down connection"
			default:
				e = c43Exp{hand: true, outTag: tag, outData: plain}
			}
			frame := c43FrameOf(tag, comp)
			scripts := []c43Script{{Chunks: []int{len(frame)}, ErrAt: -1}, {Chunks: []int{len(frame)}, ErrAt: -1, EOFWithData: true}}
			if len(frame) > 2+averageMessageLength {
				scripts = append(scripts, c43Script{Chunks: []int{2 + averageMessageLength, len(frame) - 2 - averageMessageLength}, ErrAt: -1})
			}
			if len(frame) > 60000 {
				scripts = append(scripts, c43Script{Chunks: c43Fixed(len(frame), 50001), ErrAt: -1})
			}
			for _, sc := range scripts {
				cases = append(cases, &c43Case{
					Name:       fmt.Sprintf("b2/%s/D=limit%+d/comp=%d/%s", content, D-limit, len(comp), c43ScriptName(sc)),
					frames:     []c43Frame{{mtype: websocket.BinaryMessage, data: frame, script: sc}},
					exp:        []c43Exp{e},
					allocLimit: []int{limit},
				})
			}
		}
	}
	return cases
}

// c43Votes returns msgpack-encoded votes of three shapes (minimal, with proposal, maximal field widths).
func c43Votes() [][]byte {
	mk := func(seed byte, r map[string]any) []byte {
		r["rnd"] = uint64(seed) + 2
		r["snd"] = [32]byte{seed + 3}
		return protocol.EncodeReflect(map[string]any{
			"cred": map[string]any{"pf": crypto.VrfProof{seed + 1}},
			"r":    r,
			"sig": map[string]any{
				"p": [32]byte{seed + 4}, "p1s": [64]byte{seed + 5}, "p2": [32]byte{seed + 6},
				"p2s": [64]byte{seed + 7}, "ps": [64]byte{}, "s": [64]byte{seed + 9},
			},
		})
	}
	v1 := mk(1, map[string]any{})
	v2 := mk(2, map[string]any{"per": uint64(3), "step": uint64(2),
		"prop": map[string]any{"dig": [32]byte{9}, "encdig": [32]byte{8}, "oper": uint64(1), "oprop": [32]byte{7}}})
	v3 := mk(3, map[string]any{"per": uint64(1) << 60, "step": uint64(1) << 40,
		"prop": map[string]any{"dig": [32]byte{0xff, 1}, "encdig": [32]byte{0xfe, 2}, "oper": uint64(1) << 50, "oprop": [32]byte{0xfd}}})
	v3r := protocol.EncodeReflect(map[string]any{})
	_ = v3r
	return [][]byte{v1, v2, v3}
}

func c43BuildB3() ([]*c43Case, error) {
	votes := c43Votes()
	var stateless [][]byte
	for _, v := range votes {
		var enc vpack.StatelessEncoder
		c, err := enc.CompressVote(nil, v)
		if err != nil {
			return nil, fmt.Errorf("harness vote does not compress: %w", err)
		}
		stateless = append(stateless, append([]byte(nil), c...))
	}
	one := func(data []byte) c43Script { return c43Script{Chunks: []int{len(data)}, ErrAt: -1} }
	bin := func(tag protocol.Tag, payload []byte, sc func([]byte) c43Script) c43Frame {
		f := c43FrameOf(tag, payload)
		return c43Frame{mtype: websocket.BinaryMessage, data: f, script: sc(f)}
	}
	bytewise := func(data []byte) c43Script {
		return c43Script{Chunks: c43Fixed(len(data), 1), ErrAt: -1, EOFWithData: true}
	}
	var cases []*c43Case
	avLimit := c43Limit(protocol.AgreementVoteTag)
	vpLimit := c43Limit(protocol.VotePackedTag)
	for _, scf := range []func([]byte) c43Script{one, bytewise} {
		// stateful stream: order 0,1,0,2,1,0 so that the dynamic tables are hit
		senc, err := vpack.NewStatefulEncoder(256)
		if err != nil {
			return nil, err
		}
		order := []int{0, 1, 0, 2, 1, 0}
		c := &c43Case{Name: "b3/stateful-stream", opt: c43PeerOpt{vote: true}}
		for _, vi := range order {
			comp, err := senc.Compress(nil, stateless[vi])
			if err != nil {
				return nil, fmt.Errorf("stateful compress: %w", err)
			}
			c.frames = append(c.frames, bin(protocol.VotePackedTag, append([]byte(nil), comp...), scf))
			c.exp = append(c.exp, c43Exp{hand: true, outTag: protocol.AgreementVoteTag, outData: votes[vi]})
			c.allocLimit = append(c.allocLimit, vpLimit)
		}
		// stateless AV, raw AV, then garbage VP of limit bytes (abort, connection stays), then VP is dropped, AV still flows
		c.frames = append(c.frames, bin(protocol.AgreementVoteTag, stateless[2], scf))
		c.exp = append(c.exp, c43Exp{hand: true, outTag: protocol.AgreementVoteTag, outData: votes[2]})
		c.frames = append(c.frames, bin(protocol.AgreementVoteTag, votes[1], scf))
		c.exp = append(c.exp, c43Exp{hand: true, outTag: protocol.AgreementVoteTag, outData: votes[1]})
		c.frames = append(c.frames, bin(protocol.VotePackedTag, c43Pattern(vpLimit, 0), scf))
		c.exp = append(c.exp, c43Exp{ctl: "vpabort"})
		comp, _ := senc.Compress(nil, stateless[0])
		c.frames = append(c.frames, bin(protocol.VotePackedTag, append([]byte(nil), comp...), scf))
		c.exp = append(c.exp, c43Exp{quiet: true})
		c.frames = append(c.frames, bin(protocol.AgreementVoteTag, stateless[0], scf))
		c.exp = append(c.exp, c43Exp{hand: true, outTag: protocol.AgreementVoteTag, outData: votes[0]})
		c.frames = append(c.frames, bin(protocol.AgreementVoteTag, c43Pattern(avLimit, 0x77), scf))
		c.exp = append(c.exp, c43Exp{hand: true, outTag: protocol.AgreementVoteTag, outData: c43Pattern(avLimit, 0x77)})
		c.frames = append(c.frames, bin(protocol.AgreementVoteTag, c43Pattern(avLimit+1, 0x77), scf))
		c.exp = append(c.exp, c43Exp{must: true})
		for len(c.allocLimit) < len(c.frames) {
			c.allocLimit = append(c.allocLimit, avLimit)
		}
		cases = append(cases, c)

		for _, d := range []int{-1, 0, 1} {
			g := &c43Case{Name: fmt.Sprintf("b3/vp-garbage/L=limit%+d", d), opt: c43PeerOpt{vote: true}}
			g.frames = append(g.frames, bin(protocol.VotePackedTag, c43Pattern(vpLimit+d, 0), scf))
			if d > 0 {
				g.exp = append(g.exp, c43Exp{must: true})
			} else {
				g.exp = append(g.exp, c43Exp{ctl: "vpabort"})
			}
			g.frames = append(g.frames, bin(protocol.AgreementVoteTag, votes[0], scf))
			g.exp = append(g.exp, c43Exp{hand: true, outTag: protocol.AgreementVoteTag, outData: votes[0]})
			g.allocLimit = []int{vpLimit, avLimit}
			cases = append(cases, g)
		}
		// the abort control message switches stateful decoding off: later VP frames are dropped
		a := &c43Case{Name: "b3/vp-abort-received", opt: c43PeerOpt{vote: true}}
		senc2, _ := vpack.NewStatefulEncoder(256)
		c0, _ := senc2.Compress(nil, stateless[0])
		c0 = append([]byte(nil), c0...)
		c1, _ := senc2.Compress(nil, stateless[1])
		c1 = append([]byte(nil), c1...)
		a.frames = []c43Frame{bin(protocol.VotePackedTag, c0, scf), bin(protocol.VotePackedTag, []byte{voteCompressionAbortMessage}, scf), bin(protocol.VotePackedTag, c1, scf)}
		a.exp = []c43Exp{{hand: true, outTag: protocol.AgreementVoteTag, outData: votes[0]}, {quiet: true}, {quiet: true}}
		a.allocLimit = []int{vpLimit, vpLimit, vpLimit}
		cases = append(cases, a)
	}
	return cases, nil
}

func c43B4Tags() []protocol.Tag {
	tags := append([]protocol.Tag{}, protocol.TagList...)
	return append(tags, protocol.Tag("zz"))
}

func c43BuildB4(as []protocol.Tag, cache map[string][]byte) []*c43Case {
	var cases []*c43Case
	tags := c43B4Tags()
	cached := func(key string, f func() []byte) []byte {
		if b, ok := cache[key]; ok {
			return b
		}
		b := f()
		cache[key] = b
		return b
	}
	first := func(tag protocol.Tag) ([]byte, c43Exp, bool) {
		limit := c43Limit(tag)
		switch tag {
		case protocol.MsgOfInterestTag:
			return c43ValidMI(limit), c43Exp{ctl: "mi"}, true
		case protocol.TopicMsgRespTag:
			return c43ValidTS(limit), c43Exp{resp: true}, true
		}
		if limit == 0 {
			p := c43Pattern(3000, 0x21)
			return p, c43RawExp(tag, p), true
		}
		p := c43Pattern(limit, 0x21)
		return p, c43RawExp(tag, p), true
	}
	for _, a := range as {
		pa, ea, _ := first(a)
		fa := c43FrameOf(a, pa)
		if ea.hand {
			ea.outData = fa[2:]
		}
		pa = nil
		for _, b := range tags {
			lb := c43Limit(b)
			if lb == 0 {
				continue
			}
			for _, d := range []int{0, 1} {
				var eb c43Exp
				fb := cached(fmt.Sprintf("%s/%d", b, d), func() []byte {
					switch b {
					case protocol.MsgOfInterestTag:
						return c43FrameOf(b, c43ValidMI(lb+d))
					case protocol.TopicMsgRespTag:
						return c43FrameOf(b, c43ValidTS(lb+d))
					}
					return c43FrameOf(b, c43Pattern(lb+d, 0x43))
				})
				switch b {
				case protocol.MsgOfInterestTag:
					eb = c43Exp{ctl: "mi"}
				case protocol.TopicMsgRespTag:
					eb = c43Exp{resp: true}
					if a == protocol.TopicMsgRespTag {
						// the first response consumed the only registered request: the second one is stale and discarded
						eb = c43Exp{quiet: true}
					}
				default:
					eb = c43RawExp(b, fb[2:])
				}
				al := lb
				if d == 1 {
					eb = c43Exp{must: true}
					if a == protocol.TopicMsgRespTag && b == protocol.TopicMsgRespTag {
						eb = c43Exp{quiet: true} // stale responses are discarded unbuffered whatever their size
					}
				}
				if a == protocol.TopicMsgRespTag && b == protocol.TopicMsgRespTag {
					al = -1
				}
				cuts := [][2]c43Script{
					{{Chunks: []int{len(fa)}, ErrAt: -1}, {Chunks: []int{len(fb)}, ErrAt: -1}},
					{{Chunks: c43Fixed(len(fa), 50001), ErrAt: -1, EOFWithData: true}, {Chunks: c43Fixed(len(fb), 50001), ErrAt: -1, EOFWithData: true}},
				}
				for ci, sc := range cuts {
					c := &c43Case{
						Name:        fmt.Sprintf("b4/%s@limit->%s@limit%+d/%d", a, b, d, ci),
						frames:      []c43Frame{{mtype: websocket.BinaryMessage, data: fa, script: sc[0]}, {mtype: websocket.BinaryMessage, data: fb, script: sc[1]}},
						exp:         []c43Exp{ea, eb},
						allocLimit:  []int{c43Limit(a), al},
						hasRespChan: true, respKey: c43RespKey, outstanding: 2,
					}
					cases = append(cases, c)
				}
			}
		}
	}
	return cases
}

func c43PartB(r *ve.Run, only string) {
	total := 0
	run := func(cases []*c43Case) {
		base := total
		total += len(cases)
		if r.Violations() > 0 {
			return // a violation was reported: the remaining groups add nothing
		}
		r.ParallelFor(len(cases), func(i int) {
			c := cases[i]
			if only != "" && c.Name != only {
				return
			}
			res := c43RunCase(c)
			r.Eval()
			if res.bad != "" {
				r.Report(res.key, fmt.Sprintf("wsPeer.readLoop case %s: %s", c.Name, res.bad), map[string]any{"engine": "enum", "part": "b", "case": c.Name, "index": base + i})
				return
			}
			tg := ""
			if len(c.frames[0].data) >= 2 {
				tg = string(c.frames[0].data[:2])
			}
			r.Class("b/" + tg + "/" + res.class)
			if (base+i)%211 == 0 {
				r.Sample(map[string]any{"part": "b", "case": c.Name, "outcome": res.class})
			}
		})
	}
	// groups are built and dropped one at a time to bound memory (payloads are up to 6 MiB, proposals up to 21 MB)
	for i, tag := range c43B1Tags() {
		run(c43BuildB1([]protocol.Tag{tag}, i == 0))
	}
	for _, d := range c43B2Sizes() {
		run(c43BuildB2([]int{d}))
	}
	b3, err := c43BuildB3()
	if err != nil {
		r.Note("HARNESS: %v", err)
		r.Capped()
	}
	run(b3)
	cache := map[string][]byte{}
	for _, a := range c43B4Tags() {
		run(c43BuildB4([]protocol.Tag{a}, cache))
	}
	r.Set("b_cases", total)
}
