package agreement

// C04, key-validity window family. "Validly signed and selected for the claimed round"
// includes that the sender's participation key is valid AT THAT ROUND (VoteFirstValid <=
// round <= VoteLastValid, see unauthenticatedVote.verify).
//
// Private consensus version verif-c04-kwin: committee size == total stake (accounts
// 1,2,3; threshold 4, weight == stake), SeedLookback = SeedRefreshInterval = 1, so
// BalanceRound(r) = r-2 (a small, known distance from the round). The ledger holds rounds
// 1..7. Account 1 (stake 2) has the key window [3,5]; accounts 0 and 2 have keys valid
// forever. Every account keeps signing (real makeVote) for every round.
// Enumerated: rounds 2..7 (= window-1 .. window+2) x 7 steps x ALL 8 voter subsets x
//   {no pair, the windowed account as equivocation pair (v,w)}; every single vote through
//   unauthenticatedVote.verify; every bundle through unauthenticatedBundle.verify; bundles
//   with step cert through Certificate.Authenticate against the block of that round;
//   quorums of valid votes through the real makeBundle (must be accepted).
// Oracle: a vote of account 1 is valid iff 3 <= round <= 5 (others always); accepted =>
//   every entry valid AND weight >= 4; makeBundle output on valid quorums must be accepted.
// Seeded change /verif/seeded/C04-r2A (expiry compared with BalanceRound) is DETECTED here
//   (rounds 6 and 7: BalanceRound = 4, 5 is still inside the window).

import (
	"context"
	"fmt"

	"github.com/algorand/go-algorand/config"
	"github.com/algorand/go-algorand/crypto"
	"github.com/algorand/go-algorand/data/basics"
	"github.com/algorand/go-algorand/data/bookkeeping"
	"github.com/algorand/go-algorand/data/committee"
	"github.com/algorand/go-algorand/protocol"
	ve "github.com/algorand/go-algorand/verifeng"
)

const (
	c04KwFirst = 3 // VoteFirstValid of the windowed account
	c04KwLast  = 5 // VoteLastValid
	c04KwAcct  = 1
	c04KwMaxR  = 7
)

// c04KeyWindow runs the family; a non-nil error is a harness defect.
func c04KeyWindow(r *ve.Run) error {
	stakes := []uint64{1, 2, 3}
	const thr, total = 4, 6
	version := protocol.ConsensusVersion("verif-c04-kwin")
	p := config.Consensus[protocol.ConsensusCurrentVersion]
	p.NumProposers = total
	p.SoftCommitteeSize, p.SoftCommitteeThreshold = total, thr
	p.CertCommitteeSize, p.CertCommitteeThreshold = total, thr
	p.NextCommitteeSize, p.NextCommitteeThreshold = total, thr
	p.LateCommitteeSize, p.LateCommitteeThreshold = total, thr
	p.RedoCommitteeSize, p.RedoCommitteeThreshold = total, thr
	p.DownCommitteeSize, p.DownCommitteeThreshold = total, thr
	p.SeedLookback, p.SeedRefreshInterval = 1, 1
	p.ApprovedUpgrades = map[protocol.ConsensusVersion]uint64{}
	config.Consensus[version] = p
	if BalanceRound(7, p) != 5 {
		return fmt.Errorf("BalanceRound(7) = %d, expected 5", BalanceRound(7, p))
	}

	n := len(stakes)
	state := map[basics.Address]basics.AccountData{}
	addrs := make([]basics.Address, n)
	vrfs := make([]*crypto.VRFSecrets, n)
	ots := make([]crypto.OneTimeSigner, n)
	for i := 0; i < n; i++ {
		var seed [32]byte
		copy(seed[:], fmt.Sprintf("verif-c04-kwin-acct-%d", i))
		pk, sk := crypto.VrfKeygenFromSeed(seed)
		vrfs[i] = &crypto.VRFSecrets{PK: pk, SK: sk}
		ots[i].OneTimeSignatureSecrets = crypto.GenerateOneTimeSignatureSecretsRNG(0, 2, crypto.MakePRNG(seed[:]))
		addrs[i] = basics.Address(crypto.Hash(seed[:]))
		ad := basics.AccountData{Status: basics.Online, MicroAlgos: basics.MicroAlgos{Raw: stakes[i]}, SelectionID: pk, VoteID: ots[i].OneTimeSignatureVerifier}
		if i == c04KwAcct {
			ad.VoteFirstValid, ad.VoteLastValid = c04KwFirst, c04KwLast
		}
		state[addrs[i]] = ad
	}
	ledger := makeTestLedgerWithConsensusVersion(state, func(basics.Round) (protocol.ConsensusVersion, error) { return version, nil })
	blocks := map[int]bookkeeping.Block{}
	for k := 1; k <= c04KwMaxR; k++ {
		blocks[k] = bookkeeping.Block{BlockHeader: bookkeeping.BlockHeader{Round: basics.Round(k), TimeStamp: int64(100 + k)}}
		ledger.EnsureBlock(blocks[k], Certificate{})
	}
	avv := MakeAsyncVoteVerifier(nil)
	defer avv.Quit()

	voteValid := func(a, rnd int) bool { return a != c04KwAcct || (rnd >= c04KwFirst && rnd <= c04KwLast) }

	type atom struct {
		uv   unauthenticatedVote
		v    vote
		good bool
	}
	for rnd := c04KwFirst - 1; rnd <= c04KwMaxR; rnd++ {
		val := proposalValue{OriginalProposer: addrs[0], BlockDigest: blocks[rnd].Digest(), EncodingDigest: crypto.Hash([]byte("verif-c04-kwin-enc"))}
		other := val
		other.EncodingDigest = crypto.Hash([]byte("verif-c04-kwin-enc2"))
		for _, s := range c04Steps {
			hv := val
			if s == down {
				hv = bottom
			}
			// building blocks: one vote per account for hv, plus the windowed account's vote for `other`
			mk := func(a int, pv proposalValue) (atom, error) {
				rv := rawVote{Sender: addrs[a], Round: basics.Round(rnd), Period: 0, Step: s, Proposal: pv}
				var uv unauthenticatedVote
				if s == down && pv != bottom { // makeVote refuses; sign by hand
					m, err := membership(ledger, addrs[a], rv.Round, 0, s)
					if err != nil {
						return atom{}, err
					}
					id := basics.OneTimeIDForRound(rv.Round, ots[a].KeyDilution(p.DefaultKeyDilution))
					uv = unauthenticatedVote{R: rv, Cred: committee.MakeCredential(&vrfs[a].SK, m.Selector), Sig: ots[a].Sign(id, rv)}
				} else {
					var err error
					uv, err = makeVote(rv, ots[a], vrfs[a], ledger)
					if err != nil {
						return atom{}, fmt.Errorf("makeVote: %v", err)
					}
				}
				v, err := uv.verify(ledger)
				r.Eval()
				ok := voteValid(a, rnd)
				r.Class(fmt.Sprintf("kwin/vote/acct%d/r%d/ok=%v", a, rnd, err == nil))
				if err == nil && !ok {
					r.Report("C04:vote-accepted-outside-key-window", fmt.Sprintf("[kwin] vote of account %d (key window [%d,%d]) for round %d step %d ACCEPTED by unauthenticatedVote.verify", a, c04KwFirst, c04KwLast, rnd, s),
						map[string]any{"engine": "enum", "variant": "kwin", "round": rnd, "step": uint64(s), "account": a})
				}
				if err != nil && ok && c04Legal(s, map[bool]int{true: c04Bot, false: c04V}[pv == bottom]) {
					r.Report("C04:vote-rejected-valid", fmt.Sprintf("[kwin] vote made by makeVote for account %d round %d step %d REJECTED: %v", a, rnd, s, err),
						map[string]any{"engine": "enum", "variant": "kwin", "round": rnd, "step": uint64(s), "account": a})
				}
				if err == nil && v.Cred.Weight != stakes[a] {
					return atom{}, fmt.Errorf("sortition not deterministic: account %d stake %d weight %d", a, stakes[a], v.Cred.Weight)
				}
				return atom{uv: uv, v: v, good: err == nil}, nil
			}
			atoms := make([]atom, n)
			for a := 0; a < n; a++ {
				at, err := mk(a, hv)
				if err != nil {
					return err
				}
				atoms[a] = at
			}
			second, err := mk(c04KwAcct, other)
			if err != nil {
				return err
			}
			for mask := uint(0); mask < 1<<uint(n); mask++ {
				for pairMode := 0; pairMode < 2; pairMode++ {
					if pairMode == 1 && (mask&(1<<c04KwAcct) == 0 || hv == bottom) {
						continue
					}
					ub := unauthenticatedBundle{Round: basics.Round(rnd), Period: 0, Step: s, Proposal: hv}
					valid := true
					var weight uint64
					var good []vote
					allGood := true
					for a := 0; a < n; a++ {
						if mask&(1<<uint(a)) == 0 {
							continue
						}
						weight += stakes[a]
						if !voteValid(a, rnd) {
							valid = false
						}
						if a == c04KwAcct && pairMode == 1 {
							ub.EquivocationVotes = append(ub.EquivocationVotes, equivocationVoteAuthenticator{Sender: addrs[a], Cred: atoms[a].uv.Cred,
								Sigs: [2]crypto.OneTimeSignature{atoms[a].uv.Sig, second.uv.Sig}, Proposals: [2]proposalValue{hv, other}})
							allGood = false // keep the makeBundle path to plain votes
							continue
						}
						ub.Votes = append(ub.Votes, voteAuthenticator{Sender: addrs[a], Cred: atoms[a].uv.Cred, Sig: atoms[a].uv.Sig})
						if atoms[a].good {
							good = append(good, atoms[a].v)
						} else {
							allGood = false
						}
					}
					if weight < thr {
						valid = false
					}
					_, verr := ub.verify(context.Background(), ledger, avv)
					r.Eval()
					r.Class(fmt.Sprintf("kwin/bundle/r%d/s%d/mask%d/pair%d/valid=%v/accepted=%v", rnd, s, mask, pairMode, valid, verr == nil))
					replay := map[string]any{"engine": "enum", "variant": "kwin", "round": rnd, "step": uint64(s), "mask": mask, "pair": pairMode}
					if verr == nil && !valid {
						r.Report("C04:accepted-outside-key-window", fmt.Sprintf("[kwin] bundle for round %d step %d, voters mask %03b (pair mode %d, weight %d) ACCEPTED although it contains a vote outside the sender's key window [%d,%d] or is below the threshold", rnd, s, mask, pairMode, weight, c04KwFirst, c04KwLast), replay)
					}
					if s == cert {
						cerr := Certificate(ub).Authenticate(blocks[rnd], ledger, avv)
						r.Eval()
						if cerr == nil && !valid {
							r.Report("C04:cert-accepted-outside-key-window", fmt.Sprintf("[kwin] certificate for round %d, voters mask %03b ACCEPTED although it contains a vote outside the sender's key window or is below the threshold", rnd, mask), replay)
						}
					}
					if valid && allGood && c04Legal(s, map[bool]int{true: c04Bot, false: c04V}[hv == bottom]) {
						mb := makeBundle(p, hv, good, nil)
						_, merr := mb.verify(context.Background(), ledger, avv)
						r.Eval()
						if merr != nil {
							r.Report("C04:rejected-makebundle-output", fmt.Sprintf("[kwin] output of makeBundle on a valid quorum (round %d step %d mask %03b) REJECTED: %v", rnd, s, mask, merr), replay)
						}
					}
				}
			}
		}
	}
	r.Assume("key-window family: SeedLookback = SeedRefreshInterval = 1 (BalanceRound = round-2); the windowed account keeps signing outside [VoteFirstValid, VoteLastValid]")
	return nil
}
