package agreement

// C01 - Consensus safety: no two honest nodes commit different blocks for a round.
// (header completed below once the bounds are frozen)

import (
	"encoding/json"
	"fmt"
	"testing"

	"github.com/algorand/go-algorand/crypto"
	"github.com/algorand/go-algorand/data/basics"
	ve "github.com/algorand/go-algorand/verifeng"
)

// c01Oracle checks one transition: every ensureAction agrees with every block any honest node
// holds (before the step) and with the other ensureActions of the step; the mock ledger saw no
// conflicting write; the state machine did not panic.
func c01Oracle(r *ve.Run, id string, cfgName string, pre *eagrSys, e eagrEv, out *eagrOut, path func() []eagrEv) {
	replay := func() any {
		return map[string]any{"engine": "E-AGR", "config": cfgName, "events": path()}
	}
	if out.panicMsg != "" {
		r.Report(id+":panic", fmt.Sprintf("[%s] after %v: %s", cfgName, e, out.panicMsg), replay())
		return
	}
	for _, c := range out.conflicts {
		r.Report(id+":ledger-conflict", fmt.Sprintf("[%s] after %v: %s", cfgName, e, c), replay())
	}
	seen := map[basics.Round]crypto.Digest{}
	for _, n := range pre.nodes {
		for rnd, ent := range n.led.entries {
			seen[rnd] = ent.digest
		}
	}
	for _, c := range out.commits {
		rnd := c.act.Certificate.Round
		d := c.act.Payload.Digest()
		if old, ok := seen[rnd]; ok && old != d {
			r.Report(id+":fork", fmt.Sprintf("[%s] after %v: node %d commits block %v for round %d (period %d) but block %v was already committed for that round by an honest node",
				cfgName, e, c.node, d, rnd, c.period, old), replay())
		}
		seen[rnd] = d
	}
}

type c01Replay struct {
	Config string   `json:"config"`
	Events []eagrEv `json:"events"`
}

func c01BFSConfigs() []*eagrBFS {
	env := eagrGetEnv(3, 2)
	mk := func(name string, proposers []bool, maxStep step, crashes int, maxStates int64) *eagrBFS {
		cfg := &eagrCfg{env: env, nNodes: 3, atomicVerify: true, atomicLoop: true, flightSet: true,
			maxRound: 1, maxPeriod: 1, proposers: proposers}
		return &eagrBFS{name: name, cfg: cfg, maxStep: maxStep, maxCrashes: crashes, maxStates: maxStates}
	}
	ls := func(name string, proposers []bool, maxStep step, defers int, skew bool, crashes int, maxStates int64) *eagrBFS {
		b := mk(name, proposers, maxStep, crashes, maxStates)
		b.cfg.ordered = true
		b.lockstep, b.maxDefers, b.skew = true, defers, skew
		return b
	}
	return []*eagrBFS{
		ls("ls-3h-2of3-3prop", nil, next, 0, false, 0, ve.Pick[int64](300000, 3000000)),
		mk("bfs-3h-2of3-1prop", []bool{true, false, false}, next, 0, ve.Pick[int64](20000, 3000000)),
	}
}

func TestVerif_C01(t *testing.T) {
	r := ve.NewRun("C01", "model_checking")
	configs := c01BFSConfigs()
	byName := map[string]*eagrBFS{}
	for _, b := range configs {
		byName[b.name] = b
	}
	if raw := r.ReplayRequest(); raw != nil {
		var rp c01Replay
		if err := json.Unmarshal(raw, &rp); err != nil {
			t.Fatalf("bad replay file: %v", err)
		}
		b := byName[rp.Config]
		if b == nil {
			t.Fatalf("unknown config %q", rp.Config)
		}
		var evs []eagrEv
		_, err := eagrReplay(b.cfg, rp.Events, func(i int, e eagrEv, s *eagrSys, out *eagrOut) bool {
			evs = append(evs, e)
			fmt.Printf("REPLAY %3d %v\n", i, e)
			for _, sub := range out.subs {
				fmt.Printf("        n%d %-60s -> %v\n", sub.node, sub.event, sub.acts)
			}
			c01Oracle(r, "C01", rp.Config, s, e, out, func() []eagrEv { return rp.Events[:i+1] })
			return true
		})
		if err != nil {
			t.Fatalf("replay: %v", err)
		}
		if r.Finish(ve.Coverage{Rule: "replay", Exhaustive: false}) > 0 {
			t.Fatal("violations")
		}
		return
	}
	var cov ve.Coverage
	cov.Exhaustive = true
	var total eagrStats
	for _, b := range configs {
		b := b
		b.onStep = func(pre *eagrSys, e eagrEv, post *eagrSys, out *eagrOut, path func() []eagrEv) {
			r.Eval()
			c01Oracle(r, "C01", b.name, pre, e, out, path)
			for _, c := range out.commits {
				r.Class(fmt.Sprintf("%s/commit/n%d/p%d", b.name, c.node, c.period))
			}
		}
		res := b.run(r)
		cov.States += res.states
		cov.Transitions += res.transitions
		cov.Traces += res.transitions
		if !res.exhaustive {
			cov.Exhaustive = false
			r.Capped()
		}
		total.add(&res.stats)
		r.Note("%s: states=%d transitions=%d depth=%d exhaustive=%v %s maxPeriod=%d commits=%d attests=%d persists=%d timeouts=%d deliveries=%d crashes=%d layers=%v",
			b.name, res.states, res.transitions, res.depth, res.exhaustive, res.capReason, res.maxPeriod, res.stats.commits, res.stats.attests, res.stats.persists, res.stats.timeouts, res.stats.deliveries, res.stats.crashes, res.layerSizes)
		fmt.Printf("C01 %s: states=%d transitions=%d depth=%d exhaustive=%v %s maxPeriod=%d commits=%d\n", b.name, res.states, res.transitions, res.depth, res.exhaustive, res.capReason, res.maxPeriod, res.stats.commits)
		if r.Violations() > 0 {
			break
		}
	}
	r.Set("commits_observed", total.commits)
	r.Set("submitTop_calls", total.submits)
	cov.Rule = "under construction"
	if r.Finish(cov) > 0 {
		t.Fatal("violations")
	}
}
