package data

// C41 — Decoding untrusted bytes is safe and bounded. Part "data": transaction groups exactly
// as the transaction handler decodes them from a gossip message (data/txHandler.go decodeMsg:
// a concatenation of SignedTxn encodings, at most bounds.MaxTxGroupSize of them).
//
// Enumerated: groups of k = 0..2*MaxTxGroupSize+2 concatenated valid transactions of three
// shapes (payment, application call with arguments and boxes, multisig+logicsig); for the
// groups of 1, 3 and MaxTxGroupSize transactions: every truncation, every byte x the msgpack
// marker alphabet, one and two trailing garbage bytes, and an extra transaction header
// (0x80.. / 0xde ..) after the last one. Oracle: decodeMsg never panics; it returns invalid or
// a group with 1 <= len <= MaxTxGroupSize and cap <= 2*MaxTxGroupSize whose `consumed` is
// within the input; k > MaxTxGroupSize and k == 0 are reported invalid, 1 <= k <=
// MaxTxGroupSize intact groups are accepted completely (consumed == len(input)).

import (
	"fmt"
	"runtime/debug"
	"sync"
	"testing"

	"github.com/algorand/go-algorand/config/bounds"
	"github.com/algorand/go-algorand/crypto"
	"github.com/algorand/go-algorand/data/basics"
	"github.com/algorand/go-algorand/data/transactions"
	"github.com/algorand/go-algorand/protocol"
	ve "github.com/algorand/go-algorand/verifeng"
)

var c41dataAlphabet = []byte{0x00, 0x7f, 0x80, 0x8f, 0x90, 0x9f, 0xa0, 0xbf, 0xc0, 0xc4, 0xc5, 0xc6, 0xdc, 0xdd, 0xde, 0xdf, 0xff}

func c41dataTxns() [][]byte {
	var a, b basics.Address
	a[0], b[31] = 1, 2
	hdr := transactions.Header{Sender: a, Fee: basics.MicroAlgos{Raw: 1000}, FirstValid: 5, LastValid: 1005, GenesisID: "g", Note: []byte{1, 2, 3}}
	pay := transactions.SignedTxn{Txn: transactions.Transaction{Type: protocol.PaymentTx, Header: hdr,
		PaymentTxnFields: transactions.PaymentTxnFields{Receiver: b, Amount: basics.MicroAlgos{Raw: 70000}}}}
	pay.Sig[3] = 9
	app := transactions.SignedTxn{Txn: transactions.Transaction{Type: protocol.ApplicationCallTx, Header: hdr,
		ApplicationCallTxnFields: transactions.ApplicationCallTxnFields{ApplicationID: 77, ApplicationArgs: [][]byte{{1}, {2, 3}}, Accounts: []basics.Address{b},
			ForeignApps: []basics.AppIndex{5}, Boxes: []transactions.BoxRef{{Index: 0, Name: []byte("bx")}}, ApprovalProgram: []byte{6, 0x81, 1}}}}
	app.Sig[1] = 7
	ms := transactions.SignedTxn{Txn: pay.Txn,
		Msig: crypto.MultisigSig{Version: 1, Threshold: 1, Subsigs: []crypto.MultisigSubsig{{Key: crypto.PublicKey{1}}, {Key: crypto.PublicKey{2}, Sig: crypto.Signature{3}}}},
	}
	ls := transactions.SignedTxn{Txn: pay.Txn, Lsig: transactions.LogicSig{Logic: []byte{6, 0x81, 1}, Args: [][]byte{{4}}}}
	return [][]byte{protocol.Encode(&pay), protocol.Encode(&app), protocol.Encode(&ms), protocol.Encode(&ls)}
}

func TestVerif_C41_data(t *testing.T) {
	r := ve.NewRun("C41", "exploration")
	txns := c41dataTxns()
	var mu sync.Mutex
	reported := map[string]int{}
	report := func(key, what string, in []byte) {
		mu.Lock()
		reported[key]++
		n := reported[key]
		mu.Unlock()
		if n <= 2 {
			r.Report(key, what, map[string]any{"engine": "enum", "part": "data", "input": fmt.Sprintf("%x", in)})
		}
	}
	// check runs decodeMsg and applies the oracle; wantAll: the input is an intact group of k txns
	check := func(in []byte, what string, intact int) {
		r.Eval()
		var grp []transactions.SignedTxn
		var consumed int
		var invalid bool
		panicked := false
		func() {
			defer func() {
				if e := recover(); e != nil {
					panicked = true
					report("C41:panic:data.decodeMsg", fmt.Sprintf("decodeMsg panicked on %s: %v\n%s", what, e, debug.Stack()), in)
				}
			}()
			grp, consumed, invalid = decodeMsg(in)
		}()
		if panicked {
			return
		}
		if invalid {
			r.Class("data/" + what[:4] + "/invalid")
			if intact >= 1 && intact <= bounds.MaxTxGroupSize {
				report("C41:data-rejects-valid-group", fmt.Sprintf("decodeMsg rejected an intact group of %d transactions (%s)", intact, what), in)
			}
			return
		}
		r.Class("data/" + what[:4] + "/accepted")
		if len(grp) < 1 || len(grp) > bounds.MaxTxGroupSize || cap(grp) > 2*bounds.MaxTxGroupSize {
			report("C41:above-bound:data.decodeMsg", fmt.Sprintf("decodeMsg returned a group of len %d cap %d (MaxTxGroupSize %d) for %s", len(grp), cap(grp), bounds.MaxTxGroupSize, what), in)
		}
		if consumed < 0 || consumed > len(in) {
			report("C41:data-consumed", fmt.Sprintf("decodeMsg consumed %d of %d bytes (%s)", consumed, len(in), what), in)
		}
		if intact == 0 || intact > bounds.MaxTxGroupSize {
			report("C41:data-accepts-oversized-group", fmt.Sprintf("decodeMsg accepted a group of %d transactions (%s)", intact, what), in)
		}
		if intact >= 1 && intact <= bounds.MaxTxGroupSize && (len(grp) != intact || consumed != len(in)) {
			report("C41:data-group-mismatch", fmt.Sprintf("intact group of %d decoded as %d transactions, consumed %d of %d", intact, len(grp), consumed, len(in)), in)
		}
	}
	group := func(k int) []byte {
		var b []byte
		for i := 0; i < k; i++ {
			b = append(b, txns[i%len(txns)]...)
		}
		return b
	}
	for k := 0; k <= 2*bounds.MaxTxGroupSize+2; k++ {
		check(group(k), fmt.Sprintf("size group of %d transactions", k), k)
	}
	for _, k := range []int{1, 3, bounds.MaxTxGroupSize} {
		g := group(k)
		r.ParallelFor(len(g), func(i int) {
			check(g[:i], fmt.Sprintf("trun group of %d truncated to %d", k, i), -1)
			buf := append([]byte(nil), g...)
			for _, x := range c41dataAlphabet {
				if x == g[i] {
					continue
				}
				buf[i] = x
				check(buf, fmt.Sprintf("byte group of %d byte %d := %02x", k, i, x), -1)
			}
		})
		for _, tail := range [][]byte{{0x00}, {0xc0}, {0x80}, {0x80, 0x80}, {0xde, 0xff, 0xff}, {0xdf, 0xff, 0xff, 0xff, 0xff}, {0x81}, {0x91, 0x80}} {
			check(append(append([]byte(nil), g...), tail...), fmt.Sprintf("tail group of %d followed by %x", k, tail), -1)
		}
	}
	r.Assume("decodeMsg is exercised directly (package data); back-pressure, dedup and signature verification of the handler are other properties")
	n := r.Finish(ve.Coverage{
		Rule:       fmt.Sprintf("part data: txHandler.decodeMsg on groups of 0..%d concatenated valid transactions (4 shapes), and on every truncation / every byte x 17-marker alphabet / 8 trailing fragments of the groups of 1, 3 and %d transactions", 2*bounds.MaxTxGroupSize+2, bounds.MaxTxGroupSize),
		Exhaustive: true,
	})
	if n > 0 {
		t.Fatal("violations")
	}
}
