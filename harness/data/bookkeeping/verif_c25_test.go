package bookkeeping

// C25 — Rewards accounting distributes exactly the rewards rate.
//
// Engine E-ENUM on the real RewardsState.NextRewardsState.
//
// Enumerated (full cartesian product, no sampling):
//   * every protocol registered in config.Consensus (sorted by name; includes the package's
//     upstream test protocols) plus synthetic parameter sets derived from the current version
//     with RewardsCalculationFix x PendingResidueRewards in all four combinations,
//     RewardsRateRefreshInterval in {1, 2, 500000} and MinBalance in {0, 100000}
//     (NextRewardsState takes the parameters by value, nothing is registered);
//   * RewardsLevel, RewardsResidue, RewardsRate in B = {0,1,2, 2^32-1, 2^32+1, 10^16, 2^63-1, 2^63+1, 2^64-1}
//     (quick tier: level in {0,1,10^16,2^63+1,2^64-1} only; thorough: all of B);
//   * totalRewardUnits in B (0 included, see below);
//   * incentive-pool balance in {0, min-1, min, min+1, min+residue-1, min+residue, min+residue+1,
//     min+interval*k-1|+0|+1 and min+residue+interval*k-1|+0|+1 for k in {1,2,3,10^6}, 10^16, 2^64-1}
//     (values outside uint64 dropped);
//   * next round in {recalc-1, recalc, recalc+1} for RewardsRecalculationRound = 500000
//     (thorough: also 1 and 2^40).
//
// Oracle (big.Int, written from the property statement and the RewardsState doc comments):
//   R1 no panic, FeeSink/RewardsPool carried over — everywhere.
//   R2 off a refresh round the rate and the recalculation round do not change; on a refresh round
//      (nextRound == RewardsRecalculationRound): RewardsRecalculationRound' = nextRound + interval,
//      rate' * interval <= pool - floor where floor = MinBalance (+ the carried residue when
//      PendingResidueRewards), and rate' == 0 when pool <= floor.
//   R3 on the admissible domain — units > 0, rateInEffect + residue < 2^64,
//      level + (rateInEffect+residue)/units < 2^64 — with rateInEffect = rate' (the refreshed one)
//      under RewardsCalculationFix and the previous header's rate otherwise:
//      (level'-level)*units + (residue'-residue) == rateInEffect, and residue' < units ("leftover").
//   Outside the admissible domain (and for units == 0) only R1/R2 are demanded: the code documents
//   that it keeps the previous level there. This is the stated assumption of DESIGN.md §6.
//
// Not covered: operands off the boundary grid; the pool withdrawal in ledger/eval (StartEvaluator).
//
// Mutants (bin/mut, quick tier, data/bookkeeping/block.go) — all DETECTED:
//   M1 `nextResidue := rewardsRate % totalRewardUnits` (carried residue dropped)                  -> C25:conservation
//   M2 refresh `OSub(incentivePoolBalance.Raw, maxSpentOver-nextProto.MinBalance)` (min-balance
//      floor ignored)                                                                             -> C25:refresh-overspend
//   M3 `if !nextProto.RewardsCalculationFix` (own: old/new rate swapped; only visible on a refresh
//      round whose refreshed rate differs from the old one)                                       -> C25:conservation
//   M4 `RewardsRecalculationRound = nextRound + interval - 1` (own)                               -> C25:recalc-round

import (
	"fmt"
	"math"
	"math/big"
	"sort"
	"strings"
	"sync/atomic"
	"testing"

	"github.com/algorand/go-algorand/config"
	"github.com/algorand/go-algorand/data/basics"
	"github.com/algorand/go-algorand/logging"
	"github.com/algorand/go-algorand/protocol"
	ve "github.com/algorand/go-algorand/verifeng"
)

// c25log swallows the (expected, very frequent) overflow error logs of NextRewardsState.
type c25log struct {
	logging.Logger
	n *atomic.Int64
}

func (l c25log) Errorf(string, ...any) { l.n.Add(1) }

type c25proto struct {
	name string
	p    config.ConsensusParams
}

func c25B() []uint64 {
	return []uint64{0, 1, 2, 1<<32 - 1, 1<<32 + 1, 10_000_000_000_000_000, 1<<63 - 1, 1<<63 + 1, math.MaxUint64}
}

var c25two64 = new(big.Int).Lsh(big.NewInt(1), 64)

func c25bi(x uint64) *big.Int { return new(big.Int).SetUint64(x) }

// c25pools is the pool-balance grid for (min, residue, interval).
func c25pools(min, residue, interval uint64) []uint64 {
	var cands []*big.Int
	add := func(x *big.Int) {
		for _, d := range []int64{-1, 0, 1} {
			cands = append(cands, new(big.Int).Add(x, big.NewInt(d)))
		}
	}
	cands = append(cands, big.NewInt(0), c25bi(10_000_000_000_000_000), c25bi(math.MaxUint64))
	m, rs, iv := c25bi(min), c25bi(residue), c25bi(interval)
	mr := new(big.Int).Add(m, rs)
	add(m)
	add(mr)
	for _, k := range []int64{1, 2, 3, 1_000_000} {
		step := new(big.Int).Mul(iv, big.NewInt(k))
		add(new(big.Int).Add(m, step))
		add(new(big.Int).Add(mr, step))
	}
	seen := map[uint64]bool{}
	var out []uint64
	for _, c := range cands {
		if c.Sign() < 0 || c.Cmp(c25two64) >= 0 {
			continue
		}
		v := c.Uint64()
		if !seen[v] {
			seen[v] = true
			out = append(out, v)
		}
	}
	sort.Slice(out, func(i, j int) bool { return out[i] < out[j] })
	return out
}

type c25case struct {
	Proto                      string
	Fix, Pending               bool
	MinBalance, Interval       uint64
	Level, Residue, Rate       uint64
	Recalc, NextRound          uint64
	Pool, Units                uint64
	GotLevel, GotResidue       uint64
	GotRate, GotRecalc         uint64
}

// c25judge runs one point through the real code and the oracle. It returns a class label and,
// on a violation, a key and a message.
func c25judge(pr *c25proto, s RewardsState, nextRound basics.Round, pool, units uint64, log logging.Logger) (class, vkey, vmsg string, cs c25case) {
	p := pr.p
	cs = c25case{Proto: pr.name, Fix: p.RewardsCalculationFix, Pending: p.PendingResidueRewards, MinBalance: p.MinBalance, Interval: p.RewardsRateRefreshInterval,
		Level: s.RewardsLevel, Residue: s.RewardsResidue, Rate: s.RewardsRate, Recalc: uint64(s.RewardsRecalculationRound), NextRound: uint64(nextRound), Pool: pool, Units: units}
	var res RewardsState
	var pan any
	func() {
		defer func() { pan = recover() }()
		res = s.NextRewardsState(nextRound, p, basics.MicroAlgos{Raw: pool}, units, log)
	}()
	if pan != nil {
		return "", "C25:panic", fmt.Sprintf("NextRewardsState panicked: %v", pan), cs
	}
	cs.GotLevel, cs.GotResidue, cs.GotRate, cs.GotRecalc = res.RewardsLevel, res.RewardsResidue, res.RewardsRate, uint64(res.RewardsRecalculationRound)
	if res.FeeSink != s.FeeSink || res.RewardsPool != s.RewardsPool {
		return "", "C25:special-addresses", "FeeSink/RewardsPool not carried over", cs
	}
	refresh := nextRound == s.RewardsRecalculationRound
	class = fmt.Sprintf("fix=%v pend=%v", p.RewardsCalculationFix, p.PendingResidueRewards)
	if refresh {
		iv := c25bi(p.RewardsRateRefreshInterval)
		wantRecalc := new(big.Int).Add(c25bi(uint64(nextRound)), iv)
		if c25bi(uint64(res.RewardsRecalculationRound)).Cmp(wantRecalc) != 0 {
			return "", "C25:recalc-round", fmt.Sprintf("refresh at round %d: RewardsRecalculationRound' = %d, want %s", nextRound, res.RewardsRecalculationRound, wantRecalc), cs
		}
		floor := c25bi(p.MinBalance)
		if p.PendingResidueRewards {
			floor.Add(floor, c25bi(s.RewardsResidue))
		}
		avail := new(big.Int).Sub(c25bi(pool), floor)
		sched := new(big.Int).Mul(c25bi(res.RewardsRate), iv)
		if avail.Sign() <= 0 {
			if res.RewardsRate != 0 {
				return "", "C25:refresh-below-floor", fmt.Sprintf("pool %d is at or below the floor %s but the refreshed rate is %d", pool, floor, res.RewardsRate), cs
			}
			class += " refresh:pool<=floor"
		} else {
			if sched.Cmp(avail) > 0 {
				return "", "C25:refresh-overspend", fmt.Sprintf("refreshed rate %d * interval %d = %s exceeds pool %d - floor %s = %s", res.RewardsRate, p.RewardsRateRefreshInterval, sched, pool, floor, avail), cs
			}
			if res.RewardsRate == 0 {
				class += " refresh:rate0"
			} else {
				class += " refresh:rate>0"
			}
		}
	} else {
		if res.RewardsRate != s.RewardsRate || res.RewardsRecalculationRound != s.RewardsRecalculationRound {
			return "", "C25:rate-changed-off-refresh", fmt.Sprintf("round %d is not the recalculation round %d but rate/recalc changed: %d/%d -> %d/%d", nextRound, s.RewardsRecalculationRound, s.RewardsRate, s.RewardsRecalculationRound, res.RewardsRate, res.RewardsRecalculationRound), cs
		}
		if nextRound < s.RewardsRecalculationRound {
			class += " before-recalc"
		} else {
			class += " after-recalc"
		}
	}
	if units == 0 {
		return class + " units=0", "", "", cs
	}
	// rate in effect for this round
	eff := s.RewardsRate
	if p.RewardsCalculationFix {
		eff = res.RewardsRate
	}
	total := new(big.Int).Add(c25bi(eff), c25bi(s.RewardsResidue))
	if total.Cmp(c25two64) >= 0 {
		return class + " inadmissible:rate+residue", "", "", cs
	}
	quo := new(big.Int).Quo(total, c25bi(units))
	if new(big.Int).Add(c25bi(s.RewardsLevel), quo).Cmp(c25two64) >= 0 {
		return class + " inadmissible:level", "", "", cs
	}
	// (level'-level)*units + (residue'-residue) == rate in effect
	lhs := new(big.Int).Sub(c25bi(res.RewardsLevel), c25bi(s.RewardsLevel))
	lhs.Mul(lhs, c25bi(units))
	lhs.Add(lhs, c25bi(res.RewardsResidue))
	lhs.Sub(lhs, c25bi(s.RewardsResidue))
	if lhs.Cmp(c25bi(eff)) != 0 {
		return "", "C25:conservation", fmt.Sprintf("(level'-level)*units + (residue'-residue) = %s but the rate in effect is %d (level %d->%d, residue %d->%d, units %d, old rate %d, new rate %d, fix=%v refresh=%v)",
			lhs, eff, s.RewardsLevel, res.RewardsLevel, s.RewardsResidue, res.RewardsResidue, units, s.RewardsRate, res.RewardsRate, p.RewardsCalculationFix, refresh), cs
	}
	if res.RewardsResidue >= units {
		return "", "C25:residue-not-leftover", fmt.Sprintf("residue' %d is not smaller than the number of reward units %d", res.RewardsResidue, units), cs
	}
	switch {
	case res.RewardsLevel != s.RewardsLevel && s.RewardsResidue != 0 && eff%units != (eff+s.RewardsResidue)%units:
		class += " level-moved+residue-carried"
	case res.RewardsLevel != s.RewardsLevel:
		class += " level-moved"
	case res.RewardsResidue != s.RewardsResidue:
		class += " residue-only"
	default:
		class += " nothing-to-distribute"
	}
	if refresh && p.RewardsCalculationFix && res.RewardsRate != s.RewardsRate {
		class += " new-rate-in-effect"
	} else if refresh && res.RewardsRate != s.RewardsRate {
		class += " old-rate-in-effect"
	}
	return class, "", "", cs
}

func TestVerif_C25(t *testing.T) {
	r := ve.NewRun("C25", "exploration")
	r.Assume("the conservation equation is demanded only on the admissible domain: totalRewardUnits > 0, rateInEffect + residue < 2^64 and level + (rateInEffect+residue)/units < 2^64; outside it (documented 'keep the previous level' path) only no-panic and the refresh rules are checked")
	r.Assume("rate in effect = refreshed rate under RewardsCalculationFix, previous header's rate otherwise; the refresh floor uses the residue carried into the round (the refresh precedes the distribution)")
	r.Assume("residue' < totalRewardUnits is taken from the RewardsResidue doc comment ('leftover MicroAlgos after the distribution')")

	var protos []*c25proto
	var names []string
	for v := range config.Consensus {
		names = append(names, string(v))
	}
	sort.Strings(names)
	skipped := 0
	flagCombos := map[string]int{}
	for _, n := range names {
		p := config.Consensus[protocol.ConsensusVersion(n)]
		if p.RewardsRateRefreshInterval == 0 {
			skipped++ // a refresh would divide by zero; no such protocol exists upstream
			continue
		}
		protos = append(protos, &c25proto{name: n, p: p})
		flagCombos[fmt.Sprintf("fix=%v,pending=%v", p.RewardsCalculationFix, p.PendingResidueRewards)]++
	}
	nReal := len(protos)
	cur := config.Consensus[protocol.ConsensusCurrentVersion]
	for _, fix := range []bool{false, true} {
		for _, pend := range []bool{false, true} {
			for _, iv := range []uint64{1, 2, 500000} {
				for _, mb := range []uint64{0, 100000} {
					p := cur
					p.RewardsCalculationFix, p.PendingResidueRewards, p.RewardsRateRefreshInterval, p.MinBalance = fix, pend, iv, mb
					protos = append(protos, &c25proto{name: fmt.Sprintf("synthetic(fix=%v,pend=%v,interval=%d,min=%d)", fix, pend, iv, mb), p: p})
				}
			}
		}
	}
	r.Set("protocols_registered", nReal)
	r.Set("protocols_synthetic", len(protos)-nReal)
	r.Set("protocols_skipped_interval0", skipped)
	r.Set("registered_flag_combinations", flagCombos)

	B := c25B()
	// quick tier: the level only matters through the overflow of level + quotient, so 5 of the 9
	// boundary values are used for it (thorough: all 9)
	levels := ve.Pick([]uint64{0, 1, 10_000_000_000_000_000, 1<<63 + 1, math.MaxUint64}, B)
	recalcs := ve.Pick([]uint64{500000}, []uint64{1, 500000, 1 << 40})
	var errlogs atomic.Int64
	base := logging.NewLogger()
	log := c25log{Logger: base, n: &errlogs}
	var fails atomic.Int64
	nb := len(B)
	dims := []int{len(protos), len(levels), nb, nb}
	total := ve.ProductSize(dims)
	visited := r.ParallelFor(total, func(i int) {
		idx := make([]int, 4)
		ve.Unrank(i, dims, idx)
		pr := protos[idx[0]]
		level, residue, rate := levels[idx[1]], B[idx[2]], B[idx[3]]
		pools := c25pools(pr.p.MinBalance, residue, pr.p.RewardsRateRefreshInterval)
		classes := map[string]struct{}{}
		n := 0
		for _, recalc := range recalcs {
			for _, nextRound := range []uint64{recalc - 1, recalc, recalc + 1} {
				s := RewardsState{RewardsLevel: level, RewardsResidue: residue, RewardsRate: rate, RewardsRecalculationRound: basics.Round(recalc)}
				s.FeeSink[0], s.RewardsPool[0] = 0xfe, 0x9f
				for _, pool := range pools {
					for _, units := range B {
						n++
						class, vkey, vmsg, cs := c25judge(pr, s, basics.Round(nextRound), pool, units, log)
						if vkey != "" {
							if fails.Add(1) <= 5 {
								r.Report(vkey, vmsg+" — case "+ve.JSON(cs), cs)
							}
							continue
						}
						if _, ok := classes[class]; !ok {
							classes[class] = struct{}{}
							if i%977 == 0 && strings.Contains(class, "level-moved") {
								r.Sample(cs)
							}
						}
					}
				}
			}
		}
		r.EvalN(n)
		for c := range classes {
			r.Class(c)
		}
	})
	r.Set("overflow_error_logs_swallowed", errlogs.Load())
	cov := ve.Coverage{
		Rule: fmt.Sprintf("full product: %d protocols (%d registered + %d synthetic incl. all 4 RewardsCalculationFix x PendingResidueRewards combinations) x level in %v x residue,rate in B (9 boundary values each) x units in B x pool grid (<= 33 boundary values around MinBalance, MinBalance+residue and interval multiples) x round in {recalc-1,recalc,recalc+1} x recalc in %v; each point through the real NextRewardsState and a big.Int oracle",
			len(protos), nReal, len(protos)-nReal, levels, recalcs),
		Exhaustive: visited == int64(total),
	}
	if n := r.Finish(cov); n > 0 {
		t.Fatalf("C25: %d violation(s)", n)
	}
}
