package agreement

// C02 part (ii) — "a vote is released to the network only after the state that led to it is
// durably persisted; no equivocation across crash/restart", checked on the REAL
// agreement.Service (level fault_enumeration; all identifiers c02ii-prefixed; test
// TestVerif_C02_service).
//
// SYSTEM.  One real Service (MakeService/Start: real demux, asyncPseudonode,
// asyncPersistenceLoop, AsyncVoteVerifier with its own execution pool, file-backed crash DB
// opened with db.MakeAccessor) holding the keys of ONE of four accounts. A private consensus
// version makes sortition deterministic (every committee size = total stake = 4, threshold 3,
// every account weighs 1 in every step). Network, Ledger, KeyManager, Clock, RandomSource,
// BlockFactory/Validator are harness-owned; the other three accounts are played by the
// harness with REAL proposals (proposalForBlock) and votes (makeVote). Every execution runs
// inside a testing/synctest bubble: synctest.Wait() is the (deterministic) quiescence
// barrier after each stimulus, and the persistence loop's Ledger.Wait(round-1) is a gate the
// harness opens only after quiescence, so that "the vote left before the commit" cannot hide
// behind a race.
//
// HISTORIES (round 1).  H1: the node proposes P_S; filter timeout (soft vote P_S); a
// competing proposal P_L with a LOWER credential arrives late; two foreign soft votes for P_S
// (cert vote P_S); deadline timeout (next vote P_S, step 3); two foreign next votes for P_S
// (period 1, re-proposal of P_S); filter timeout of period 1 (soft vote P_S in period 1).
// H2: as H1 but P_L arrives BEFORE the filter timeout, so every vote is for P_L.
// H3: as H1 but the crash-DB commit of the period-0 soft attest is made to FAIL (verifhook
// fault injection): the soft vote must be dropped (no vote without persisted state).
// H4: as H3 with the other interleaving of the two goroutines involved: the pseudonode task of the
// soft attest is held inside makeVote (gate in the harness ledger's LookupAgreement) until the
// failing persist and its checkpoint event were processed by the main loop, and only then reaches
// its wait on persistStateDone (in H3 the persistence gates open at quiescence, i.e. the task is
// already waiting). Persist-failure x {checkpoint after / before the pseudonode waits} is thereby
// enumerated.
// Recorded, interleaved: every db.commit.post of the crash DB (with a copy of the DB files)
// and every own vote handed to Network.Broadcast/Relay.
//
// ORACLE A (released => persisted): every own vote of a step >= soft is preceded by a
// crash-DB commit whose state — decoded with the package's own restore/decode — contains the
// attest action of exactly that (round, period, step, value) or a player that has advanced
// past that step.
// ORACLE B (no equivocation across restart): for EVERY prefix k of the recorded sequence a
// second Service is started on the DB copy of the last commit in the prefix (same keys,
// same ledger) and driven by each of 3 continuations that tempt a different vote. The foreign
// accounts stay within the protocol's fault model (the node's vote tracker panics by contract
// when two values reach a quorum): the two accounts that voted in the history only RESEND
// their history votes, the third (the competing proposer) sends its proposal, a soft vote for
// it and a next vote for bottom. Continuations: competing proposal before the filter timeout +
// resends; filter timeout before the competing proposal + resends; competing proposal first,
// no resends (no quorum forms: a node that lost its state soft-votes the other proposal and
// next-votes bottom). votes(prefix k) ∪ votes(after restart) must not contain two values for
// one (round, period, step >= soft).
//
// SECOND LEVEL.  The same two oracles are applied to the restarted node: (A) every vote it
// sends must be covered by its crash DB as of that moment (the restored copy until its own
// first commit); (B) it is crashed AGAIN after each of its commits and at its end, a third
// Service is started on that DB copy and tempted (quick: first continuation, thorough: all).
//
// FINDING on the unchanged tree (genuine, same defect as findings/C02-restart-overwrites-crash-state
// found independently by part (i)): Service.mainLoop does not initialise persistRouter /
// persistStatus / persistActions from the restored state, so the re-executed restored attest
// action overwrites the crash DB with an EMPTY state before the vote is re-sent (keys
// C02:restart-released-before-persisted, C02:equivocation-after-second-restart: after a second
// crash the node soft-votes the other proposal). With the three assignments added in the
// restore branch the check is green (550 evaluations).
//
// NOT COVERED: proposal-step votes (assemble / repropose are by design not persisted: a
// restarted node may propose again — excluded from oracle B, reported to the lead);
// fast-recovery votes (late/redo/down); more than one round; schedules other than
// "quiescence after every stimulus".
//
// Both the ledger gate and a second gate at db.commit.pre of the crash DB are opened only at
// quiescence (uncrashed runs), so every vote that CAN leave before the commit does leave before
// it: the verdict of oracle A does not depend on goroutine timing.
//
// MUTANTS (bin/mut C02 ... --only):
//   Ma actions.go pseudonodeAction.persistent() returns false                      DETECTED (A and B)
//   Mb actions.go attest branch: persistStateDone pre-signalled                    MISSED = equivalent:
//      demux.prioritize(persistCompleteEvents) before prioritize(voteEvents) still holds the votes
//      back until the checkpoint event (second safeguard); not property-breaking on its own
//   Mb' = Mb + the two prioritize calls swapped (vote queue ahead of the checkpoint) DETECTED (A and B)
//   Mc persistence.go asyncPersistenceLoop.loop: checkpointEvent sent before persist() DETECTED (A and B)
//   seeded C02-B: checkpointAction.do hands the persist error over with a non-blocking send    DETECTED by H4 only
//      (C02:released-before-persisted: the soft vote leaves with nothing on disk); H3 alone cannot see it.

import (
	"context"
	"crypto/sha256"
	"database/sql"
	"encoding/json"
	"fmt"
	"io"
	"os"
	"path/filepath"
	"sort"
	"strings"
	"sync"
	"testing"
	"testing/synctest"
	"time"

	"github.com/algorand/go-deadlock"

	"github.com/algorand/go-algorand/config"
	"github.com/algorand/go-algorand/crypto"
	"github.com/algorand/go-algorand/data/account"
	"github.com/algorand/go-algorand/data/basics"
	"github.com/algorand/go-algorand/data/bookkeeping"
	"github.com/algorand/go-algorand/data/committee"
	"github.com/algorand/go-algorand/logging"
	"github.com/algorand/go-algorand/protocol"
	"github.com/algorand/go-algorand/util/db"
	"github.com/algorand/go-algorand/util/timers"
	"github.com/algorand/go-algorand/util/verifhook"
	ve "github.com/algorand/go-algorand/verifeng"
)

// ---------------------------------------------------------------------------------------------
// environment: accounts, keys, consensus version

const c02iiAccounts = 4
const c02iiThreshold = 3

type c02iiEnv struct {
	version protocol.ConsensusVersion
	params  config.ConsensusParams
	addrs   []basics.Address
	vrfs    []*crypto.VRFSecrets
	ots     []*crypto.OneTimeSignatureSecrets
	online  map[basics.Address]basics.OnlineAccountData
	block0  bookkeeping.Block
	self    int   // the account whose keys the Service holds
	low     int   // the harness account with the lowest proposal credential (lower than self's)
	others  []int // the harness accounts (all but self), low first
}

var c02iiEnvOnce sync.Once
var c02iiTheEnv *c02iiEnv

type c02iiSeedRNG struct {
	seed [32]byte
	ctr  uint64
}

func (g *c02iiSeedRNG) RandBytes(buf []byte) {
	for len(buf) > 0 {
		var c [8]byte
		for i := 0; i < 8; i++ {
			c[i] = byte(g.ctr >> (8 * i))
		}
		g.ctr++
		d := sha256.Sum256(append(g.seed[:], c[:]...))
		n := copy(buf, d[:])
		buf = buf[n:]
	}
}

func c02iiGetEnv() *c02iiEnv {
	c02iiEnvOnce.Do(func() {
		env := &c02iiEnv{version: protocol.ConsensusVersion("verif-c02ii")}
		p := config.Consensus[protocol.ConsensusCurrentVersion]
		p.ApprovedUpgrades = map[protocol.ConsensusVersion]uint64{}
		sz := uint64(c02iiAccounts)
		p.NumProposers = sz
		p.SoftCommitteeSize, p.SoftCommitteeThreshold = sz, c02iiThreshold
		p.CertCommitteeSize, p.CertCommitteeThreshold = sz, c02iiThreshold
		p.NextCommitteeSize, p.NextCommitteeThreshold = sz, c02iiThreshold
		p.LateCommitteeSize, p.LateCommitteeThreshold = sz, c02iiThreshold
		p.RedoCommitteeSize, p.RedoCommitteeThreshold = sz, c02iiThreshold
		p.DownCommitteeSize, p.DownCommitteeThreshold = sz, c02iiThreshold
		config.Consensus[env.version] = p
		env.params = p
		env.online = map[basics.Address]basics.OnlineAccountData{}
		for i := 0; i < c02iiAccounts; i++ {
			var seed [32]byte
			copy(seed[:], fmt.Sprintf("verif-c02ii-account-%d", i))
			ad := sha256.Sum256(append([]byte("verif-c02ii-addr"), seed[:]...))
			var addr basics.Address
			copy(addr[:], ad[:])
			pk, sk := crypto.VrfKeygenFromSeed(seed)
			vrf := &crypto.VRFSecrets{PK: pk, SK: sk}
			rng := &c02iiSeedRNG{seed: seed}
			ots := crypto.GenerateOneTimeSignatureSecretsRNG(0, 2, rng)
			env.addrs = append(env.addrs, addr)
			env.vrfs = append(env.vrfs, vrf)
			env.ots = append(env.ots, ots)
			env.online[addr] = basics.OnlineAccountData{
				MicroAlgosWithRewards: basics.MicroAlgos{Raw: 1},
				VotingData:            basics.VotingData{VoteID: ots.OneTimeSignatureVerifier, SelectionID: vrf.PK},
			}
		}
		env.block0 = bookkeeping.Block{}
		c02iiTheEnv = env
	})
	return c02iiTheEnv
}

// chooseRoles orders the accounts by the credential of their period-0 proposal vote of round
// 1: the Service gets the account with the HIGHEST one, so that a harness proposal beats it.
func (env *c02iiEnv) chooseRoles() error {
	l := &c02iiLedger{env: env}
	type cr struct {
		acct int
		cred committee.Credential
	}
	var crs []cr
	for i := range env.addrs {
		_, pv, err := env.proposalFor(i, 1, 0, l)
		if err != nil {
			return err
		}
		uv, err := makeVote(rawVote{Sender: env.addrs[i], Round: 1, Period: 0, Step: propose, Proposal: pv}, env.signer(i), env.vrfs[i], l)
		if err != nil {
			return err
		}
		v, err := uv.verify(l)
		if err != nil {
			return err
		}
		crs = append(crs, cr{i, v.Cred})
	}
	sort.Slice(crs, func(i, j int) bool { return crs[i].cred.Less(crs[j].cred) })
	env.low = crs[0].acct
	env.self = crs[len(crs)-1].acct
	env.others = nil
	for _, c := range crs[:len(crs)-1] {
		env.others = append(env.others, c.acct)
	}
	return nil
}

func (env *c02iiEnv) signer(i int) crypto.OneTimeSigner {
	return crypto.OneTimeSigner{OneTimeSignatureSecrets: env.ots[i]}
}

// ---------------------------------------------------------------------------------------------
// blocks

type c02iiVBlock struct{ blk bookkeeping.Block }

func (b c02iiVBlock) Block() bookkeeping.Block { return b.blk }
func (b c02iiVBlock) Round() basics.Round      { return b.blk.Round() }
func (b c02iiVBlock) FinishBlock(s committee.Seed, proposer basics.Address, eligible bool) Block {
	b.blk.BlockHeader.Seed = s
	b.blk.BlockHeader.Proposer = proposer
	if !eligible {
		b.blk.BlockHeader.ProposerPayout = basics.MicroAlgos{}
	}
	return Block(b.blk)
}

type c02iiValidator struct{}

func (c02iiValidator) Validate(ctx context.Context, e bookkeeping.Block) (ValidatedBlock, error) {
	return c02iiVBlock{blk: e}, nil
}

type c02iiFactory struct{ env *c02iiEnv }

func (f c02iiFactory) AssembleBlock(r basics.Round, _ []basics.Address) (UnfinishedBlock, error) {
	return f.env.emptyBlock(r), nil
}

func (env *c02iiEnv) emptyBlock(r basics.Round) c02iiVBlock {
	blk := bookkeeping.Block{BlockHeader: bookkeeping.BlockHeader{Round: r, Branch: bookkeeping.BlockHash(env.block0.Digest())}}
	blk.BlockHeader.CurrentProtocol = env.version
	return c02iiVBlock{blk: blk}
}

func (env *c02iiEnv) proposalFor(acct int, r basics.Round, p period, l LedgerReader) (proposal, proposalValue, error) {
	return proposalForBlock(env.addrs[acct], env.vrfs[acct], env.emptyBlock(r), p, l)
}

// ---------------------------------------------------------------------------------------------
// ledger (round 1 is never committed)

type c02iiLedger struct {
	env *c02iiEnv

	mu          sync.Mutex
	gated       bool
	gate        chan struct{} // the persistence loop's Wait(0) while gated
	persistReqs int
	never       chan struct{}
	ensured     []string

	// lookup gate: while armed, LookupAgreement (reached by the pseudonode task through makeVote ->
	// membership) blocks, so that the harness decides whether the pseudonode reaches its wait on
	// persistStateDone BEFORE or AFTER the checkpoint of its attest was processed by the main loop.
	holdLookups bool
	lookupGate  chan struct{}
}

func (l *c02iiLedger) armLookups() {
	l.mu.Lock()
	l.holdLookups = true
	l.lookupGate = make(chan struct{})
	l.mu.Unlock()
}

func (l *c02iiLedger) releaseLookups() {
	l.mu.Lock()
	if l.holdLookups {
		l.holdLookups = false
		close(l.lookupGate)
	}
	l.mu.Unlock()
}

func (l *c02iiLedger) NextRound() basics.Round { return 1 }

func (l *c02iiLedger) Wait(r basics.Round) chan struct{} {
	l.mu.Lock()
	defer l.mu.Unlock()
	if r >= 1 {
		if l.never == nil {
			l.never = make(chan struct{})
		}
		return l.never
	}
	// r == 0: only asyncPersistenceLoop.loop asks for it ("previous round is on disk")
	l.persistReqs++
	if !l.gated {
		c := make(chan struct{})
		close(c)
		return c
	}
	if l.gate == nil {
		l.gate = make(chan struct{})
	}
	return l.gate
}

// openGate lets the pending persist request (if any) proceed; reports whether one was pending.
func (l *c02iiLedger) openGate() bool {
	l.mu.Lock()
	defer l.mu.Unlock()
	if l.gate == nil {
		return false
	}
	close(l.gate)
	l.gate = nil
	return true
}

func (l *c02iiLedger) Seed(r basics.Round) (committee.Seed, error) {
	if r >= 1 {
		return committee.Seed{}, fmt.Errorf("c02iiLedger: seed of round %d not available", r)
	}
	return l.env.block0.Seed(), nil
}

func (l *c02iiLedger) LookupDigest(r basics.Round) (crypto.Digest, error) {
	if r >= 1 {
		return crypto.Digest{}, fmt.Errorf("c02iiLedger: round %d not committed", r)
	}
	return l.env.block0.Digest(), nil
}

func (l *c02iiLedger) LookupAgreement(r basics.Round, a basics.Address) (basics.OnlineAccountData, error) {
	l.mu.Lock()
	var g chan struct{}
	if l.holdLookups {
		g = l.lookupGate
	}
	l.mu.Unlock()
	if g != nil {
		<-g
	}
	if r >= 1 {
		return basics.OnlineAccountData{}, fmt.Errorf("c02iiLedger: balances of round %d not available", r)
	}
	return l.env.online[a], nil
}

func (l *c02iiLedger) Circulation(r basics.Round, voteRnd basics.Round) (basics.MicroAlgos, error) {
	if r >= 1 {
		return basics.MicroAlgos{}, fmt.Errorf("c02iiLedger: circulation of round %d not available", r)
	}
	return basics.MicroAlgos{Raw: c02iiAccounts}, nil
}

func (l *c02iiLedger) ConsensusParams(r basics.Round) (config.ConsensusParams, error) {
	return l.env.params, nil
}

func (l *c02iiLedger) ConsensusVersion(r basics.Round) (protocol.ConsensusVersion, error) {
	return l.env.version, nil
}

func (l *c02iiLedger) note(s string) {
	l.mu.Lock()
	l.ensured = append(l.ensured, s)
	l.mu.Unlock()
}

func (l *c02iiLedger) EnsureValidatedBlock(e ValidatedBlock, c Certificate) {
	l.note("EnsureValidatedBlock")
}
func (l *c02iiLedger) EnsureBlock(e bookkeeping.Block, c Certificate)   { l.note("EnsureBlock") }
func (l *c02iiLedger) EnsureDigest(c Certificate, v *AsyncVoteVerifier) { l.note("EnsureDigest") }

// ---------------------------------------------------------------------------------------------
// key manager, clock, random source

type c02iiKeys struct{ env *c02iiEnv }

func (k c02iiKeys) VotingKeys(votingRound, _ basics.Round) []account.ParticipationRecordForRound {
	e := k.env
	return []account.ParticipationRecordForRound{{ParticipationRecord: account.ParticipationRecord{
		Account: e.addrs[e.self], FirstValid: 0, LastValid: 1000, EffectiveLast: 1000,
		VRF: e.vrfs[e.self], Voting: e.ots[e.self],
	}}}
}

func (k c02iiKeys) Record(basics.Address, basics.Round, account.ParticipationAction) {}

type c02iiTimeout struct {
	delta time.Duration
	ch    chan time.Time
	fired bool
}

type c02iiClock struct {
	mu     sync.Mutex
	zeroes int
	ta     map[TimeoutType]*c02iiTimeout
}

func c02iiNewClock() *c02iiClock { return &c02iiClock{ta: map[TimeoutType]*c02iiTimeout{}} }

func (c *c02iiClock) Zero() timers.Clock[TimeoutType] {
	c.mu.Lock()
	defer c.mu.Unlock()
	c.zeroes++
	c.ta = map[TimeoutType]*c02iiTimeout{}
	return c
}

func (c *c02iiClock) Since() time.Duration { return 1 }

func (c *c02iiClock) TimeoutAt(d time.Duration, tt TimeoutType) <-chan time.Time {
	c.mu.Lock()
	defer c.mu.Unlock()
	ta, ok := c.ta[tt]
	if !ok || ta.delta != d {
		ta = &c02iiTimeout{delta: d, ch: make(chan time.Time)}
		c.ta[tt] = ta
	}
	return ta.ch
}

func (c *c02iiClock) Encode() []byte { return nil }

func (c *c02iiClock) Decode([]byte) (timers.Clock[TimeoutType], error) { return c, nil }

// fire fires the armed timeout of the given type, if there is one that has not fired yet.
func (c *c02iiClock) fire(tt TimeoutType) bool {
	c.mu.Lock()
	defer c.mu.Unlock()
	ta, ok := c.ta[tt]
	if !ok || ta.fired {
		return false
	}
	ta.fired = true
	close(ta.ch)
	return true
}

type c02iiRand struct{}

func (c02iiRand) Uint64() uint64 { return ^uint64(0) / 2 }

// ---------------------------------------------------------------------------------------------
// recorder + network

type c02iiVoteID struct {
	Round  basics.Round
	Period period
	Step   step
}

type c02iiEvent struct {
	Kind  string // commit | vote
	Via   string
	ID    c02iiVoteID
	Value proposalValue
	Snap  string // commit: directory with the copy of the crash DB files
	Held  bool   // vote: emitted while the persistence gate was closed with a request pending
}

func (e c02iiEvent) String() string {
	if e.Kind == "commit" {
		return "commit"
	}
	return fmt.Sprintf("vote(r%d p%d s%d %s)", e.ID.Round, e.ID.Period, e.ID.Step, c02iiPV(e.Value))
}

func c02iiPV(pv proposalValue) string {
	if pv == bottom {
		return "bot"
	}
	return fmt.Sprintf("%x/op%d", pv.BlockDigest[:3], pv.OriginalPeriod)
}

type c02iiRecorder struct {
	mu      sync.Mutex
	events  []c02iiEvent
	self    basics.Address
	crashDB *sql.DB
	dbPath  string
	snapDir string
	led     *c02iiLedger
	herr    error

	gated      bool
	commitGate chan struct{} // a crash-DB transaction parked at db.commit.pre (gated runs)
	failOcc    int           // occurrence index of the crash-DB commit to fail (-1: none)
	preSeen    int
	failed     bool
}

// openCommitGate lets the transaction parked at db.commit.pre (if any) commit.
func (rc *c02iiRecorder) openCommitGate() bool {
	rc.mu.Lock()
	defer rc.mu.Unlock()
	if rc.commitGate == nil {
		return false
	}
	close(rc.commitGate)
	rc.commitGate = nil
	return true
}

func (rc *c02iiRecorder) add(e c02iiEvent) {
	rc.mu.Lock()
	rc.events = append(rc.events, e)
	rc.mu.Unlock()
}

func (rc *c02iiRecorder) onSend(via string, tag protocol.Tag, data []byte) {
	var uv unauthenticatedVote
	switch tag {
	case protocol.AgreementVoteTag:
		if err := protocol.Decode(data, &uv); err != nil {
			return
		}
	case protocol.ProposalPayloadTag:
		var tp transmittedPayload
		if err := protocol.Decode(data, &tp); err != nil {
			return
		}
		uv = tp.PriorVote
	default:
		return
	}
	if uv.R.Sender != rc.self {
		return
	}
	held := false
	if rc.led != nil {
		rc.led.mu.Lock()
		held = rc.led.gate != nil
		rc.led.mu.Unlock()
	}
	rc.mu.Lock()
	held = held || rc.commitGate != nil
	rc.mu.Unlock()
	rc.add(c02iiEvent{Kind: "vote", Via: via, ID: c02iiVoteID{uv.R.Round, uv.R.Period, uv.R.Step}, Value: uv.R.Proposal, Held: held})
}

func c02iiCopyDB(src, dstDir string) error {
	if err := os.MkdirAll(dstDir, 0o755); err != nil {
		return err
	}
	for _, suf := range []string{"", "-wal", "-shm"} {
		b, err := os.ReadFile(src + suf)
		if err != nil {
			if os.IsNotExist(err) {
				continue
			}
			return err
		}
		if err := os.WriteFile(filepath.Join(dstDir, "crash.sqlite"+suf), b, 0o644); err != nil {
			return err
		}
	}
	return nil
}

// hook is the verifhook handler: every successful commit of the crash DB is a durable step.
func (rc *c02iiRecorder) hook(name string, args ...any) error {
	if len(args) < 2 {
		return nil
	}
	h, _ := args[0].(*sql.DB)
	ro, _ := args[1].(bool)
	if h != rc.crashDB || ro {
		return nil
	}
	if name == "db.commit.pre" {
		// gated runs: park the commit until everything else has come to rest
		rc.mu.Lock()
		var g chan struct{}
		if rc.gated {
			g = make(chan struct{})
			rc.commitGate = g
		}
		rc.mu.Unlock()
		if g != nil {
			<-g
		}
		rc.mu.Lock()
		occ := rc.preSeen
		rc.preSeen++
		inject := occ == rc.failOcc && !rc.failed
		if inject {
			rc.failed = true
		}
		rc.mu.Unlock()
		if inject {
			return fmt.Errorf("verif: injected crash-DB commit failure")
		}
		return nil
	}
	if name != "db.commit.post" || len(args) < 3 {
		return nil
	}
	if cerr, _ := args[2].(error); cerr != nil {
		return nil
	}
	rc.mu.Lock()
	n := len(rc.events)
	rc.mu.Unlock()
	dir := filepath.Join(rc.snapDir, fmt.Sprintf("c%03d", n))
	if err := c02iiCopyDB(rc.dbPath, dir); err != nil {
		rc.mu.Lock()
		rc.herr = err
		rc.mu.Unlock()
	}
	rc.add(c02iiEvent{Kind: "commit", Snap: dir})
	return nil
}

type c02iiNet struct {
	rc                   *c02iiRecorder
	votes, props, bundle chan Message
}

func c02iiNewNet(rc *c02iiRecorder) *c02iiNet {
	return &c02iiNet{rc: rc, votes: make(chan Message, 256), props: make(chan Message, 64), bundle: make(chan Message, 64)}
}

func (n *c02iiNet) Messages(tag protocol.Tag) <-chan Message {
	switch tag {
	case protocol.AgreementVoteTag:
		return n.votes
	case protocol.ProposalPayloadTag:
		return n.props
	default:
		return n.bundle
	}
}
func (n *c02iiNet) Broadcast(tag protocol.Tag, data []byte) error {
	n.rc.onSend("broadcast", tag, data)
	return nil
}
func (n *c02iiNet) Relay(h MessageHandle, tag protocol.Tag, data []byte) error {
	n.rc.onSend("relay", tag, data)
	return nil
}
func (n *c02iiNet) Disconnect(h MessageHandle) {}
func (n *c02iiNet) Start()                     {}

func (n *c02iiNet) inject(tag protocol.Tag, data []byte) {
	h := new(int)
	m := Message{MessageHandle: h, Data: data}
	switch tag {
	case protocol.AgreementVoteTag:
		n.votes <- m
	case protocol.ProposalPayloadTag:
		n.props <- m
	}
}

// ---------------------------------------------------------------------------------------------
// one node execution (inside a synctest bubble)

type c02iiNode struct {
	env   *c02iiEnv
	led   *c02iiLedger
	clock *c02iiClock
	net   *c02iiNet
	rc    *c02iiRecorder
	acc   db.Accessor
	svc   *Service
}

func c02iiStartNode(env *c02iiEnv, dbPath, snapDir string, gated bool, failOcc int) (*c02iiNode, error) {
	n := &c02iiNode{env: env}
	n.led = &c02iiLedger{env: env, gated: gated}
	n.clock = c02iiNewClock()
	acc, err := db.MakeAccessor(dbPath, false, false)
	if err != nil {
		return nil, err
	}
	n.acc = acc
	n.rc = &c02iiRecorder{self: env.addrs[env.self], crashDB: acc.Handle, dbPath: dbPath, snapDir: snapDir, led: n.led, gated: gated, failOcc: failOcc}
	n.net = c02iiNewNet(n.rc)
	lg := logging.NewLogger()
	lg.SetOutput(io.Discard)
	lg.SetLevel(logging.Error)
	verifhook.SetHandler(n.rc.hook)
	svc, err := MakeService(Parameters{
		Logger: lg, Ledger: n.led, Network: n.net, KeyManager: c02iiKeys{env}, BlockValidator: c02iiValidator{},
		BlockFactory: c02iiFactory{env}, Clock: n.clock, Accessor: acc, Local: config.Local{}, RandomSource: c02iiRand{},
	})
	if err != nil {
		verifhook.SetHandler(nil)
		acc.Close()
		return nil, err
	}
	n.svc = svc
	svc.Start()
	return n, nil
}

func (n *c02iiNode) stop() {
	n.rc.mu.Lock()
	n.rc.gated = false
	n.rc.mu.Unlock()
	n.rc.openCommitGate()
	n.led.openGate()
	n.svc.Shutdown()
	n.rc.openCommitGate()
	n.led.openGate()
	synctest.Wait()
	verifhook.SetHandler(nil)
	n.acc.Close()
	synctest.Wait()
}

// settle waits for quiescence; a persist request held at the ledger gate, or a crash-DB
// transaction parked at db.commit.pre, is released only once everything else has come to
// rest, and the procedure repeats until nothing moves.
func (n *c02iiNode) settle() {
	for i := 0; i < 64; i++ {
		synctest.Wait()
		if !n.led.openGate() && !n.rc.openCommitGate() {
			return
		}
	}
}

// vote makes (real makeVote) and injects a vote of a harness account; returns the wire bytes.
func (n *c02iiNode) vote(acct int, p period, s step, pv proposalValue) ([]byte, error) {
	env := n.env
	uv, err := makeVote(rawVote{Sender: env.addrs[acct], Round: 1, Period: p, Step: s, Proposal: pv}, env.signer(acct), env.vrfs[acct], n.led)
	if err != nil {
		return nil, err
	}
	data := protocol.Encode(&uv)
	n.net.inject(protocol.AgreementVoteTag, data)
	return data, nil
}

// propose injects the period-0 proposal (payload + proposal vote) of a harness account.
func (n *c02iiNode) propose(acct int) (proposalValue, []byte, error) {
	env := n.env
	pp, pv, err := env.proposalFor(acct, 1, 0, n.led)
	if err != nil {
		return proposalValue{}, nil, err
	}
	uv, err := makeVote(rawVote{Sender: env.addrs[acct], Round: 1, Period: 0, Step: propose, Proposal: pv}, env.signer(acct), env.vrfs[acct], n.led)
	if err != nil {
		return proposalValue{}, nil, err
	}
	tp := transmittedPayload{unauthenticatedProposal: pp.u(), PriorVote: uv}
	data := protocol.Encode(&tp)
	n.net.inject(protocol.ProposalPayloadTag, data)
	return pv, data, nil
}

func (n *c02iiNode) events() []c02iiEvent {
	n.rc.mu.Lock()
	defer n.rc.mu.Unlock()
	return append([]c02iiEvent{}, n.rc.events...)
}

// ---------------------------------------------------------------------------------------------
// scripts

// c02iiHist is the result of the uncrashed run.
type c02iiHist struct {
	evs      []c02iiEvent
	pS, pL   proposalValue
	voted    proposalValue // the value of every attest vote of the history
	plMsg    []byte        // the competing proposal (payload + proposal vote) of account low
	softMsgs [][]byte      // the foreign soft votes of the history
	nextMsgs [][]byte      // the foreign next votes of the history
}

// c02iiHistory: the uncrashed run. lowFirst: the competing lower-credential proposal arrives
// before the filter timeout (H2) or after the soft vote (H1).
func c02iiHistory(t *testing.T, env *c02iiEnv, dbPath, snapDir string, lowFirst bool, failOcc int, checkpointFirst bool) (h *c02iiHist, err error) {
	h = &c02iiHist{}
	synctest.Test(t, func(t *testing.T) {
		var n *c02iiNode
		n, err = c02iiStartNode(env, dbPath, snapDir, true, failOcc)
		if err != nil {
			return
		}
		defer func() {
			n.stop()
			h.evs = n.events()
			if err == nil {
				err = n.rc.herr
			}
		}()
		n.settle()
		_, h.pS, err = env.proposalFor(env.self, 1, 0, n.led)
		if err != nil {
			return
		}
		h.voted = h.pS
		if lowFirst {
			if h.pL, h.plMsg, err = n.propose(env.low); err != nil {
				return
			}
			n.settle()
			h.voted = h.pL
		}
		if checkpointFirst {
			// hold the pseudonode task of the soft attest inside makeVote until the (failing) persist and
			// its checkpoint event have been processed by the main loop; only then let it reach its wait
			n.led.armLookups()
		}
		n.clock.fire(TimeoutFilter)
		n.settle()
		if checkpointFirst {
			n.led.releaseLookups()
			n.settle()
		}
		if !lowFirst {
			if h.pL, h.plMsg, err = n.propose(env.low); err != nil {
				return
			}
			n.settle()
		}
		// two foreign soft votes for the value the node soft-voted: soft quorum, cert vote
		for _, a := range env.others[1:] {
			var d []byte
			if d, err = n.vote(a, 0, soft, h.voted); err != nil {
				return
			}
			h.softMsgs = append(h.softMsgs, d)
		}
		n.settle()
		n.clock.fire(TimeoutDeadline)
		n.settle()
		// two foreign next votes for the same value: next quorum, period 1
		for _, a := range env.others[1:] {
			var d []byte
			if d, err = n.vote(a, 0, next, h.voted); err != nil {
				return
			}
			h.nextMsgs = append(h.nextMsgs, d)
		}
		n.settle()
		n.clock.fire(TimeoutFilter)
		n.settle()
	})
	return
}

// c02iiCont is a continuation after the restart: a sequence of stimuli, each followed by
// quiescence. PL = the competing proposal, F = filter timeout, D = deadline timeout,
// RS / RN = the foreign soft / next votes of the history are resent, LS = account low
// soft-votes its own proposal, LN = account low next-votes bottom.
type c02iiCont struct {
	Name  string
	Steps []string
}

var c02iiConts = []c02iiCont{
	{Name: "otherProposalFirst+resends", Steps: []string{"PL", "F", "RS", "D", "RN", "F", "D"}},
	{Name: "filterFirst+resends", Steps: []string{"F", "PL", "RS", "D", "RN", "F", "D"}},
	{Name: "otherProposalFirst+noQuorum", Steps: []string{"PL", "F", "LS", "D", "LN", "F", "D"}},
}

// c02iiRestart runs a second Service on the given crash DB copy and returns what it sends.
func c02iiRestart(t *testing.T, env *c02iiEnv, dbPath, snapDir string, c c02iiCont, h *c02iiHist) (evs []c02iiEvent, err error) {
	synctest.Test(t, func(t *testing.T) {
		var n *c02iiNode
		n, err = c02iiStartNode(env, dbPath, snapDir, false, -1)
		if err != nil {
			return
		}
		defer func() {
			n.stop()
			evs = n.events()
			if err == nil {
				err = n.rc.herr
			}
		}()
		n.settle()
		for _, st := range c.Steps {
			switch st {
			case "PL":
				n.net.inject(protocol.ProposalPayloadTag, h.plMsg)
			case "F":
				n.clock.fire(TimeoutFilter)
			case "D":
				n.clock.fire(TimeoutDeadline)
			case "RS":
				for _, d := range h.softMsgs {
					n.net.inject(protocol.AgreementVoteTag, d)
				}
			case "RN":
				for _, d := range h.nextMsgs {
					n.net.inject(protocol.AgreementVoteTag, d)
				}
			case "LS":
				if _, err = n.vote(env.low, 0, soft, h.pL); err != nil {
					return
				}
			case "LN":
				if _, err = n.vote(env.low, 0, next, bottom); err != nil {
					return
				}
			}
			n.settle()
		}
	})
	return
}

// ---------------------------------------------------------------------------------------------
// oracles

// c02iiDecodeSnap decodes the state persisted in a crash DB copy with the package's own
// restore/decode.
func c02iiDecodeSnap(snap string) (p player, acts []action, err error) {
	tmp := snap + ".read"
	_ = os.RemoveAll(tmp)
	if err = c02iiCopyDB(filepath.Join(snap, "crash.sqlite"), tmp); err != nil {
		return
	}
	defer os.RemoveAll(tmp)
	acc, err := db.MakeAccessor(filepath.Join(tmp, "crash.sqlite"), false, false)
	if err != nil {
		return
	}
	defer acc.Close()
	lg := logging.NewLogger()
	lg.SetOutput(io.Discard)
	raw, err := restore(lg, acc)
	if err != nil {
		return
	}
	_, _, p, acts, err = decode(raw, c02iiNewClock(), makeServiceLogger(lg), false)
	return
}

func c02iiCovers(p player, acts []action, e c02iiEvent) bool {
	for _, a := range acts {
		if pa, ok := a.(pseudonodeAction); ok && pa.T == attest && pa.Round == e.ID.Round && pa.Period == e.ID.Period && pa.Step == e.ID.Step && pa.Proposal == e.Value {
			return true
		}
	}
	if p.Round != e.ID.Round {
		return p.Round > e.ID.Round
	}
	if p.Period != e.ID.Period {
		return p.Period > e.ID.Period
	}
	return p.Step > e.ID.Step
}

type c02iiReplay struct {
	History string
	K       int
	Cont    string
}

func TestVerif_C02_service(t *testing.T) {
	deadlock.Opts.Disable = true
	logging.Base().SetLevel(logging.Error)
	logging.Base().SetOutput(io.Discard)

	run := ve.NewRun("C02", "fault_enumeration")
	run.Assume("one node, round 1, two scripted histories; stimuli are applied one at a time with quiescence (synctest.Wait) in between; the three foreign accounts may send anything")
	run.Assume("a crash is process death: the crash DB is as of its last commit (SQLite trusted below transaction granularity)")
	run.Assume("proposal-step votes (assemble/repropose) are not persisted by design and are outside both oracles")
	env := c02iiGetEnv()
	if err := env.chooseRoles(); err != nil {
		t.Fatalf("HARNESS-FAILURE roles: %v", err)
	}
	scratch := ve.ScratchDir("c02ii")
	defer os.RemoveAll(scratch)

	var wantReplay *c02iiReplay
	if raw := run.ReplayRequest(); raw != nil {
		wantReplay = &c02iiReplay{}
		if err := json.Unmarshal(raw, wantReplay); err != nil {
			t.Fatalf("HARNESS-FAILURE replay request: %v", err)
		}
	}

	var points, restarts, restarts2, votesChecked, commits int64
	level2Conts := ve.Pick(1, len(c02iiConts)) // continuations used after the second crash
	for _, hist := range []struct {
		Name     string
		LowFirst bool
		FailOcc  int // crash-DB commit occurrence made to fail (0 is the table creation)
		// CheckpointFirst: the failed checkpoint is processed by the main loop BEFORE the pseudonode task
		// reaches its wait on persistStateDone (H3 has the other order: the gates open at quiescence,
		// when the task is already waiting)
		CheckpointFirst bool
	}{{"H1-ownProposalVoted", false, -1, false}, {"H2-otherProposalVoted", true, -1, false}, {"H3-softVotePersistFails", false, 1, false},
		{"H4-softVotePersistFails-checkpointBeforePseudonodeWaits", false, 1, true}} {
		if wantReplay != nil && wantReplay.History != hist.Name {
			continue
		}
		hdir := filepath.Join(scratch, hist.Name)
		_ = os.MkdirAll(hdir, 0o755)
		h, err := c02iiHistory(t, env, filepath.Join(hdir, "crash.sqlite"), filepath.Join(hdir, "snap"), hist.LowFirst, hist.FailOcc, hist.CheckpointFirst)
		if err != nil {
			t.Fatalf("HARNESS-FAILURE history %s: %v", hist.Name, err)
		}
		evs, voted := h.evs, h.voted
		var seq []string
		nAttestVotes := 0
		for _, e := range evs {
			seq = append(seq, e.String())
			if e.Kind == "vote" && e.ID.Step >= soft {
				nAttestVotes++
			}
			if e.Kind == "commit" {
				commits++
			}
		}
		run.Sample(map[string]any{"history": hist.Name, "events": seq})
		// ---- oracle A
		lastCommit := -1
		for i, e := range evs {
			if e.Kind == "commit" {
				lastCommit = i
				continue
			}
			if e.ID.Step < soft {
				continue
			}
			votesChecked++
			run.Eval()
			if lastCommit < 0 {
				run.Report("C02:released-before-any-persist", fmt.Sprintf("history %s: own vote %s (event %d) was handed to the network before any crash-DB commit; events: %v", hist.Name, e, i, seq), c02iiReplay{hist.Name, i, ""})
				continue
			}
			p, acts, err := c02iiDecodeSnap(evs[lastCommit].Snap)
			if err != nil && strings.Contains(err.Error(), "no crash state") {
				run.Report("C02:released-before-persisted", fmt.Sprintf("history %s: own vote %s (event %d) was handed to the network while the crash DB (as of commit event %d) holds no agreement state at all; events: %v", hist.Name, e, i, lastCommit, seq), c02iiReplay{hist.Name, i, ""})
				continue
			}
			if err != nil {
				run.Report("C02:persisted-state-undecodable", fmt.Sprintf("history %s: crash DB as of commit event %d does not decode: %v", hist.Name, lastCommit, err), c02iiReplay{hist.Name, i, ""})
				continue
			}
			if !c02iiCovers(p, acts, e) {
				run.Report("C02:released-before-persisted", fmt.Sprintf("history %s: own vote %s (event %d, gate closed: %v) was handed to the network, but the last crash-DB commit before it (event %d) holds player (r%d p%d s%d) and actions %v — neither the attest action of this vote nor a later step; events: %v",
					hist.Name, e, i, e.Held, lastCommit, p.Round, p.Period, p.Step, acts, seq), c02iiReplay{hist.Name, i, ""})
			}
			run.Class(fmt.Sprintf("A|%s|p%d s%d|covered-by-%s", hist.Name, e.ID.Period, e.ID.Step, map[bool]string{true: "action-or-step"}[true]))
		}

		// non-vacuity of the history: soft, cert, next of period 0 and soft of period 1
		need := map[c02iiVoteID]bool{{1, 0, soft}: false, {1, 0, cert}: false, {1, 0, next}: false, {1, 1, soft}: false}
		if hist.FailOcc >= 0 {
			// the persist of the period-0 soft attest fails: that vote must be dropped (oracle A
			// flags it otherwise); without it no soft quorum forms, the node next-votes bottom
			need = map[c02iiVoteID]bool{{1, 0, next}: false}
			voted = bottom
		}
		// (evaluated after oracle A: a tree that releases the vote whose persist failed changes the
		// rest of the history, which is a violation reported by oracle A, not a harness failure)
		if run.Violations() > 0 {
			continue
		}
		for _, e := range evs {
			if e.Kind == "vote" {
				if _, ok := need[e.ID]; ok {
					need[e.ID] = true
					if e.Value != voted {
						t.Fatalf("HARNESS-FAILURE history %s: %s is not for the expected value %s", hist.Name, e, c02iiPV(voted))
					}
				}
			}
		}
		for id, ok := range need {
			if !ok && wantReplay == nil {
				t.Fatalf("HARNESS-FAILURE history %s did not produce the vote %+v; events: %v", hist.Name, id, seq)
			}
		}

		// ---- oracle B: restart at every prefix
		for k := 0; k <= len(evs); k++ {
			if wantReplay != nil && wantReplay.K != k && wantReplay.Cont != "" {
				continue
			}
			points++
			sent := map[c02iiVoteID]proposalValue{}
			snap := ""
			for _, e := range evs[:k] {
				if e.Kind == "commit" {
					snap = e.Snap
				} else if e.ID.Step >= soft {
					sent[e.ID] = e.Value
				}
			}
			for ci, c := range c02iiConts {
				if wantReplay != nil && wantReplay.Cont != "" && wantReplay.Cont != c.Name {
					continue
				}
				if run.OutOfTime() {
					break
				}
				rdir := filepath.Join(hdir, fmt.Sprintf("restart-k%02d-c%d", k, ci))
				_ = os.MkdirAll(rdir, 0o755)
				dbp := filepath.Join(rdir, "crash.sqlite")
				if snap != "" {
					if err := c02iiCopyDB(filepath.Join(snap, "crash.sqlite"), rdir); err != nil {
						t.Fatalf("HARNESS-FAILURE copy: %v", err)
					}
				}
				revs, err := c02iiRestart(t, env, dbp, filepath.Join(rdir, "snap"), c, h)
				if err != nil {
					t.Fatalf("HARNESS-FAILURE restart %s k=%d %s: %v", hist.Name, k, c.Name, err)
				}
				restarts++
				run.Eval()
				var after []string
				viol := false
				for _, e := range revs {
					if e.Kind != "vote" || e.ID.Step < soft {
						continue
					}
					after = append(after, e.String())
					if before, ok := sent[e.ID]; ok && before != e.Value && !viol {
						viol = true
						run.Report("C02:equivocation-after-restart", fmt.Sprintf("history %s, crash after event %d of %v, restart with continuation %q: the node had sent %s for (r%d p%d s%d) before the crash and sent %s after the restart (restored from %q); votes after restart: %v",
							hist.Name, k, seq, c.Name, c02iiPV(before), e.ID.Round, e.ID.Period, e.ID.Step, c02iiPV(e.Value), snap, after), c02iiReplay{hist.Name, k, c.Name})
					}
				}
				// two values for one step within the restarted run itself
				seen := map[c02iiVoteID]proposalValue{}
				for _, e := range revs {
					if e.Kind != "vote" || e.ID.Step < soft {
						continue
					}
					if v, ok := seen[e.ID]; ok && v != e.Value {
						run.Report("C02:equivocation", fmt.Sprintf("history %s k=%d %s: restarted node sent two values for (r%d p%d s%d)", hist.Name, k, c.Name, e.ID.Round, e.ID.Period, e.ID.Step), c02iiReplay{hist.Name, k, c.Name})
					}
					seen[e.ID] = e.Value
				}
				kind := "start"
				if k > 0 {
					kind = evs[k-1].String()
				}
				run.Class(fmt.Sprintf("B|%s|after:%s|%s|%s", hist.Name, kind, c.Name, strings.Join(after, ",")))

				// ---- oracle A on the restarted node: what it sends must be covered by the crash DB
				// as of that moment (the restored copy until its own first commit)
				lastSnap := snap
				for j, e := range revs {
					if e.Kind == "commit" {
						lastSnap = e.Snap
						continue
					}
					if e.ID.Step < soft {
						continue
					}
					votesChecked++
					covered := false
					desc := "no crash state at all"
					if lastSnap != "" {
						p2, acts2, derr := c02iiDecodeSnap(lastSnap)
						if derr == nil {
							covered = c02iiCovers(p2, acts2, e)
							desc = fmt.Sprintf("player (r%d p%d s%d), actions %v", p2.Round, p2.Period, p2.Step, acts2)
						} else {
							desc = "undecodable: " + derr.Error()
						}
					}
					if !covered {
						var rs []string
						for _, x := range revs {
							rs = append(rs, x.String())
						}
						run.Report("C02:restart-released-before-persisted", fmt.Sprintf("history %s, crash after event %d of %v, restart (%s): the restarted node handed %s to the network (its event %d of %v) while its crash DB held %s — a second crash at this point forgets the vote",
							hist.Name, k, seq, c.Name, e, j, rs, desc), c02iiReplay{hist.Name, k, c.Name})
						break
					}
				}

				// ---- oracle B, second level: crash AGAIN after each commit of the restarted node
				// and at its end, restart a third Service, tempt it
				sent2 := map[c02iiVoteID]proposalValue{}
				for id, v := range sent {
					sent2[id] = v
				}
				snap2 := snap
				for j := 0; j <= len(revs); j++ {
					atCommit := j > 0 && revs[j-1].Kind == "commit"
					if j > 0 {
						e := revs[j-1]
						if e.Kind == "commit" {
							snap2 = e.Snap
						} else if e.ID.Step >= soft {
							if _, ok := sent2[e.ID]; !ok {
								sent2[e.ID] = e.Value
							}
						}
					}
					if !(atCommit || j == len(revs)) || run.OutOfTime() {
						continue
					}
					for c2i, c2 := range c02iiConts {
						if c2i >= level2Conts {
							break
						}
						r2dir := filepath.Join(rdir, fmt.Sprintf("second-j%02d-c%d", j, c2i))
						_ = os.MkdirAll(r2dir, 0o755)
						if snap2 != "" {
							if err := c02iiCopyDB(filepath.Join(snap2, "crash.sqlite"), r2dir); err != nil {
								t.Fatalf("HARNESS-FAILURE copy: %v", err)
							}
						}
						r2evs, err := c02iiRestart(t, env, filepath.Join(r2dir, "crash.sqlite"), filepath.Join(r2dir, "snap"), c2, h)
						if err != nil {
							t.Fatalf("HARNESS-FAILURE second restart %s k=%d j=%d: %v", hist.Name, k, j, err)
						}
						restarts2++
						run.Eval()
						var after2 []string
						for _, e := range r2evs {
							if e.Kind != "vote" || e.ID.Step < soft {
								continue
							}
							after2 = append(after2, e.String())
							if before, ok := sent2[e.ID]; ok && before != e.Value {
								var rs []string
								for _, x := range revs[:j] {
									rs = append(rs, x.String())
								}
								run.Report("C02:equivocation-after-second-restart", fmt.Sprintf("history %s, crash after event %d of %v, restart (%s) produced %v, second crash there, second restart (%s): the node had sent %s for (r%d p%d s%d) and now sent %s; votes after the second restart: %v",
									hist.Name, k, seq, c.Name, rs, c2.Name, c02iiPV(before), e.ID.Round, e.ID.Period, e.ID.Step, c02iiPV(e.Value), after2), c02iiReplay{hist.Name, k, c.Name})
								break
							}
						}
						run.Class(fmt.Sprintf("B2|%s|k-kind:%s|%s|j%d|%s|%s", hist.Name, kind, c.Name, j, c2.Name, strings.Join(after2, ",")))
						os.RemoveAll(r2dir)
					}
				}
				os.RemoveAll(rdir)
			}
		}
		_ = nAttestVotes
	}
	run.Set("crash_points", points)
	run.Set("restarts", restarts)
	run.Set("second_level_restarts", restarts2)
	run.Set("own_votes_checked_released_after_persist", votesChecked)
	run.Set("crash_db_commits_recorded", commits)
	n := run.Finish(ve.Coverage{Rule: "4 histories of the real agreement.Service (round 1, periods 0-1; two with an injected crash-DB commit failure, one of them with the failed checkpoint processed before the pseudonode waits for it) x every prefix of the recorded commit/vote sequence x 3 tempting continuations (restart on the crash-DB copy); oracle A (released => persisted) on every own vote of step >= soft", Exhaustive: true})
	if n > 0 {
		t.Fatalf("%d violation(s)", n)
	}
}
