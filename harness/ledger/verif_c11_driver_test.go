package ledger

// C11 driver: a REAL Ledger (OpenLedger, file-backed SQLite under ve.ScratchDir so that
// close+reopen is a genuine restart) on the private consensus version "verif-c11"
// (MaxTxnLife = 4), with a block builder going through the real BlockEvaluator and
// Ledger.Validate/AddValidatedBlock, and SYNCHRONOUS control over everything the node does
// in the background:
//
//   * after every added block the blockQueue syncer is drained (stop/start), so the
//     asynchronous notifyCommit -> trackers.committedUpTo (which prunes txTail) has run;
//   * trackerRegistry.lastFlushTime is kept in the far future, so the wall-clock flush
//     heuristic of scheduleCommit never fires by itself; the "flush" operation resets it to
//     zero, calls the production path Ledger.notifyCommit -> scheduleCommit -> commitSyncer
//     -> commitRound and waits for accountsWriting;
//   * "reload" is Ledger.reloadLedger, "reopen" is Ledger.Close + OpenLedger on the same files.

import (
	"context"
	"database/sql"
	"fmt"
	"io"
	"os"
	"path/filepath"
	"sync"
	"sync/atomic"
	"time"

	"github.com/algorand/go-algorand/agreement"
	"github.com/algorand/go-algorand/config"
	"github.com/algorand/go-algorand/crypto"
	"github.com/algorand/go-algorand/data/basics"
	"github.com/algorand/go-algorand/data/bookkeeping"
	"github.com/algorand/go-algorand/data/committee"
	"github.com/algorand/go-algorand/data/transactions"
	"github.com/algorand/go-algorand/data/transactions/verify"
	"github.com/algorand/go-algorand/ledger/eval"
	"github.com/algorand/go-algorand/ledger/ledgercore"
	"github.com/algorand/go-algorand/logging"
	"github.com/algorand/go-algorand/protocol"
	"github.com/algorand/go-algorand/util/db"
	ve "github.com/algorand/go-algorand/verifeng"
)

const c11ProtoVersion = protocol.ConsensusVersion("verif-c11")

const c11MaxTxnLife = 4

var c11ProtoOnce sync.Once

// c11RegisterProto registers the private consensus version (idempotent).
func c11RegisterProto() config.ConsensusParams {
	c11ProtoOnce.Do(func() {
		p := config.Consensus[protocol.ConsensusCurrentVersion]
		p.MaxTxnLife = c11MaxTxnLife
		p.SeedLookback = 1
		p.SeedRefreshInterval = 2
		p.MaxBalLookback = 4
		p.StateProofInterval = 0
		p.Payouts.Enabled = false
		p.ApprovedUpgrades = map[protocol.ConsensusVersion]uint64{}
		config.Consensus[c11ProtoVersion] = p
	})
	return config.Consensus[c11ProtoVersion]
}

func c11Addr(b byte) basics.Address {
	var a basics.Address
	for i := range a {
		a[i] = b
	}
	return a
}

var (
	c11Senders  = [2]basics.Address{c11Addr(0xA1), c11Addr(0xB2)}
	c11Receiver = c11Addr(0xC3)
	c11FeeSink  = c11Addr(0xF5)
	c11Pool     = c11Addr(0xF6)
	c11GenHash  = crypto.Digest{0xC1, 0x11}
)

var c11LogOnce sync.Once
var c11Log logging.Logger

func c11Logger() logging.Logger {
	c11LogOnce.Do(func() {
		c11Log = logging.NewLogger()
		c11Log.SetOutput(io.Discard)
		c11Log.SetLevel(logging.Error)
	})
	return c11Log
}

func c11Genesis() ledgercore.InitState {
	c11RegisterProto()
	accts := map[basics.Address]basics.AccountData{
		c11Senders[0]: {MicroAlgos: basics.MicroAlgos{Raw: 1_000_000_000_000}, Status: basics.Offline},
		c11Senders[1]: {MicroAlgos: basics.MicroAlgos{Raw: 1_000_000_000_000}, Status: basics.Offline},
		c11Receiver:   {MicroAlgos: basics.MicroAlgos{Raw: 1_000_000_000}, Status: basics.Offline},
		c11FeeSink:    {MicroAlgos: basics.MicroAlgos{Raw: 1_000_000_000}, Status: basics.NotParticipating},
		c11Pool:       {MicroAlgos: basics.MicroAlgos{Raw: 100_000}, Status: basics.NotParticipating},
	}
	gb := bookkeeping.MakeGenesisBalances(accts, c11FeeSink, c11Pool)
	blk, err := bookkeeping.MakeGenesisBlock(c11ProtoVersion, gb, "verif-c11", c11GenHash)
	if err != nil {
		panic(err)
	}
	return ledgercore.InitState{Block: blk, Accounts: accts, GenesisHash: c11GenHash}
}

// c11Drv is one real ledger instance under harness control.
type c11Drv struct {
	l       *Ledger
	dir     string
	prefix  string
	mem     bool
	keepers []c11Keeper
	genesis ledgercore.InitState
	cfg     config.Local
}

// c11Keeper holds one extra connection to a shared-cache in-memory SQLite database, so
// that its content survives Ledger.Close (SQLite drops such a database when the last
// connection closes). With it, Close+OpenLedger(dbMem=true) is a genuine restart: every
// Go-side structure is rebuilt from what the trackers/blockQueue had written.
type c11Keeper struct {
	acc  db.Accessor
	conn *sql.Conn
}

var c11MemSeq atomic.Uint64

var c11FarFuture = time.Date(2200, 1, 1, 0, 0, 0, 0, time.UTC)

func c11Open(acctLookback uint64, mem bool) (*c11Drv, error) {
	d := &c11Drv{genesis: c11Genesis(), mem: mem}
	if mem {
		d.prefix = fmt.Sprintf("verif-c11-mem-%d-%d", os.Getpid(), c11MemSeq.Add(1))
		for _, suffix := range []string{".tracker.sqlite", ".block.sqlite"} {
			acc, err := db.MakeAccessor(d.prefix+suffix, false, true)
			if err != nil {
				d.close()
				return nil, err
			}
			conn, err := acc.Handle.Conn(context.Background())
			if err != nil {
				acc.Close()
				d.close()
				return nil, err
			}
			d.keepers = append(d.keepers, c11Keeper{acc: acc, conn: conn})
		}
	} else {
		d.dir = ve.ScratchDir("c11")
		d.prefix = filepath.Join(d.dir, "ldg")
	}
	cfg := config.GetDefaultLocal()
	cfg.Archival = false
	cfg.MaxAcctLookback = acctLookback
	cfg.CatchpointInterval = 0
	cfg.CatchpointTracking = -1
	cfg.LedgerSynchronousMode = 0 // no fsync: only process-level restarts are modelled, never power loss
	cfg.AccountsRebuildSynchronousMode = 0
	cfg.DisableLedgerLRUCache = true // the LRU write-buffers (100k-entry channels) cost ~1s per open; txTail does not use them
	cfg.TxPoolSize = 16              // only sizes the verified-signature cache here (signatures are mocked)
	cfg.VerifiedTranscationsCacheSize = 16
	d.cfg = cfg
	if err := d.open(); err != nil {
		d.close()
		return nil, err
	}
	return d, nil
}

func (d *c11Drv) open() error {
	l, err := OpenLedger(c11Logger(), d.prefix, d.mem, d.genesis, d.cfg)
	if err != nil {
		return err
	}
	d.l = l
	d.holdFlushes()
	return nil
}

// holdFlushes keeps the wall-clock flush heuristic from ever scheduling a commit by itself.
func (d *c11Drv) holdFlushes() {
	d.l.trackers.mu.Lock()
	d.l.trackers.lastFlushTime = c11FarFuture
	d.l.trackers.mu.Unlock()
}

func (d *c11Drv) close() {
	if d.l != nil {
		d.l.Close()
		d.l = nil
	}
	for _, k := range d.keepers {
		_ = k.conn.Close()
		k.acc.Close()
	}
	d.keepers = nil
	if d.dir != "" {
		_ = os.RemoveAll(d.dir)
	}
}

// drainBlockQueue waits until the blockQueue syncer has written every queued block AND
// has finished the notifyCommit/forget step that follows (the syncer only exits between
// iterations), then restarts it.
func (d *c11Drv) drainBlockQueue() error {
	d.l.WaitForCommit(d.l.Latest())
	d.l.blockQ.stop()
	return d.l.blockQ.start()
}

func (d *c11Drv) dbRound() basics.Round { return d.l.trackers.getDbRound() }

// startEval starts a generating+validating evaluator for round Latest+1.
func (d *c11Drv) startEval() (*eval.BlockEvaluator, error) {
	rnd := d.l.Latest()
	hdr, err := d.l.BlockHdr(rnd)
	if err != nil {
		return nil, err
	}
	next := bookkeeping.MakeBlock(hdr).BlockHeader
	next.TimeStamp = hdr.TimeStamp + 1
	return eval.StartEvaluator(d.l, next, eval.EvaluatorOptions{Generate: true, Validate: true})
}

// endBlock finishes the evaluator's block and adds it. validate=true re-evaluates it through
// Ledger.Validate (signature checks mocked: the transactions are unsigned) like a block
// received from the network; validate=false adds the proposer's own evaluation result (the
// header is not changed by FinishBlock: zero seed, no proposer since payouts are disabled).
func (d *c11Drv) endBlock(ev *eval.BlockEvaluator, validate bool) (ledgercore.StateDelta, error) {
	ub, err := ev.GenerateBlock(nil)
	if err != nil {
		return ledgercore.StateDelta{}, fmt.Errorf("GenerateBlock: %w", err)
	}
	blk := ub.FinishBlock(committee.Seed{}, basics.Address{}, false)
	var vb ledgercore.ValidatedBlock
	if validate {
		save := d.l.verifiedTxnCache
		d.l.verifiedTxnCache = verify.GetMockedCache(true)
		pvb, err := d.l.Validate(context.Background(), blk, nil)
		d.l.verifiedTxnCache = save
		if err != nil {
			return ledgercore.StateDelta{}, fmt.Errorf("Validate: %w", err)
		}
		vb = *pvb
	} else {
		vb = ledgercore.MakeValidatedBlock(blk, ub.UnfinishedDeltas())
	}
	if err := d.l.AddValidatedBlock(vb, agreement.Certificate{}); err != nil {
		return ledgercore.StateDelta{}, fmt.Errorf("AddValidatedBlock: %w", err)
	}
	if err := d.drainBlockQueue(); err != nil {
		return ledgercore.StateDelta{}, err
	}
	return vb.Delta(), nil
}

// flush persists tracker state up to Latest-MaxAcctLookback through the production
// scheduling path, synchronously. Returns whether the tracker DB round advanced.
func (d *c11Drv) flush() bool {
	before := d.dbRound()
	d.l.trackers.mu.Lock()
	d.l.trackers.lastFlushTime = time.Time{}
	d.l.trackers.mu.Unlock()
	d.l.notifyCommit(d.l.Latest())
	d.l.trackers.waitAccountsWriting()
	d.holdFlushes()
	return d.dbRound() != before
}

func (d *c11Drv) canFlush() bool {
	lb := basics.Round(d.cfg.MaxAcctLookback)
	latest := d.l.Latest()
	return latest >= lb && latest-lb > d.dbRound()
}

func (d *c11Drv) reload() error {
	if err := d.l.reloadLedger(); err != nil {
		return err
	}
	d.l.trackers.waitAccountsWriting()
	d.holdFlushes()
	return nil
}

func (d *c11Drv) reopen() error {
	d.l.Close()
	d.l = nil
	return d.open()
}

// c11MakePay builds the (unsigned) payment of the alphabet.
func c11MakePay(sender basics.Address, lease [32]byte, fv, lv basics.Round, fee uint64) transactions.SignedTxn {
	return transactions.SignedTxn{Txn: transactions.Transaction{
		Type: protocol.PaymentTx,
		Header: transactions.Header{
			Sender:      sender,
			Fee:         basics.MicroAlgos{Raw: fee},
			FirstValid:  fv,
			LastValid:   lv,
			GenesisHash: c11GenHash,
			Lease:       lease,
		},
		PaymentTxnFields: transactions.PaymentTxnFields{
			Receiver: c11Receiver,
			Amount:   basics.MicroAlgos{Raw: 1},
		},
	}}
}
