package agreement

// C01 - Consensus safety: no two honest nodes commit different blocks for a round.
// (header completed below once the bounds are frozen)

import (
	"fmt"
	"testing"

	"github.com/algorand/go-algorand/crypto"
	"github.com/algorand/go-algorand/data/basics"
	ve "github.com/algorand/go-algorand/verifeng"
)

// c01Oracle checks one transition: every ensureAction agrees with every block any honest node
// holds (before the step) and with the other ensureActions of the step; the mock ledger saw no
// conflicting write; the state machine did not panic.
func c01Oracle(r *ve.Run, b *eagrBFS, pre *eagrSys, e eagrEv, post *eagrSys, out *eagrOut, path func() []eagrEv) {
	if out.panicMsg != "" {
		r.Report("C01:panic", fmt.Sprintf("[%s] after %v: %s", b.name, e, out.panicMsg), eagrReplayOf(b, path))
		return
	}
	for _, c := range out.conflicts {
		r.Report("C01:ledger-conflict", fmt.Sprintf("[%s] after %v: %s", b.name, e, c), eagrReplayOf(b, path))
	}
	if len(out.commits) == 0 {
		return
	}
	seen := map[basics.Round]crypto.Digest{}
	for _, n := range pre.nodes {
		for rnd, ent := range n.led.entries {
			seen[rnd] = ent.digest
		}
	}
	for _, c := range out.commits {
		rnd := c.act.Certificate.Round
		d := c.act.Payload.Digest()
		if old, ok := seen[rnd]; ok && old != d {
			r.Report("C01:fork", fmt.Sprintf("[%s] after %v: node %d commits block %v for round %d (period %d) but block %v was already committed for that round by an honest node",
				b.name, e, c.node, d, rnd, c.period, old), eagrReplayOf(b, path))
		}
		seen[rnd] = d
	}
}

func TestVerif_C01(t *testing.T) {
	eagrRunCheck(t, &eagrCheck{
		id: "C01", level: "model_checking",
		configs: eagrSafetyConfigs(ve.Pick(1, 2)),
		oracle:  c01Oracle,
		rule:    "under construction.",
	})
}
