package eval

// C25 (part e) — rewards accounting through the real evaluator, across a protocol upgrade.
//
// Engine E-ENUM: short chains driven block by block through the real StartEvaluator (generate +
// validate) / GenerateBlock / eval.Eval(validate) over the package's in-memory evalTestLedger.
// Part 1 (package bookkeeping) enumerates NextRewardsState as a function; this part checks that the
// evaluator feeds it the right inputs — in particular the consensus parameters OF THE BLOCK BEING
// PRODUCED — when the protocol changes under it (seeded change C25-B).
//
// Setup: private consensus versions A -> B registered for the duration of the test (copies of
// ConsensusFuture with UpgradeVoteRounds=2, UpgradeThreshold=1, wait 6: MakeBlock proposes B in round
// 1 and the switch happens in round S=9). RewardsRateRefreshInterval is tiny (4). 11 variants of what
// B changes relative to A, one at a time and all together: MinBalance up / down, PendingResidue-
// Rewards on->off / off->on, RewardsCalculationFix on->off / off->on, interval 4->3 / 4->6 / 3->4,
// everything at once (two directions).
//
// Enumerated (full product): variant x first refresh round R0 in S-4..S+4 (so the switch round falls on
// every offset -interval..+interval relative to a refresh, and — refreshes recurring every interval —
// coincides with one for offsets -4, 0, +4... under both intervals) x genesis pool balance in the
// boundary grid {min-1, min, min+1, min+k*interval-1|+0|+1 (k in 1,5; thorough 1,2,5)} taken under BOTH
// A's and B's (MinBalance, interval) and shifted by the genesis residue x (reward units, genesis residue)
// in {(7,5),(1,0)} (thorough: all of {1,7}x{0,5}) x genesis rate in {0} (thorough: {0, 11}). Every chain runs S+interval_A+interval_B+2 rounds
// or until the evaluator refuses to start a block.
//
// Oracle (big.Int, from the property statement; recomputed by the harness from the two headers, the
// pool balance and the reward-unit total the ledger reports before the block, and the parameters of
// the NEW block's protocol P):
//   (1) (level'-level)*units + (residue'-residue) == rate in effect (the block's own rate when P has
//       RewardsCalculationFix, the previous header's otherwise);
//   (2) on a refresh round: rate'*P.interval <= pool - P.MinBalance (- carried residue when
//       P.PendingResidueRewards), rate' == 0 when the pool is at or below that floor, recalculation
//       round advances by P.interval; off a refresh round rate and recalculation round are unchanged;
//   (3) generator and validator agree: the generated header passes the validating StartEvaluator (and,
//       on refresh rounds and the switch round, the block passes the complete eval.Eval(validate=true));
//       the same header with RewardsRate+1 does not.
// A refusal of StartEvaluator ("pool would drop below MinBalance") ends the chain and is recorded, not
// judged: raising MinBalance above the pool, or the pre-PendingResidueRewards overspend, stall the
// chain legitimately.
//
// Not covered: transactions in the blocks (reward units are constant along a chain), more than one
// upgrade, intervals other than 3/4/6.
// Unexported identifiers used: newTestLedger, evalTestLedger{blocks, genesisProto, genesisProtoVersion,
// genesisHash} (upstream test helper, as in the seeded demo), testPoolAddr, testSinkAddr.

import (
	"context"
	"fmt"
	"io"
	"math/big"
	"os"
	"sort"
	"sync"
	"sync/atomic"
	"testing"

	"github.com/algorand/go-algorand/agreement"
	"github.com/algorand/go-algorand/config"
	"github.com/algorand/go-algorand/data/basics"
	"github.com/algorand/go-algorand/data/bookkeeping"
	"github.com/algorand/go-algorand/data/committee"
	"github.com/algorand/go-algorand/data/transactions/verify"
	"github.com/algorand/go-algorand/ledger/ledgercore"
	"github.com/algorand/go-algorand/logging"
	"github.com/algorand/go-algorand/protocol"
	"github.com/algorand/go-algorand/util/execpool"
	ve "github.com/algorand/go-algorand/verifeng"
)

type c25eVariant struct {
	name string
	a, b func(*config.ConsensusParams)
	va   protocol.ConsensusVersion
	vb   protocol.ConsensusVersion
	pa   config.ConsensusParams
	pb   config.ConsensusParams
}

type c25eChain struct {
	Variant                   string
	R0                        uint64
	Pool, Units, Residue, Rate uint64
	vi                        int
}

const (
	c25eSwitch   = 9 // proposal in round 1, 2 voting rounds, wait 6
	c25eInterval = 4
)

func c25ebi(x uint64) *big.Int { return new(big.Int).SetUint64(x) }

func TestVerif_C25_e(t *testing.T) {
	r := ve.NewRun("C25", "exploration")
	r.Assume("part e: a refusal of StartEvaluator to start a block (pool would fall below the MinBalance of the block's protocol) ends the chain and is recorded, not judged")
	r.Assume("part e: blocks carry no transactions, so the reward-unit total is constant along a chain; units/pool are read from the ledger before every block")

	// NextRewardsState logs an error (with a stack trace) whenever the pool is below the floor on a
	// refresh, which the grid does on purpose; keep that off the terminal.
	logging.Base().SetOutput(io.Discard)
	defer logging.Base().SetOutput(os.Stderr)

	nop := func(*config.ConsensusParams) {}
	variants := []*c25eVariant{
		{name: "minbalance-up", a: nop, b: func(p *config.ConsensusParams) { p.MinBalance += 10_000 }},
		{name: "minbalance-down", a: nop, b: func(p *config.ConsensusParams) { p.MinBalance -= 10_000 }},
		{name: "pending-on->off", a: nop, b: func(p *config.ConsensusParams) { p.PendingResidueRewards = false }},
		{name: "pending-off->on", a: func(p *config.ConsensusParams) { p.PendingResidueRewards = false }, b: func(p *config.ConsensusParams) { p.PendingResidueRewards = true }},
		{name: "fix-on->off", a: nop, b: func(p *config.ConsensusParams) { p.RewardsCalculationFix = false }},
		{name: "fix-off->on", a: func(p *config.ConsensusParams) { p.RewardsCalculationFix = false }, b: func(p *config.ConsensusParams) { p.RewardsCalculationFix = true }},
		{name: "interval-4->3", a: nop, b: func(p *config.ConsensusParams) { p.RewardsRateRefreshInterval = 3 }},
		{name: "interval-4->6", a: nop, b: func(p *config.ConsensusParams) { p.RewardsRateRefreshInterval = 6 }},
		{name: "interval-3->4", a: func(p *config.ConsensusParams) { p.RewardsRateRefreshInterval = 3 }, b: func(p *config.ConsensusParams) { p.RewardsRateRefreshInterval = 4 }},
		{name: "all-at-once", a: nop, b: func(p *config.ConsensusParams) {
			p.MinBalance += 10_000
			p.PendingResidueRewards = false
			p.RewardsCalculationFix = false
			p.RewardsRateRefreshInterval = 3
		}},
		{name: "all-at-once-reverse", a: func(p *config.ConsensusParams) {
			p.MinBalance += 10_000
			p.PendingResidueRewards = false
			p.RewardsCalculationFix = false
			p.RewardsRateRefreshInterval = 3
		}, b: func(p *config.ConsensusParams) {
			p.MinBalance -= 10_000
			p.PendingResidueRewards = true
			p.RewardsCalculationFix = true
			p.RewardsRateRefreshInterval = 4
		}},
	}
	base := config.Consensus[protocol.ConsensusFuture]
	for _, v := range variants {
		v.va = protocol.ConsensusVersion("c25e-A-" + v.name)
		v.vb = protocol.ConsensusVersion("c25e-B-" + v.name)
		pa := base
		pa.RewardsRateRefreshInterval = c25eInterval
		pa.UpgradeVoteRounds, pa.UpgradeThreshold = 2, 1
		pa.MinUpgradeWaitRounds, pa.MaxUpgradeWaitRounds, pa.DefaultUpgradeWaitRounds = 0, 10, 1
		v.a(&pa)
		pb := pa
		v.b(&pb)
		pa.ApprovedUpgrades = map[protocol.ConsensusVersion]uint64{v.vb: 6}
		pb.ApprovedUpgrades = map[protocol.ConsensusVersion]uint64{}
		v.pa, v.pb = pa, pb
		config.Consensus[v.va] = pa
		config.Consensus[v.vb] = pb
	}
	defer func() {
		for _, v := range variants {
			delete(config.Consensus, v.va)
			delete(config.Consensus, v.vb)
		}
	}()

	poolGrid := func(v *c25eVariant, residue uint64) []uint64 {
		seen := map[uint64]bool{}
		var out []uint64
		add := func(x uint64) {
			if !seen[x] {
				seen[x] = true
				out = append(out, x)
			}
		}
		for _, p := range []config.ConsensusParams{v.pa, v.pb} {
			for _, shift := range []uint64{0, residue} {
				m, iv := p.MinBalance+shift, p.RewardsRateRefreshInterval
				add(m - 1)
				add(m)
				add(m + 1)
				for _, k := range ve.Pick([]uint64{1, 5}, []uint64{1, 2, 5}) {
					add(m + k*iv - 1)
					add(m + k*iv)
					add(m + k*iv + 1)
				}
			}
		}
		sort.Slice(out, func(i, j int) bool { return out[i] < out[j] })
		return out
	}

	var chains []c25eChain
	for vi, v := range variants {
		for r0 := uint64(c25eSwitch) - c25eInterval; r0 <= c25eSwitch+c25eInterval; r0++ {
			for _, ur := range ve.Pick([][2]uint64{{7, 5}, {1, 0}}, [][2]uint64{{7, 5}, {7, 0}, {1, 5}, {1, 0}}) {
				units, residue := ur[0], ur[1]
				for _, rate := range ve.Pick([]uint64{0}, []uint64{0, 11}) {
					for _, pool := range poolGrid(v, residue) {
						chains = append(chains, c25eChain{Variant: v.name, R0: r0, Pool: pool, Units: units, Residue: residue, Rate: rate, vi: vi})
					}
				}
			}
		}
	}

	holder, proposer := basics.Address{0x01, 0x25}, basics.Address{0x02, 0x25}
	vpool := execpool.MakeBacklog(nil, 0, execpool.LowPriority, nil)
	defer vpool.Shutdown()

	// A block costs microseconds of CPU but several goroutine hand-offs (PaysetCommit builds its Merkle
	// trees on worker goroutines even for an empty payset), so chains are latency-bound: run a batch of
	// them concurrently inside every ParallelFor slot.
	const batch = 8
	var chainsDone atomic.Int64
	runChain := func(ci int) {
		defer chainsDone.Add(1)
		c := chains[ci]
		v := variants[c.vi]
		balances := bookkeeping.GenesisBalances{
			Balances: map[basics.Address]basics.AccountData{
				holder:       {Status: basics.Offline, MicroAlgos: basics.MicroAlgos{Raw: c.Units * v.pa.RewardUnit}},
				proposer:     {Status: basics.NotParticipating, MicroAlgos: basics.MicroAlgos{Raw: 5_000_000}},
				testPoolAddr: {Status: basics.NotParticipating, MicroAlgos: basics.MicroAlgos{Raw: c.Pool}},
				testSinkAddr: {Status: basics.NotParticipating, MicroAlgos: basics.MicroAlgos{Raw: 50_000_000}},
			},
			FeeSink:     testSinkAddr,
			RewardsPool: testPoolAddr,
		}
		l := newTestLedger(t, balances)
		gen, err := bookkeeping.MakeGenesisBlock(v.va, balances, "test", l.genesisHash)
		if err != nil {
			r.Note("harness: genesis: %v", err)
			r.Capped()
			return
		}
		gen.RewardsRate, gen.RewardsResidue, gen.RewardsLevel = c.Rate, c.Residue, 0
		gen.RewardsRecalculationRound = basics.Round(c.R0)
		l.blocks[0] = gen
		l.genesisProto = v.pa
		l.genesisProtoVersion = v.va

		last := basics.Round(c25eSwitch + v.pa.RewardsRateRefreshInterval + v.pb.RewardsRateRefreshInterval + 2)
		n := 0
		rep := func(key, msg string, rnd basics.Round) {
			r.Report(key, fmt.Sprintf("variant %s, first refresh at %d, genesis pool %d, units %d, residue %d, rate %d — round %d: %s", c.Variant, c.R0, c.Pool, c.Units, c.Residue, c.Rate, rnd, msg),
				map[string]any{"engine": "enum", "part": "e", "chain": c, "round": uint64(rnd)})
		}
		for rnd := basics.Round(1); rnd <= last; rnd++ {
			prev, err := l.BlockHdr(rnd - 1)
			if err != nil {
				r.Note("harness: BlockHdr: %v", err)
				r.Capped()
				return
			}
			poolAD, _ := l.Lookup(rnd-1, testPoolAddr)
			poolBefore := poolAD.MicroAlgos.Raw
			_, totals, _ := l.LatestTotals()
			units := totals.RewardUnits()
			nextHdr := bookkeeping.MakeBlock(prev).BlockHeader
			nextHdr.TimeStamp = prev.TimeStamp + 1
			P := config.Consensus[nextHdr.CurrentProtocol]
			phase := "before-switch"
			if rnd == c25eSwitch {
				phase = "switch-round"
			} else if rnd > c25eSwitch {
				phase = "after-switch"
			}
			if (rnd >= c25eSwitch) != (nextHdr.CurrentProtocol == v.vb) {
				rep("C25:eval:harness-upgrade", fmt.Sprintf("harness expectation: protocol %s in round %d", nextHdr.CurrentProtocol, rnd), rnd)
				return
			}
			ev, err := l.StartEvaluator(nextHdr, 0, 0, nil)
			n++
			if err != nil {
				r.Class(fmt.Sprintf("e/%s/%s/evaluator-refused-to-start", c.Variant, phase))
				r.Add("chains_ended_by_evaluator_refusal", 1)
				break
			}
			ub, err := ev.GenerateBlock(nil)
			if err != nil {
				rep("C25:eval:generate", fmt.Sprintf("GenerateBlock failed: %v", err), rnd)
				return
			}
			blk := ub.FinishBlock(committee.Seed{0x25}, proposer, false)
			h := blk.BlockHeader
			refresh := rnd == prev.RewardsRecalculationRound
			// (2)
			if refresh {
				iv := c25ebi(P.RewardsRateRefreshInterval)
				if uint64(h.RewardsRecalculationRound) != uint64(rnd)+P.RewardsRateRefreshInterval {
					rep("C25:eval:recalc-round", fmt.Sprintf("refresh under %s: RewardsRecalculationRound' = %d, want %d", h.CurrentProtocol, h.RewardsRecalculationRound, uint64(rnd)+P.RewardsRateRefreshInterval), rnd)
					return
				}
				floor := c25ebi(P.MinBalance)
				if P.PendingResidueRewards {
					floor.Add(floor, c25ebi(prev.RewardsResidue))
				}
				avail := new(big.Int).Sub(c25ebi(poolBefore), floor)
				sched := new(big.Int).Mul(c25ebi(h.RewardsRate), iv)
				if avail.Sign() <= 0 {
					if h.RewardsRate != 0 {
						rep("C25:eval:refresh-below-floor", fmt.Sprintf("pool %d is at or below the floor %s of protocol %s (MinBalance %d) but the refreshed rate is %d", poolBefore, floor, h.CurrentProtocol, P.MinBalance, h.RewardsRate), rnd)
						return
					}
				} else if sched.Cmp(avail) > 0 {
					rep("C25:eval:refresh-overspend", fmt.Sprintf("refresh in the %s under %s: rate %d * interval %d = %s exceeds pool %d - floor %s (MinBalance %d of the block's protocol, pending=%v) = %s", phase, h.CurrentProtocol, h.RewardsRate, P.RewardsRateRefreshInterval, sched, poolBefore, floor, P.MinBalance, P.PendingResidueRewards, avail), rnd)
					return
				}
			} else if h.RewardsRate != prev.RewardsRate || h.RewardsRecalculationRound != prev.RewardsRecalculationRound {
				rep("C25:eval:rate-changed-off-refresh", fmt.Sprintf("not a refresh round but rate/recalc changed %d/%d -> %d/%d", prev.RewardsRate, prev.RewardsRecalculationRound, h.RewardsRate, h.RewardsRecalculationRound), rnd)
				return
			}
			// (1)
			if units > 0 {
				eff := prev.RewardsRate
				if P.RewardsCalculationFix {
					eff = h.RewardsRate
				}
				lhs := new(big.Int).Sub(c25ebi(h.RewardsLevel), c25ebi(prev.RewardsLevel))
				lhs.Mul(lhs, c25ebi(units))
				lhs.Add(lhs, c25ebi(h.RewardsResidue))
				lhs.Sub(lhs, c25ebi(prev.RewardsResidue))
				if lhs.Cmp(c25ebi(eff)) != 0 {
					rep("C25:eval:conservation", fmt.Sprintf("%s under %s (fix=%v, refresh=%v): (level'-level)*units + (residue'-residue) = %s but the rate in effect is %d (level %d->%d, residue %d->%d, units %d, rate %d->%d)", phase, h.CurrentProtocol, P.RewardsCalculationFix, refresh, lhs, eff, prev.RewardsLevel, h.RewardsLevel, prev.RewardsResidue, h.RewardsResidue, units, prev.RewardsRate, h.RewardsRate), rnd)
					return
				}
			}
			cls := "no-refresh"
			if refresh {
				cls = "refresh:rate0"
				if h.RewardsRate > 0 {
					cls = "refresh:rate>0"
				}
			}
			r.Class(fmt.Sprintf("e/%s/%s/%s/level-moved=%v", c.Variant, phase, cls, h.RewardsLevel != prev.RewardsLevel))
			// (3) generator and validator agree. The validator's rewards check is the Validate branch of
			// StartEvaluator; the complete Eval(validate) is additionally run on refresh rounds and on the
			// switch round only (Eval busy-waits on its prefetcher for empty blocks, which is slow).
			_, err = StartEvaluator(l, blk.BlockHeader, EvaluatorOptions{Validate: true, Generate: false})
			n++
			if err != nil {
				rep("C25:eval:validator-disagrees", fmt.Sprintf("the header generated by the evaluator is rejected by the validating StartEvaluator: %v", err), rnd)
				return
			}
			if refresh || rnd == c25eSwitch {
				n++
				if _, err := Eval(context.Background(), l, blk, true, verify.MakeVerifiedTransactionCache(8), vpool, nil); err != nil {
					rep("C25:eval:validator-disagrees", fmt.Sprintf("the block generated by the evaluator is rejected by Eval(validate): %v", err), rnd)
					return
				}
				r.Add("full_eval_validations", 1)
			}
			if refresh || rnd == c25eSwitch || ve.Thorough() {
				bad := blk.BlockHeader
				bad.RewardsRate++
				n++
				if _, err := StartEvaluator(l, bad, EvaluatorOptions{Validate: true, Generate: false}); err == nil {
					rep("C25:eval:validator-lenient", "a header whose RewardsRate is one higher than generated passes the validating StartEvaluator", rnd)
					return
				}
			}
			if err := l.AddValidatedBlock(ledgercore.MakeValidatedBlock(blk, ub.UnfinishedDeltas()), agreement.Certificate{}); err != nil {
				r.Note("harness: AddValidatedBlock: %v", err)
				r.Capped()
				return
			}
		}
		r.EvalN(n)
		if ci%613 == 0 {
			hl, _ := l.BlockHdr(l.Latest())
			r.Sample(map[string]any{"part": "e", "chain": c, "rounds_completed": uint64(l.Latest()), "final_level": hl.RewardsLevel, "final_rate": hl.RewardsRate})
		}
		}
	nb := (len(chains) + batch - 1) / batch
	r.ParallelFor(nb, func(bi int) {
		var wg sync.WaitGroup
		for ci := bi * batch; ci < (bi+1)*batch && ci < len(chains); ci++ {
			wg.Add(1)
			go func(ci int) {
				defer wg.Done()
				defer func() {
					if e := recover(); e != nil {
						r.Report("C25:eval:panic", fmt.Sprintf("panic while driving chain %+v: %v", chains[ci], e), map[string]any{"engine": "enum", "part": "e", "chain": chains[ci]})
					}
				}()
				runChain(ci)
			}(ci)
		}
		wg.Wait()
	})
	visited := chainsDone.Load()
	r.Set("chains", len(chains))
	cov := ve.Coverage{
		Rule: fmt.Sprintf("part e: %d chains = %d A->B upgrade variants (MinBalance up/down, PendingResidueRewards and RewardsCalculationFix flipped both ways, interval changed, all at once) x first refresh round in S-4..S+4 (switch round S=%d at every offset to a refresh) x pool boundary grid under both protocols' (MinBalance, interval) x (units,residue) pairs x genesis rate %v; every block through StartEvaluator/GenerateBlock and Eval(validate), clauses recomputed in big.Int with the parameters of the block's own protocol",
			len(chains), len(variants), c25eSwitch, ve.Pick([]uint64{0}, []uint64{0, 11})),
		Exhaustive: visited == int64(len(chains)) && !r.WasCapped(),
	}
	if n := r.Finish(cov); n > 0 {
		t.Fatalf("C25 part e: %d violation(s)", n)
	}
}
