package merkletrie

// C17 — Merkle trie root depends only on the element set.
// Engine E-SEQ: BFS over all sequences of Add/Delete/Commit/Evict/Reload on the real
// Trie with an InMemoryCommitter, for several page configurations, against a plain
// set reference. The state key is the complete trie + cache + committer structure, so
// two merged states are literally identical objects (sound, not abstracted).

import (
	"bytes"
	"fmt"
	"sort"
	"strings"
	"sync"
	"testing"

	"github.com/algorand/go-algorand/crypto"
	ve "github.com/algorand/go-algorand/verifeng"
)

type c17sys struct {
	cfg       MemoryConfig
	keys      [][]byte
	mt        *Trie
	com       *InMemoryCommitter
	set       uint // bitmask of present keys (reference)
	committed uint // reference set as of the last commit
	canon     *c17canon
}

// c17canon memoizes the canonical root of each subset: the root of a fresh trie, default
// configuration, elements inserted in sorted order.
type c17canon struct {
	mu   sync.Mutex
	keys [][]byte
	memo map[uint]crypto.Digest
}

func (c *c17canon) root(mask uint) crypto.Digest {
	c.mu.Lock()
	defer c.mu.Unlock()
	if d, ok := c.memo[mask]; ok {
		return d
	}
	build := func(order []int) crypto.Digest {
		mt, _ := MakeTrie(nil, MemoryConfig{NodesCountPerPage: 116, CachedNodesCount: 9000, PageFillFactor: 0.95, MaxChildrenPagesThreshold: 32})
		for _, i := range order {
			if mask&(1<<uint(i)) != 0 {
				if ok, err := mt.Add(c.keys[i]); !ok || err != nil {
					panic(fmt.Sprintf("canonical build failed: %v %v", ok, err))
				}
			}
		}
		d, err := mt.RootHash()
		if err != nil {
			panic(err)
		}
		return d
	}
	idx := make([]int, len(c.keys))
	for i := range idx {
		idx[i] = i
	}
	sort.Slice(idx, func(a, b int) bool { return bytes.Compare(c.keys[idx[a]], c.keys[idx[b]]) < 0 })
	d := build(idx)
	c.memo[mask] = d
	return d
}

const (
	c17Commit = iota
	c17EvictCommit
	c17EvictNoCommit
	c17Reload
	c17nCtl
)

func (s *c17sys) apply(op int) (bool, error) {
	nk := len(s.keys)
	switch {
	case op < nk: // Add
		k := op
		ok, err := s.mt.Add(s.keys[k])
		if err != nil {
			return true, ve.Violationf("C17:add-error", "Add(%x) returned error %v", s.keys[k], err)
		}
		want := s.set&(1<<uint(k)) == 0
		if ok != want {
			return true, ve.Violationf("C17:add-membership", "Add(%x) reported %v, reference membership says %v (set=%b)", s.keys[k], ok, want, s.set)
		}
		s.set |= 1 << uint(k)
	case op < 2*nk: // Delete
		k := op - nk
		ok, err := s.mt.Delete(s.keys[k])
		if err != nil {
			return true, ve.Violationf("C17:delete-error", "Delete(%x) returned error %v", s.keys[k], err)
		}
		want := s.set&(1<<uint(k)) != 0
		if ok != want {
			return true, ve.Violationf("C17:delete-membership", "Delete(%x) reported %v, reference membership says %v (set=%b)", s.keys[k], ok, want, s.set)
		}
		s.set &^= 1 << uint(k)
	default:
		switch op - 2*nk {
		case c17Commit:
			if _, err := s.mt.Commit(); err != nil {
				return true, ve.Violationf("C17:commit-error", "Commit error %v", err)
			}
			s.committed = s.set
		case c17EvictCommit:
			if _, err := s.mt.Evict(true); err != nil {
				return true, ve.Violationf("C17:evict-error", "Evict(true) error %v", err)
			}
			s.committed = s.set
		case c17EvictNoCommit:
			_, err := s.mt.Evict(false)
			if s.mt.cache.modified {
				if err != ErrUnableToEvictPendingCommits {
					return true, ve.Violationf("C17:evict-nocommit", "Evict(false) on a modified trie returned %v", err)
				}
			} else if err != nil {
				return true, ve.Violationf("C17:evict-error", "Evict(false) error %v", err)
			}
		case c17Reload:
			// a new Trie over the same committer: everything after the last commit is gone
			mt, err := MakeTrie(s.com, s.cfg)
			if err != nil {
				return true, ve.Violationf("C17:reload-error", "MakeTrie on committed pages failed: %v", err)
			}
			s.mt = mt
			s.set = s.committed
		}
	}
	return true, nil
}

// final is destructive (RootHash commits): run on the discarded instance only.
func (s *c17sys) final() error {
	got, err := s.mt.RootHash()
	if err != nil {
		return ve.Violationf("C17:roothash-error", "RootHash error %v (set=%b)", err, s.set)
	}
	want := crypto.Digest{}
	if s.set != 0 {
		want = s.canon.root(s.set)
	}
	if got != want {
		return ve.Violationf("C17:root-mismatch", "RootHash %v differs from canonical root %v of set %b", got, want, s.set)
	}
	// membership sweep through the real API (Add of a present element must be refused)
	for k := range s.keys {
		present := s.set&(1<<uint(k)) != 0
		if present {
			if ok, err := s.mt.Add(s.keys[k]); ok || err != nil {
				return ve.Violationf("C17:add-membership", "Add(%x) of a present element returned %v,%v", s.keys[k], ok, err)
			}
		} else if s.mt.root != storedNodeIdentifierNull {
			if ok, err := s.mt.Delete(s.keys[k]); ok || err != nil {
				return ve.Violationf("C17:delete-membership", "Delete(%x) of an absent element returned %v,%v", s.keys[k], ok, err)
			}
		}
	}
	// the committed pages alone must reproduce the same root. (RootHash commits a modified
	// trie only when it is non-empty, so commit explicitly.)
	if _, err := s.mt.Commit(); err != nil {
		return ve.Violationf("C17:commit-error", "Commit error %v", err)
	}
	mt2, err := MakeTrie(s.com, s.cfg)
	if err != nil {
		return ve.Violationf("C17:reload-error", "MakeTrie after commit failed: %v", err)
	}
	got2, err := mt2.RootHash()
	if err != nil {
		return ve.Violationf("C17:reload-error", "RootHash after reload: %v", err)
	}
	if got2 != want {
		return ve.Violationf("C17:reload-root-mismatch", "root after reload %v differs from canonical %v (set %b)", got2, want, s.set)
	}
	// evicting everything and reading again must not change the answer
	if _, err := mt2.Evict(false); err != nil {
		return ve.Violationf("C17:evict-error", "Evict(false) on clean trie: %v", err)
	}
	got3, err := mt2.RootHash()
	if err != nil || got3 != want {
		return ve.Violationf("C17:evict-root-mismatch", "root after evict %v (err %v) differs from canonical %v", got3, err, want)
	}
	return nil
}

func (s *c17sys) key() string {
	var b strings.Builder
	c := &s.mt.cache
	fmt.Fprintf(&b, "S%x C%x r%d n%d l%d m%v el%d dpl%d cn%d|", s.set, s.committed, s.mt.root, s.mt.nextNodeID, s.mt.lastCommittedNodeID, c.modified, s.mt.elementLength, c.deferedPageLoad, c.cachedNodeCount)
	// committer pages
	var pages []uint64
	for p := range s.com.memStore {
		pages = append(pages, p)
	}
	sort.Slice(pages, func(i, j int) bool { return pages[i] < pages[j] })
	for _, p := range pages {
		fmt.Fprintf(&b, "P%d:%x;", p, s.com.memStore[p])
	}
	// cached nodes
	pages = pages[:0]
	for p := range c.pageToNIDsPtr {
		pages = append(pages, p)
	}
	sort.Slice(pages, func(i, j int) bool { return pages[i] < pages[j] })
	for _, p := range pages {
		var ids []uint64
		for id := range c.pageToNIDsPtr[p] {
			ids = append(ids, uint64(id))
		}
		sort.Slice(ids, func(i, j int) bool { return ids[i] < ids[j] })
		fmt.Fprintf(&b, "M%d[", p)
		for _, id := range ids {
			n := c.pageToNIDsPtr[p][storedNodeIdentifier(id)]
			fmt.Fprintf(&b, "%d:%x:", id, n.hash)
			for _, ch := range n.children {
				fmt.Fprintf(&b, "%d/%d,", ch.hashIndex, ch.id)
			}
			b.WriteByte(';')
		}
		b.WriteByte(']')
	}
	var ids []uint64
	for id := range c.pendingCreatedNID {
		ids = append(ids, uint64(id))
	}
	sort.Slice(ids, func(i, j int) bool { return ids[i] < ids[j] })
	fmt.Fprintf(&b, "pc%v", ids)
	ids = ids[:0]
	for p := range c.pendingDeletionPages {
		ids = append(ids, p)
	}
	sort.Slice(ids, func(i, j int) bool { return ids[i] < ids[j] })
	fmt.Fprintf(&b, "pd%v", ids)
	// eviction priority order
	for e := c.pagesPrioritizationList.Front(); e != nil; e = e.Next() {
		fmt.Fprintf(&b, "o%v", e.Value)
	}
	return ve.HashKey([]byte(b.String()))
}

func TestVerif_C17(t *testing.T) {
	r := ve.NewRun("C17", "model_checking")
	keys4 := [][]byte{{0, 0, 0, 0}, {0, 0, 0, 1}, {0, 0, 1, 0}, {0, 1, 0, 0}, {1, 0, 0, 0}, {0, 0, 0, 0x10}}
	// 32-byte keys that differ only late (deep chains) or early
	k32 := func(first, last byte) []byte {
		k := make([]byte, 32)
		k[0] = first
		k[31] = last
		return k
	}
	keys32 := [][]byte{k32(0, 0), k32(0, 1), k32(0, 0x10), k32(1, 0), k32(0xff, 0xff)}
	type cfgCase struct {
		name string
		cfg  MemoryConfig
		keys [][]byte
	}
	cfgs := []cfgCase{
		{"ppp2-cache1", MemoryConfig{NodesCountPerPage: 2, CachedNodesCount: 1, PageFillFactor: 0.9, MaxChildrenPagesThreshold: 1}, keys4},
		{"ppp3-cache0", MemoryConfig{NodesCountPerPage: 3, CachedNodesCount: 0, PageFillFactor: 0.3, MaxChildrenPagesThreshold: 32}, keys4},
		{"ppp1-cache8", MemoryConfig{NodesCountPerPage: 1, CachedNodesCount: 8, PageFillFactor: 0.9, MaxChildrenPagesThreshold: 1}, keys4[:5]},
		{"ppp16-cache8", MemoryConfig{NodesCountPerPage: 16, CachedNodesCount: 8, PageFillFactor: 0.95, MaxChildrenPagesThreshold: 32}, keys4},
		{"k32-ppp2", MemoryConfig{NodesCountPerPage: 2, CachedNodesCount: 1, PageFillFactor: 0.5, MaxChildrenPagesThreshold: 2}, keys32},
	}
	depth := ve.Pick(5, 6)
	var cov ve.Coverage
	cov.Exhaustive = true
	for _, cc := range cfgs {
		cc := cc
		canon := &c17canon{keys: cc.keys, memo: map[uint]crypto.Digest{}}
		nk := len(cc.keys)
		q := &ve.Seq[*c17sys]{
			Name:   "trie/" + cc.name,
			NumOps: 2*nk + c17nCtl,
			OpName: func(op int) string {
				switch {
				case op < nk:
					return fmt.Sprintf("Add(%x)", cc.keys[op])
				case op < 2*nk:
					return fmt.Sprintf("Delete(%x)", cc.keys[op-nk])
				}
				return []string{"Commit", "Evict(commit)", "Evict(nocommit)", "Reload"}[op-2*nk]
			},
			New: func() *c17sys {
				com := &InMemoryCommitter{}
				mt, err := MakeTrie(com, cc.cfg)
				if err != nil {
					panic(err)
				}
				return &c17sys{cfg: cc.cfg, keys: cc.keys, mt: mt, com: com, canon: canon}
			},
			Apply:    func(s *c17sys, op int) (bool, error) { return s.apply(op) },
			Key:      func(s *c17sys) string { return s.key() },
			Final:    func(s *c17sys) error { return s.final() },
			Observe:  func(s *c17sys) string { return fmt.Sprintf("%x/%x", s.set, s.committed) },
			MaxDepth: depth,
		}
		res := q.Explore(r)
		cov.AddSeq(res)
		if !res.Exhaustive {
			cov.Exhaustive = false
		}
		if r.Violations() > 0 {
			break
		}
	}
	cov.Rule = fmt.Sprintf("BFS over all sequences of Add/Delete (5-6 prefix-sharing keys), Commit, Evict(commit|nocommit), Reload up to depth %d for %d page configurations; a state is distinct by the full trie+cache+committer structure; after every transition the root is compared with the canonical root of the reference set, then reloaded from the committed pages and compared again", depth, len(cfgs))
	r.Assume("canonical root of a set = root of a fresh default-config trie built in sorted order (same hashing code, no paging/eviction/deletion involved)")
	r.Assume("InMemoryCommitter: a crash loses exactly what was not committed; torn page writes are not modelled")
	if r.Finish(cov) > 0 {
		t.Fatal("violations")
	}
}
