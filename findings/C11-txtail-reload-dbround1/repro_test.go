package ledger

// Plain unit test (no explorer) reproducing the C11 finding: after a restart (reloadLedger
// or Close+OpenLedger) while the tracker DB round is exactly 1, txTail.loadFromDisk loads
// NOTHING from the persisted tail (the txtail table then holds the single row of round 1 and
// the loop guard `dbRound > baseRound` is false for dbRound == baseRound == 1), so every
// transaction committed in round 1 is forgotten: Ledger.CheckDup and the BlockEvaluator
// accept it a second time while it is still inside its validity window (and leases taken in
// round 1 are forgotten as well). With the default MaxAcctLookback (4) the tracker DB round
// is 1 right after block 5 was written, until the next flush.
//
// Uses only upstream test helpers (simple_test.go). Fails on the unfixed
// tree, passes with `for old := baseRound; old <= dbRound && len(roundData) > 0; old++`.

import (
	"testing"
	"time"

	"github.com/stretchr/testify/require"

	"github.com/algorand/go-algorand/config"
	"github.com/algorand/go-algorand/data/basics"
	"github.com/algorand/go-algorand/data/transactions"
	"github.com/algorand/go-algorand/data/txntest"
	"github.com/algorand/go-algorand/ledger/ledgercore"
	ledgertesting "github.com/algorand/go-algorand/ledger/testing"
	"github.com/algorand/go-algorand/protocol"
)

func TestReproC11TxTailReloadAtDbRound1(t *testing.T) {
	genBalances, addrs, _ := ledgertesting.NewTestGenesis()
	cfg := config.GetDefaultLocal() // MaxAcctLookback = 4
	l := newSimpleLedgerWithConsensusVersion(t, genBalances, protocol.ConsensusCurrentVersion, cfg)
	defer l.Close()
	proto := config.Consensus[protocol.ConsensusCurrentVersion]

	// round 1 commits a payment that stays valid until round 100
	pay := txntest.Txn{Type: "pay", Sender: addrs[0], Receiver: addrs[1], Amount: 1000, FirstValid: 1, LastValid: 100}
	eval := nextBlock(t, l)
	txn(t, l, eval, &pay)
	endBlock(t, l, eval)
	// rounds 2..5 are empty
	for l.Latest() < 5 {
		eval = nextBlock(t, l)
		endBlock(t, l, eval)
	}
	// the node's own background flush persists trackers up to Latest - MaxAcctLookback = 1
	require.Eventually(t, func() bool { return l.LatestTrackerCommitted() == basics.Round(1) }, 30*time.Second, 10*time.Millisecond)
	l.trackers.waitAccountsWriting()

	stx := pay.SignedTxn()
	txl := ledgercore.Txlease{Sender: stx.Txn.Sender}

	// sanity: before the restart the duplicate is detected
	err := l.CheckDup(proto, 6, stx.Txn.FirstValid, stx.Txn.LastValid, stx.ID(), txl)
	var til *ledgercore.TransactionInLedgerError
	require.ErrorAs(t, err, &til)

	require.NoError(t, l.reloadLedger())

	err = l.CheckDup(proto, 6, stx.Txn.FirstValid, stx.Txn.LastValid, stx.ID(), txl)
	require.ErrorAs(t, err, &til, "after reloadLedger at tracker DB round 1 the transaction committed in round 1 is no longer detected as a duplicate")

	// (not reached on the unfixed tree) the same transaction must not enter block 6
	eval = nextBlock(t, l)
	txn(t, l, eval, &pay, "transaction already in ledger")
	vb := endBlock(t, l, eval)
	require.Empty(t, vb.Block().Payset)
}

// Same history, but shows the consequence instead of stopping at CheckDup: the payment is
// applied twice.
func TestReproC11TxTailReloadAtDbRound1DoubleSpend(t *testing.T) {
	genBalances, addrs, _ := ledgertesting.NewTestGenesis()
	cfg := config.GetDefaultLocal()
	l := newSimpleLedgerWithConsensusVersion(t, genBalances, protocol.ConsensusCurrentVersion, cfg)
	defer l.Close()

	pay := txntest.Txn{Type: "pay", Sender: addrs[0], Receiver: addrs[1], Amount: 1000, FirstValid: 1, LastValid: 100}
	eval := nextBlock(t, l)
	txn(t, l, eval, &pay)
	endBlock(t, l, eval)
	for l.Latest() < 5 {
		eval = nextBlock(t, l)
		endBlock(t, l, eval)
	}
	// the node's own background flush persists trackers up to Latest - MaxAcctLookback = 1
	require.Eventually(t, func() bool { return l.LatestTrackerCommitted() == basics.Round(1) }, 30*time.Second, 10*time.Millisecond)
	l.trackers.waitAccountsWriting()
	require.NoError(t, l.reloadLedger())

	eval = nextBlock(t, l)
	stx := pay.SignedTxn()
	err := eval.TestTransactionGroup([]transactions.SignedTxn{stx})
	if err == nil {
		err = eval.TransactionGroup(transactions.WrapSignedTxnsWithAD([]transactions.SignedTxn{stx})...)
	}
	if err == nil {
		vb := endBlock(t, l, eval)
		blk1, err1 := l.Block(1)
		require.NoError(t, err1)
		t.Fatalf("the payment %v committed in round 1 (payset %d) was committed AGAIN in round %d (payset %d)",
			stx.ID(), len(blk1.Payset), vb.Block().Round(), len(vb.Block().Payset))
	}
	var til *ledgercore.TransactionInLedgerError
	require.ErrorAs(t, err, &til)
}
