package agreement

import (
	"fmt"
	"os"
	"strings"
	"testing"
)

// dev aid: print a lock-step execution of a configuration; C01DEV_DEV="idx:kind,..." picks an
// alternative event kind at the given decision indexes, default = first enabled event.
func TestVerif_C01dev(t *testing.T) {
	cfgs := eagrSafetyConfigs(1)
	b := cfgs[0]
	if n := os.Getenv("C01DEV_CFG"); n != "" {
		for _, c := range cfgs {
			if c.name == n {
				b = c
			}
		}
	}
	devAt := map[int]string{}
	for _, part := range strings.Split(os.Getenv("C01DEV_DEV"), ",") {
		var i int
		var k string
		if n, _ := fmt.Sscanf(part, "%d:%s", &i, &k); n == 2 {
			devAt[i] = k
		}
	}
	verbose := os.Getenv("C01DEV_V") != ""
	s := eagrNewSys(b.cfg)
	out := &eagrOut{trace: true}
	s.boot(out)
	s.fixBarrier()
	for i := 0; i < 200; i++ {
		evs := b.enabled(s)
		if len(evs) == 0 {
			break
		}
		e := evs[0]
		if k, ok := devAt[i]; ok {
			found := false
			for _, x := range evs {
				if x.K == k {
					e = x
					found = true
					break
				}
			}
			if !found {
				fmt.Printf("    (deviation %s not enabled at %d)\n", k, i)
			}
		}
		out = &eagrOut{trace: true}
		if err := s.apply(e, out); err != nil {
			t.Fatal(err)
		}
		fmt.Printf("%3d %v   [enabled %d] devs=%v\n", i, e, len(evs), s.devs)
		if verbose {
			for _, sub := range out.subs {
				fmt.Printf("        n%d %-70s -> %v\n", sub.node, sub.event, sub.acts)
			}
		}
		for _, m := range out.equivoc {
			fmt.Printf("        EQUIVOCATION %s\n", m)
		}
		if out.panicMsg != "" {
			fmt.Printf("        PANIC %s\n", out.panicMsg)
		}
		for _, c := range out.commits {
			fmt.Printf("        COMMIT n%d r%d p%d %s\n", c.node, c.act.Certificate.Round, c.period, eagrPV(c.act.Certificate.Proposal))
		}
	}
	for _, n := range s.nodes {
		fmt.Printf("node %d: round %d period %d step %d passive %v\n", n.id, n.p.Round, n.p.Period, n.p.Step, n.passive)
	}
}
