package logic

// C34 — Programs cannot use features newer than their version or outside their mode;
// static checking and execution agree on legal instruction boundaries / branch targets.
//
// Engine E-ENUM, level exploration. Two literally exhaustive finite enumerations of the REAL
// CheckSignature / CheckContract / EvalSignatureFull / EvalContract.
//
// PART 1 (gating). Domain: every opcode byte 0x00..0xff; for an opcode that is a prefix of a
// multi-byte family every second byte 0..255; for an opcode whose OpSpec carries a field-group
// immediate every value 0..255 of that immediate (so every field of every version's table and
// every unassigned value); x every program version 0..LogicVersion+1 x {signature, application}.
// The program is  intcblock/bytecblock prelude (v1 opcodes, valid everywhere), the minimal
// well-typed pushes for the instruction's prototype, then the instruction.
//   Reference A (independent of the tables): the committed langspec_v<N>.json files (N = 1..13):
//     presence of the (opcode[,sub-opcode]) in langspec_vN, its Modes, and per field
//     ByteEncoding/Version/Modes.  v0 is documented (opcodes.go) as an alias of v1.
//   Reference B: OpSpecs / field-group tables (OpSpec.Version, OpSpec.Modes, FieldSpec.Version(),
//     FieldSpec.Modes()).  Used alone for v14 (no langspec_v14.json exists) and compared with A
//     on v1..13: any disagreement is itself a violation (catches a table entry registered one
//     version too low, a field whose version was dropped, a mode mask widened).
//   Oracle: expected-reject  <=>  opcode/sub-opcode/field introduced after v, or not allowed in
//     the mode, or (application mode and v < 2: apps need v2, opcodes.go appsEnabledVersion), or
//     v > LogicVersion.  When expected-reject, Check* or Eval* must fail with a *gating* error
//     (illegal opcode / improper sub-opcode / not allowed in current mode / invalid <group> field /
//     zero cost for the field / version errors) located at the tested instruction.  Otherwise
//     neither Check* nor Eval* may produce a gating error, and Check* must accept the well-formed
//     instruction (ordinary runtime errors such as "assert failed", "invalid Account reference"
//     are fine and are told apart by error text).
//   Bracketed (documented extra strictness, either outcome allowed): inner-transaction readers
//     (itxn, itxna) with GroupIndex/TxID at v5 ("illegal field for inner transaction", eval.go).
//     Documented rule encoded in the reference: effects fields whose doc says "(only with `itxn`
//     in v5)" are rejected for non-inner txn readers at v5.
//
// PART 2 (branch-target legality). Programs  <v> intcblock 1 1 ; I1..In  (n <= 4) over
//   {b, bz, bnz, callsub, switch(1), switch(2), match(1), match(2), retsub, intc_0 ("int 1"),
//    pushbytes 0x8101 (payload that is itself a valid instruction)},
// every version 0..LogicVersion. For every label slot of the program every target byte offset
// -2..len+2 (own middle, other instruction's middle, version byte, negative, end, beyond end),
// the other slots pointing at the next instruction; for programs with exactly two slots the full
// product; for v>=13 both the minimal and a padded 2-byte varint encoding.
//   Reference: own instruction decoder + the rules of TEAL_opcodes (bnz): target = end-of-
//   instruction + signed offset (v>=13: varint, negative offsets from the instruction start),
//   negative offsets illegal before v4, target must be an instruction boundary reached by stepping
//   from the first instruction, or exactly the end of the program from v2 on.
//   Oracle: Check accepts  <=>  every opcode is available at v and every target is legal.
//   Agreement: Eval of a program Check accepted only ever has its pc on instruction boundaries,
//   and every control transfer goes to the fall-through pc, a reference target of that
//   instruction, or a return address pushed by callsub.
//
// PART 3 (targets inside every instruction shape). For every version, EVERY instruction of the
// tables longer than one byte (all immediate shapes, with and without a layout checker, the 0xd4
// two-byte opcodes) as target T and every brancher (bnz, bz, b, callsub, switch, match): a forward
// branch placed before T and a backward branch placed after T, aimed at every byte from before T
// to beyond the end. Check must accept iff the byte is an instruction boundary.
//
// Not covered: interaction of gating with inner-transaction program execution (the callee's
// version rules, MinInnerApplVersion) and consensus-parameter gating (Proto.LogicSigVersion < v);
// field *values*; more than one gated instruction per program.
//
// Detection (bin/mut ... --only, quick tier; all DETECTED):
//   1. opcodes.go  OpSpec addw registered with Version 1 instead of 2        -> spec-vs-table + not-gated
//   2. fields.go   global field LogicSigVersion version 2 -> 0 (omitted)      -> spec-vs-table + not-gated
//   3. eval.go     checkBranch: back-branch instructionStarts test disabled   -> branch:accepted-illegal-target
//   4. opcodes.go  gload loses .only(ModeApp)                                 -> spec-vs-table + not-gated (sig mode)
//   5. eval.go     txnFieldToStack: v5 "effects only through itxn" test off   -> not-gated (needs the examined
//                  call to be the 2nd group member reading gtxn 0 Logs)
//   seeded C34-A and C34-B (checkStep's aligned-target loop only for instructions with a layout
//   checker: forward branch into an immediate of load/intc/txn/gtxn/...)  -> part 3
//
// Unexported identifiers used: OpSpecs, opsByOpcode (indirectly through Check/Eval), OpSpec.op,
// immediate.kind/Group, immKind constants, FieldGroup.specs via SpecByName, ItxnSettableFields,
// makeTestProto, makeSampleTxn, makeSampleTxnGroup, NewLedger (test ledger), ModeSig/ModeApp.

import (
	"embed"
	"encoding/binary"
	"encoding/json"
	"fmt"
	"regexp"
	"sort"
	"strconv"
	"strings"
	"sync"
	"sync/atomic"
	"testing"
	"time"

	"github.com/algorand/go-algorand/config"
	"github.com/algorand/go-algorand/data/basics"
	"github.com/algorand/go-algorand/data/transactions"
	"github.com/algorand/go-algorand/protocol"
	ve "github.com/algorand/go-algorand/verifeng"
)

//go:embed langspec_v*.json
var c34LangspecFS embed.FS

// ---------------------------------------------------------------------------------------------
// Reference A: langspec
// ---------------------------------------------------------------------------------------------

type c34LangField struct {
	Name    string
	Version uint64
	Modes   int // 0 = any
	Doc     string
}

type c34LangOp struct {
	Name   string
	Intro  uint64
	Modes  int
	Fields map[byte]c34LangField // nil when the op has no enumerated immediate
}

type c34Lang map[uint16]c34LangOp // key = opcode<<8 | sub-opcode

func c34Key(opcode, sub byte) uint16 { return uint16(opcode)<<8 | uint16(sub) }

func c34LoadLang() (map[uint64]c34Lang, uint64, error) {
	out := map[uint64]c34Lang{}
	var maxv uint64
	ents, err := c34LangspecFS.ReadDir(".")
	if err != nil {
		return nil, 0, err
	}
	for _, e := range ents {
		b, err := c34LangspecFS.ReadFile(e.Name())
		if err != nil {
			return nil, 0, err
		}
		var doc struct {
			Version uint64
			Ops     []struct {
				Opcode            json.RawMessage
				Name              string
				IntroducedVersion uint64
				Modes             int
				ArgDetails        []struct {
					Name         string
					ByteEncoding int
					Version      uint64
					Modes        int
					Doc          string
				}
			}
		}
		if err := json.Unmarshal(b, &doc); err != nil {
			return nil, 0, fmt.Errorf("%s: %w", e.Name(), err)
		}
		want := strings.TrimSuffix(strings.TrimPrefix(e.Name(), "langspec_v"), ".json")
		if strconv.FormatUint(doc.Version, 10) != want {
			return nil, 0, fmt.Errorf("%s declares version %d", e.Name(), doc.Version)
		}
		l := c34Lang{}
		for _, o := range doc.Ops {
			var single int
			var pair []int
			var key uint16
			if json.Unmarshal(o.Opcode, &single) == nil {
				key = c34Key(byte(single), 0)
			} else if json.Unmarshal(o.Opcode, &pair) == nil && len(pair) == 2 {
				key = c34Key(byte(pair[0]), byte(pair[1]))
			} else {
				return nil, 0, fmt.Errorf("%s: op %s has unparsable Opcode %s", e.Name(), o.Name, o.Opcode)
			}
			lo := c34LangOp{Name: o.Name, Intro: o.IntroducedVersion, Modes: o.Modes}
			if len(o.ArgDetails) > 0 {
				lo.Fields = map[byte]c34LangField{}
				for _, a := range o.ArgDetails {
					lo.Fields[byte(a.ByteEncoding)] = c34LangField{Name: a.Name, Version: a.Version, Modes: a.Modes, Doc: a.Doc}
				}
			}
			if _, dup := l[key]; dup {
				return nil, 0, fmt.Errorf("%s: duplicate opcode key %04x", e.Name(), key)
			}
			l[key] = lo
		}
		out[doc.Version] = l
		if doc.Version > maxv {
			maxv = doc.Version
		}
	}
	for v := uint64(1); v <= maxv; v++ {
		if out[v] == nil {
			return nil, 0, fmt.Errorf("langspec_v%d.json missing", v)
		}
	}
	return out, maxv, nil
}

// ---------------------------------------------------------------------------------------------
// Reference B: tables
// ---------------------------------------------------------------------------------------------

type c34Table map[uint16][]OpSpec // entries of one (opcode, sub-opcode), ascending Version

func c34LoadTable() c34Table {
	t := c34Table{}
	for _, s := range OpSpecs {
		k := c34Key(s.Opcode, s.SubOpcode)
		t[k] = append(t[k], s)
	}
	for k := range t {
		sort.SliceStable(t[k], func(i, j int) bool { return t[k][i].Version < t[k][j].Version })
	}
	return t
}

// effective returns the spec in force at version v (v0 is an alias of v1), or nil.
func (t c34Table) effective(k uint16, v uint64) *OpSpec {
	if v == 0 {
		v = 1
	}
	var out *OpSpec
	es := t[k]
	for i := range es {
		if es[i].Version <= v {
			out = &es[i]
		}
	}
	return out
}

func (t c34Table) first(k uint16) *OpSpec {
	if es := t[k]; len(es) > 0 {
		return &es[0]
	}
	return nil
}

// c34FieldImm returns the index of the immediate that carries a field group, or -1.
func c34FieldImm(s *OpSpec) int {
	for i, im := range s.Immediates {
		if im.Group != nil {
			return i
		}
	}
	return -1
}

// c34Group returns the group that governs validity of the field immediate. itxn_field is
// registered with the full txn group (so that it can be disassembled), but what may be *set* is
// described by ItxnSettableFields (fields.go).
func c34Group(s *OpSpec, i int) *FieldGroup {
	if s.Name == "itxn_field" {
		return &ItxnSettableFields
	}
	return s.Immediates[i].Group
}

// ---------------------------------------------------------------------------------------------
// error classification
// ---------------------------------------------------------------------------------------------

var c34FieldErr = regexp.MustCompile(`invalid (txn|global|asset_holding_get|asset_params_get|app_params_get|app_params_set|acct_params_get|voter_params_get|block) field|invalid itxn_field|invalid base64_decode encoding|invalid json_ref type|invalid curve \d+|invalid VRF standard|invalid ec_\w+ group|invalid poseidon2 config|invalid mimc config|unsupported array field`)
var c34PcRe = regexp.MustCompile(`pc=\s*(\d+)`)

// c34Gating classifies an error as a version/mode gating error ("" = not a gating error).
func c34Gating(err error) string {
	if err == nil {
		return ""
	}
	s := err.Error()
	switch {
	case strings.Contains(s, "illegal opcode 0x"):
		return "illegal-opcode"
	case strings.Contains(s, "improper sub-opcode"), strings.Contains(s, "missing sub-opcode"):
		return "bad-subop"
	case strings.Contains(s, "not allowed in current mode"):
		return "mode"
	case strings.Contains(s, "program version must be >="):
		return "min-version"
	case strings.Contains(s, "greater than max supported version"):
		return "too-new"
	case c34FieldErr.MatchString(s):
		return "field"
	case strings.Contains(s, "returned 0 cost"), strings.Contains(s, "reported non-positive cost"):
		return "field-cost"
	case strings.Contains(s, "Unable to obtain effects from top-level transactions"):
		return "effects-v5"
	case strings.Contains(s, "illegal field for inner transaction"):
		return "inner-field-v5"
	}
	return ""
}

func c34ErrPC(err error) int {
	if err == nil {
		return -1
	}
	m := c34PcRe.FindStringSubmatch(err.Error())
	if m == nil {
		return -1
	}
	n, _ := strconv.Atoi(m[1])
	return n
}

// ---------------------------------------------------------------------------------------------
// part 1: cases and programs
// ---------------------------------------------------------------------------------------------

type c34Case struct {
	opcode byte
	second int  // -1 none; otherwise sub-opcode byte / field immediate value
	kind   byte // 'u' unassigned opcode, 'p' plain, 'f' field immediate, 's' sub-opcode family
}

func (c c34Case) String() string {
	if c.second < 0 {
		return fmt.Sprintf("%02x", c.opcode)
	}
	return fmt.Sprintf("%02x/%c%02x", c.opcode, c.kind, c.second)
}

func c34Cases(t c34Table) []c34Case {
	var out []c34Case
	for op := 0; op < 256; op++ {
		var plain []OpSpec
		family := false
		for k, es := range t {
			if byte(k>>8) != byte(op) {
				continue
			}
			if byte(k) != 0 {
				family = true
			} else {
				plain = es
			}
		}
		switch {
		case family:
			for x := 0; x < 256; x++ {
				out = append(out, c34Case{byte(op), x, 's'})
			}
		case plain == nil:
			out = append(out, c34Case{byte(op), -1, 'u'})
		default:
			hasField := false
			for i := range plain {
				if c34FieldImm(&plain[i]) >= 0 {
					hasField = true
				}
			}
			if hasField {
				for x := 0; x < 256; x++ {
					out = append(out, c34Case{byte(op), x, 'f'})
				}
			} else {
				out = append(out, c34Case{byte(op), -1, 'p'})
			}
		}
	}
	return out
}

// c34Program builds prelude + pushes + instruction for spec s (nil: bare opcode bytes). It
// returns the program and the pc of the tested instruction.
func c34Program(v uint64, c c34Case, s *OpSpec, app bool) ([]byte, int) {
	var ver [binary.MaxVarintLen64]byte
	p := append([]byte{}, ver[:binary.PutUvarint(ver[:], v)]...)
	var consts [][]byte
	var loads []byte
	intLoad := byte(0x22) // intc_0 == 0
	if s != nil && s.Name == "block" {
		intLoad = 0x23 // intc_1 == 1: `block` validates the round before the field
	}
	if s != nil && s.Name == "itxn_field" && app && v >= 5 {
		loads = append(loads, 0xb1) // itxn_begin: itxn_field looks for an open inner txn before the field
	}
	if s != nil {
		for _, at := range s.Arg.Types {
			switch at.AVMType {
			case avmBytes:
				n := int(at.Bound[0])
				b := make([]byte, n)
				for i := range b {
					b[i] = byte(0x41 + i%26)
				}
				idx := -1
				for i, cst := range consts {
					if len(cst) == n {
						idx = i
					}
				}
				if idx < 0 {
					consts = append(consts, b)
					idx = len(consts) - 1
				}
				loads = append(loads, 0x27, byte(idx)) // bytec idx
			case avmNone:
			default: // uint64 or any
				loads = append(loads, intLoad)
			}
		}
	}
	p = append(p, 0x20, 0x02, 0x00, 0x01) // intcblock 0 1
	if len(consts) > 0 {
		p = append(p, 0x26, byte(len(consts)))
		for _, cst := range consts {
			p = append(p, ver[:binary.PutUvarint(ver[:], uint64(len(cst)))]...)
			p = append(p, cst...)
		}
	}
	p = append(p, loads...)
	pc := len(p)
	p = append(p, c.opcode)
	if s == nil {
		if c.second >= 0 {
			p = append(p, byte(c.second))
		}
		return p, pc
	}
	if s.SubOpcode != 0 {
		p = append(p, s.SubOpcode)
	}
	fi := c34FieldImm(s)
	label := false
	for i, im := range s.Immediates {
		switch im.kind {
		case immByte, immInt8:
			if i == fi && c.second >= 0 {
				p = append(p, byte(c.second))
			} else {
				p = append(p, 0)
			}
		case immLabel:
			p = append(p, 0, 0)
			label = true
		case immVarintLabel:
			p = append(p, 0)
			label = true
		default: // varuint 0, empty bytes, empty lists
			p = append(p, 0)
		}
	}
	if label {
		p = append(p, 0x22) // a branch to the very end is not legal before v2: give it a next instruction
	}
	return p, pc
}

type c34Expect struct {
	reject bool
	why    string // reason of the expected rejection
	either bool   // bracketed: no demand
	known  bool   // the reference has an opinion (langspec or table)
}

type c34Refs struct {
	lang    map[uint64]c34Lang
	langMax uint64
	table   c34Table
}

func c34ModeBit(app bool) int {
	if app {
		return int(ModeApp)
	}
	return int(ModeSig)
}

// expectLang: reference A. ok=false when langspec has no file for v.
func (r *c34Refs) expectLang(c c34Case, v uint64, app bool) (c34Expect, bool) {
	lv := v
	if lv == 0 {
		lv = 1
	}
	l, ok := r.lang[lv]
	if !ok {
		return c34Expect{}, false
	}
	e := c34Expect{known: true}
	sub := byte(0)
	if c.kind == 's' {
		sub = byte(c.second)
	}
	op, have := l[c34Key(c.opcode, sub)]
	if c.kind == 's' && sub == 0 {
		have = false // 0x00 is never a sub-opcode
	}
	if !have {
		e.reject, e.why = true, "opcode not in langspec of this version"
		return e, true
	}
	if op.Intro > lv {
		e.reject, e.why = true, "IntroducedVersion later"
		return e, true
	}
	if op.Modes&c34ModeBit(app) == 0 {
		e.reject, e.why = true, "opcode mode"
		return e, true
	}
	if c.kind == 'f' {
		if op.Fields == nil {
			// an opcode byte that has a field immediate in some other version only
			return e, true
		}
		f, okf := op.Fields[byte(c.second)]
		if !okf {
			e.reject, e.why = true, "field value not in langspec group"
			return e, true
		}
		if f.Version > lv {
			e.reject, e.why = true, "field introduced later"
			return e, true
		}
		if f.Modes != 0 && f.Modes&c34ModeBit(app) == 0 {
			e.reject, e.why = true, "field mode"
			return e, true
		}
		inner := strings.HasPrefix(op.Name, "itxn") || strings.HasPrefix(op.Name, "gitxn")
		if !inner && v == 5 && strings.Contains(f.Doc, "only with `itxn` in v5") {
			e.reject, e.why = true, "effects field documented as itxn-only in v5"
			return e, true
		}
		if inner && v < 6 && (f.Name == "GroupIndex" || f.Name == "TxID") {
			e.either = true
		}
	}
	return e, true
}

// expectTable: reference B.
func (r *c34Refs) expectTable(c c34Case, v uint64, app bool) c34Expect {
	e := c34Expect{known: true}
	sub := byte(0)
	if c.kind == 's' {
		sub = byte(c.second)
	}
	k := c34Key(c.opcode, sub)
	if c.kind == 's' && sub == 0 {
		e.reject, e.why = true, "0x00 is not a sub-opcode"
		return e
	}
	s := r.table.effective(k, v)
	if s == nil {
		e.reject, e.why = true, "no OpSpec with Version <= v"
		return e
	}
	if int(s.Modes)&c34ModeBit(app) == 0 {
		e.reject, e.why = true, "OpSpec.Modes"
		return e
	}
	if c.kind == 'f' {
		fi := c34FieldImm(s)
		if fi < 0 {
			return e
		}
		g := c34Group(s, fi)
		x := c.second
		if x >= len(g.Names) || g.Names[x] == "" {
			e.reject, e.why = true, "value not a name of the field group"
			return e
		}
		fs, ok := g.SpecByName(g.Names[x])
		if !ok {
			e.reject, e.why = true, "no FieldSpec"
			return e
		}
		lv := v
		if lv == 0 {
			lv = 1
		}
		if fs.Version() > lv {
			e.reject, e.why = true, "FieldSpec.Version later"
			return e
		}
		if int(fs.Modes())&c34ModeBit(app) == 0 {
			e.reject, e.why = true, "FieldSpec.Modes"
			return e
		}
		inner := strings.HasPrefix(s.Name, "itxn") || strings.HasPrefix(s.Name, "gitxn")
		if !inner && v == 5 && strings.Contains(fs.Note(), "only with `itxn` in v5") {
			e.reject, e.why = true, "effects field documented as itxn-only in v5"
			return e
		}
		if inner && v < 6 && (g.Names[x] == "GroupIndex" || g.Names[x] == "TxID") {
			e.either = true
		}
	}
	return e
}

func c34Proto() *config.ConsensusParams {
	return makeTestProto(func(p *config.ConsensusParams) {
		p.MaxAppProgramCost = 1_000_000
		p.LogicSigMaxCost = 1_000_000
	})
}

// c34RunSig runs Check+Eval of program in signature mode on a single rekey-free payment.
func c34RunSig(program []byte, proto *config.ConsensusParams, tracer EvalTracer) (checkErr, evalErr error, pass bool, cx *EvalContext) {
	var txn transactions.SignedTxn
	txn.Txn.Type = protocol.PaymentTx
	copy(txn.Txn.Sender[:], "c34-sender-c34-sender-c34-sender")
	copy(txn.Txn.Receiver[:], "c34-receiver-c34-receiver-c34-re")
	txn.Txn.Fee.Raw = 1000
	txn.Txn.FirstValid = 42
	txn.Txn.LastValid = 1066
	txn.Lsig.Logic = program
	txn.Lsig.Args = [][]byte{{1}, {2}, {3}, {4}, {5}}
	ledger := NewLedger(nil)
	ep := NewSigEvalParams([]transactions.SignedTxn{txn}, proto, ledger)
	checkErr = CheckSignature(0, ep)
	ep = NewSigEvalParams([]transactions.SignedTxn{txn}, proto, ledger)
	ep.Tracer = tracer
	pass, cx, evalErr = EvalSignatureFull(0, ep)
	return
}

// c34RunApp runs Check+Eval in application mode (app 888 called by the sample txn).
// The examined call is the SECOND transaction of the group, so that `gtxn 0 F` / `gtxns` with
// index 0 name a past transaction (effects fields can only be read from past transactions).
func c34RunApp(program []byte, proto *config.ConsensusParams) (checkErr, evalErr error, pass bool) {
	first := makeSampleTxn()
	first.Txn.Type = protocol.ApplicationCallTx
	first.Txn.ApplicationID = 777
	second := makeSampleTxn()
	second.Txn.Type = protocol.ApplicationCallTx
	second.Txn.ApplicationID = 888
	group := []transactions.SignedTxn{first, second}
	mk := func() *EvalParams {
		ep := NewAppEvalParams(transactions.WrapSignedTxnsWithAD(group), proto, &transactions.SpecialAddresses{})
		ledger := NewLedger(map[basics.Address]uint64{first.Txn.Sender: 10_000_000})
		ledger.NewApp(first.Txn.Receiver, 777, basics.AppParams{})
		ledger.NewApp(first.Txn.Receiver, 888, basics.AppParams{})
		ep.Ledger = ledger
		ep.SigLedger = ledger
		return ep
	}
	checkErr = CheckContract(program, 1, mk())
	pass, _, evalErr = EvalContract(program, 1, 888, mk())
	return
}

type c34Summary struct {
	mu sync.Mutex
	m  map[string]int
}

func (s *c34Summary) add(k string) {
	s.mu.Lock()
	if s.m == nil {
		s.m = map[string]int{}
	}
	s.m[k]++
	s.mu.Unlock()
}

func (s *c34Summary) log(t *testing.T) {
	var ks []string
	for k := range s.m {
		ks = append(ks, k)
	}
	sort.Strings(ks)
	for i, k := range ks {
		if i >= 60 {
			t.Logf("... %d more", len(ks)-i)
			break
		}
		t.Logf("violation-class %s x%d", k, s.m[k])
	}
}

func c34Part1(t *testing.T, r *ve.Run, refs *c34Refs) {
	var sum c34Summary
	defer sum.log(t)
	cases := c34Cases(refs.table)
	r.Set("part1_cases", len(cases))
	versions := int(LogicVersion) + 2 // 0..LogicVersion+1
	var harnessProblems atomic.Int64
	var disagreements atomic.Int64
	n := len(cases) * versions * 2
	var nReject, nAccept, nEither atomic.Int64
	r.ParallelFor(n, func(i int) {
		c := cases[i/(versions*2)]
		v := uint64((i / 2) % versions)
		app := i%2 == 1
		proto := c34Proto()

		// which spec shapes the program
		sub := byte(0)
		if c.kind == 's' {
			sub = byte(c.second)
		}
		k := c34Key(c.opcode, sub)
		s := refs.table.effective(k, v)
		if s == nil {
			s = refs.table.first(k)
		}
		program, pc := c34Program(v, c, s, app)
		replay := map[string]any{"part": 1, "case": c.String(), "version": v, "app": app, "program": fmt.Sprintf("%x", program)}

		// references
		var exp c34Expect
		switch {
		case v > LogicVersion:
			exp = c34Expect{reject: true, why: "version beyond LogicVersion", known: true}
		default:
			et := refs.expectTable(c, v, app)
			el, haveLang := refs.expectLang(c, v, app)
			exp = et
			if haveLang {
				exp = el
				if el.reject != et.reject || el.either != et.either {
					sum.add(fmt.Sprintf("spec-vs-table %s v%d app=%v lang=%v(%s) table=%v(%s)", c34Name(c, s), v, app, el.reject, el.why, et.reject, et.why))
					if disagreements.Add(1) <= 3 {
						r.Report(fmt.Sprintf("C34:spec-vs-table:%s", c.String()),
							fmt.Sprintf("langspec_v%d and the opcode/field tables disagree for %s at v%d app=%v: langspec says reject=%v (%s), tables say reject=%v (%s)",
								max(v, 1), c34Name(c, s), v, app, el.reject, el.why, et.reject, et.why), replay)
					}
				}
			}
			if app && v < 2 && !exp.reject {
				exp.reject, exp.why = true, "applications need v2"
			}
		}

		var checkErr, evalErr error
		var pass bool
		if app {
			checkErr, evalErr, pass = c34RunApp(program, proto)
		} else {
			checkErr, evalErr, pass, _ = c34RunSig(program, proto, nil)
		}
		r.Eval()
		if _, isPanic := evalErr.(panicError); isPanic {
			r.Report("C34:panic:"+c.String(), fmt.Sprintf("Eval panicked: %v", evalErr), replay)
			return
		}
		if _, isPanic := checkErr.(panicError); isPanic {
			r.Report("C34:panic:"+c.String(), fmt.Sprintf("Check panicked: %v", checkErr), replay)
			return
		}
		gc, ge := c34Gating(checkErr), c34Gating(evalErr)
		name := c34Name(c, s)
		outcome := "pass"
		switch {
		case gc != "" || ge != "":
			outcome = "gated:" + gc + "/" + ge
		case checkErr != nil:
			outcome = "check-other"
		case evalErr != nil:
			outcome = "runtime-error"
		case !pass:
			outcome = "reject-no-error"
		}
		r.Class(name + "|" + outcome)

		switch {
		case exp.either:
			nEither.Add(1)
		case exp.reject:
			nReject.Add(1)
			if gc == "" && ge == "" && strings.HasPrefix(exp.why, "effects field") && evalErr != nil &&
				strings.Contains(evalErr.Error(), "txn effects can only be read from past txns") {
				// `txn F` names the current transaction: the (equally documented) past-transactions
				// rule fires first and rejects at every version; the v5 rule is unobservable here.
				r.Class(name + "|rejected-by-past-txn-rule")
				return
			}
			if gc == "" && ge == "" {
				sum.add(fmt.Sprintf("not-gated %s app=%v why=%s check=%v eval=%.60v", name, app, exp.why, checkErr != nil, evalErr))
				r.Report(fmt.Sprintf("C34:not-gated:%s:v%d:app=%v", c.String(), v, app),
					fmt.Sprintf("%s at v%d (app=%v) should be rejected (%s) but no version/mode error: check=%v eval=%v pass=%v",
						name, v, app, exp.why, checkErr, evalErr, pass), replay)
				return
			}
			// the gating error must be about the tested instruction (or the program header)
			for _, e := range []error{checkErr, evalErr} {
				g := c34Gating(e)
				if g == "" || g == "min-version" || g == "too-new" {
					continue
				}
				if epc := c34ErrPC(e); epc != pc {
					if harnessProblems.Add(1) <= 3 {
						t.Errorf("harness: gating error away from tested pc %d: %v (case %s v%d app=%v prog %x)", pc, e, c.String(), v, app, program)
					}
				}
			}
		default:
			nAccept.Add(1)
			if gc != "" || ge != "" {
				sum.add(fmt.Sprintf("wrongly-gated %s app=%v %s/%s", name, app, gc, ge))
				r.Report(fmt.Sprintf("C34:wrongly-gated:%s:v%d:app=%v", c.String(), v, app),
					fmt.Sprintf("%s at v%d (app=%v) is available in this version and mode but was rejected with a version/mode error: check=%v eval=%v",
						name, v, app, checkErr, evalErr), replay)
				return
			}
			if checkErr != nil {
				sum.add(fmt.Sprintf("check-rejects-available %s app=%v %.60v", name, app, checkErr))
				r.Report(fmt.Sprintf("C34:check-rejects-available:%s:v%d:app=%v", c.String(), v, app),
					fmt.Sprintf("%s at v%d (app=%v): well-formed available instruction rejected by Check: %v", name, v, app, checkErr), replay)
				return
			}
			if evalErr != nil {
				es := evalErr.Error()
				if strings.Contains(es, "stack underflow") || strings.Contains(es, " wanted ") {
					if harnessProblems.Add(1) <= 3 {
						t.Errorf("harness: pushes not well-typed for %s v%d: %v", name, v, evalErr)
					}
				}
			}
		}
	})
	r.Set("part1_expected_reject", nReject.Load())
	r.Set("part1_expected_available", nAccept.Load())
	r.Set("part1_bracketed", nEither.Load())
	r.Sample(map[string]any{"part": 1, "example": "case 32/f05 (global LogicSigVersion) v1 sig -> expected reject; v2 -> must run"})
}

func c34Name(c c34Case, s *OpSpec) string {
	if s == nil {
		return "op" + c.String()
	}
	n := s.Name
	if c.kind == 'f' {
		n += fmt.Sprintf("[%d]", c.second)
	}
	return n
}

// ---------------------------------------------------------------------------------------------
// part 2: branch-target legality
// ---------------------------------------------------------------------------------------------

type c34Instr struct {
	name   string
	opcode byte
	labels int  // number of label slots
	kind   byte // 'b' branch (b/bz/bnz/callsub), 's' switch/match, 'o' other
	intro  uint64
	body   []byte // for 'o'
}

var c34Alphabet = []c34Instr{
	{"b", 0x42, 1, 'b', 2, nil},
	{"bz", 0x41, 1, 'b', 2, nil},
	{"bnz", 0x40, 1, 'b', 1, nil},
	{"callsub", 0x88, 1, 'b', 4, nil},
	{"switch1", 0x8d, 1, 's', 8, nil},
	{"switch2", 0x8d, 2, 's', 8, nil},
	{"match1", 0x8e, 1, 's', 8, nil},
	{"match2", 0x8e, 2, 's', 8, nil},
	{"retsub", 0x89, 0, 'o', 4, []byte{0x89}},
	{"int1", 0x22, 0, 'o', 1, []byte{0x22}},
	{"pushbytes", 0x80, 0, 'o', 3, []byte{0x80, 0x02, 0x81, 0x01}},
}

type c34Layout struct {
	starts []int // pc of each instruction
	sizes  []int
	length int
}

// c34Assemble lays out the program for version v. targets[slot] is the absolute target byte of
// each label slot; padded[slot] selects the 2-byte varint encoding (v>=13 only). ok=false if a
// target is not encodable (varint branch into itself).
func c34Assemble(v uint64, shape []int, targets []int, padded int) (prog []byte, lay c34Layout, ok bool) {
	prog = []byte{byte(v), 0x20, 0x01, 0x01}
	// sizes first (independent of targets except the padded slot)
	slot := 0
	pc := len(prog)
	for _, ai := range shape {
		in := c34Alphabet[ai]
		size := 0
		switch in.kind {
		case 'b':
			if v >= varintBranchVersion {
				size = 2
				if slot == padded {
					size = 3
				}
			} else {
				size = 3
			}
		case 's':
			size = 2 + 2*in.labels
		default:
			size = len(in.body)
		}
		lay.starts = append(lay.starts, pc)
		lay.sizes = append(lay.sizes, size)
		pc += size
		slot += in.labels
	}
	lay.length = pc
	slot = 0
	for ii, ai := range shape {
		in := c34Alphabet[ai]
		ipc, size := lay.starts[ii], lay.sizes[ii]
		switch in.kind {
		case 'b':
			tgt := targets[slot]
			prog = append(prog, in.opcode)
			if v >= varintBranchVersion {
				var n int64
				switch {
				case tgt >= ipc+size:
					n = int64(tgt - (ipc + size))
				case tgt < ipc:
					n = int64(tgt - ipc)
				default:
					return nil, lay, false
				}
				if n < -64 || n > 63 {
					return nil, lay, false
				}
				zz := byte(uint64(n<<1) ^ uint64(n>>63))
				if size == 3 {
					prog = append(prog, zz|0x80, 0x00)
				} else {
					prog = append(prog, zz)
				}
			} else {
				n := int16(tgt - (ipc + 3))
				prog = append(prog, byte(uint16(n)>>8), byte(n))
			}
			slot++
		case 's':
			prog = append(prog, in.opcode, byte(in.labels))
			for l := 0; l < in.labels; l++ {
				n := int16(targets[slot] - (ipc + size))
				prog = append(prog, byte(uint16(n)>>8), byte(n))
				slot++
			}
		default:
			prog = append(prog, in.body...)
		}
	}
	return prog, lay, true
}

// c34RefCheck is the reference verdict: nil reason = Check must accept.
func c34RefCheck(v uint64, shape []int, targets []int, lay c34Layout) (accept bool, why string) {
	boundary := map[int]bool{}
	for _, s := range lay.starts {
		boundary[s] = true
	}
	boundary[4] = true // first instruction after the intcblock prelude (== starts[0])
	boundary[1] = true // the intcblock itself is an aligned instruction
	slot := 0
	lv := v
	if lv == 0 {
		lv = 1
	}
	for ii, ai := range shape {
		in := c34Alphabet[ai]
		if in.intro > lv {
			return false, fmt.Sprintf("%s not available at v%d", in.name, v)
		}
		for l := 0; l < in.labels; l++ {
			tgt := targets[slot]
			slot++
			end := lay.starts[ii] + lay.sizes[ii]
			if tgt < end && in.kind == 'b' && v < backBranchEnabledVersion {
				return false, "negative offset before v4"
			}
			legal := boundary[tgt] || (tgt == lay.length && v >= 2)
			if !legal {
				return false, fmt.Sprintf("target %d of %s is not an instruction boundary", tgt, in.name)
			}
		}
	}
	return true, ""
}

type c34PcTracer struct {
	NullEvalTracer
	pcs []int
}

func (t *c34PcTracer) BeforeOpcode(cx *EvalContext) { t.pcs = append(t.pcs, cx.pc) }

func c34Part2(t *testing.T, r *ve.Run) {
	na := len(c34Alphabet)
	maxLen := 4
	var shapes [][]int
	for n := 1; n <= maxLen; n++ {
		dims := make([]int, n)
		for i := range dims {
			dims[i] = na
		}
		ve.Product(dims, func(idx []int) { shapes = append(shapes, append([]int{}, idx...)) })
	}
	versions := int(LogicVersion) + 1
	// quick: 4-instruction shapes only on the versions where a branch rule changes (first/last
	// version of every regime); all shorter shapes on every version. thorough: everything.
	quickV4 := map[int]bool{4: true, 8: true, 13: true}
	proto := makeTestProto(func(p *config.ConsensusParams) { p.LogicSigMaxCost = 60 })
	var programs, accepted, rejected, misalignedRejected, taken, unenc atomic.Int64
	var fails atomic.Int64
	// pass 0 = the quick-tier bound; pass 1 (thorough only) = the remaining versions of the
	// 4-instruction shapes, so that a capped thorough run still covers the quick bound.
	passes := 1
	if ve.Thorough() {
		passes = 2
	}
	for pass := 0; pass < passes; pass++ {
		pass := pass
		r.ParallelFor(len(shapes)*versions, func(i int) {
			shape := shapes[i/versions]
			v := uint64(i % versions)
			extra := len(shape) == 4 && !quickV4[int(v)]
			if extra != (pass == 1) {
				return
			}
			nslots := 0
			for _, ai := range shape {
				nslots += c34Alphabet[ai].labels
			}
			if nslots == 0 {
				return
			}
			classes := map[string]struct{}{}
			var nProg, nAcc, nRej, nMis, nUnenc int64
			var txn transactions.SignedTxn
			txn.Txn.Type = protocol.PaymentTx
			one := func(targets []int, padded int) {
				prog, lay, ok := c34Assemble(v, shape, targets, padded)
				if !ok {
					nUnenc++
					return
				}
				nProg++
				want, why := c34RefCheck(v, shape, targets, lay)
				txn.Lsig.Logic = prog
				ep := NewSigEvalParams([]transactions.SignedTxn{txn}, proto, &NoHeaderLedger{})
				checkErr := CheckSignature(0, ep)
				replay := func() any {
					names := make([]string, len(shape))
					for k, ai := range shape {
						names[k] = c34Alphabet[ai].name
					}
					return map[string]any{"part": 2, "version": v, "shape": names, "targets": append([]int{}, targets...), "padded": padded, "program": fmt.Sprintf("%x", prog)}
				}
				if _, isPanic := checkErr.(panicError); isPanic {
					r.Report("C34:branch:panic", fmt.Sprintf("Check panicked: %v", checkErr), replay())
					return
				}
				if (checkErr == nil) != want {
					if fails.Add(1) <= 4 {
						key := "C34:branch:accepted-illegal-target"
						if want {
							key = "C34:branch:rejected-legal-target"
						}
						r.Report(key, fmt.Sprintf("%v: reference accept=%v (%s) but Check says %v", replay(), want, why, checkErr), replay())
					}
					return
				}
				if want {
					nAcc++
				} else {
					nRej++
				}
				// execution: always when Check accepted; for rejected programs only on the shorter shapes
				// (evidence that Check is what keeps execution aligned, not an oracle)
				if checkErr != nil && len(shape) > 3 {
					classes["reject/not-executed"] = struct{}{}
					return
				}
				ep = NewSigEvalParams([]transactions.SignedTxn{txn}, proto, &NoHeaderLedger{})
				tr := &c34PcTracer{}
				ep.Tracer = tr
				_, cx, evalErr := EvalSignatureFull(0, ep)
				if _, isPanic := evalErr.(panicError); isPanic {
					r.Report("C34:branch:panic", fmt.Sprintf("Eval panicked: %v", evalErr), replay())
					return
				}
				pcs := tr.pcs
				if evalErr == nil && cx != nil {
					pcs = append(pcs, cx.pc)
				}
				bad := c34Misaligned(v, shape, targets, lay, pcs, &taken)
				if bad != "" {
					if checkErr == nil {
						if fails.Add(1) <= 4 {
							r.Report("C34:branch:exec-disagrees-with-check", fmt.Sprintf("%v accepted by Check but execution %s (pcs %v, err %v)", replay(), bad, pcs, evalErr), replay())
						}
					} else {
						nMis++
					}
				}
				cls := "reject"
				if want {
					cls = "accept"
				}
				if bad != "" {
					cls += "/exec-misaligned"
				} else if evalErr != nil {
					cls += "/exec-err"
				} else {
					cls += "/exec-ok"
				}
				classes[cls] = struct{}{}
			}
			def := make([]int, nslots)
			for s := 0; s < nslots; s++ {
				for _, padded := range []int{-1, s} {
					if padded >= 0 && (v < varintBranchVersion || !c34SlotIsBranch(shape, s)) {
						continue
					}
					base := c34Defaults(v, shape, padded)
					_, lay2, _ := c34Assemble(v, shape, base, padded)
					for tgt := -2; tgt <= lay2.length+2; tgt++ {
						copy(def, base)
						def[s] = tgt
						one(def, padded)
					}
				}
			}
			if nslots == 2 && len(shape) <= 3 {
				_, lay, _ := c34Assemble(v, shape, c34Defaults(v, shape, -1), -1)
				for t0 := -2; t0 <= lay.length+2; t0++ {
					for t1 := -2; t1 <= lay.length+2; t1++ {
						one([]int{t0, t1}, -1)
					}
				}
			}
			for k := range classes {
				r.Class(fmt.Sprintf("branch|v%d|%s", v, k))
			}
			r.EvalN(int(nProg))
			programs.Add(nProg)
			accepted.Add(nAcc)
			rejected.Add(nRej)
			misalignedRejected.Add(nMis)
			unenc.Add(nUnenc)
		})
	}
	r.Set("part2_shapes", len(shapes))
	r.Set("part2_programs", programs.Load())
	r.Set("part2_check_accepts", accepted.Load())
	r.Set("part2_check_rejects", rejected.Load())
	r.Set("part2_rejected_programs_whose_execution_would_misalign", misalignedRejected.Load())
	r.Set("part2_taken_control_transfers_validated", taken.Load())
	r.Set("part2_unencodable_varint_targets_skipped", unenc.Load())
	r.Sample(map[string]any{"part": 2, "example": "v4 [int1 bnz pushbytes] bnz->payload byte: Check must reject; v4 b -> own start: accept"})
}

func c34SlotIsBranch(shape []int, s int) bool {
	slot := 0
	for _, ai := range shape {
		in := c34Alphabet[ai]
		if s >= slot && s < slot+in.labels {
			return in.kind == 'b'
		}
		slot += in.labels
	}
	return false
}

// c34Defaults: every slot points at the end of its own instruction (the next instruction).
func c34Defaults(v uint64, shape []int, padded int) []int {
	var out []int
	pc := 4
	slot := 0
	for _, ai := range shape {
		in := c34Alphabet[ai]
		size := len(in.body)
		switch in.kind {
		case 'b':
			size = 3
			if v >= varintBranchVersion && slot != padded {
				size = 2
			}
		case 's':
			size = 2 + 2*in.labels
		}
		for l := 0; l < in.labels; l++ {
			out = append(out, pc+size)
		}
		slot += in.labels
		pc += size
	}
	return out
}

// c34Misaligned validates an executed pc sequence against the reference: every pc on a boundary,
// every transition fall-through, a reference target of the instruction, or a callsub return.
func c34Misaligned(v uint64, shape []int, targets []int, lay c34Layout, pcs []int, taken *atomic.Int64) string {
	type ins struct {
		idx  int
		next int
		tg   []int
		kind byte
		name string
	}
	at := map[int]ins{1: {idx: -1, next: 4, kind: 'o', name: "intcblock"}}
	slot := 0
	for ii, ai := range shape {
		in := c34Alphabet[ai]
		x := ins{idx: ii, next: lay.starts[ii] + lay.sizes[ii], kind: in.kind, name: in.name}
		for l := 0; l < in.labels; l++ {
			x.tg = append(x.tg, targets[slot])
			slot++
		}
		at[lay.starts[ii]] = x
	}
	var returns []int
	for k, pc := range pcs {
		if pc == lay.length && k == len(pcs)-1 {
			break
		}
		cur, ok := at[pc]
		if !ok {
			return fmt.Sprintf("reached pc %d which is not an instruction boundary", pc)
		}
		if cur.name == "callsub" {
			returns = append(returns, cur.next)
		}
		if k+1 >= len(pcs) {
			break
		}
		nx := pcs[k+1]
		okT := nx == cur.next && cur.name != "b" && cur.name != "callsub" && cur.name != "retsub"
		for _, tg := range cur.tg {
			if nx == tg {
				okT = true
				if nx != cur.next {
					taken.Add(1)
				}
			}
		}
		if cur.name == "retsub" {
			if len(returns) > 0 && nx == returns[len(returns)-1] {
				okT = true
				returns = returns[:len(returns)-1]
			}
		}
		if !okT {
			return fmt.Sprintf("went from %s at pc %d to pc %d, which is neither fall-through nor one of its targets %v", cur.name, pc, nx, cur.tg)
		}
	}
	return ""
}

// ---------------------------------------------------------------------------------------------
// part 3: branches into the interior of EVERY multi-byte instruction
// ---------------------------------------------------------------------------------------------

// c34InstrBytes encodes instruction s with every immediate 0 (field immediate = second), exactly
// as part 1 does, without prelude.
func c34InstrBytes(s *OpSpec, second int) []byte {
	p := []byte{s.Opcode}
	if s.SubOpcode != 0 {
		p = append(p, s.SubOpcode)
	}
	fi := c34FieldImm(s)
	for i, im := range s.Immediates {
		switch im.kind {
		case immByte, immInt8:
			if i == fi && second >= 0 {
				p = append(p, byte(second))
			} else {
				p = append(p, 0)
			}
		case immLabel:
			p = append(p, 0, 0)
		default:
			p = append(p, 0)
		}
	}
	return p
}

type c34Brancher struct {
	name   string
	opcode byte
	intro  uint64
	table  bool // switch/match: 1-entry table
}

var c34Branchers = []c34Brancher{
	{"bnz", 0x40, 1, false}, {"bz", 0x41, 2, false}, {"b", 0x42, 2, false}, {"callsub", 0x88, 4, false},
	{"switch", 0x8d, 8, true}, {"match", 0x8e, 8, true},
}

// c34EncodeBranch returns the bytes of brancher b at pc ipc aiming at tgt, or nil if the target
// cannot be encoded (varint branch into itself).
func c34EncodeBranch(v uint64, b c34Brancher, ipc, tgt int) []byte {
	if b.table {
		n := int16(tgt - (ipc + 4))
		return []byte{b.opcode, 1, byte(uint16(n) >> 8), byte(n)}
	}
	if v >= varintBranchVersion {
		var n int64
		switch {
		case tgt >= ipc+2:
			n = int64(tgt - (ipc + 2))
		case tgt < ipc:
			n = int64(tgt - ipc)
		default:
			return nil
		}
		if n < -64 || n > 63 {
			return nil
		}
		return []byte{b.opcode, byte(uint64(n<<1) ^ uint64(n>>63))}
	}
	n := int16(tgt - (ipc + 3))
	return []byte{b.opcode, byte(uint16(n) >> 8), byte(n)}
}

// c34Part3: for every version, every instruction T of the tables that is longer than one byte
// (every immediate shape: 1..3 byte immediates with and without a layout checker, int8, labels,
// varuint/bytes/list immediates, the 0xd4 two-byte opcodes), and every brancher B:
//
//	forward :  intcblock 1 1; intc_0; B -> t; T; intc_0        t = every byte from T-1 .. end+1
//	backward:  intcblock 1 1; T; intc_0; B -> t; intc_0        t = every byte from 0 .. B
//
// Check (signature mode, or application mode for application-only T) must accept iff t is an
// instruction boundary of that linear program (or its end from v2; backward only from v4).
func c34Part3(t *testing.T, r *ve.Run, refs *c34Refs) {
	type tgtInstr struct {
		name  string
		bytes []byte
		app   bool
	}
	versions := int(LogicVersion) + 1
	var keys []uint16
	for k := range refs.table {
		keys = append(keys, k)
	}
	sort.Slice(keys, func(i, j int) bool { return keys[i] < keys[j] })
	var programs, accepts, rejects, interior, fails atomic.Int64
	proto := makeTestProto(func(p *config.ConsensusParams) { p.LogicSigMaxCost = 100_000; p.MaxAppProgramCost = 100_000 })
	r.ParallelFor(versions, func(vi int) {
		v := uint64(vi)
		var targets []tgtInstr
		for _, k := range keys {
			s := refs.table.effective(k, v)
			if s == nil {
				continue
			}
			second := -1
			if fi := c34FieldImm(s); fi >= 0 {
				for x := 0; x < 256 && second < 0; x++ {
					c := c34Case{s.Opcode, x, 'f'}
					if !refs.expectTable(c, v, s.Modes == ModeApp).reject {
						second = x
					}
				}
				if second < 0 {
					continue
				}
			}
			b := c34InstrBytes(s, second)
			if len(b) < 2 {
				continue
			}
			if s.Size != 0 && s.Size != len(b) {
				t.Errorf("harness: %s encodes to %d bytes but OpSpec.Size is %d", s.Name, len(b), s.Size)
				continue
			}
			targets = append(targets, tgtInstr{s.Name, b, s.Modes == ModeApp})
		}
		classes := map[string]struct{}{}
		for _, T := range targets {
			if T.app && v < 2 {
				continue
			}
			for _, B := range c34Branchers {
				lv := max(v, 1)
				if B.intro > lv {
					continue
				}
				for _, backward := range []bool{false, true} {
					bsize := 3
					if B.table {
						bsize = 4
					} else if v >= varintBranchVersion {
						bsize = 2
					}
					// layout
					var bpc, tpc int
					var bounds map[int]bool
					var total int
					if !backward {
						bpc = 5
						tpc = bpc + bsize
						total = tpc + len(T.bytes) + 1
						bounds = map[int]bool{1: true, 4: true, bpc: true, tpc: true, tpc + len(T.bytes): true}
					} else {
						tpc = 4
						bpc = tpc + len(T.bytes) + 1
						total = bpc + bsize + 1
						bounds = map[int]bool{1: true, tpc: true, tpc + len(T.bytes): true, bpc: true, bpc + bsize: true}
					}
					lo, hi := tpc-1, total+1
					if backward {
						lo, hi = 0, bpc
					}
					for tgt := lo; tgt <= hi; tgt++ {
						enc := c34EncodeBranch(v, B, bpc, tgt)
						if enc == nil {
							continue
						}
						prog := []byte{byte(v), 0x20, 0x01, 0x01}
						if !backward {
							prog = append(prog, 0x22)
							prog = append(prog, enc...)
							prog = append(prog, T.bytes...)
							prog = append(prog, 0x22)
						} else {
							prog = append(prog, T.bytes...)
							prog = append(prog, 0x22)
							prog = append(prog, enc...)
							prog = append(prog, 0x22)
						}
						if len(prog) != total {
							t.Errorf("harness: layout size mismatch")
							return
						}
						want := bounds[tgt] || (tgt == total && v >= 2)
						if tgt < bpc+bsize && !B.table && v < backBranchEnabledVersion {
							want = false
						}
						if tgt < bpc+bsize && tgt >= bpc && tgt != bpc {
							want = false // own interior
						}
						var checkErr error
						if T.app {
							first := makeSampleTxn()
							first.Txn.Type = protocol.ApplicationCallTx
							ep := NewAppEvalParams(transactions.WrapSignedTxnsWithAD([]transactions.SignedTxn{first}), proto, &transactions.SpecialAddresses{})
							checkErr = CheckContract(prog, 0, ep)
						} else {
							var txn transactions.SignedTxn
							txn.Txn.Type = protocol.PaymentTx
							txn.Lsig.Logic = prog
							ep := NewSigEvalParams([]transactions.SignedTxn{txn}, proto, &NoHeaderLedger{})
							checkErr = CheckSignature(0, ep)
						}
						programs.Add(1)
						isInterior := tgt > tpc && tgt < tpc+len(T.bytes)
						if isInterior {
							interior.Add(1)
						}
						if (checkErr == nil) != want {
							if fails.Add(1) <= 4 {
								key := "C34:branch:accepted-target-inside-instruction"
								if want {
									key = "C34:branch:rejected-legal-target"
								}
								r.Report(key, fmt.Sprintf("v%d %s -> byte %d with %s at pc %d..%d (program %x): reference accept=%v but Check says %v",
									v, B.name, tgt, T.name, tpc, tpc+len(T.bytes)-1, prog, want, checkErr),
									map[string]any{"part": 3, "version": v, "brancher": B.name, "target_instruction": T.name, "target": tgt, "program": fmt.Sprintf("%x", prog)})
							} else {
								r.Report("C34:branch:accepted-target-inside-instruction", "more of the same", nil)
							}
							continue
						}
						if want {
							accepts.Add(1)
						} else {
							rejects.Add(1)
						}
						cls := "reject"
						if want {
							cls = "accept"
						}
						if isInterior {
							cls += "/interior"
						}
						classes[T.name+"|"+cls] = struct{}{}
					}
				}
			}
		}
		for k := range classes {
			r.Class("part3|" + k)
		}
	})
	r.EvalN(int(programs.Load()))
	r.Set("part3_programs", programs.Load())
	r.Set("part3_check_accepts", accepts.Load())
	r.Set("part3_check_rejects", rejects.Load())
	r.Set("part3_targets_inside_an_instruction", interior.Load())
	r.Sample(map[string]any{"part": 3, "example": "v3: pushint-free form `intcblock 1 1; intc_0; bnz +1; load 0x43; intc_0` -> Check must reject (target is the immediate of load)"})
}

func TestVerif_C34(t *testing.T) {
	r := ve.NewRun("C34", "exploration")
	lang, langMax, err := c34LoadLang()
	if err != nil {
		t.Fatalf("harness: cannot load langspec: %v", err)
	}
	refs := &c34Refs{lang: lang, langMax: langMax, table: c34LoadTable()}
	r.Set("langspec_versions", langMax)
	r.Assume("langspec_v1..v13.json (committed, generated by cmd/opdoc at release time) is the independent statement of which opcode/field exists in which version and mode; v14 has no langspec and is judged by the tables only")
	r.Assume("version 0 programs are an alias of version 1 (opcodes.go); application mode requires program version >= 2")
	r.Assume("gating errors are recognised by their error text (illegal opcode, improper/missing sub-opcode, not allowed in current mode, invalid <group> field, zero cost, version too low/high)")
	r.Assume("Proto.LogicSigVersion = LogicVersion; budgets raised to 1e6 so that cost never masks a gating error")

	t0 := time.Now()
	c34Part1(t, r, refs)
	r.Note("part 1 took %.1fs (evaluations so far %d)", time.Since(t0).Seconds(), r.Evals())
	t0 = time.Now()
	c34Part3(t, r, refs)
	r.Note("part 3 took %.1fs", time.Since(t0).Seconds())
	t0 = time.Now()
	c34Part2(t, r)
	r.Note("part 2 took %.1fs", time.Since(t0).Seconds())

	nv := r.Finish(ve.Coverage{
		Rule: "part 1: every opcode byte x every sub-opcode/field-immediate value 0..255 x versions 0..LogicVersion+1 x {sig, app}; " +
			"part 2: all programs of <= 4 instructions over an 11-instruction branch alphabet, every label slot x every target byte offset -2..len+2 " +
			"(all versions; quick tier runs the 4-instruction shapes on versions 4,8,13), 2-slot programs of <= 3 instructions full product; " +
			"part 3: every multi-byte instruction of every version x 6 branchers x forward/backward x every target byte",
		Exhaustive: true,
	})
	if nv > 0 {
		t.Fatalf("%d violations", nv)
	}
}
