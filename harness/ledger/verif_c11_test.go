package ledger

// C11 — A committed transaction cannot be committed again while valid; lease exclusion;
// both across ledger restarts.
//
// Engine E-SEQ (explicit-state BFS over operation sequences of a REAL Ledger, driver in
// verif_c11_driver_test.go), level model_checking.
//
// Universe U: every payment (sender in {A,B}) x (lease in {none,L1,L2}) x (every window
// [fv,lv] inside [1,R+1] with lv-fv <= MaxTxnLife = 4); they differ in nothing else, so the
// txid is a function of (sender, lease, window). R = 6 (quick) / 8 (thorough).
//
// A *scenario* picks 2-4 (quick: 5 scenarios incl. two same-lease triples "take, expire, re-take,
// contend"; thorough adds all 20 same-lease triples over 6 windows and all 28 pairs over 8
// windows) transactions of U that may be committed. Operations:
//   blk(S)   for every S subset of the scenario, |S| <= 2 (incl. the empty block): build block
//            Latest+1 with the real BlockEvaluator (TestTransactionGroup + TransactionGroup),
//            re-validate it with Ledger.Validate, AddValidatedBlock; enabled only if the
//            reference accepts every member of S (rejections are checked by the sweep below,
//            not by disabled ops); rounds 1..R;
//   flush    persist trackers up to Latest-MaxAcctLookback (production scheduleCommit path);
//   reload   Ledger.reloadLedger;  reopen  Ledger.Close + OpenLedger on the same databases.
// Control ops are unbounded (states merge), so every exploration runs until the frontier is
// empty: every placement of flush/reload/reopen in every history of the scenario.
// Explorations = scenario x MaxAcctLookback in {0,2,(1)} x {in-memory SQLite kept alive
// across Close by keeper connections, real files}.
//
// After EVERY new operation (and inside every new block, after S was added) the full sweep
// runs: for every transaction of U, at current = Latest+1,
//   Ledger.CheckDup (alive ones), BlockEvaluator.TestTransactionGroup (all) and
//   BlockEvaluator.TransactionGroup (all expected rejections; the scenario's own when added)
// are compared with the reference built from the accepted history:
//   committed set {txid -> lastValid}, lease table {(sender,lease) -> expiry = lastValid}.
// Oracle (property statement):
//   dead (current outside [fv,lv])            -> TxnDeadError (window check), evaluator only
//   committed earlier, still inside window    -> TransactionInLedgerError; if it carries a
//        lease, LeaseInLedgerError is equally a correct rejection (its own lease is active;
//        txTail checks the lease first, the in-block check the txid first)
//   other txn, same (sender,lease) active     -> exactly LeaseInLedgerError
//   otherwise                                 -> accepted
// The reference never looks at flush/reload/reopen, so "identical before and after every
// restart" is part of every comparison.
//
// State key: see key() — round, DB round, live committed set, everything txTail still holds
// in memory and in the persisted tail (expired entries included).
//
// Not covered: transaction groups > 1, more than 2 txns per block, rekeyed senders,
// consensus upgrades inside the window (FixTransactionLeases fixed true), power-loss
// crashes (C09), concurrency between checkDup and newBlock/commit.
//
// FINDING (unchanged tree, fixed by /repo 54f814311a): txTail.loadFromDisk loaded nothing when
// the tracker DB round was exactly 1 -> double spend after a restart; see
// /verif/findings/C11-txtail-reload-dbround1/. Re-introducing it is mutant 0 below.
//
// Mutants (bin/mut C11 ... --only, quick tier), all DETECTED:
//   0. txtail.go loadFromDisk  `len(roundData) > 0` -> `dbRound > baseRound` (the original defect)
//   1. txtail.go loadFromDisk  `old <= dbRound` -> `old < dbRound` (tail rebuilt one round short)
//   2. txtail.go checkDup      `current <= expires` -> `current < expires`
//   3. txtail.go newBlock      `TxnIdx: txnInc.Intra` -> `TxnIdx: 0` (needs a 2-txn block whose
//      second txn holds a lease, a flush and a restart: expiry then comes from the other txn)
//   4. eval/cow.go checkDup    `Hdr.Round <= expires` -> `<` (in-block lease, lastValid == round)
//   5. txtail.go commitRound   forgetBefore `newBase()+1` -> `newBase()+3` (persisted tail too
//      short; needs commit, 3 more rounds, flush, restart)
//   Seeded by independent agents: C11-A DETECTED; C11-B (checkDup lease scan `break`s at an
//   expired record of the same key) was MISSED by the first version because key() merged
//   "lease taken and expired" with "never taken"; DETECTED since key() keeps expired entries.

import (
	"context"
	"errors"
	"fmt"
	"sort"
	"strings"
	"sync"
	"testing"

	"github.com/algorand/go-deadlock"

	"github.com/algorand/go-algorand/config"
	"github.com/algorand/go-algorand/data/basics"
	"github.com/algorand/go-algorand/data/bookkeeping"
	"github.com/algorand/go-algorand/data/transactions"
	"github.com/algorand/go-algorand/ledger/eval"
	"github.com/algorand/go-algorand/ledger/ledgercore"
	"github.com/algorand/go-algorand/ledger/store/trackerdb"
	ve "github.com/algorand/go-algorand/verifeng"
)

type c11Tx struct {
	sender int // 0=A 1=B
	lease  int // 0=none 1=L1 2=L2
	fv, lv basics.Round
	stx    transactions.SignedTxn
	id     transactions.Txid
	txl    ledgercore.Txlease
}

func (t *c11Tx) String() string {
	return fmt.Sprintf("%c/%s[%d,%d]", "AB"[t.sender], []string{"-", "L1", "L2"}[t.lease], t.fv, t.lv)
}

func c11Lease(i int) (l [32]byte) {
	if i > 0 {
		l[0] = byte(i)
		l[31] = 0x11
	}
	return
}

// c11Universe enumerates U for horizon hi (windows inside [1,hi]).
func c11Universe(hi basics.Round) []*c11Tx {
	var u []*c11Tx
	for s := 0; s < 2; s++ {
		for le := 0; le < 3; le++ {
			for fv := basics.Round(1); fv <= hi; fv++ {
				for lv := fv; lv <= hi && lv-fv <= c11MaxTxnLife; lv++ {
					t := &c11Tx{sender: s, lease: le, fv: fv, lv: lv}
					t.stx = c11MakePay(c11Senders[s], c11Lease(le), fv, lv, 1000)
					t.id = t.stx.ID()
					t.txl = ledgercore.Txlease{Sender: c11Senders[s], Lease: c11Lease(le)}
					u = append(u, t)
				}
			}
		}
	}
	return u
}

func c11Find(u []*c11Tx, sender, lease int, fv, lv basics.Round) int {
	for i, t := range u {
		if t.sender == sender && t.lease == lease && t.fv == fv && t.lv == lv {
			return i
		}
	}
	panic(fmt.Sprintf("c11: no universe txn %d/%d [%d,%d]", sender, lease, fv, lv))
}

// expectation classes
const (
	c11Accept = iota
	c11Dead
	c11DupPlain // committed, no lease: exactly TransactionInLedgerError
	c11DupLease // committed, leased: TransactionInLedgerError or LeaseInLedgerError
	c11LeaseBusy
)

var c11ClassName = []string{"accept", "dead", "dup", "dup(leased)", "lease-busy"}

// c11Ref is the reference: built only from which transactions were accepted in which round.
type c11Ref struct {
	committed map[int]basics.Round // universe index -> commit round
}

func (r *c11Ref) expect(u []*c11Tx, i int, current basics.Round) int {
	t := u[i]
	if current < t.fv || current > t.lv {
		return c11Dead
	}
	if _, ok := r.committed[i]; ok {
		if t.lease == 0 {
			return c11DupPlain
		}
		return c11DupLease
	}
	if t.lease != 0 {
		for j := range r.committed {
			o := u[j]
			// lease of o is held from its commit round through o.lv
			if o.sender == t.sender && o.lease == t.lease && current <= o.lv {
				return c11LeaseBusy
			}
		}
	}
	return c11Accept
}

// c11Classify maps a real error to an observed class (-1: something else).
func c11Classify(err error) (cls int, inBlock bool) {
	if err == nil {
		return c11Accept, false
	}
	var dead *bookkeeping.TxnDeadError
	if errors.As(err, &dead) {
		return c11Dead, false
	}
	var til *ledgercore.TransactionInLedgerError
	if errors.As(err, &til) {
		return c11DupPlain, til.InBlockEvaluator
	}
	var lil *ledgercore.LeaseInLedgerError
	if errors.As(err, &lil) {
		return c11LeaseBusy, lil.InBlockEvaluator
	}
	return -1, false
}

func c11Matches(want, got int) bool {
	if want == c11DupLease {
		return got == c11DupPlain || got == c11LeaseBusy
	}
	return want == got
}

type c11Sys struct {
	d        *c11Drv
	u        []*c11Tx
	scen     []int // universe indices of the committable transactions
	ref      c11Ref
	maxRound basics.Round
	run      *ve.Run
	proto    config.ConsensusParams
	fail     error     // harness-level failure (not a verdict)
	path     []byte    // ops applied so far
	memo     *sync.Map // paths whose sweeps already passed (replays of explored prefixes skip them)
}

// fresh reports whether the op sequence applied so far (including the current op) is being
// executed for the first time. Successors are generated by replaying an already explored
// prefix and adding one op; New/Apply are deterministic, so the sweeps of the prefix would
// only repeat comparisons that already passed. Only the new last step is swept (and its
// block validated through Ledger.Validate).
func (s *c11Sys) fresh() bool {
	_, seen := s.memo.Load(string(s.path))
	return !seen
}

func (s *c11Sys) done() { s.memo.Store(string(s.path), struct{}{}) }

// sweep compares every universe transaction against the reference on evaluator ev (round
// cur). viaLedger additionally queries Ledger.CheckDup (only meaningful on a fresh evaluator,
// i.e. when nothing is pending in the block).
func (s *c11Sys) sweep(ev *eval.BlockEvaluator, cur basics.Round, viaLedger bool, where string) error {
	var counts [5]int64
	for i, t := range s.u {
		want := s.ref.expect(s.u, i, cur)
		counts[want]++
		if viaLedger && want != c11Dead {
			err := s.d.l.CheckDup(s.proto, cur, t.fv, t.lv, t.id, t.txl)
			got, _ := c11Classify(err)
			if !c11Matches(want, got) {
				return ve.Violationf(fmt.Sprintf("C11:checkdup:%s-as-%s", c11ClassName[want], c11NameOf(got)),
					"%s: Ledger.CheckDup(current=%d, %v) = %v, reference expects %s (committed=%v, dbRound=%d)",
					where, cur, t, err, c11ClassName[want], s.commitString(), s.d.dbRound())
			}
		}
		err := ev.TestTransactionGroup([]transactions.SignedTxn{t.stx})
		got, _ := c11Classify(err)
		if !c11Matches(want, got) {
			return ve.Violationf(fmt.Sprintf("C11:testgroup:%s-as-%s", c11ClassName[want], c11NameOf(got)),
				"%s: TestTransactionGroup(round=%d, %v) = %v, reference expects %s (committed=%v, dbRound=%d)",
				where, cur, t, err, c11ClassName[want], s.commitString(), s.d.dbRound())
		}
		if want != c11Accept {
			before := ev.PaySetSize()
			err := ev.TransactionGroup(transactions.SignedTxnWithAD{SignedTxn: t.stx})
			got, _ := c11Classify(err)
			if !c11Matches(want, got) || ev.PaySetSize() != before {
				return ve.Violationf(fmt.Sprintf("C11:txgroup:%s-as-%s", c11ClassName[want], c11NameOf(got)),
					"%s: TransactionGroup(round=%d, %v) = %v (payset %d->%d), reference expects %s (committed=%v, dbRound=%d)",
					where, cur, t, err, before, ev.PaySetSize(), c11ClassName[want], s.commitString(), s.d.dbRound())
			}
		}
	}
	for c, n := range counts {
		if n > 0 {
			s.run.Add("sweep_"+c11ClassName[c], n)
		}
	}
	s.run.EvalN(len(s.u))
	return nil
}

func c11NameOf(cls int) string {
	if cls < 0 {
		return "other-error"
	}
	return c11ClassName[cls]
}

func (s *c11Sys) commitString() string {
	var parts []string
	for _, i := range s.scen {
		if r, ok := s.ref.committed[i]; ok {
			parts = append(parts, fmt.Sprintf("%v@%d", s.u[i], r))
		}
	}
	return "{" + strings.Join(parts, " ") + "}"
}

// headSweep = sweep on a fresh evaluator for Latest+1 (what a proposer / the pool sees now).
func (s *c11Sys) headSweep(where string) error {
	if !s.fresh() {
		return nil
	}
	defer s.done()
	ev, err := s.d.startEval()
	if err != nil {
		return ve.Violationf("C11:starteval", "%s: StartEvaluator failed: %v", where, err)
	}
	return s.sweep(ev, ev.Round(), true, where)
}

// op layout: [0, nb) block ops (subset masks of the scenario with <= 2 bits, incl. empty),
// then flush, reload, reopen.
func c11BlockMasks(n int) []uint {
	var m []uint
	for mask := uint(0); mask < 1<<uint(n); mask++ {
		bits := 0
		for b := mask; b != 0; b &= b - 1 {
			bits++
		}
		if bits <= 2 {
			m = append(m, mask)
		}
	}
	sort.Slice(m, func(a, b int) bool { // simplest first: fewer bits, then value
		ba, bb := 0, 0
		for x := m[a]; x != 0; x &= x - 1 {
			ba++
		}
		for x := m[b]; x != 0; x &= x - 1 {
			bb++
		}
		if ba != bb {
			return ba < bb
		}
		return m[a] < m[b]
	})
	return m
}

func (s *c11Sys) applyBlock(mask uint) (bool, error) {
	latest := s.d.l.Latest()
	if latest >= s.maxRound {
		return false, nil
	}
	cur := latest + 1
	// enabled only if the reference accepts every member, in order, given the earlier members
	var members []int
	trial := c11Ref{committed: map[int]basics.Round{}}
	for k, v := range s.ref.committed {
		trial.committed[k] = v
	}
	for b, idx := range s.scen {
		if mask&(1<<uint(b)) == 0 {
			continue
		}
		if trial.expect(s.u, idx, cur) != c11Accept {
			return false, nil
		}
		trial.committed[idx] = cur
		members = append(members, idx)
	}
	ev, err := s.d.startEval()
	if err != nil {
		return true, ve.Violationf("C11:starteval", "StartEvaluator(%d) failed: %v", cur, err)
	}
	for _, idx := range members {
		t := s.u[idx]
		if err := ev.TestTransactionGroup([]transactions.SignedTxn{t.stx}); err != nil {
			return true, ve.Violationf("C11:spurious-reject", "round %d: TestTransactionGroup(%v) rejected a fresh live transaction: %v (committed=%v)", cur, t, err, s.commitString())
		}
		if err := ev.TransactionGroup(transactions.SignedTxnWithAD{SignedTxn: t.stx}); err != nil {
			return true, ve.Violationf("C11:spurious-reject", "round %d: TransactionGroup(%v) rejected a fresh live transaction: %v (committed=%v)", cur, t, err, s.commitString())
		}
		s.ref.committed[idx] = cur
	}
	fresh := s.fresh()
	// in-block view: everything just added is a duplicate / holds its lease already
	if fresh {
		if err := s.sweep(ev, cur, false, fmt.Sprintf("inside block %d", cur)); err != nil {
			return true, err
		}
	}
	if _, err := s.d.endBlock(ev, fresh); err != nil {
		return true, ve.Violationf("C11:block-rejected", "block %d built from accepted transactions was not accepted: %v (committed=%v)", cur, err, s.commitString())
	}
	return true, s.headSweep(fmt.Sprintf("after block %d", cur))
}

func (s *c11Sys) apply(op int, masks []uint) (bool, error) {
	if s.fail != nil {
		return false, nil
	}
	s.path = append(s.path, byte(op))
	nb := len(masks)
	switch {
	case op < nb:
		return s.applyBlock(masks[op])
	case op == nb: // flush
		if !s.d.canFlush() {
			return false, nil
		}
		before := s.d.dbRound()
		if !s.d.flush() {
			return true, ve.Violationf("C11:flush-stuck", "flush did not advance the tracker DB round (%d, latest %d)", before, s.d.l.Latest())
		}
		return true, s.headSweep(fmt.Sprintf("after flush %d->%d", before, s.d.dbRound()))
	case op == nb+1: // reload
		if err := s.d.reload(); err != nil {
			return true, ve.Violationf("C11:reload-failed", "reloadLedger failed: %v (latest %d)", err, s.d.l.Latest())
		}
		return true, s.headSweep("after reload")
	default: // reopen
		if err := s.d.reopen(); err != nil {
			s.fail = err
			return true, ve.Violationf("C11:reopen-failed", "Close+OpenLedger failed: %v", err)
		}
		return true, s.headSweep("after close+reopen")
	}
}

// key: canonical form of everything that can influence FUTURE duplicate detection.
//
// Kept exactly: latest round, tracker DB round, per scenario txn {uncommitted, committed and
// still inside its window, dead}, txTail.lowWaterMark;
//   - txid index: the entries of txTail.lastValid and of the persisted rows with lastValid >=
//     Latest+1. checkDup indexes lastValid[lv] with the lv of the queried transaction, and a
//     queried transaction with lv < current is dead (rejected by the window check, and a
//     future loadFromDisk only keeps lastValid > Latest), so older buckets cannot be reached;
//   - leases: EVERY (round, sender, lease, expiry) record txTail.recent and the persisted rows
//     still hold, expired ones included: checkDup scans all rounds of the last MaxTxnLife, so
//     an expired record is still visited.
//
// Dropped: the confirmation-round delta stored next to a txid (only CheckConfirmedTail reads
// it), the block-header cache and the not-yet-persisted serialized deltas (functions of the
// block history, which the blockQueue holds).
// (An earlier version also dropped expired lease records as "unable to influence any
// answer" — true for the correct code, but it merged "lease taken and expired" with "never
// taken" and so hid seeded change C11-B, whose scan stops at an expired record. Lease states
// are now only merged once the implementation itself has forgotten the difference.)
func (s *c11Sys) key() string {
	if s.d == nil || s.d.l == nil {
		return "dead"
	}
	var b strings.Builder
	l := s.d.l
	latest := l.Latest()
	next := latest + 1
	fmt.Fprintf(&b, "r%d db%d|", latest, s.d.dbRound())
	for _, i := range s.scen {
		switch {
		case next > s.u[i].lv:
			b.WriteString("x") // dead for every future round, committed or not
		case s.committedIdx(i):
			b.WriteString("C")
		default:
			b.WriteString("-")
		}
	}
	t := &l.txTail
	t.tailMu.RLock()
	fmt.Fprintf(&b, "|lwm%d|", t.lowWaterMark)
	var ents []string
	for lv, m := range t.lastValid {
		if lv < next {
			continue
		}
		for id := range m {
			ents = append(ents, fmt.Sprintf("%d:%x", lv, id[:8]))
		}
	}
	sort.Strings(ents)
	fmt.Fprintf(&b, "lv%v|", ents)
	ents = ents[:0]
	for rnd, rl := range t.recent {
		for k, exp := range rl.txleases {
			ents = append(ents, fmt.Sprintf("%d:%x/%x:%d", rnd, k.Sender[:2], k.Lease[:2], exp))
		}
	}
	sort.Strings(ents)
	fmt.Fprintf(&b, "ls%v", ents)
	t.tailMu.RUnlock()
	// persisted tail (live part)
	dbr := s.d.dbRound()
	if dbr > 0 {
		_ = l.trackerDBs.Snapshot(func(ctx context.Context, tx trackerdb.SnapshotScope) error {
			ar, err := tx.MakeAccountsReader()
			if err != nil {
				return err
			}
			data, _, base, err := ar.LoadTxTail(ctx, dbr)
			if err != nil {
				fmt.Fprintf(&b, "|diskerr %v", err)
				return nil
			}
			fmt.Fprintf(&b, "|disk n%d:", int(dbr)+1-int(base))
			ents = ents[:0]
			for _, rd := range data {
				for i := range rd.TxnIDs {
					if rd.LastValid[i] >= next {
						ents = append(ents, fmt.Sprintf("%d:%x", rd.LastValid[i], rd.TxnIDs[i][:8]))
					}
				}
				for _, le := range rd.Leases {
					exp := basics.Round(0)
					if int(le.TxnIdx) < len(rd.LastValid) {
						exp = rd.LastValid[le.TxnIdx]
					}
					ents = append(ents, fmt.Sprintf("%d:L%x/%x:%d", rd.Hdr.Round, le.Sender[:2], le.Lease[:2], exp))
				}
			}
			sort.Strings(ents)
			fmt.Fprintf(&b, "%v", ents)
			return nil
		})
	}
	return ve.HashKey([]byte(b.String()))
}

func (s *c11Sys) committedIdx(i int) bool {
	_, ok := s.ref.committed[i]
	return ok
}

type c11Scenario struct {
	name string
	txs  [][4]int // sender, lease, fv, lv
}

func c11Scenarios() []c11Scenario {
	A, B := 0, 1
	return []c11Scenario{
		{"dup-windows", [][4]int{{A, 0, 1, 5}, {A, 0, 2, 6}, {B, 0, 3, 3}}},
		{"lease-succession", [][4]int{{A, 1, 1, 3}, {A, 1, 2, 6}, {A, 1, 4, 7}}},
		{"lease-isolation", [][4]int{{A, 1, 1, 5}, {B, 1, 1, 5}, {A, 2, 2, 6}}},
		{"lease-short", [][4]int{{A, 1, 1, 1}, {A, 1, 2, 2}, {A, 0, 1, 5}}},
		{"lease-late", [][4]int{{B, 2, 2, 6}, {B, 2, 3, 7}, {B, 0, 3, 7}}},
		{"lease-isolation-lite", [][4]int{{A, 1, 1, 5}, {B, 1, 2, 6}}},
		// take, expire, re-take, contend: three holders of one (sender, lease)
		{"triple-1", [][4]int{{A, 1, 1, 1}, {A, 1, 2, 6}, {A, 1, 3, 7}}},
		{"triple-2", [][4]int{{B, 1, 1, 2}, {B, 1, 3, 5}, {B, 1, 4, 7}}},
		// thorough only from here
		{"lease-chain", [][4]int{{A, 1, 1, 2}, {A, 1, 3, 4}, {A, 1, 5, 7}}},
		{"mixed-1", [][4]int{{A, 1, 2, 4}, {B, 1, 2, 6}, {A, 0, 2, 4}}},
		{"mixed-2", [][4]int{{B, 2, 1, 5}, {B, 2, 5, 9}, {B, 0, 5, 9}}},
		{"mixed-3", [][4]int{{A, 2, 3, 7}, {A, 2, 4, 4}, {A, 1, 3, 7}}},
		{"late-windows", [][4]int{{A, 1, 4, 8}, {A, 1, 5, 9}, {A, 0, 4, 8}}},
		{"four-leases", [][4]int{{A, 1, 1, 4}, {A, 1, 3, 7}, {B, 1, 2, 6}, {A, 1, 6, 9}}},
		{"four-chain", [][4]int{{A, 2, 1, 1}, {A, 2, 2, 3}, {A, 2, 4, 6}, {A, 2, 5, 9}}},
	}
}

// c11TripleScenarios (thorough): every 3-subset of same-(sender,lease) payments over 6
// windows (20 triples): all ways a lease can be taken, expire, be re-taken and be contended
// inside the horizon.
func c11TripleScenarios() []c11Scenario {
	w := [][2]int{{1, 1}, {1, 3}, {2, 4}, {3, 7}, {5, 9}, {6, 6}}
	var out []c11Scenario
	for i := 0; i < len(w); i++ {
		for j := i + 1; j < len(w); j++ {
			for k := j + 1; k < len(w); k++ {
				out = append(out, c11Scenario{
					name: fmt.Sprintf("triple[%d,%d]+[%d,%d]+[%d,%d]", w[i][0], w[i][1], w[j][0], w[j][1], w[k][0], w[k][1]),
					txs:  [][4]int{{1, 2, w[i][0], w[i][1]}, {1, 2, w[j][0], w[j][1]}, {1, 2, w[k][0], w[k][1]}},
				})
			}
		}
	}
	return out
}

// c11PairScenarios (thorough): every unordered pair of same-(sender,lease) payments over a
// fixed set of 8 windows: all relative positions of two lease holders (disjoint, touching,
// nested, overlapping, equal start, equal end).
func c11PairScenarios() []c11Scenario {
	w := [][2]int{{1, 1}, {1, 3}, {1, 5}, {2, 4}, {3, 7}, {4, 8}, {5, 9}, {6, 6}}
	var out []c11Scenario
	for i := 0; i < len(w); i++ {
		for j := i + 1; j < len(w); j++ {
			out = append(out, c11Scenario{
				name: fmt.Sprintf("pair[%d,%d]+[%d,%d]", w[i][0], w[i][1], w[j][0], w[j][1]),
				txs:  [][4]int{{0, 1, w[i][0], w[i][1]}, {0, 1, w[j][0], w[j][1]}},
			})
		}
	}
	return out
}

type c11Config struct {
	scen int    // index into c11Scenarios
	lb   uint64 // MaxAcctLookback
	mem  bool   // in-memory SQLite kept alive by keeper connections / real files
}

func c11Configs() []c11Config {
	fixed := c11Scenarios()
	byName := func(n string) int {
		for i, sc := range fixed {
			if sc.name == n {
				return i
			}
		}
		panic("c11: unknown scenario " + n)
	}
	if !ve.Thorough() {
		return []c11Config{
			{byName("dup-windows"), 0, true},
			{byName("lease-isolation-lite"), 0, true},
			{byName("triple-1"), 0, true},
			{byName("triple-2"), 0, true},
			{byName("triple-1"), 2, true},
			{byName("dup-windows"), 2, false},
		}
	}
	// ordered so that a budget-capped run (busy machine) has seen every kind of exploration
	// first: the quick scenarios, then ALL same-lease triples, then the remaining fixed
	// scenarios, file-backed runs, MaxAcctLookback 2, and the pairs
	var cfgs []c11Config
	nfixed := len(fixed)
	first := []string{"dup-windows", "lease-isolation-lite", "triple-1", "triple-2", "lease-succession"}
	isFirst := map[int]bool{}
	for _, n := range first {
		cfgs = append(cfgs, c11Config{byName(n), 0, true})
		isFirst[byName(n)] = true
	}
	npairs := len(c11PairScenarios())
	for i := range c11TripleScenarios() {
		cfgs = append(cfgs, c11Config{nfixed + npairs + i, 0, true})
	}
	for sc := 0; sc < nfixed; sc++ {
		if !isFirst[sc] {
			cfgs = append(cfgs, c11Config{sc, 0, true})
		}
	}
	for _, n := range []string{"dup-windows", "triple-1"} {
		cfgs = append(cfgs, c11Config{byName(n), 0, false}, c11Config{byName(n), 1, false})
	}
	for sc := 0; sc < nfixed; sc++ {
		cfgs = append(cfgs, c11Config{sc, 2, true})
	}
	for i := 0; i < npairs; i++ {
		cfgs = append(cfgs, c11Config{nfixed + i, 0, true})
	}
	return cfgs
}

func TestVerif_C11(t *testing.T) {
	r := ve.NewRun("C11", "model_checking")
	// production nodes run with deadlock detection off unless explicitly configured; the
	// detector serialises every lock operation of the 16 explorer workers on one global mutex
	deadlock.Opts.Disable = true
	proto := c11RegisterProto()
	maxRound := basics.Round(ve.Pick(6, 8))
	u := c11Universe(maxRound + 1)
	all := append(append(c11Scenarios(), c11PairScenarios()...), c11TripleScenarios()...)
	var cov ve.Coverage
	cov.Exhaustive = true
	nrun := 0
	var skipped []string
	for _, cf := range c11Configs() {
		cf := cf
		sc := all[cf.scen]
		store := "mem"
		if !cf.mem {
			store = "file"
		}
		name := fmt.Sprintf("c11/%s/lb%d/%s", sc.name, cf.lb, store)
		if r.OutOfTime() {
			cov.Exhaustive = false
			skipped = append(skipped, name)
			continue
		}
		var scen []int
		for _, q := range sc.txs {
			scen = append(scen, c11Find(u, q[0], q[1], basics.Round(q[2]), basics.Round(q[3])))
		}
		masks := c11BlockMasks(len(scen))
		nops := len(masks) + 3
		memo := &sync.Map{}
		q := &ve.Seq[*c11Sys]{
			Name:   name,
			NumOps: nops,
			OpName: func(op int) string {
				if op < len(masks) {
					var names []string
					for b, idx := range scen {
						if masks[op]&(1<<uint(b)) != 0 {
							names = append(names, u[idx].String())
						}
					}
					return "blk(" + strings.Join(names, ",") + ")"
				}
				return []string{"flush", "reload", "reopen"}[op-len(masks)]
			},
			New: func() *c11Sys {
				s := &c11Sys{u: u, scen: scen, ref: c11Ref{committed: map[int]basics.Round{}}, maxRound: maxRound, run: r, proto: proto, memo: memo}
				d, err := c11Open(cf.lb, cf.mem)
				if err != nil {
					panic(fmt.Sprintf("c11: cannot open ledger: %v", err))
				}
				s.d = d
				return s
			},
			Close:    func(s *c11Sys) { s.d.close() },
			Apply:    func(s *c11Sys, op int) (bool, error) { return s.apply(op, masks) },
			Key:      func(s *c11Sys) string { return s.key() },
			Observe:  func(s *c11Sys) string { return s.commitString() },
			MaxDepth: 64,
		}
		res := q.Explore(r)
		cov.AddSeq(res)
		nrun++
		if !res.Exhaustive || !res.FrontierEmptied {
			cov.Exhaustive = false
		}
		if r.Violations() > 0 {
			break
		}
	}
	r.Set("explorations", nrun)
	if len(skipped) > 0 {
		r.Note("out of time before starting: %v", skipped)
	}
	r.Set("universe_txns", len(u))
	r.Set("max_round", uint64(maxRound))
	cov.Rule = fmt.Sprintf("BFS to fixpoint (frontier emptied) over all sequences of blk(S) (S subset of the 3-4 scenario payments, |S|<=2, rounds 1..%d), flush, reloadLedger, Close+OpenLedger on a real Ledger (MaxTxnLife=4), %d explorations (scenario x MaxAcctLookback x in-memory/file SQLite); after every new op all %d universe payments (2 senders x 3 leases x all windows of length<=4 in [1,%d]) are checked through Ledger.CheckDup, TestTransactionGroup and TransactionGroup against the committed-set/lease-table reference; every new block is also re-validated by Ledger.Validate", maxRound, nrun, len(u), maxRound+1)
	r.Assume("blockQueue syncer drained after every block (notifyCommit has run); flushes happen only where the op sequence says so (lastFlushTime pinned)")
	r.Assume("signature verification mocked (unsigned transactions); restarts are process-level (Close/OpenLedger), not power loss; in-memory explorations keep the SQLite shared-cache databases alive across Close with one extra connection")
	r.Assume("state merging: states with equal round, DB round, live committed set, live txTail memory and live persisted tail are explored once (see key())")
	if r.Finish(cov) > 0 {
		t.Fatal("violations")
	}
}
