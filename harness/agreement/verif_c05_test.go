package agreement

// C05 - Consensus makes progress once the network is synchronous (bounded liveness checked as a
// safety property: "commit within K periods after the synchrony point").
//
// Engine E-AGR (common_eagr_*_test.go), lock-step explorer with a FAITHFUL VIRTUAL CLOCK per node:
// the clock of a node is zeroed by its rezero actions; when nothing is left to deliver, virtual time
// advances to the earliest pending deadline of any node - player.Deadline (filter / deadline / next-vote
// ranges with RandomEntropy = 1) or player.FastRecoveryDeadline (lambda_f of the real consensus
// parameters) - and exactly the timers due at that instant fire (timeout before fastTimeout, node
// order). Messages take no time once delivered in order; a node whose next round was committed by
// another node catches up through its ledger (roundInterruptionEvent) when nothing else is deliverable.
// Steps and periods are NOT bounded (partition recovery by bundle re-broadcast at step >= next+3 and
// fast-recovery votes are live).
// Enumerated: every asynchronous prefix with <= 2 deviations (quick; 3 thorough) among {message lost,
// message held back past the next timeout, crash-restart of one node}, confined to the first two
// periods; from the last deviation on the synchronous schedule runs. Configurations: 3 honest nodes
// with threshold 2 of 3 (all online), and 3 honest nodes + 1 silent account with threshold 3 of 4
// (every honest vote is needed for every quorum).
// live-5nodes-softlate-nextsplit: 5 honest nodes, threshold 4 of 5, one round: the soft votes of one
// period arrive 1 or 2 timeouts late everywhere AND/OR the next votes of one period reach one node at
// once, any subset of the others two timeouts later and the rest never (5 x 16 delivery patterns) - so
// period 0 can certify both bottom (step next) and a value (step next+1), known to different subsets;
// deviations in period 0 (thorough: periods 0-1).
// live-5nodes-2rounds-pipelining: 5 honest nodes, 4 of 5, two rounds: the cert votes of one (round,
// period) reach one node two timeouts late or never (it keeps receiving the next round's proposal and
// soft votes, which it pipelines) AND/OR one node stops for good; ledger catch-up only after a node has
// been behind for 3 regular timeouts.
// Seeded changes: C05-A (bundleFresh filters a previous-period next bundle below LastConcluding) DETECTED
// in live-5nodes-softlate-nextsplit (3/2 split stuck in period 1 up to step next+9); C05-B (enterRound
// returns before handling the pipelined threshold when a payload was pipelined) DETECTED in
// live-5nodes-2rounds-pipelining (round 2 stuck in period 0); both at the quick tier.
// Oracle: every node that is still running commits its round at the latest in period
// (highest period of any node when the last deviation was taken) + K, K = 3; no node sits in one period
// beyond step next+8; no panic inside submitTop.
// K was fixed after measuring the unmodified tree: worst commit period - synchrony period = 2 (slack 1),
// highest step reached = next+5 (slack 3).
//
// Mutants (bin/mut, quick tier):
//   DETECTED  player.partitionPolicy never re-broadcasts the freshest bundle (`if false && bundleResponse.Ok`):
//             after one lost vote in the 3-of-4 configuration all nodes sit in period 0 up to step next+9
//             (virtual time 17 min) - key C05:stuck-in-period.
//   DETECTED  player.partitioned() always false (no resynchronisation at all): same symptom.
// Not covered: liveness beyond the horizon (no fairness argument); Byzantine behaviour after the
// synchrony point; message delays other than "past one timeout"; real timers (virtual time only).

import (
	"fmt"
	"testing"
	"time"

	ve "github.com/algorand/go-algorand/verifeng"
)

// c05K is the frozen bound: every honest node commits at the latest in period (period at the
// synchrony point) + c05K. Measured on the unmodified tree (see header), plus slack 1.
const c05K = 3

// c05MaxStep: a node that is still in the same period at a step beyond this is stuck (measured, see header).
const c05MaxStep = next + 8

func c05Configs(scale int) []*eagrBFS {
	cap := []int64{400000, 4000000}[scale]
	k := int8(scale)
	mk := func(b *eagrBFS, budget eagrDevs, total int) *eagrBFS {
		b.lock(budget, total, cap)
		b.cfg.virtualTime = true
		b.cfg.entropy = 1 // RandomEntropy of timeout events (0 would pin the fast-recovery deadline to a multiple of lambda_f forever)
		b.cfg.maxPeriod = 12 // horizon: a node beyond it is a violation long before
		b.maxStep = 255
		b.devPeriods = 2
		return b
	}
	p1of5 := []bool{true, false, false, false, false}
	// 5 honest nodes, threshold 4 of 5. (b) period 0 can certify BOTH bottom (step next) and a value
	// (step next+1) with the two quorums known to different subsets: the soft votes of one period
	// arrive late everywhere, and the next votes of one period reach one node at once, any subset of
	// the others two timeouts later and the rest never.
	split := mk(eagrHonest5("live-5nodes-softlate-nextsplit", p1of5, 1, 12), eagrBudget(0, 0, 0, 0, 0, 0, 0).with(eagrDevFateSoftLate, 1).with(eagrDevFateSplit, 1), 2)
	split.devPeriods = 1 + scale
	// (c) two rounds with pipelining: the cert votes of one (round, period) reach one node two timeouts
	// late (or never) while it keeps receiving the next round's proposal and soft votes; one other node
	// stops for good; from then on the network is synchronous among the remaining 4 of 5.
	pipe := mk(eagrHonest5("live-5nodes-2rounds-pipelining", p1of5, 2, 12), eagrBudget(0, 0, 0, 0, 0, 0, 0).with(eagrDevFateMiss, 1).with(eagrDevDown, 1), 2)
	pipe.cfg.catchupDelay = 3
	return []*eagrBFS{
		split, pipe,
		mk(eagrHonest3("live-3of3online", nil, nil, 1, 12), eagrBudget(2+k, 2+k, 0, 1, 0, 0, 0), int(2+k)),
		mk(eagrByz4("live-3of4online", nil, 1, 12), eagrBudget(2+k, 1+k, 0, 1, 0, 0, 0), int(2+k)),
	}
}

func TestVerif_C05(t *testing.T) {
	var worst, stepMax eagrAtomicMax
	eagrRunCheck(t, &eagrCheck{
		id: "C05", level: "model_checking",
		configs: c05Configs(ve.Pick(0, 1)),
		oracle: func(r *ve.Run, b *eagrBFS, pre *eagrSys, e eagrEv, post *eagrSys, out *eagrOut, path func() []eagrEv) {
			if out.panicMsg != "" {
				r.Report("C05:panic", fmt.Sprintf("[%s] after %v: %s", b.name, e, out.panicMsg), eagrReplayOf(b, path))
				return
			}
			for _, c := range out.commits {
				worst.update(int64(int(c.period) - post.syncPeriod))
				r.Class(fmt.Sprintf("%s/commit-after/%d", b.name, int(c.period)-post.syncPeriod))
			}
			for _, n := range post.nodes {
				if !n.passive {
					stepMax.update(int64(n.p.Step))
				}
				if !n.passive && n.p.Step > c05MaxStep && n.p.Step < late {
					r.Report("C05:stuck-in-period", fmt.Sprintf("[%s] after %v: node %d reached step %d of period %d of round %d without the period or round ending (last deviation in period %d, virtual time %v)",
						b.name, e, n.id, n.p.Step, n.p.Period, n.p.Round, post.syncPeriod, time.Duration(post.now)), eagrReplayOf(b, path))
				}
				if !n.passive && int(n.p.Period) > post.syncPeriod+c05K {
					r.Report("C05:no-commit-within-K-periods", fmt.Sprintf("[%s] after %v: node %d reached period %d without committing round %d; the last deviation was taken in period %d, bound K=%d (virtual time %v)",
						b.name, e, n.id, n.p.Period, n.p.Round, post.syncPeriod, c05K, time.Duration(post.now)), eagrReplayOf(b, path))
				}
			}
		},
		rule: "Real player+rootRouter of 3 honest nodes under a faithful per-node virtual clock (real Deadline / FastRecoveryDeadline values); every asynchronous prefix with a bounded number of lost / late messages and crash-restarts in the first two periods, then the synchronous schedule; every running node must commit within K=3 periods of the synchrony point and never exceed step next+8 within a period.",
		assume: []string{
			"as C01 for the node shell; in addition a node whose next round is committed elsewhere catches up via its ledger once nothing else is deliverable",
			"K and the step bound were measured on the unmodified tree (worst 2 periods / step next+5) and frozen with slack 1 / 3",
			"RandomEntropy of timeout events is the constant 1",
		},
		finish: func(r *ve.Run, total *eagrStats) {
			r.Set("worst_commit_period_minus_sync_period", worst.v.Load())
			r.Set("K", c05K)
			r.Set("highest_step_reached", stepMax.v.Load())
			r.Set("fast_timeouts", total.fastTimeouts)
			r.Set("bundles_rebroadcast", total.bundlesSent)
		},
	})
}
