package agreement

// C01 - Consensus safety: no two honest nodes commit different blocks for a round.
//
// Engine E-AGR (common_eagr_*_test.go): N honest nodes, each the REAL player + rootRouter advanced
// only through rootRouter.submitTop, inside a deterministic single-threaded shell that mirrors
// Service.mainLoop/do, demux.next, pseudonode and persistState; real makeVote / vote, bundle and
// proposal verification (memoized); private consensus version in which every account's sortition
// weight equals its stake (1 microalgo) for every (round, period, step).
//
// Explored (each configuration exhaustively within its stated bound; canonical state = every
// node's encode() router+player bytes + ledger digests + disk image + in-flight messages):
//   sync-*  3 honest nodes, threshold 2 of 3. Default = the synchronous schedule (every message
//           delivered in send order, then every node takes its timeout). ALL executions that
//           depart from it by at most k deviations: message lost / held back past the next timeout
//           (+ in "faults": delivered twice, reordered, crash-restart of a node from its last
//           persisted state, timeout at a subset of the nodes only, fast-recovery timeout).
//           Variants: 1 or 3 proposers, a node that never receives period-0 payloads, 2 rounds.
//   sync-*-netsplit  selective delivery as single deviations: "slow payload" (every in-flight copy of
//           one proposal payload is held back past the next 1 or 2 timeouts), "vote cut" (the votes of
//           one (period, step) reach only node i, or do not cross {i}|rest), "node offline" (node i is
//           cut off in both directions for the next 1..4 delivery sub-phases); <= 2 of them (thorough:
//           + one lost/late message). With equal stakes (1 proposer) and with UNEQUAL stakes 10/45/45,
//           threshold 70 of 100 (3 proposers; the two large nodes form a quorum, small+large do not).
//   sync-3prop-w10-45-45  the unequal-stake system under lost/late messages.
//   sync-1prop-latepayload-crashcut  one crash-restart at any decision point + one vote cut: the restored
//           node runs on through its next timeouts and period 1.
//   byz-3of4  3 honest + 1 adversary account, threshold 3 of 4: additionally adversary votes
//           (soft/cert/next, any value seen or bottom, to any single node, incl. equivocation pairs).
//   async-1prop  full asynchronous reachability (any delivery order, any-time timeouts, <=1
//           crash-restart), breadth-first, complete up to a fixed number of events.
// Oracle: over all ensureActions ever emitted by honest nodes round -> block digest is a function;
// no conflicting write into a node's mock ledger; no panic inside submitTop.
//
// Seeded changes (/verif/seeded, quick tier): C01-A (late-payload cert vote allowed in step next) DETECTED
//   in sync-1prop-netsplit (slow payload + cert votes reach one node only); C01-B (encode drops the current
//   round) DETECTED in sync-1prop-latepayload-crashcut (crash after the cert vote + vote cut => the restored
//   node next-votes bottom => fork).
// Mutants (bin/mut, quick tier):
//   DETECTED  player.issueNextVote: next-vote bottom although the staged value is committable
//             (`if answer.Committable` -> `if false && answer.Committable`): fork found with 2 lost messages.
//   DETECTED  player.handleMessageEvent: cert-vote on payloadAccepted, i.e. without a soft quorum.
//   MISSED at the quick bound, DETECTED at the thorough bound (fork in sync-1prop-latepayload after 97k
//             transitions): handleThresholdEvent(softThreshold) without `p.Step <= cert` (cert vote after the
//             next vote); the shortest fork needs 4 deviations of mixed kinds (lost + held messages).
//   not property-breaking (analysed, see report): voteTracker.count without EquivocatorsCount (only
//             under-counts: liveness); issueSoftVote ignoring nextStatus.Proposal in period>0 (needs a
//             Byzantine *proposer* with the lowest period-1 credential, not in the adversary alphabet).
// Not covered: more than 3 honest nodes / 4 accounts, periods > 1 and steps > next (partition recovery,
// see C05), Byzantine proposals, cancellation of stale verification requests, message re-encoding on
// the wire (nodes exchange the decoded structs).

import (
	"fmt"
	"testing"

	"github.com/algorand/go-algorand/crypto"
	"github.com/algorand/go-algorand/data/basics"
	ve "github.com/algorand/go-algorand/verifeng"
)

// c01Oracle checks one transition: every ensureAction agrees with every block any honest node
// holds (before the step) and with the other ensureActions of the step; the mock ledger saw no
// conflicting write; the state machine did not panic.
func c01Oracle(r *ve.Run, b *eagrBFS, pre *eagrSys, e eagrEv, post *eagrSys, out *eagrOut, path func() []eagrEv) {
	if out.panicMsg != "" {
		r.Report("C01:panic", fmt.Sprintf("[%s] after %v: %s", b.name, e, out.panicMsg), eagrReplayOf(b, path))
		return
	}
	for _, c := range out.conflicts {
		r.Report("C01:ledger-conflict", fmt.Sprintf("[%s] after %v: %s", b.name, e, c), eagrReplayOf(b, path))
	}
	if len(out.commits) == 0 {
		return
	}
	seen := map[basics.Round]crypto.Digest{}
	for _, n := range pre.nodes {
		for rnd, ent := range n.led.entries {
			seen[rnd] = ent.digest
		}
	}
	for _, c := range out.commits {
		rnd := c.act.Certificate.Round
		d := c.act.Payload.Digest()
		if old, ok := seen[rnd]; ok && old != d {
			r.Report("C01:fork", fmt.Sprintf("[%s] after %v: node %d commits block %v for round %d (period %d) but block %v was already committed for that round by an honest node",
				b.name, e, c.node, d, rnd, c.period, old), eagrReplayOf(b, path))
		}
		seen[rnd] = d
	}
}

func TestVerif_C01(t *testing.T) {
	eagrRunCheck(t, &eagrCheck{
		id: "C01", level: "model_checking",
		configs: eagrSafetyConfigs(ve.Pick(1, 2)),
		oracle:  c01Oracle,
		rule: "Real player+rootRouter state machines of 3 honest nodes driven through rootRouter.submitTop by a deterministic shell; every transition checks that round->committed digest is a function over all honest ensureActions, that no mock ledger sees a conflicting write and that submitTop does not panic.",
		assume: []string{
			"node shell (network, verification, pseudonode, persistence glue) re-implements Service.do/demux/pseudonode faithfully; the real Service wiring is not executed here",
			"sortition is made deterministic by a private consensus version with committee size = total stake (weight = stake = 1)",
			"nodes exchange decoded message structs (wire codec not exercised); stale-verification cancellation is not modelled",
			"any-time / lock-step timeouts: durations are abstracted (sound for safety)",
		},
	})
}
