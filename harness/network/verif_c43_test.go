package network

// C43 — Peers never deliver oversized or duplicate gossip to handlers. Entry point of part 1 (sequential parts
// a, b, c); part 2 (E-SCHED) is TestVerif_C43_sched in verif_c43_sched_test.go. The per-part headers state the
// alphabets, bounds and oracles (verif_c43_a_slurper_test.go, verif_c43_b_peer_test.go, verif_c43_c_filter_test.go).
//
// Unexported identifiers the harness depends on (a rename is a build failure, exit 2, never a verdict):
//   (the LimitedReaderSlurper is inspected by reflection only: no private field names), allocationStep,
//   averageMessageLength; wsPeer.{conn,closing,sendBufferHighPrio,sendBufferBulk,responseChannels,
//   processed,incomingMsgFilter,outgoingMsgFilter,enableVoteCompression,voteCompressionTableSize,features,msgCodec,wg,
//   outstandingTopicRequests,readLoop,makeResponseChannel}, makePeerCore, makeWsPeerMsgCodec, wsPeerWebsocketConn,
//   GossipNode.peerRemoteClose, disconnectReason*, sendMessage.{data,msgTags}, Topic.{key,data}, requestHashKey,
//   zstdCompressionMagic, voteCompressionAbortMessage, pfCompressedVoteVpack*, messageFilter.{buckets,
//   currentTopBucket,nonce}, makeMessageFilter.
//
// Detection demonstrated (bin/mut, quick tier; all revert to PASS):
//   M1  slurper.Reset keeps a stale larger limit (currentMessageMaxSize = max(old,n))      DETECTED  part a phase 2 (Reset from every state)
//   M2  allocateNextBuffer ignores the remaining allowance (always allocationStep)         DETECTED  part a (capacity > max allocation)
//   M3  readLoop resets the slurper with TxnTag's limit for every tag                      DETECTED  part b1 (AV limit+1 handed to readBuffer)
//   M4b readLoop reads without a limit and compares the size AFTER the read                DETECTED  part b1 (AV limit+200000: 264192 bytes of buffer offered, bound 67584)
//   M5  messageFilter.CheckDigest releases the lock between find and insert                DETECTED  only by the E-SCHED part (1 preemption); part 1 passes
//   M6b bucket rotation clears the newest (just filled) bucket instead of the oldest       DETECTED  part c E-SEQ at depth 3 and E-SCHED crossed-pair
//   M6  same, leaving a nil bucket (panic in the read loop)                                DETECTED  as C43:panic (E-SEQ) / thread panic (E-SCHED)
//   M7  promotion disabled (needs the 6-step sequence a,b,c,a,d,a to lose a in-window)      DETECTED  part c E-SEQ at depth 6 exactly
//   M8  zstdProposalDecompressor.convert without the decompressed-size check               DETECTED  part b2 (PP with limit+1 decompressed bytes handed on)
//   M9  slurper per-message check off by one (>= instead of >)                             DETECTED  part a (message of exactly limit bytes rejected)
//   M10 messageFilter.find skips the top bucket                                            DETECTED  part c E-SEQ depth 2 and E-SCHED
// Independent seeded changes (round 2): r2A (slurper: single countdown field, 0 = unlimited, so a read ending exactly
//   on the limit lifts it) DETECTED part a (Size() 2 > limit 1 with base 1, chunk [2]); r2B (find() stops at the first
//   nil bucket: warm-up of a filter with >= 3 buckets) DETECTED by the quick 3x1/3x2 E-SEQ configurations at depth 2.

import (
	"encoding/json"
	"strings"
	"testing"
	"time"

	ve "github.com/algorand/go-algorand/verifeng"
)

func TestVerif_C43(t *testing.T) {
	r := ve.NewRun("C43", "model_checking")
	var cov ve.Coverage
	cov.Exhaustive = true
	// --replay: violations of part a carry the complete case (re-run part a), of part b the case name,
	// of part c the op sequence (handled by the E-SEQ engine); a replay file of the E-SCHED part is not ours.
	runA, runB, runC, onlyB := true, true, true, ""
	if raw := r.ReplayRequest(); raw != nil {
		var req struct {
			Engine string          `json:"engine"`
			Part   string          `json:"part"`
			Case   json.RawMessage `json:"case"`
		}
		_ = json.Unmarshal(raw, &req)
		runA = req.Engine == "enum" && strings.HasPrefix(req.Part, "a")
		runB = req.Engine == "enum" && req.Part == "b"
		runC = req.Engine == "seq"
		if runB {
			_ = json.Unmarshal(req.Case, &onlyB)
		}
	}
	var ea int64
	if runA {
		st, tr := c43PartA(r)
		cov.States += st
		cov.Transitions += tr
		ea = r.Evals()
		r.Set("a_evaluations", ea)
	}
	if runB {
		tb := time.Now()
		c43PartB(r, onlyB)
		r.Set("wall_b_s", float64(int(time.Since(tb).Seconds()*10))/10)
		r.Set("b_evaluations", r.Evals()-ea)
	}
	cov.Traces += r.Evals()
	if runC {
		tc := time.Now()
		c43PartCSeq(r, &cov)
		r.Set("wall_c_s", float64(int(time.Since(tc).Seconds()*10))/10)
	}
	cov.Rule = "E-ENUM: LimitedReaderSlurper x every composition/fault of messages 0..max+3 (4 configs) + Reset from every distinct reached state; " +
		"wsPeer.readLoop x every tag x {limit-1,limit,limit+1} x boundary chunkings, zstd proposals {limit-1,limit,limit+1,4*limit}, vpack votes, all tag pairs; " +
		"E-SEQ: 2 peers x 3 msgs x 3 tags, all sequences <= 6 through two real read loops sharing a 2x2 messageFilter"
	r.Assume("the websocket library's own frame handling is replaced by a scripted wsPeerWebsocketConn (SetReadLimit recorded, not emulated)")
	r.Note("observation (not a violation, lead's classification): a message with an unknown or deprecated tag has no per-tag limit (Tag.MaxMessageSize()==0 and LimitedReaderSlurper treats 0 as unlimited): it is buffered up to the global MaxMessageLength cap (6 MiB), dropped, and the peer is not disconnected (readLoop carries a TODO); see findings/C43-unknown-tag-unbounded")
	r.Assume("for unknown/deprecated tags only 'never handed to a handler' and 'buffered bytes <= MaxMessageLength' are demanded")
	r.Assume("messageFilter.nonce pinned to zero so that digests are identical in every explored instance (irrelevant to the property)")
	if n := r.Finish(cov); n > 0 {
		t.Fatalf("%d violation(s)", n)
	}
}
