package ledger

// C18 — Blocks neither create nor destroy Algos.
//
// Engine E-SEQ (explicit-state BFS, successors by replay) over the REAL Ledger + BlockEvaluator.
//
// System under exploration: an in-memory Ledger (genesis: 4 funded accounts A0..A3, one of
// them online + incentive eligible and 10 microAlgos below a reward-unit boundary, one unfunded
// address A4, an account A5 holding exactly one reward unit, fee sink, rewards pool sized so
// that the rewards level moves every round with a non-zero residue) plus a fixed set-up block
// (asset, two "inner" apps that can issue inner pay / inner close / inner app call, funded app
// accounts, an asset opt-in). Scenarios: payouts with bonus (vFuture), payouts with bonus 0
// (private consensus version), payouts disabled (v39).
//
// Alphabet (ops), simplest first:
//   group ops  — one transaction group handed to TestTransactionGroup+TransactionGroup:
//                pay {0, 1, min-balance, all-but-fee}, pay to the online account, close-to
//                {other, self, fee sink, unfunded address}, close of the online account, pay
//                to rewards pool / fee sink, pay FROM the fee sink, asset transfer / opt-out /
//                create, app noop / create / delete, app call issuing inner pay (fee covered
//                by the caller or paid by the app account), inner close of the app account,
//                inner app call issuing an inner pay (depth 2), keyreg online with the 2A
//                incentive fee / offline / non-participating, heartbeat, fee-pooled groups
//                (fee 0 member), a group whose second member spends from the account created
//                by the first, a re-fund + close group; fees in {min, 2*min, 3*min, 0 pooled}.
//   end-block  — GenerateBlock, then the agreement stand-in picks (proposer, eligible) from
//                {online eligible, online but ineligible, fee sink, offline account, possibly
//                closed/unfunded address}, Validate (which performs the payout) and
//                AddValidatedBlock.
// Bound: <= G groups per block, <= B consecutive blocks, <= T groups in the whole history;
// quick: G=2,B=2,T=2 for the bonus scenario (a second block only after the first end-block
// choice and only after a non-empty block), G=2,B=1 for the other two; thorough: all 5
// proposer choices, empty blocks allowed, second block after 2 choices, G=3 for v39
// (numbers are in the evidence rule). A rejected group is "not enabled".
//
// Oracle (written from the property statement; arithmetic in math/big, independent of
// AccountTotals / WithUpdatedRewards):
//   money(a, L) = balance + [status != NotParticipating] * floor(balance/unit) * (L - rewardsBase)
//   (1) after every ACCEPTED group: the sum over the accounts in the group's delta of
//       money(new, L) - money(old, L) is 0 (L = the block's rewards level; "old" is the harness'
//       own running view; the pool's "old" value at block start is prevPool - units*(L-Lprev)
//       computed by the harness from its own sweep);
//   (2) after GenerateBlock and after Validate (payout applied): the sum of money(.,L) over
//       EVERY account that ever existed (genesis + every address that ever appeared in a
//       delta + app accounts), taking modified accounts from the delta and the others from
//       the ledger at the previous round, equals the genesis total; the delta's Totals.All()
//       as well; accounts modified by a group have in the block delta exactly the value of the
//       last accepted group touching them;
//   (3) after AddValidatedBlock: the same sweep through Ledger.LookupWithoutRewards at the
//       new round equals the genesis total, and Ledger.Totals(rnd).All() and its RewardUnits
//       agree with the sweep.
// A block assembled from accepted groups that the evaluator itself refuses because its
// internal money check fires ("sum of money changed", overflow of totals) is a violation
// too; a block refused only because the chosen proposer is a closed account that would get
// a payout is "not enabled" (agreement would never mark such a proposer eligible).
//
// Execution strategy (cost only, not semantics): the engine's replay instance is a lazy
// recorder; a successor by a group op runs on a fresh evaluator over the (read-only) ledger
// of its parent state, a successor by an end-block op replays the whole history on a private
// ledger because it commits. Every transition is executed on the real code.
//
// Not covered: state-proof transactions, protocol upgrades in the middle of a history,
// signatures (blocks are validated with the mocked signature cache as in the upstream
// ledger tests), balances near 2^64, the testnet hot-fix rounds.
//
// Mutants (bin/mut, quick tier) — all DETECTED, see the final report:
//   M1 ledger/apply/payment.go   close credits CloseRemainderTo with the fee out of thin air
//   M2 ledger/eval/eval.go       Move debits the sender's pre-reward balance (claimed rewards vanish)
//   M3 ledger/eval/eval.go       performPayout credits the proposer without debiting the fee sink
//   M4 ledger/eval/eval.go       StartEvaluator withdraws rewards for the online units only
//   M5 data/basics/userBalance.go WithUpdatedRewards pays one reward unit too many (invisible to the
//                                 evaluator's own totals check, caught by oracle (1))
//   M6 ledger/eval/eval.go       Move skips the zero-amount write for accounts with reward units: a
//                                 zero-fee keyreg to non-participating then forfeits pending rewards
// Seeded changes (independent): C18-A (an account holding exactly one reward unit loses its reward
// when touched; needs the account A5) and C18-B (CalculateTotals counts reward units from
// balance+pending for rewritten accounts; needs an uncredited rewrite — zero-payout proposer A3 —
// of an account whose pending rewards cross a unit boundary): both DETECTED.

import (
	"errors"
	"fmt"
	"math/big"
	"os"
	"sort"
	"strings"
	"sync"
	"sync/atomic"
	"testing"

	"github.com/algorand/go-algorand/agreement"
	"github.com/algorand/go-algorand/config"
	"github.com/algorand/go-algorand/crypto"
	"github.com/algorand/go-algorand/crypto/merklesignature"
	"github.com/algorand/go-algorand/data/basics"
	"github.com/algorand/go-algorand/data/bookkeeping"
	"github.com/algorand/go-algorand/data/committee"
	"github.com/algorand/go-algorand/data/transactions"
	"github.com/algorand/go-algorand/data/transactions/logic"
	"github.com/algorand/go-algorand/data/txntest"
	"github.com/algorand/go-algorand/ledger/eval"
	"github.com/algorand/go-algorand/ledger/ledgercore"
	"github.com/algorand/go-algorand/logging"
	"github.com/algorand/go-algorand/protocol"
	ve "github.com/algorand/go-algorand/verifeng"
)

var c18ledgerSeq atomic.Uint64

// c18tracer captures, through the exported EvalTracer interface, the header of the block
// under construction and the account delta of every top-level group.
type c18tracer struct {
	logic.NullEvalTracer
	hdr      bookkeeping.BlockHeader
	haveHdr  bool
	lastOK   bool
	lastAcct []ledgercore.BalanceRecord
}

func (tr *c18tracer) BeforeBlock(hdr *bookkeeping.BlockHeader) {
	tr.hdr = *hdr
	tr.haveHdr = true
}

func (tr *c18tracer) DetailedEvalErrors() bool { return true }

func (tr *c18tracer) AfterTxnGroup(ep *logic.EvalParams, deltas *ledgercore.StateDelta, evalError error) {
	if deltas == nil { // inner group
		return
	}
	tr.lastOK = evalError == nil
	tr.lastAcct = tr.lastAcct[:0]
	for i := 0; i < deltas.Accts.Len(); i++ {
		addr, data := deltas.Accts.GetByIdx(i)
		tr.lastAcct = append(tr.lastAcct, ledgercore.BalanceRecord{Addr: addr, AccountData: data})
	}
}

// ---------------------------------------------------------------------------------------
// world: immutable per-scenario data shared by all instances

type c18bounds struct {
	perBlock, blocks, total int
	allowEmpty              bool // allow empty non-first blocks / blocks after an empty block
	contEnds                int  // a further block is explored only after one of the first contEnds end-block choices (0 = any)
}

type c18world struct {
	t         *testing.T
	run       *ve.Run
	name      string
	cv        protocol.ConsensusVersion
	proto     config.ConsensusParams
	bd        c18bounds
	ops       []c18op
	eager     bool // replay mode: instances execute immediately on a private ledger
	nGroupOps int

	gen        bookkeeping.GenesisBalances
	genBlock   bookkeeping.Block
	genHash    crypto.Digest
	a          [6]basics.Address
	sink, pool basics.Address
	total      *big.Int

	setupMu    sync.Mutex
	setupDone  bool
	setupBlk   bookkeeping.Block
	setupKnown []basics.Address
	asset      basics.AssetIndex
	appA, appB basics.AppIndex
	approval   []byte

	rejected, ledgers atomic.Int64
	opAcc, opRej      []atomic.Int64 // per op: accepted / rejected (frontier transitions only)
}

func c18addr(tag byte) basics.Address {
	var a basics.Address
	a[0] = 0xC1
	a[1] = 0x80 | tag
	a[31] = tag
	return a
}

// money(a, L) from the property statement.
func c18money(ad ledgercore.AccountData, unit, level uint64) *big.Int {
	m := new(big.Int).SetUint64(ad.MicroAlgos.Raw)
	if ad.Status != basics.NotParticipating && level > ad.RewardsBase {
		units := new(big.Int).SetUint64(ad.MicroAlgos.Raw / unit)
		d := new(big.Int).SetUint64(level - ad.RewardsBase)
		m.Add(m, units.Mul(units, d))
	}
	return m
}

const c18innerSource = `
	txn ApplicationArgs 0; byte "noop"; ==; bnz end
	txn ApplicationArgs 0; byte "pay"; ==; bz notpay
	  itxn_begin
	  int pay; itxn_field TypeEnum
	  txn Accounts 1; itxn_field Receiver
	  txn ApplicationArgs 1; btoi; itxn_field Amount
	  itxn_submit
	  b end
	notpay:
	txn ApplicationArgs 0; byte "close"; ==; bz notclose
	  itxn_begin
	  int pay; itxn_field TypeEnum
	  txn Accounts 1; itxn_field CloseRemainderTo
	  itxn_submit
	  b end
	notclose:
	txn ApplicationArgs 0; byte "call"; ==; bz bad
	  itxn_begin
	  int appl; itxn_field TypeEnum
	  txn Applications 1; itxn_field ApplicationID
	  byte "pay"; itxn_field ApplicationArgs
	  txn ApplicationArgs 1; itxn_field ApplicationArgs
	  txn Accounts 1; itxn_field Accounts
	  itxn_submit
	  b end
	bad:
	  err
`

func c18newWorld(t *testing.T, name string, cv protocol.ConsensusVersion, bd c18bounds, ops []c18op) (*c18world, error) {
	w := &c18world{t: t, name: name, cv: cv, proto: config.Consensus[cv], bd: bd, ops: ops}
	for _, o := range ops {
		if !o.end {
			w.nGroupOps++
		}
	}
	w.opAcc = make([]atomic.Int64, len(ops))
	w.opRej = make([]atomic.Int64, len(ops))
	for i := range w.a {
		w.a[i] = c18addr(byte(i))
	}
	w.sink = c18addr(0x10)
	w.pool = c18addr(0x11)
	a := w.a
	accts := map[basics.Address]basics.AccountData{
		a[0]: {MicroAlgos: basics.MicroAlgos{Raw: 50_000_123}, Status: basics.Offline},
		a[1]: {MicroAlgos: basics.MicroAlgos{Raw: 5_300_000}, Status: basics.Offline},
		a[2]: {MicroAlgos: basics.MicroAlgos{Raw: 1_204_000}, Status: basics.Offline},
		// 10 microAlgos below a reward-unit boundary: its pending rewards (7 units x level) tip it over
		// the boundary, so "balance" and "balance + pending rewards" count different reward units
		a[3]: {MicroAlgos: basics.MicroAlgos{Raw: 7_999_990}, Status: basics.Online, IncentiveEligible: true,
			VoteID: crypto.OneTimeSignatureVerifier{0x31}, SelectionID: crypto.VRFVerifier{0x32}, StateProofID: merklesignature.Commitment{0x33},
			VoteFirstValid: 0, VoteLastValid: 1_000_000, VoteKeyDilution: 1000},
		// exactly one reward unit
		a[5]: {MicroAlgos: basics.MicroAlgos{Raw: 1_000_000}, Status: basics.Offline},
		// fee sink small enough that a few 10-Algo bonuses drain it down to its minimum balance
		w.sink: {MicroAlgos: basics.MicroAlgos{Raw: 23_400_000}, Status: basics.NotParticipating},
		// rate = (pool - minbalance)/500000 = 137 per round over ~64 reward units: level +2/round, residue != 0
		w.pool: {MicroAlgos: basics.MicroAlgos{Raw: 100_000 + 137*500_000 + 4321}, Status: basics.NotParticipating},
	}
	w.gen = bookkeeping.MakeTimestampedGenesisBalances(accts, w.sink, w.pool, 1_700_000_000)
	copy(w.genHash[:], "verif-c18-genesis-hash-000000000")
	var err error
	w.genBlock, err = bookkeeping.MakeGenesisBlock(cv, w.gen, "verif-c18", w.genHash)
	if err != nil {
		return nil, err
	}
	w.total = new(big.Int)
	for _, ad := range accts {
		w.total.Add(w.total, new(big.Int).SetUint64(ad.MicroAlgos.Raw))
	}
	opsA, err := logic.AssembleString(fmt.Sprintf("#pragma version %d\n", w.proto.LogicSigVersion) + main(c18innerSource))
	if err != nil {
		return nil, fmt.Errorf("assemble: %v %v", err, opsA.Errors)
	}
	w.approval = opsA.Program
	return w, nil
}

// ---------------------------------------------------------------------------------------
// exec: a materialized execution context (ledger + open evaluator + harness reference view)

type c18exec struct {
	w    *c18world
	l    *Ledger
	owns bool
	ev   *eval.BlockEvaluator
	tr   *c18tracer

	asset      basics.AssetIndex
	appA, appB basics.AppIndex
	a          [6]basics.Address
	sink, pool basics.Address
	proto      config.ConsensusParams

	known   map[basics.Address]bool
	view    map[basics.Address]ledgercore.AccountData // accounts modified by accepted groups of the open block (+ pool)
	level   uint64                                    // rewards level of the open block
	pending []string                                  // txids of the open block (state key)
	open    []int                                     // op indices of the accepted groups of the open block

	groupsInBlock, blocks int
	lastReject            error
}

func (x *c18exec) close() {
	if x != nil && x.l != nil && x.owns {
		x.l.Close()
	}
	if x != nil {
		x.l = nil
	}
}

func c18openLedger(w *c18world) (*Ledger, error) {
	cfg := config.GetDefaultLocal()
	cfg.Archival = false // no catchpoint tracking work on commit (cost only)
	// the default cache sizes (100k-entry LRUs, 150k-entry verified-txn cache) cost seconds of
	// allocation per ledger; the account caches are not what this property is about
	cfg.DisableLedgerLRUCache = true
	cfg.VerifiedTranscationsCacheSize = 256
	cfg.TxPoolSize = 256
	name := fmt.Sprintf("verif-c18-%d-%d", os.Getpid(), c18ledgerSeq.Add(1))
	w.ledgers.Add(1)
	return OpenLedger(logging.Base(), name, true, ledgercore.InitState{Block: w.genBlock, Accounts: w.gen.Balances, GenesisHash: w.genHash}, cfg)
}

// c18newExec opens a private ledger, installs the set-up block and opens the first evaluator.
func c18newExec(w *c18world) (*c18exec, error) {
	l, err := c18openLedger(w)
	if err != nil {
		return nil, err
	}
	x := &c18exec{w: w, l: l, owns: true, a: w.a, sink: w.sink, pool: w.pool, proto: w.proto, known: map[basics.Address]bool{}}
	for addr := range w.gen.Balances {
		x.known[addr] = true
	}
	x.known[w.a[4]] = true
	w.setupMu.Lock()
	defer w.setupMu.Unlock()
	if !w.setupDone {
		// first instance of the scenario: build the set-up block through the checked path
		if err := x.startBlock(); err != nil {
			x.close()
			return nil, err
		}
		if err := x.setup(); err != nil {
			x.close()
			return nil, fmt.Errorf("setup: %w", err)
		}
		blk, err := l.Block(l.Latest())
		if err != nil {
			x.close()
			return nil, err
		}
		w.setupBlk = blk
		w.asset, w.appA, w.appB = x.asset, x.appA, x.appB
		w.setupKnown = x.knownSorted()
		w.setupDone = true
		return x, nil
	}
	// later instances: re-apply the identical set-up block (same genesis => same block)
	if err := l.AddBlock(w.setupBlk, agreement.Certificate{}); err != nil {
		x.close()
		return nil, fmt.Errorf("re-adding set-up block: %w", err)
	}
	l.WaitForCommit(l.Latest())
	x.asset, x.appA, x.appB = w.asset, w.appA, w.appB
	for _, a := range w.setupKnown {
		x.known[a] = true
	}
	if err := x.startBlock(); err != nil {
		x.close()
		return nil, err
	}
	return x, nil
}

// fork returns an exec sharing x's ledger read-only, with a fresh evaluator on which the
// open block's accepted groups have been re-applied.
func (x *c18exec) fork() (*c18exec, error) {
	y := &c18exec{w: x.w, l: x.l, owns: false, a: x.a, sink: x.sink, pool: x.pool, proto: x.proto,
		asset: x.asset, appA: x.appA, appB: x.appB, known: make(map[basics.Address]bool, len(x.known)), blocks: x.blocks}
	for a := range x.known {
		y.known[a] = true
	}
	if err := y.startBlock(); err != nil {
		return nil, err
	}
	for _, op := range x.open {
		ok, err := y.group(op)
		if err != nil {
			return nil, fmt.Errorf("fork: re-applying %q: %w", x.w.ops[op].name, err)
		}
		if !ok {
			return nil, fmt.Errorf("fork: re-applying %q: rejected", x.w.ops[op].name)
		}
	}
	return y, nil
}

// cur returns the harness' current view of an account inside the open block.
func (x *c18exec) cur(addr basics.Address) (ledgercore.AccountData, error) {
	if ad, ok := x.view[addr]; ok {
		return ad, nil
	}
	ad, _, err := x.l.LookupWithoutRewards(x.l.Latest(), addr)
	return ad, err
}

func (x *c18exec) curMoney(addr basics.Address) uint64 {
	ad, err := x.cur(addr)
	if err != nil {
		return 0
	}
	return c18money(ad, x.proto.RewardUnit, x.level).Uint64()
}

func (x *c18exec) knownSorted() []basics.Address {
	out := make([]basics.Address, 0, len(x.known))
	for a := range x.known {
		out = append(out, a)
	}
	sort.Slice(out, func(i, j int) bool { return string(out[i][:]) < string(out[j][:]) })
	return out
}

// startBlock opens the next evaluator and primes the harness' model of the rewards pool.
func (x *c18exec) startBlock() error {
	rnd := x.l.Latest()
	hdr, err := x.l.BlockHdr(rnd)
	if err != nil {
		return err
	}
	// harness' own count of reward units and of the pool at the previous round
	units := new(big.Int)
	for _, a := range x.knownSorted() {
		ad, _, err := x.l.LookupWithoutRewards(rnd, a)
		if err != nil {
			return err
		}
		if ad.Status != basics.NotParticipating {
			units.Add(units, new(big.Int).SetUint64(ad.MicroAlgos.Raw/x.proto.RewardUnit))
		}
	}
	poolPrev, _, err := x.l.LookupWithoutRewards(rnd, x.pool)
	if err != nil {
		return err
	}
	nextHdr := bookkeeping.MakeBlock(hdr).BlockHeader
	nextHdr.TimeStamp = hdr.TimeStamp + 1
	x.tr = &c18tracer{}
	ev, err := eval.StartEvaluator(x.l, nextHdr, eval.EvaluatorOptions{Generate: true, Validate: true, Tracer: x.tr})
	if err != nil {
		return err
	}
	if !x.tr.haveHdr {
		return fmt.Errorf("tracer did not see the block header")
	}
	x.ev = ev
	x.level = x.tr.hdr.RewardsLevel
	x.view = map[basics.Address]ledgercore.AccountData{}
	x.pending = nil
	x.open = nil
	x.groupsInBlock = 0
	if x.level < hdr.RewardsLevel {
		return ve.Violationf("C18:level-decreased", "rewards level went from %d to %d", hdr.RewardsLevel, x.level)
	}
	// pool after withdrawal, per the property: exactly what the accounts gain in pending rewards
	wd := new(big.Int).Mul(units, new(big.Int).SetUint64(x.level-hdr.RewardsLevel))
	pm := c18money(poolPrev, x.proto.RewardUnit, x.level)
	pm.Sub(pm, wd)
	if pm.Sign() < 0 || !pm.IsUint64() {
		return fmt.Errorf("pool model underflow")
	}
	pn := poolPrev
	if pn.Status != basics.NotParticipating {
		pn.RewardsBase = x.level
	}
	pn.MicroAlgos.Raw = pm.Uint64()
	x.view[x.pool] = pn
	return nil
}

func c18feeRaw(f any) uint64 {
	switch v := f.(type) {
	case basics.MicroAlgos:
		return v.Raw
	case uint64:
		return v
	case int:
		return uint64(v)
	}
	return 0
}

type c18fee int

const (
	c18feeMin c18fee = iota
	c18feeX2
	c18feeX3
	c18feePoolFirst // all fees on the first member, 0 on the others
	c18feePoolLast
)

func (x *c18exec) group(op int) (bool, error) {
	o := x.w.ops[op]
	ok, err := x.submit(o.fee, o.build(x)...)
	if ok && err == nil {
		x.open = append(x.open, op)
	}
	return ok, err
}

// submit hands one group to the evaluator; accepted=false means the evaluator refused it.
func (x *c18exec) submit(fee c18fee, txs ...*txntest.Txn) (accepted bool, err error) {
	for i, tx := range txs {
		if tx.Note == nil {
			tx.Note = fmt.Sprintf("b%d.g%d.t%d", x.blocks, x.groupsInBlock, i)
		}
		fillDefaults(x.w.t, x.l, x.ev, tx)
	}
	var sum uint64
	for _, tx := range txs {
		f := c18feeRaw(tx.Fee)
		switch fee {
		case c18feeX2:
			tx.Fee = basics.MicroAlgos{Raw: 2 * f}
		case c18feeX3:
			tx.Fee = basics.MicroAlgos{Raw: 3 * f}
		}
		sum += f
	}
	if fee == c18feePoolFirst || fee == c18feePoolLast {
		for i, tx := range txs {
			tx.Fee = basics.MicroAlgos{}
			if (fee == c18feePoolFirst && i == 0) || (fee == c18feePoolLast && i == len(txs)-1) {
				tx.Fee = basics.MicroAlgos{Raw: sum}
			}
		}
	}
	var stxns []transactions.SignedTxn
	if len(txs) == 1 {
		stxns = []transactions.SignedTxn{txs[0].SignedTxn()}
	} else {
		stxns = txntest.Group(txs...)
	}
	x.tr.lastOK = false
	x.tr.lastAcct = x.tr.lastAcct[:0]
	if e := x.ev.TestTransactionGroup(stxns); e != nil {
		x.lastReject = e
		return false, nil
	}
	if e := x.ev.TransactionGroup(transactions.WrapSignedTxnsWithAD(stxns)...); e != nil {
		if strings.Contains(e.Error(), "panic") {
			return false, ve.Violationf("C18:panic", "evaluator panicked: %v", e)
		}
		x.lastReject = e
		return false, nil
	}
	if !x.tr.lastOK {
		return false, fmt.Errorf("tracer did not observe the accepted group")
	}
	// oracle (1)
	unit := x.proto.RewardUnit
	diff := new(big.Int)
	var detail []string
	for _, br := range x.tr.lastAcct {
		old, err := x.cur(br.Addr)
		if err != nil {
			return true, err
		}
		mo, mn := c18money(old, unit, x.level), c18money(br.AccountData, unit, x.level)
		diff.Add(diff, mn).Sub(diff, mo)
		detail = append(detail, fmt.Sprintf("%s: %v -> %v", x.short(br.Addr), mo, mn))
	}
	for _, br := range x.tr.lastAcct {
		x.view[br.Addr] = br.AccountData
		x.known[br.Addr] = true
	}
	for _, st := range stxns {
		x.pending = append(x.pending, st.ID().String())
	}
	if diff.Sign() != 0 {
		return true, ve.Violationf("C18:group-sum", "accepted group changed the sum of balances (pending rewards at level %d included) by %v: %s", x.level, diff, strings.Join(detail, "; "))
	}
	x.groupsInBlock++
	return true, nil
}

func (x *c18exec) short(a basics.Address) string {
	for i, y := range x.a {
		if y == a {
			return fmt.Sprintf("A%d", i)
		}
	}
	switch a {
	case x.sink:
		return "sink"
	case x.pool:
		return "pool"
	case x.appA.Address():
		return "appA"
	case x.appB.Address():
		return "appB"
	}
	return a.String()[:8]
}

// sweepDelta: sum over every known account, taking modified ones from the delta.
func (x *c18exec) sweepDelta(d *ledgercore.StateDelta, prevRnd basics.Round) (*big.Int, error) {
	for i := 0; i < d.Accts.Len(); i++ {
		addr, _ := d.Accts.GetByIdx(i)
		x.known[addr] = true
	}
	sum := new(big.Int)
	for _, a := range x.knownSorted() {
		ad, ok := d.Accts.GetData(a)
		if !ok {
			var err error
			ad, _, err = x.l.LookupWithoutRewards(prevRnd, a)
			if err != nil {
				return nil, err
			}
		}
		sum.Add(sum, c18money(ad, x.proto.RewardUnit, x.level))
	}
	return sum, nil
}

// endBlock: generate, let the agreement stand-in choose (proposer, eligible), validate, add.
func (x *c18exec) endBlock(proposer basics.Address, eligible bool) (enabled bool, err error) {
	if !x.owns {
		return false, fmt.Errorf("endBlock on a shared ledger")
	}
	total := x.w.total
	prevRnd := x.l.Latest()
	ub, gerr := x.ev.GenerateBlock(nil)
	if gerr != nil {
		return true, c18blockErr("GenerateBlock", gerr)
	}
	gd := ub.UnfinishedDeltas()
	blk := ub.UnfinishedBlock()
	if blk.RewardsLevel != x.level {
		return true, fmt.Errorf("level mismatch %d vs %d", blk.RewardsLevel, x.level)
	}
	// oracle (2a): generated delta
	sum, serr := x.sweepDelta(&gd, prevRnd)
	if serr != nil {
		return true, serr
	}
	if sum.Cmp(total) != 0 {
		return true, ve.Violationf("C18:block-sum", "generated block %d: sum over all accounts %v != genesis total %v", prevRnd+1, sum, total)
	}
	for addr, want := range x.view {
		got, ok := gd.Accts.GetData(addr)
		if !ok {
			return true, ve.Violationf("C18:block-delta-missing", "account %s modified by an accepted group (or the pool) is absent from the block delta", x.short(addr))
		}
		// (status / participation keys may legitimately change at the end of a block:
		// expiry, suspension — only the money-related fields are compared)
		if got.MicroAlgos != want.MicroAlgos || got.RewardsBase != want.RewardsBase {
			return true, ve.Violationf("C18:block-delta-differs", "account %s: block delta has %d/base %d, the last accepted group left %d/base %d",
				x.short(addr), got.MicroAlgos.Raw, got.RewardsBase, want.MicroAlgos.Raw, want.RewardsBase)
		}
	}
	if x.proto.Payouts.Enabled {
		blk = blk.WithProposer(committee.Seed(proposer), proposer, eligible)
	} else {
		blk = blk.WithProposer(committee.Seed(proposer), basics.Address{}, false)
	}
	vb, verr := validateWithoutSignatures(x.w.t, x.l, blk)
	if verr != nil {
		if strings.Contains(verr.Error(), "is closed but expects payout") {
			return false, nil // agreement would not have marked a closed account eligible
		}
		return true, c18blockErr("Validate", verr)
	}
	vd := vb.Delta()
	sum, serr = x.sweepDelta(&vd, prevRnd)
	if serr != nil {
		return true, serr
	}
	if sum.Cmp(total) != 0 {
		return true, ve.Violationf("C18:block-sum", "validated block %d (proposer %s eligible=%v payout %d): sum over all accounts %v != genesis total %v",
			prevRnd+1, x.short(proposer), eligible, vb.Block().ProposerPayout().Raw, sum, total)
	}
	if all := vd.Totals.All(); new(big.Int).SetUint64(all.Raw).Cmp(total) != 0 {
		return true, ve.Violationf("C18:delta-totals", "validated block %d: delta Totals.All()=%d != genesis total %v", prevRnd+1, all.Raw, total)
	}
	if err := x.l.AddValidatedBlock(*vb, agreement.Certificate{}); err != nil {
		return true, fmt.Errorf("AddValidatedBlock: %w", err)
	}
	x.l.WaitForCommit(x.l.Latest())
	// oracle (3): the committed ledger
	rnd := x.l.Latest()
	sum = new(big.Int)
	units := uint64(0)
	for _, a := range x.knownSorted() {
		ad, _, err := x.l.LookupWithoutRewards(rnd, a)
		if err != nil {
			return true, err
		}
		sum.Add(sum, c18money(ad, x.proto.RewardUnit, x.level))
		if ad.Status != basics.NotParticipating {
			units += ad.MicroAlgos.Raw / x.proto.RewardUnit
		}
	}
	if sum.Cmp(total) != 0 {
		return true, ve.Violationf("C18:ledger-sum", "after block %d: sum over all accounts in the ledger %v != genesis total %v", rnd, sum, total)
	}
	tot, err := x.l.Totals(rnd)
	if err != nil {
		return true, err
	}
	if all := tot.All(); new(big.Int).SetUint64(all.Raw).Cmp(total) != 0 || tot.RewardsLevel != x.level {
		return true, ve.Violationf("C18:ledger-totals", "after block %d: Ledger.Totals All()=%d level %d, expected %v level %d", rnd, all.Raw, tot.RewardsLevel, total, x.level)
	}
	if tot.RewardUnits() != units {
		return true, ve.Violationf("C18:ledger-units", "after block %d: Ledger.Totals reward units %d, sweep says %d", rnd, tot.RewardUnits(), units)
	}
	x.blocks++
	if err := x.startBlock(); err != nil {
		return true, err
	}
	return true, nil
}

func c18blockErr(stage string, err error) error {
	msg := err.Error()
	if strings.Contains(msg, "sum of money changed") || strings.Contains(msg, "overflow") {
		return ve.Violationf("C18:evaluator-money-check", "%s of a block built from accepted groups failed the evaluator's own conservation check: %v", stage, err)
	}
	if strings.Contains(msg, "panic") {
		return ve.Violationf("C18:panic", "%s panicked: %v", stage, err)
	}
	return fmt.Errorf("unexpected %s error: %w", stage, err)
}

// setup: one fixed block creating the asset and the apps (run once per scenario, with all
// oracles; later instances re-add the resulting block).
func (x *c18exec) setup() error {
	must := func(name string, fee c18fee, txs ...*txntest.Txn) error {
		ok, err := x.submit(fee, txs...)
		if err != nil {
			return fmt.Errorf("%s: %w", name, err)
		}
		if !ok {
			return fmt.Errorf("%s: rejected", name)
		}
		return nil
	}
	a := x.a
	if err := must("asset", c18feeMin, &txntest.Txn{Type: "acfg", Sender: a[0], AssetParams: basics.AssetParams{Total: 1000, UnitName: "x", Manager: a[0]}}); err != nil {
		return err
	}
	x.asset = basics.AssetIndex(x.ev.TestingTxnCounter())
	if err := must("appA", c18feeMin, &txntest.Txn{Type: "appl", Sender: a[0], ApprovalProgram: x.w.approval, ClearStateProgram: x.w.approval, Note: "A"}); err != nil {
		return err
	}
	x.appA = basics.AppIndex(x.ev.TestingTxnCounter())
	if err := must("appB", c18feeMin, &txntest.Txn{Type: "appl", Sender: a[0], ApprovalProgram: x.w.approval, ClearStateProgram: x.w.approval, Note: "B"}); err != nil {
		return err
	}
	x.appB = basics.AppIndex(x.ev.TestingTxnCounter())
	x.known[x.appA.Address()] = true
	x.known[x.appB.Address()] = true
	if err := must("fund", c18feeMin,
		&txntest.Txn{Type: "pay", Sender: a[0], Receiver: x.appA.Address(), Amount: 1_300_000},
		&txntest.Txn{Type: "pay", Sender: a[0], Receiver: x.appB.Address(), Amount: 600_000},
		&txntest.Txn{Type: "axfer", Sender: a[1], AssetReceiver: a[1], XferAsset: x.asset}); err != nil {
		return err
	}
	en, err := x.endBlock(x.sink, true)
	if err != nil {
		return err
	}
	if !en {
		return fmt.Errorf("setup block not enabled")
	}
	x.blocks = 0
	return nil
}

// key: everything that can influence future behaviour of this alphabet: all known accounts
// with their resources (LookupLatest), the rewards/bonus/counter part of the latest header,
// the open block's accepted transactions. Transaction ids never recur (position-dependent
// notes), so the tx tail is not part of the key.
func (x *c18exec) key() string {
	var b strings.Builder
	rnd := x.l.Latest()
	hdr, _ := x.l.BlockHdr(rnd)
	fmt.Fprintf(&b, "r%d|%d|%d|%d|%d|bonus%d|ctr%d|", rnd, hdr.RewardsLevel, hdr.RewardsRate, hdr.RewardsResidue, hdr.RewardsRecalculationRound,
		hdr.Bonus.Raw, hdr.TxnCounter)
	for _, a := range x.knownSorted() {
		ad, _, _, err := x.l.LookupLatest(a)
		if err != nil {
			fmt.Fprintf(&b, "err:%v", err)
			continue
		}
		raw, _, _ := x.l.LookupWithoutRewards(rnd, a)
		fmt.Fprintf(&b, "%x:%x:%d;", a[:4], protocol.Encode(&ad), raw.RewardsBase)
	}
	for _, id := range x.pending {
		b.WriteString(id)
		b.WriteByte(',')
	}
	return b.String()
}

// ---------------------------------------------------------------------------------------
// ops

type c18op struct {
	name  string
	fee   c18fee
	build func(x *c18exec) []*txntest.Txn
	// end-block ops
	end      bool
	proposer func(x *c18exec) basics.Address
	eligible bool
}

func c18ops(nEnds int) []c18op {
	pay := func(from, to int, amt uint64) func(x *c18exec) []*txntest.Txn {
		return func(x *c18exec) []*txntest.Txn {
			return []*txntest.Txn{{Type: "pay", Sender: x.a[from], Receiver: x.a[to], Amount: amt}}
		}
	}
	closeTo := func(from int, to func(x *c18exec) basics.Address) func(x *c18exec) []*txntest.Txn {
		return func(x *c18exec) []*txntest.Txn {
			return []*txntest.Txn{{Type: "pay", Sender: x.a[from], CloseRemainderTo: to(x)}}
		}
	}
	acct := func(i int) func(x *c18exec) basics.Address {
		return func(x *c18exec) basics.Address { return x.a[i] }
	}
	call := func(sender int, recv int, args ...string) func(x *c18exec) []*txntest.Txn {
		return func(x *c18exec) []*txntest.Txn {
			tx := txntest.Txn{Type: "appl", Sender: x.a[sender], ApplicationID: x.appA, Accounts: []basics.Address{x.a[recv]}, ForeignApps: []basics.AppIndex{x.appB}}
			return []*txntest.Txn{tx.Args(args...)}
		}
	}
	u64 := func(v uint64) string {
		var b [8]byte
		for i := 0; i < 8; i++ {
			b[7-i] = byte(v >> (8 * i))
		}
		return string(b[:])
	}
	ops := []c18op{
		{name: "pay0 A0>A1", build: pay(0, 1, 0)},
		{name: "pay1 A0>A1", build: pay(0, 1, 1)},
		{name: "payMinBal A0>A4(new)", build: pay(0, 4, 100_000)},
		{name: "pay0 A0>A5(exactly 1 reward unit)", build: pay(0, 5, 0)},
		{name: "pay1 A5(exactly 1 reward unit)>A0", build: pay(5, 0, 1)},
		// everything the account can spend without closing: balance (with pending rewards) - fee - min balance
		{name: "payAllSpendable A2>A1", build: func(x *c18exec) []*txntest.Txn {
			bal := x.curMoney(x.a[2])
			keep := x.proto.MinTxnFee + x.proto.MinBalance
			if bal < keep {
				bal = keep
			}
			return []*txntest.Txn{{Type: "pay", Sender: x.a[2], Receiver: x.a[1], Amount: bal - keep, Fee: x.proto.MinTxnFee}}
		}},
		// everything but the fee: leaves a zero balance without closing (refused unless the record is empty)
		{name: "payAllButFee A2>A1", build: func(x *c18exec) []*txntest.Txn {
			bal := x.curMoney(x.a[2])
			fee := x.proto.MinTxnFee
			if bal < fee {
				bal = fee
			}
			return []*txntest.Txn{{Type: "pay", Sender: x.a[2], Receiver: x.a[1], Amount: bal - fee, Fee: fee}}
		}},
		{name: "pay1 A0>A3(online) fee2x", fee: c18feeX2, build: pay(0, 3, 1)},
		{name: "close A2>A0", build: closeTo(2, acct(0))},
		{name: "close A2>self", build: closeTo(2, acct(2))},
		{name: "close A2>sink", build: closeTo(2, func(x *c18exec) basics.Address { return x.sink })},
		{name: "close A2>A4(new)", build: closeTo(2, acct(4))},
		{name: "close A4>A0", build: closeTo(4, acct(0))},
		{name: "close A3(online)>A0", build: closeTo(3, acct(0))},
		{name: "pay A0>pool 1000", build: func(x *c18exec) []*txntest.Txn {
			return []*txntest.Txn{{Type: "pay", Sender: x.a[0], Receiver: x.pool, Amount: 1000}}
		}},
		{name: "pay A0>sink 1000", build: func(x *c18exec) []*txntest.Txn {
			return []*txntest.Txn{{Type: "pay", Sender: x.a[0], Receiver: x.sink, Amount: 1000}}
		}},
		{name: "pay sink>pool 1000", build: func(x *c18exec) []*txntest.Txn {
			return []*txntest.Txn{{Type: "pay", Sender: x.sink, Receiver: x.pool, Amount: 1000}}
		}},
		{name: "axfer A0>A1 1 fee2x", fee: c18feeX2, build: func(x *c18exec) []*txntest.Txn {
			return []*txntest.Txn{{Type: "axfer", Sender: x.a[0], AssetReceiver: x.a[1], XferAsset: x.asset, AssetAmount: 1}}
		}},
		{name: "axfer optout A1", build: func(x *c18exec) []*txntest.Txn {
			return []*txntest.Txn{{Type: "axfer", Sender: x.a[1], AssetReceiver: x.a[0], AssetCloseTo: x.a[0], XferAsset: x.asset}}
		}},
		{name: "acfg create A1", build: func(x *c18exec) []*txntest.Txn {
			return []*txntest.Txn{{Type: "acfg", Sender: x.a[1], AssetParams: basics.AssetParams{Total: 5, UnitName: "y"}}}
		}},
		{name: "appl noop A1", build: call(1, 1, "noop")},
		{name: "appl innerpay 1000>A1 fee2x", fee: c18feeX2, build: call(1, 1, "pay", u64(1000))},
		{name: "appl innerpay 1000>A2 appPaysFee", build: call(1, 2, "pay", u64(1000))},
		{name: "appl innerclose >A1", build: call(0, 1, "close")},
		{name: "appl inner call appB pay 1000>A1 fee3x", fee: c18feeX3, build: call(1, 1, "call", u64(1000))},
		{name: "appl inner call appB pay appsPayFee", build: call(0, 2, "call", u64(1000))},
		{name: "appl create A1", build: func(x *c18exec) []*txntest.Txn {
			return []*txntest.Txn{{Type: "appl", Sender: x.a[1], ApprovalProgram: "int 1", GlobalStateSchema: basics.StateSchema{NumUint: 1}}}
		}},
		{name: "appl delete appB", build: func(x *c18exec) []*txntest.Txn {
			return []*txntest.Txn{{Type: "appl", Sender: x.a[0], ApplicationID: x.appB, OnCompletion: transactions.DeleteApplicationOC, ApplicationArgs: [][]byte{[]byte("noop")}}}
		}},
		{name: "keyreg online A1 fee 2A", build: func(x *c18exec) []*txntest.Txn {
			return []*txntest.Txn{{Type: "keyreg", Sender: x.a[1], Fee: 2_000_000,
				VotePK: crypto.OneTimeSignatureVerifier{0x41}, SelectionPK: crypto.VRFVerifier{0x42}, StateProofPK: merklesignature.Commitment{0x43}, VoteKeyDilution: 1000}}
		}},
		{name: "keyreg offline A3", build: func(x *c18exec) []*txntest.Txn {
			return []*txntest.Txn{{Type: "keyreg", Sender: x.a[3]}}
		}},
		{name: "keyreg nonpart A1", build: func(x *c18exec) []*txntest.Txn {
			return []*txntest.Txn{{Type: "keyreg", Sender: x.a[1], Nonparticipation: true}}
		}},
		{name: "heartbeat A0 for A3", build: func(x *c18exec) []*txntest.Txn {
			latest := x.l.Latest()
			hdr, _ := x.l.BlockHdr(latest)
			return []*txntest.Txn{{Type: "hb", Sender: x.a[0], FirstValid: latest, HbAddress: x.a[3], HbProof: crypto.HeartbeatProof{Sig: [64]byte{1}},
				HbSeed: hdr.Seed, HbVoteID: crypto.OneTimeSignatureVerifier{0x31}, HbKeyDilution: 1000}}
		}},
		{name: "grp[pay1 A0>A1 | pay1 A1>A0 fee0]", fee: c18feePoolFirst, build: func(x *c18exec) []*txntest.Txn {
			return []*txntest.Txn{{Type: "pay", Sender: x.a[0], Receiver: x.a[1], Amount: 1}, {Type: "pay", Sender: x.a[1], Receiver: x.a[0], Amount: 1}}
		}},
		{name: "grp[payMinBal A0>A4 | pay0 A4>A1 fee0]", fee: c18feePoolFirst, build: func(x *c18exec) []*txntest.Txn {
			return []*txntest.Txn{{Type: "pay", Sender: x.a[0], Receiver: x.a[4], Amount: 100_000}, {Type: "pay", Sender: x.a[4], Receiver: x.a[1], Amount: 0}}
		}},
		{name: "grp[pay A0>A2 1A fee0 | close A2>A0]", fee: c18feePoolLast, build: func(x *c18exec) []*txntest.Txn {
			return []*txntest.Txn{{Type: "pay", Sender: x.a[0], Receiver: x.a[2], Amount: 1_000_000}, {Type: "pay", Sender: x.a[2], CloseRemainderTo: x.a[0]}}
		}},
		// zero-fee keyreg to non-participating inside a fee-pooled group: the only place where an
		// account with pending rewards changes status without any Algo movement of its own
		{name: "grp[pay1 A0>A2 | keyreg nonpart A1 fee0]", fee: c18feePoolFirst, build: func(x *c18exec) []*txntest.Txn {
			return []*txntest.Txn{{Type: "pay", Sender: x.a[0], Receiver: x.a[2], Amount: 1}, {Type: "keyreg", Sender: x.a[1], Nonparticipation: true}}
		}},
		{name: "pay A0>appA 1A", build: func(x *c18exec) []*txntest.Txn {
			return []*txntest.Txn{{Type: "pay", Sender: x.a[0], Receiver: x.appA.Address(), Amount: 1_000_000}}
		}},
	}
	ends := []c18op{
		{name: "END proposer=A3 eligible", end: true, proposer: func(x *c18exec) basics.Address { return x.a[3] }, eligible: true},
		{name: "END proposer=A3 ineligible", end: true, proposer: func(x *c18exec) basics.Address { return x.a[3] }, eligible: false},
		{name: "END proposer=sink eligible", end: true, proposer: func(x *c18exec) basics.Address { return x.sink }, eligible: true},
		{name: "END proposer=A0(offline) eligible", end: true, proposer: func(x *c18exec) basics.Address { return x.a[0] }, eligible: true},
		{name: "END proposer=A4(maybe closed) eligible", end: true, proposer: func(x *c18exec) basics.Address { return x.a[4] }, eligible: true},
	}
	return append(ops, ends[:nEnds]...)
}

// ---------------------------------------------------------------------------------------
// sys: the E-SEQ instance. Three modes:
//   recorder — created by New() for the engine's replay of a frontier node: only records the
//              op sequence (all of it is known to be enabled) and materializes on demand;
//   clone    — created by Clone(recorder) for exactly one new op;
//   eager    — replay mode (VERIF_REPLAY): executes every op immediately on a private ledger.

type c18sys struct {
	w        *c18world
	recorder bool
	hist     []int
	// bound counters, a pure function of hist
	blocks, groupsInBlock, total int
	sawEmpty                     bool
	lastEnd                      int // index (among the end ops) of the last end-block op
	base                         *c18sys
	x                            *c18exec
	herr                         error
}

// c18harness collects harness (non-verdict) failures of all instances.
var c18harness struct {
	n     atomic.Int64
	first atomic.Value
}

func c18harnessFail(err error) {
	if c18harness.n.Add(1) == 1 {
		c18harness.first.Store(err.Error())
	}
}

func (s *c18sys) fail(err error) {
	if s.herr == nil {
		s.herr = err
		var v *ve.Violation
		if errors.As(err, &v) {
			// an oracle failure met outside the engine's Apply (set-up block, replay of a prefix)
			s.w.run.Report(v.Key, fmt.Sprintf("[%s] after set-up + %v: %v", s.w.name, s.histNames(), err),
				map[string]any{"engine": "seq", "harness": "evalmoney/" + s.w.name, "ops": s.hist, "op_names": s.histNames()})
			return
		}
		c18harnessFail(fmt.Errorf("[%s] after %v: %w", s.w.name, s.histNames(), err))
	}
}

func (s *c18sys) histNames() []string {
	out := make([]string, len(s.hist))
	for i, o := range s.hist {
		out[i] = s.w.ops[o].name
	}
	return out
}

// boundEnabled: the pure part of op enabledness.
func (s *c18sys) boundEnabled(op int) bool {
	o := s.w.ops[op]
	bd := s.w.bd
	if s.blocks >= bd.blocks {
		return false
	}
	if s.blocks > 0 && bd.contEnds > 0 && s.lastEnd >= bd.contEnds {
		return false
	}
	if o.end {
		if !bd.allowEmpty && s.blocks > 0 && s.groupsInBlock == 0 {
			return false
		}
		return true
	}
	if s.groupsInBlock >= bd.perBlock || s.total >= bd.total {
		return false
	}
	if !bd.allowEmpty && s.sawEmpty {
		return false
	}
	return true
}

func (s *c18sys) count(op int) {
	s.hist = append(s.hist, op)
	if s.w.ops[op].end {
		if s.groupsInBlock == 0 {
			s.sawEmpty = true
		}
		s.blocks++
		s.groupsInBlock = 0
		s.lastEnd = op - s.w.nGroupOps
	} else {
		s.groupsInBlock++
		s.total++
	}
}

// materialize builds a private exec by executing hist.
func (s *c18sys) materialize() *c18exec {
	if s.x != nil || s.herr != nil {
		return s.x
	}
	x, err := c18newExec(s.w)
	if err != nil {
		s.fail(err)
		return nil
	}
	for i, op := range s.hist {
		en, err := x.run(op)
		if err != nil || !en {
			x.close()
			s.fail(fmt.Errorf("replay divergence at step %d (%s): enabled=%v err=%w", i, s.w.ops[op].name, en, err))
			return nil
		}
	}
	s.x = x
	return x
}

func (x *c18exec) run(op int) (bool, error) {
	o := x.w.ops[op]
	if o.end {
		return x.endBlock(o.proposer(x), o.eligible)
	}
	return x.group(op)
}

func (s *c18sys) apply(op int) (bool, error) {
	if s.herr != nil {
		return false, nil
	}
	if !s.boundEnabled(op) {
		return false, nil
	}
	if s.recorder {
		s.count(op)
		return true, nil
	}
	o := s.w.ops[op]
	var x *c18exec
	switch {
	case s.x != nil: // eager instance
		x = s.x
	case o.end || s.base == nil:
		x = s.materialize()
	default:
		bx := s.base.materialize()
		if bx == nil {
			s.herr = s.base.herr
			return false, nil
		}
		var err error
		x, err = bx.fork()
		if err != nil {
			s.fail(err)
			return false, nil
		}
		s.x = x
	}
	if x == nil {
		return false, nil
	}
	en, err := x.run(op)
	if err != nil {
		if v, ok := err.(*ve.Violation); ok {
			return true, v
		}
		s.fail(fmt.Errorf("op %q: %w", o.name, err))
		return false, nil
	}
	if !en {
		if !o.end {
			s.w.rejected.Add(1)
		}
		s.w.opRej[op].Add(1)
		if os.Getenv("C18_DEBUG") != "" && len(s.hist) == 0 {
			fmt.Printf("DEBUG [%s] %q rejected at depth 1: %v\n", s.w.name, o.name, x.lastReject)
		}
		return false, nil
	}
	s.w.opAcc[op].Add(1)
	s.count(op)
	return true, nil
}

func (s *c18sys) key() string {
	if s.herr != nil {
		return "harness-error"
	}
	x := s.x
	if x == nil {
		x = s.materialize()
	}
	if x == nil {
		return "harness-error"
	}
	return ve.HashKey([]byte(fmt.Sprintf("g%d b%d t%d e%v l%d|", s.groupsInBlock, s.blocks, s.total, s.sawEmpty, s.lastEnd)), []byte(x.key()))
}

func TestVerif_C18(t *testing.T) {
	r := ve.NewRun("C18", "model_checking")
	// private consensus version (registered before any exploration starts)
	nb := config.Consensus[protocol.ConsensusFuture]
	nb.Bonus.BaseAmount = 0
	nb.ApprovedUpgrades = map[protocol.ConsensusVersion]uint64{}
	config.Consensus["verif-c18-nobonus"] = nb

	type scen struct {
		name  string
		cv    protocol.ConsensusVersion
		bd    c18bounds
		nEnds int
	}
	var scs []scen
	if ve.Thorough() {
		scs = []scen{
			{"future-payouts-bonus", protocol.ConsensusFuture, c18bounds{perBlock: 2, blocks: 2, total: 2, allowEmpty: true, contEnds: 2}, 5},
			{"future-payouts-nobonus", "verif-c18-nobonus", c18bounds{perBlock: 2, blocks: 2, total: 2, contEnds: 1}, 3},
			{"v39-no-payouts", protocol.ConsensusV39, c18bounds{perBlock: 3, blocks: 1, total: 3}, 1},
		}
	} else {
		scs = []scen{
			{"future-payouts-bonus", protocol.ConsensusFuture, c18bounds{perBlock: 2, blocks: 2, total: 2, contEnds: 1}, 3},
			{"future-payouts-nobonus", "verif-c18-nobonus", c18bounds{perBlock: 2, blocks: 1, total: 2}, 2},
			{"v39-no-payouts", protocol.ConsensusV39, c18bounds{perBlock: 2, blocks: 1, total: 2}, 1},
		}
	}
	var cov ve.Coverage
	cov.Exhaustive = true
	var rejected, ledgers int64
	opStats := map[string][2]int64{}
	var rules []string
	for _, sc := range scs {
		ops := c18ops(sc.nEnds)
		w, err := c18newWorld(t, sc.name, sc.cv, sc.bd, ops)
		if err != nil {
			t.Fatalf("HARNESS-FAILURE (not a verdict): %v", err)
		}
		w.eager = r.ReplayRequest() != nil
		w.run = r
		q := &ve.Seq[*c18sys]{
			Name:   "evalmoney/" + sc.name,
			NumOps: len(ops),
			OpName: func(op int) string { return ops[op].name },
			New: func() *c18sys {
				s := &c18sys{w: w, recorder: !w.eager}
				if w.eager {
					s.materialize()
				}
				return s
			},
			Clone: func(b *c18sys) *c18sys {
				return &c18sys{w: w, hist: append([]int(nil), b.hist...), blocks: b.blocks, groupsInBlock: b.groupsInBlock, total: b.total, sawEmpty: b.sawEmpty, lastEnd: b.lastEnd, base: b, herr: b.herr}
			},
			Close: func(s *c18sys) {
				s.x.close()
				s.x = nil
			},
			Apply: func(s *c18sys, op int) (bool, error) { return s.apply(op) },
			Key:   func(s *c18sys) string { return s.key() },
			Observe: func(s *c18sys) string {
				if s.x == nil {
					return "-"
				}
				return fmt.Sprintf("b%d g%d lvl%d", s.blocks, s.groupsInBlock, s.x.level)
			},
			MaxDepth: sc.bd.total + sc.bd.blocks,
		}
		if w.eager {
			q.Clone = nil
		}
		res := q.Explore(r)
		cov.AddSeq(res)
		if !res.Exhaustive {
			cov.Exhaustive = false
		}
		rejected += w.rejected.Load()
		for i, o := range ops {
			cur, _ := opStats[o.name]
			cur[0] += w.opAcc[i].Load()
			cur[1] += w.opRej[i].Load()
			opStats[o.name] = cur
		}
		ledgers += w.ledgers.Load()
		cont := "any end-block choice"
		if sc.bd.contEnds > 0 {
			cont = fmt.Sprintf("the first %d end-block choice(s)", sc.bd.contEnds)
		}
		rules = append(rules, fmt.Sprintf("%s: <=%d blocks, <=%d groups/block, <=%d groups total, %d group ops, %d end-block choices, next block only after %s", sc.name, sc.bd.blocks, sc.bd.perBlock, sc.bd.total, len(ops)-sc.nEnds, sc.nEnds, cont))
		if r.Violations() > 0 || r.WasCapped() {
			break
		}
	}
	r.Set("rejected_groups_skipped", rejected)
	r.Set("ledgers_opened", ledgers)
	r.Set("op_accepted_rejected", opStats)
	for name, ar := range opStats {
		if ar[0] == 0 && !strings.Contains(name, "self") {
			r.Note("op %q was never accepted (accepted=%d rejected=%d)", name, ar[0], ar[1])
		}
	}
	cov.Rule = "BFS over all histories of blocks of transaction groups (pay/close/pool/sink/asset/app/inner pay/inner close/inner app call/keyreg/heartbeat/fee-pooled groups) ended by (proposer, eligible) choices, on the real Ledger+BlockEvaluator; bounds per scenario: " + strings.Join(rules, "; ") +
		"; a further block only after non-empty blocks; after every accepted group and every block the sum of all balances incl. pending rewards is recomputed over every account that ever existed and compared with the genesis total, the delta totals and Ledger.Totals"
	r.Assume("block proposer / eligibility are chosen by the harness in place of agreement; signatures are not checked (mocked verified-txn cache, as in the upstream ledger tests)")
	r.Assume("per-group account deltas are observed through the exported EvalTracer.AfterTxnGroup hook (the same hook simulate uses)")
	r.Assume("the set of accounts that ever existed = genesis accounts + every address that ever appears in a group or block delta + the app accounts")
	r.Assume("ledger opened with DisableLedgerLRUCache and small verified-txn cache (cost only)")
	nviol := r.Finish(cov)
	if n := c18harness.n.Load(); n > 0 {
		t.Fatalf("HARNESS-FAILURE (not a verdict): %d harness errors, first: %v", n, c18harness.first.Load())
	}
	if nviol > 0 {
		t.Fatal("violations")
	}
}
