package verifeng

import (
	"fmt"
	"runtime"
	"runtime/debug"
	"sync"
	"sync/atomic"
)

// Workers is the number of worker goroutines used by the parallel helpers.
func Workers() int {
	n := runtime.GOMAXPROCS(0)
	if n > 16 {
		n = 16
	}
	if n < 1 {
		n = 1
	}
	return n
}

// ParallelFor runs f(i) for every i in [0,n) on Workers() goroutines. Every index is
// visited exactly once (exhaustive), unless the run's deadline passes, in which case
// the run is marked capped and the remaining indices are skipped. Returns the number
// of indices actually visited.
func (r *Run) ParallelFor(n int, f func(i int)) int64 {
	var next atomic.Int64
	var done atomic.Int64
	var wg sync.WaitGroup
	w := Workers()
	if w > n {
		w = n
	}
	for k := 0; k < w; k++ {
		wg.Add(1)
		go func() {
			defer wg.Done()
			for {
				i := int(next.Add(1) - 1)
				if i >= n {
					return
				}
				if r.OutOfTime() {
					return
				}
				r.guarded(i, f)
				done.Add(1)
			}
		}()
	}
	wg.Wait()
	return done.Load()
}

// Product enumerates the full cartesian product of the given dimension sizes, calling
// f with the index vector (which must not be retained). Sequential.
func Product(dims []int, f func(idx []int)) int64 {
	for _, d := range dims {
		if d == 0 {
			return 0
		}
	}
	idx := make([]int, len(dims))
	var n int64
	for {
		f(idx)
		n++
		k := len(dims) - 1
		for k >= 0 {
			idx[k]++
			if idx[k] < dims[k] {
				break
			}
			idx[k] = 0
			k--
		}
		if k < 0 {
			return n
		}
	}
}

// ProductSize returns the size of the cartesian product.
func ProductSize(dims []int) int {
	n := 1
	for _, d := range dims {
		n *= d
	}
	return n
}

// Unrank decodes a linear index into an index vector over dims (last dimension fastest).
func Unrank(i int, dims []int, out []int) {
	for k := len(dims) - 1; k >= 0; k-- {
		out[k] = i % dims[k]
		i /= dims[k]
	}
}

// Subsets calls f with every subset (as a bitmask) of n elements.
func Subsets(n int, f func(mask uint)) {
	for m := uint(0); m < 1<<uint(n); m++ {
		f(m)
	}
}

// Permutations calls f with every permutation of 0..n-1 (slice must not be retained).
func Permutations(n int, f func(p []int)) {
	p := make([]int, n)
	for i := range p {
		p[i] = i
	}
	var rec func(k int)
	rec = func(k int) {
		if k == n {
			f(p)
			return
		}
		for i := k; i < n; i++ {
			p[k], p[i] = p[i], p[k]
			rec(k + 1)
			p[k], p[i] = p[i], p[k]
		}
	}
	rec(0)
}

// guarded runs f(i); a panic escaping the code under test on an explored input is a
// violation (reported with its stack), never a harness crash.
func (r *Run) guarded(i int, f func(int)) {
	defer func() {
		if e := recover(); e != nil {
			r.Report(r.ID+":panic", fmt.Sprintf("panic on enumerated case #%d: %v\n%s", i, e, truncate(string(debug.Stack()), 3000)),
				map[string]any{"engine": "enum", "index": i, "panic": fmt.Sprint(e)})
		}
	}()
	f(i)
}

// Guard runs f and reports a panic escaping it as a violation with the given key/replay.
func (r *Run) Guard(key string, replay any, f func()) (panicked bool) {
	defer func() {
		if e := recover(); e != nil {
			panicked = true
			r.Report(key, fmt.Sprintf("panic: %v\n%s", e, truncate(string(debug.Stack()), 3000)), replay)
		}
	}()
	f()
	return false
}
