package network

// C43 part (c), sequential — E-SEQ on the real messageFilter behind two real wsPeer read loops.
//
// System: one messageFilter (2 buckets x bucket size 2, and 3x1, 3x2 at depth 5 (warm-up of a 3-bucket filter); thorough: depth 7, and also 3x2 at depth 7 and 3x1, 2x1 at depth 6) shared as incomingMsgFilter by
// two wsPeers whose readLoop runs on a lock-step scripted connection; a delivery op hands one frame to one peer
// and waits until that peer asks for the next frame, then looks at the shared readBuffer channel ("handed to the
// handler" = the IncomingMessage was queued on readBuffer).
// Alphabet: (peer in {1,2}) x (msg in {m1,m2,m3}) x (tag in {AV, TX (dedup-safe), UE (not dedup-safe)}) = 18 ops,
// all sequences of <= 6 deliveries (state-merged by the complete filter state + the complete reference state).
// Reference (written from the property statement, not from the buckets): for every (tag,msg) of a dedup-safe tag
// remember whether it was handed on and how many OTHER filtered deliveries happened since it was last delivered
// (every filtered delivery adds or promotes at most one entry). Oracle: a delivery of (tag,msg) that was handed
// before and has seen fewer than (buckets-1)*bucketSize other filtered deliveries since its last delivery must NOT
// be handed again (the guaranteed retention window: bucket rotation drops the oldest bucket only after
// (buckets-1)*bucketSize further insertions). For the 2x2 filter the statement's sharper form is used as well:
// fewer than (buckets-1)*bucketSize = 2 other DISTINCT digests delivered since -> must not be handed again. (Valid
// for 2x2: after a delivery of d the top bucket is {d} or empty with d in the other bucket; deliveries of a single
// other digest e can fill the top bucket at most once more, and wiping d's bucket needs the top bucket to fill
// again, which needs a second distinct digest. NOT valid for 3 buckets: d,e1,e2,e1,e3,e1 on 3x2 loses d with
// only 3 < 4 distinct others, because every promotion of e1 consumes a slot — the harness therefore uses the
// delivery count there.) A later re-delivery is allowed. Messages of tags that are not
// dedup-safe never touch the filter and say nothing about the property (they are counted only).
// Non-vacuity counters: fresh messages handed / duplicates dropped / re-deliveries after the window.
// Not covered: the outgoing filter (MS digests) — only the receive path of the property.

import (
	"fmt"
	"runtime/debug"
	"sort"
	"strings"
	"sync"

	"github.com/algorand/websocket"

	"github.com/algorand/go-algorand/protocol"
	ve "github.com/algorand/go-algorand/verifeng"
)

type c43FOp struct {
	peer int
	msg  int
	tag  protocol.Tag
}

var c43FTags = []protocol.Tag{protocol.AgreementVoteTag, protocol.TxnTag, protocol.UniEnsBlockReqTag}

func c43FOps() []c43FOp {
	var ops []c43FOp
	for _, tag := range c43FTags {
		for m := 0; m < 3; m++ {
			for p := 0; p < 2; p++ {
				ops = append(ops, c43FOp{peer: p, msg: m, tag: tag})
			}
		}
	}
	return ops
}

func (o c43FOp) String() string { return fmt.Sprintf("p%d:%s:m%d", o.peer+1, o.tag, o.msg+1) }

type c43FRef struct {
	handed   bool
	others   int             // other filtered deliveries since this digest was last delivered (saturating)
	distinct map[string]bool // distinct other digests delivered since then (kept up to the window size)
}

type c43FSys struct {
	buckets, size int
	f             *messageFilter
	peers         [2]*wsPeer
	conns         [2]*c43Conn
	rb            chan IncomingMessage
	ref           map[string]*c43FRef // key tag/msg, dedup-safe tags only
	stats         *c43FStats
	lastObs       string
}

type c43FStats struct {
	mu                                             sync.Mutex
	freshHanded, dupDropped, lateRedelivered, pass int64
	freshDropped                                   int64
}

func c43FNew(buckets, size int, stats *c43FStats) *c43FSys {
	s := &c43FSys{buckets: buckets, size: size, ref: map[string]*c43FRef{}, stats: stats}
	s.f = makeMessageFilter(buckets, size)
	s.f.nonce = [16]byte{} // pinned: digests must be identical in every instance (state keys)
	s.rb = make(chan IncomingMessage, 4)
	for i := range s.peers {
		st := &c43Step{frames: make(chan c43Frame), idle: make(chan struct{}), dead: make(chan struct{})}
		s.conns[i] = &c43Conn{step: st}
		s.peers[i], _ = c43NewPeer(s.conns[i], s.rb, c43PeerOpt{inFilter: s.f, queue: 16})
		wp := s.peers[i]
		wp.wg.Add(1)
		go func() {
			// a panic of the code under test must become a violation, not a crash of the test binary
			defer close(st.dead)
			defer func() {
				if e := recover(); e != nil {
					st.panicv = fmt.Sprintf("%v\n%s", e, debug.Stack())
				}
			}()
			wp.readLoop()
		}()
		select {
		case <-st.idle:
		case <-st.dead:
		}
	}
	return s
}

func (s *c43FSys) close() {
	for i := range s.peers {
		close(s.conns[i].step.frames)
		<-s.conns[i].step.dead
	}
}

// deliver hands one frame to the peer and reports whether an IncomingMessage reached readBuffer.
func (s *c43FSys) deliver(o c43FOp) (handed bool, err error) {
	payload := []byte(fmt.Sprintf("c43-message-%d", o.msg+1))
	frame := c43FrameOf(o.tag, payload)
	st := s.conns[o.peer].step
	dead := func() error {
		if st.panicv != nil {
			return ve.Violationf("C43:panic", "read loop of peer %d panicked on delivery %s: %v", o.peer+1, o, st.panicv)
		}
		return ve.Violationf("C43:filter-peer-ended", "read loop of peer %d ended on delivery %s", o.peer+1, o)
	}
	select {
	case st.frames <- c43Frame{mtype: websocket.BinaryMessage, data: frame, script: c43Script{Chunks: []int{len(frame)}, ErrAt: -1}}:
	case <-st.dead:
		return false, dead()
	}
	select {
	case <-st.idle:
	case <-st.dead:
		return false, dead()
	}
	select {
	case m := <-s.rb:
		if m.Tag != o.tag || string(m.Data) != string(payload) || m.Sender != DisconnectableAddressablePeer(s.peers[o.peer]) {
			return true, ve.Violationf("C43:filter-wrong-message", "delivery %s handed tag %s data %q", o, m.Tag, m.Data)
		}
		s.peers[o.peer].processed <- struct{}{} // what messageHandlerThread does once the handler returned
		handed = true
	default:
	}
	if len(s.rb) != 0 {
		return handed, ve.Violationf("C43:filter-extra-message", "delivery %s queued more than one message", o)
	}
	return handed, nil
}

func (s *c43FSys) apply(o c43FOp) error {
	handed, err := s.deliver(o)
	if err != nil {
		return err
	}
	if !c43DedupSafeRef(o.tag) {
		s.stats.add(&s.stats.pass)
		s.lastObs = fmt.Sprintf("pass/%v", handed)
		return nil
	}
	key := fmt.Sprintf("%s/%d", o.tag, o.msg)
	window := (s.buckets - 1) * s.size
	e := s.ref[key]
	inWindow := e != nil && e.others < window
	if e != nil && s.buckets == 2 && s.size == 2 && len(e.distinct) < window {
		// 2x2 only: the statement's "fewer than (buckets-1)*bucketSize other DISTINCT digests" is a valid lower
		// bound (see header); for more buckets it is not (a digest promoted twice consumes two slots).
		inWindow = true
	}
	switch {
	case e != nil && e.handed && inWindow:
		if handed {
			return ve.Violationf("C43:duplicate-delivered", "%s was handed to the handler again although only %d other filtered deliveries (%d distinct other digests; guaranteed window %d) happened since it was last delivered", o, e.others, len(e.distinct), window)
		}
		s.stats.add(&s.stats.dupDropped)
		s.lastObs = "dup-dropped"
	case e != nil && e.handed:
		if handed {
			s.stats.add(&s.stats.lateRedelivered)
			s.lastObs = "late-redelivered"
		} else {
			s.stats.add(&s.stats.dupDropped)
			s.lastObs = "late-dropped"
		}
	default:
		if handed {
			s.stats.add(&s.stats.freshHanded)
			s.lastObs = "fresh-handed"
		} else {
			s.stats.add(&s.stats.freshDropped)
			s.lastObs = "fresh-dropped"
		}
	}
	if e == nil {
		e = &c43FRef{}
		s.ref[key] = e
	}
	e.handed = e.handed || handed
	e.others = 0
	e.distinct = map[string]bool{}
	for k, o2 := range s.ref {
		if k == key {
			continue
		}
		if o2.others < window {
			o2.others++
		}
		if len(o2.distinct) < window {
			o2.distinct[key] = true
		}
	}
	return nil
}

// c43DedupSafeRef: the property speaks of "duplicate-safe" messages; the code documents votes and transactions.
func c43DedupSafeRef(t protocol.Tag) bool {
	return t == protocol.AgreementVoteTag || t == protocol.TxnTag
}

func (st *c43FStats) add(p *int64) {
	st.mu.Lock()
	*p++
	st.mu.Unlock()
}

func (s *c43FSys) key() string {
	var sb strings.Builder
	f := s.f
	fmt.Fprintf(&sb, "top=%d", f.currentTopBucket)
	for i := 0; i < len(f.buckets); i++ {
		b := f.buckets[(f.currentTopBucket+i)%len(f.buckets)]
		if b == nil {
			sb.WriteString("|nil")
			continue
		}
		ds := make([]string, 0, len(b))
		for d := range b {
			ds = append(ds, fmt.Sprintf("%x", d[:4]))
		}
		sort.Strings(ds)
		sb.WriteString("|" + strings.Join(ds, ","))
	}
	ks := make([]string, 0, len(s.ref))
	for k, e := range s.ref {
		dk := make([]string, 0, len(e.distinct))
		for d := range e.distinct {
			dk = append(dk, d)
		}
		sort.Strings(dk)
		ks = append(ks, fmt.Sprintf("%s:%v:%d:%s", k, e.handed, e.others, strings.Join(dk, "+")))
	}
	sort.Strings(ks)
	sb.WriteString("#" + strings.Join(ks, ";"))
	return sb.String()
}

func c43PartCSeq(r *ve.Run, cov *ve.Coverage) {
	type cfg struct{ buckets, size, depth int }
	// 3 buckets in the quick tier too: a filter with >= 3 buckets has a warm-up phase (buckets are allocated one per
	// rotation) that a 2-bucket filter does not have.
	cfgs := []cfg{{2, 2, ve.Pick(6, 7)}, {3, 1, 5}, {3, 2, 5}}
	if ve.Thorough() {
		cfgs = cfgs[:1]
		cfgs = append(cfgs, cfg{3, 2, 7}, cfg{3, 1, 6}, cfg{2, 1, 6})
	}
	ops := c43FOps()
	for _, c := range cfgs {
		stats := &c43FStats{}
		q := &ve.Seq[*c43FSys]{
			Name:    fmt.Sprintf("C43-filter-%dx%d", c.buckets, c.size),
			NumOps:  len(ops),
			OpName:  func(op int) string { return ops[op].String() },
			New:     func() *c43FSys { return c43FNew(c.buckets, c.size, stats) },
			Close:   func(s *c43FSys) { s.close() },
			Apply:   func(s *c43FSys, op int) (bool, error) { return true, s.apply(ops[op]) },
			Key:     func(s *c43FSys) string { return s.key() },
			Observe: func(s *c43FSys) string { return s.lastObs },
			Invariant: func(s *c43FSys) error {
				n := 0
				for _, b := range s.f.buckets {
					n += len(b)
				}
				if n > c.buckets*c.size {
					return ve.Violationf("C43:filter-overfull", "filter holds %d digests, capacity %d", n, c.buckets*c.size)
				}
				return nil
			},
			MaxDepth: c.depth,
		}
		res := q.Explore(r)
		cov.AddSeq(res)
		if !res.Exhaustive {
			cov.Exhaustive = false
		}
		r.Set(q.Name+"_outcomes", map[string]int64{"fresh_handed": stats.freshHanded, "duplicate_dropped": stats.dupDropped,
			"redelivered_after_window": stats.lateRedelivered, "fresh_dropped": stats.freshDropped, "not_dedup_safe_passed": stats.pass})
		r.Class(fmt.Sprintf("c/%s/fresh=%v/dup=%v/late=%v", q.Name, stats.freshHanded > 0, stats.dupDropped > 0, stats.lateRedelivered > 0))
	}
}
