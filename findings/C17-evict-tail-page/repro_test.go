package merkletrie

import ("testing";"fmt";"sort")

func dumpT(t *testing.T, mt *Trie, com *InMemoryCommitter, label string) {
	c := &mt.cache
	s := fmt.Sprintf("%s: root=%d next=%d lastCommitted=%d modified=%v defer=%d cached=%d\n", label, mt.root, mt.nextNodeID, mt.lastCommittedNodeID, c.modified, c.deferedPageLoad, c.cachedNodeCount)
	var pages []uint64
	for p := range c.pageToNIDsPtr { pages = append(pages, p) }
	sort.Slice(pages, func(i, j int) bool { return pages[i] < pages[j] })
	for _, p := range pages {
		s += fmt.Sprintf("   mem page %d:", p)
		for id, n := range c.pageToNIDsPtr[p] { s += fmt.Sprintf(" [%d h=%x ch=%v]", id, n.hash, n.children) }
		s += "\n"
	}
	pages = pages[:0]
	for p := range com.memStore { pages = append(pages, p) }
	sort.Slice(pages, func(i, j int) bool { return pages[i] < pages[j] })
	s += fmt.Sprintf("   disk pages %v pendingCreated=%v pendingDelPages=%v\n", pages, c.pendingCreatedNID, c.pendingDeletionPages)
	t.Log(s)
}

func TestReproC17(t *testing.T) {
	for _, cfg := range []MemoryConfig{
		{NodesCountPerPage: 2, CachedNodesCount: 1, PageFillFactor: 0.9, MaxChildrenPagesThreshold: 1},
		{NodesCountPerPage: 2, CachedNodesCount: 1, PageFillFactor: 0.9, MaxChildrenPagesThreshold: 32},
		{NodesCountPerPage: 2, CachedNodesCount: 100, PageFillFactor: 0.9, MaxChildrenPagesThreshold: 1},
		{NodesCountPerPage: 4, CachedNodesCount: 1, PageFillFactor: 0.9, MaxChildrenPagesThreshold: 1},
		{NodesCountPerPage: 2, CachedNodesCount: 1, PageFillFactor: 0.4, MaxChildrenPagesThreshold: 1},
	} {
	com := &InMemoryCommitter{}
	mt, _ := MakeTrie(com, cfg)
	a := []byte{0, 0, 1, 0}
	b := []byte{0, 0, 0, 0x10}
	c := []byte{1, 0, 0, 0}
	d := []byte{0, 0, 0, 0}
	verbose := cfg.MaxChildrenPagesThreshold == 1 && cfg.NodesCountPerPage == 2 && cfg.CachedNodesCount == 1 && cfg.PageFillFactor > 0.5
	mt.Add(a)
	mt.Add(b)
	if verbose { dumpT(t, mt, com, "after add a,b") }
	n, err := mt.Evict(true)
	if verbose { dumpT(t, mt, com, fmt.Sprintf("after evict(commit) n=%d err=%v", n, err)) }
	mt.Add(c)
	if verbose { dumpT(t, mt, com, "after add c") }
	_, err = mt.RootHash()
	if verbose { dumpT(t, mt, com, fmt.Sprintf("after roothash err=%v", err)) }
	ok, err := mt.Delete(d)
	t.Logf("cfg %+v: delete absent -> %v %v", cfg, ok, err)
	}
}
