package testsuite

// C47 — write alphabet: primitive writes, the bookkeeping needed to decide which writes the
// documented caller contract allows in a state (c47model: existence sets and counters, no
// expectations about read results), and their execution through the real
// trackerdb.Writer interfaces inside one store transaction per batch.

import (
	"context"
	"errors"
	"fmt"

	"github.com/algorand/go-algorand/crypto"
	"github.com/algorand/go-algorand/data/basics"
	"github.com/algorand/go-algorand/data/bookkeeping"
	"github.com/algorand/go-algorand/ledger/ledgercore"
	"github.com/algorand/go-algorand/ledger/store/trackerdb"
	"github.com/algorand/go-algorand/protocol"
)

const (
	c47nAddr = 3
	c47nAidx = 3
	c47nKeys = 7
)

var c47addrs = func() (a [c47nAddr]basics.Address) {
	for i := range a {
		for j := range a[i] {
			a[i][j] = byte(0x11 * (j%7 + 1))
		}
		a[i][0] = byte(0x0a + i) // A < B < C bytewise
	}
	a[1][31] = 0xff
	return
}()

// creatable slots: index value and type (one global counter in the ledger, so an index has
// exactly one type for its whole life)
var c47aidx = [c47nAidx]basics.CreatableIndex{1, 2, 3}
var c47ctype = [c47nAidx]basics.CreatableType{basics.AssetCreatable, basics.AppCreatable, basics.AssetCreatable}

// the prefix-sharing key set of the property (C10 shapes) plus one 0xff-suffixed key under a
// regular prefix
var c47keys = [c47nKeys]string{"a", "a\x00", "a\xff", "ab", "b", "\xff", "\xff\xff"}
var c47vals = [3][]byte{[]byte("1"), {}, []byte("22")}

type c47kind int8

const (
	c47wInsAcct c47kind = iota
	c47wUpdAcct
	c47wDelAcct
	c47wInsRes
	c47wUpdRes
	c47wDelRes
	c47wInsCrt
	c47wDelCrt
	c47wKvPut
	c47wKvDel
	c47wOnIns
	c47wOnDel
	c47wOrpPut
	c47wOrpPrune
	c47wTailNew
	c47wRound
	c47wTotals
	c47wHashRound
	c47wSpStore
	c47wSpDel
)

var c47kindName = map[c47kind]string{
	c47wInsAcct: "InsertAccount", c47wUpdAcct: "UpdateAccount", c47wDelAcct: "DeleteAccount",
	c47wInsRes: "InsertResource", c47wUpdRes: "UpdateResource", c47wDelRes: "DeleteResource",
	c47wInsCrt: "InsertCreatable", c47wDelCrt: "DeleteCreatable",
	c47wKvPut: "UpsertKvPair", c47wKvDel: "DeleteKvPair",
	c47wOnIns: "InsertOnlineAccount", c47wOnDel: "OnlineAccountsDelete",
	c47wOrpPut: "AccountsPutOnlineRoundParams", c47wOrpPrune: "AccountsPruneOnlineRoundParams",
	c47wTailNew: "TxtailNewRound", c47wRound: "UpdateAccountsRound", c47wTotals: "AccountsPutTotals",
	c47wHashRound: "UpdateAccountsHashRound", c47wSpStore: "StoreSPContexts", c47wSpDel: "DeleteOldSPContexts",
}

// c47w is one primitive write of the alphabet (symbolic: rounds are resolved against the
// model when the batch is applied).
type c47w struct {
	k c47kind
	a int8 // address index
	i int8 // creatable slot / key index / round choice
	v int8 // data variant / count
}

func (w c47w) String() string {
	n := c47kindName[w.k]
	A := func() string { return string(rune('A' + w.a)) }
	switch w.k {
	case c47wInsAcct, c47wUpdAcct:
		return fmt.Sprintf("%s(%s,v%d)", n, A(), w.v)
	case c47wDelAcct:
		return fmt.Sprintf("%s(%s)", n, A())
	case c47wInsRes, c47wUpdRes:
		return fmt.Sprintf("%s(%s,#%d,v%d)", n, A(), c47aidx[w.i], w.v)
	case c47wDelRes:
		return fmt.Sprintf("%s(%s,#%d)", n, A(), c47aidx[w.i])
	case c47wInsCrt:
		return fmt.Sprintf("%s(#%d,creator=%s)", n, c47aidx[w.i], A())
	case c47wDelCrt:
		return fmt.Sprintf("%s(#%d)", n, c47aidx[w.i])
	case c47wKvPut:
		return fmt.Sprintf("%s(%q,%q)", n, c47keys[w.i], c47vals[w.v])
	case c47wKvDel:
		return fmt.Sprintf("%s(%q)", n, c47keys[w.i])
	case c47wOnIns:
		return fmt.Sprintf("%s(%s,%s,rnd=%s)", n, A(), []string{"stake1", "stake2", "offline", "stake1-late-expiry"}[w.v], []string{"clock+1", "clock"}[w.i])
	case c47wOnDel:
		return fmt.Sprintf("%s(forgetBefore=%s)", n, []string{"clock", "clock+1", "2"}[w.i])
	case c47wOrpPut:
		return fmt.Sprintf("%s(n=%d)", n, w.v)
	case c47wOrpPrune:
		return fmt.Sprintf("%s(%s)", n, []string{"last", "first+1", "0"}[w.i])
	case c47wTailNew:
		return fmt.Sprintf("%s(n=%d,forget=%s)", n, w.v, []string{"0", "newbase", "oldlast"}[w.i])
	case c47wRound:
		return fmt.Sprintf("%s(%s)", n, []string{"+1", "same", "-1"}[w.i])
	case c47wTotals:
		return fmt.Sprintf("%s(t%d,staging=%v)", n, w.v, w.i == 1)
	case c47wHashRound:
		return fmt.Sprintf("%s(%s)", n, []string{"dbround", "7"}[w.i])
	case c47wSpStore:
		return fmt.Sprintf("%s(n=%d)", n, w.v)
	case c47wSpDel:
		return fmt.Sprintf("%s(%s)", n, []string{"last", "last+1"}[w.i])
	}
	return n
}

// c47cw is a write with its concrete arguments.
type c47cw struct {
	w      c47w
	r1, r2 uint64
}

// c47model is the harness-side bookkeeping of what exists (for enabledness under the
// caller contract and for the two supplementary single-backend expectations).
type c47model struct {
	round    uint64
	acct     [c47nAddr]int8
	res      [c47nAddr][c47nAidx]int8
	crt      [c47nAidx]int8
	kv       [c47nKeys]int8
	onClock  uint64           // highest online updround ever used
	onLast   [c47nAddr]uint64 // last updround inserted per address (0 = none)
	orpLo    uint64
	orpHi    uint64
	tailNext uint64 // next tx tail round to insert
	tailLo   uint64 // first round still present (tailLo == tailNext: empty)
	spNext   uint64
	spLo     uint64
	writes   int
}

func c47newModel() c47model {
	var m c47model
	for i := range m.acct {
		m.acct[i] = -1
		for j := range m.res[i] {
			m.res[i][j] = -1
		}
	}
	for i := range m.crt {
		m.crt[i] = -1
	}
	for i := range m.kv {
		m.kv[i] = -1
	}
	// after the migrations: db round 0, online round params for round 0, empty tx tail
	m.tailNext, m.tailLo = 1, 1
	m.spNext, m.spLo = 256, 256
	return m
}

func (m *c47model) hasResources(a int8) bool {
	for _, v := range m.res[a] {
		if v >= 0 {
			return true
		}
	}
	return false
}

// enabled: the caller contract, as followed by ledger/acctdeltas.go, acctonline.go,
// txtail.go and tracker.go (see the header of verif_c47_test.go).
func (m *c47model) enabled(w c47w) bool {
	switch w.k {
	case c47wInsAcct:
		return m.acct[w.a] < 0
	case c47wUpdAcct:
		return m.acct[w.a] >= 0
	case c47wDelAcct:
		return m.acct[w.a] >= 0 && !m.hasResources(w.a)
	case c47wInsRes:
		return m.acct[w.a] >= 0 && m.res[w.a][w.i] < 0
	case c47wUpdRes:
		return m.acct[w.a] >= 0 && m.res[w.a][w.i] >= 0 && m.res[w.a][w.i] != w.v
	case c47wDelRes:
		return m.acct[w.a] >= 0 && m.res[w.a][w.i] >= 0
	case c47wInsCrt:
		return m.crt[w.i] < 0
	case c47wDelCrt:
		return m.crt[w.i] >= 0
	case c47wKvPut:
		return m.kv[w.i] != w.v
	case c47wKvDel:
		return true
	case c47wOnIns:
		if w.i == 1 { // same round as the most recent insert of another address
			return m.onClock >= 1 && m.onLast[w.a] < m.onClock
		}
		return true
	case c47wOnDel, c47wOrpPut, c47wTailNew, c47wTotals, c47wHashRound, c47wSpStore:
		return true
	case c47wOrpPrune:
		return true
	case c47wRound:
		return w.i != 2 || m.round >= 1
	case c47wSpDel:
		return true
	}
	return false
}

// apply resolves the concrete arguments of w in the current model state and updates the model.
func (m *c47model) apply(w c47w) c47cw {
	cw := c47cw{w: w}
	m.writes++
	switch w.k {
	case c47wInsAcct, c47wUpdAcct:
		m.acct[w.a] = w.v
	case c47wDelAcct:
		m.acct[w.a] = -1
	case c47wInsRes, c47wUpdRes:
		m.res[w.a][w.i] = w.v
	case c47wDelRes:
		m.res[w.a][w.i] = -1
	case c47wInsCrt:
		m.crt[w.i] = w.a
	case c47wDelCrt:
		m.crt[w.i] = -1
	case c47wKvPut:
		m.kv[w.i] = w.v
	case c47wKvDel:
		m.kv[w.i] = -1
	case c47wOnIns:
		if w.i == 0 {
			m.onClock++
		}
		cw.r1 = m.onClock
		m.onLast[w.a] = m.onClock
	case c47wOnDel:
		cw.r1 = []uint64{m.onClock, m.onClock + 1, 2}[w.i]
	case c47wOrpPut:
		cw.r1 = m.orpHi + 1
		m.orpHi += uint64(w.v)
	case c47wOrpPrune:
		cw.r1 = []uint64{m.orpHi, m.orpLo + 1, 0}[w.i]
		if cw.r1 > m.orpLo {
			m.orpLo = cw.r1
		}
	case c47wTailNew:
		cw.r1 = m.tailNext
		cw.r2 = []uint64{0, m.tailNext, m.tailNext - 1}[w.i]
		m.tailNext += uint64(w.v)
		if cw.r2 > m.tailLo {
			m.tailLo = cw.r2
		}
	case c47wRound:
		cw.r1 = []uint64{m.round + 1, m.round, m.round - 1}[w.i]
		if cw.r1 > m.round {
			m.round = cw.r1
		}
		// a lower round is documented to be refused (sqlitedriver: "newRound %d is not after base %d")
	case c47wHashRound:
		cw.r1 = []uint64{m.round, 7}[w.i]
	case c47wSpStore:
		cw.r1 = m.spNext
		m.spNext += 256 * uint64(w.v)
	case c47wSpDel:
		cw.r1 = []uint64{m.spNext - 256, m.spNext}[w.i]
		if cw.r1 > m.spLo {
			m.spLo = cw.r1
		}
	}
	return cw
}

// ---- data variants -------------------------------------------------------------------

func c47acctData(v int8) trackerdb.BaseAccountData {
	switch v {
	case 0:
		return trackerdb.BaseAccountData{Status: basics.Offline, MicroAlgos: basics.MicroAlgos{Raw: 1000}, UpdateRound: 1}
	default:
		d := trackerdb.BaseAccountData{Status: basics.Online, MicroAlgos: basics.MicroAlgos{Raw: 2_000_000}, RewardsBase: 3, UpdateRound: 2, TotalAssets: 1}
		d.VoteFirstValid, d.VoteLastValid, d.VoteKeyDilution = 1, 100, 10
		d.VoteID[0] = 7
		return d
	}
}

// c47resData: variants 0 = holding only, 1 = params + holding (owner), 2 = params only.
func c47resData(slot int8, v int8) trackerdb.ResourcesData {
	var d trackerdb.ResourcesData
	if c47ctype[slot] == basics.AssetCreatable {
		switch v {
		case 0:
			d = trackerdb.ResourcesData{Amount: 5 + uint64(slot), ResourceFlags: trackerdb.ResourceFlagsHolding}
		case 1:
			d = trackerdb.ResourcesData{Total: 100, UnitName: "u", Amount: 7, Frozen: true, ResourceFlags: trackerdb.ResourceFlagsOwnership}
		default:
			d = trackerdb.ResourcesData{Total: 100, UnitName: "u", Manager: c47addrs[0], ResourceFlags: trackerdb.ResourceFlagsOwnership | trackerdb.ResourceFlagsNotHolding}
		}
	} else {
		switch v {
		case 0:
			d = trackerdb.ResourcesData{SchemaNumUint: 1, KeyValue: basics.TealKeyValue{"k": basics.TealValue{Type: basics.TealUintType, Uint: 1}}, ResourceFlags: trackerdb.ResourceFlagsHolding}
		case 1:
			d = trackerdb.ResourcesData{SchemaNumUint: 2, ApprovalProgram: []byte{1}, ClearStateProgram: []byte{2}, GlobalStateSchemaNumUint: 1, ResourceFlags: trackerdb.ResourceFlagsOwnership}
		default:
			d = trackerdb.ResourcesData{ApprovalProgram: []byte{1}, ClearStateProgram: []byte{2}, ExtraProgramPages: 1, ResourceFlags: trackerdb.ResourceFlagsOwnership | trackerdb.ResourceFlagsNotHolding}
		}
	}
	d.UpdateRound = uint64(v) + 1
	return d
}

// c47onlineData: 0 = stake 1M, 1 = stake 2M, 2 = offline (the ledger's "zero entry"),
// 3 = stake 1M with a later key expiry.
func c47onlineData(v int8) trackerdb.BaseOnlineAccountData {
	var d trackerdb.BaseOnlineAccountData
	switch v {
	case 0, 3:
		d.MicroAlgos = basics.MicroAlgos{Raw: 1_000_000}
		d.VoteFirstValid, d.VoteLastValid, d.VoteKeyDilution = 1, 5, 10
		if v == 3 {
			d.VoteLastValid = 50
		}
		d.VoteID[0] = 1
	case 1:
		d.MicroAlgos = basics.MicroAlgos{Raw: 2_000_000}
		d.VoteFirstValid, d.VoteLastValid, d.VoteKeyDilution = 1, 50, 10
		d.VoteID[0] = 2
		d.IncentiveEligible = true
	}
	return d
}

func c47orpData(rnd uint64) ledgercore.OnlineRoundParamsData {
	return ledgercore.OnlineRoundParamsData{OnlineSupply: 100 + rnd, RewardsLevel: rnd, CurrentProtocol: protocol.ConsensusCurrentVersion}
}

func c47tailData(rnd uint64) []byte {
	t := trackerdb.TxTailRound{Hdr: bookkeeping.BlockHeader{Round: basics.Round(rnd)}}
	if rnd%2 == 0 {
		t.TxnIDs = append(t.TxnIDs, [32]byte{byte(rnd)})
		t.LastValid = append(t.LastValid, basics.Round(rnd+10))
	}
	b, _ := t.Encode()
	return b
}

func c47totals(v int8) ledgercore.AccountTotals {
	var t ledgercore.AccountTotals
	t.Online.Money.Raw = 1000 * uint64(v+1)
	t.Online.RewardUnits = 3
	t.Offline.Money.Raw = 5
	t.NotParticipating.RewardUnits = uint64(v)
	t.RewardsLevel = 9 + uint64(v)
	return t
}

func c47spCtx(rnd uint64) *ledgercore.StateProofVerificationContext {
	return &ledgercore.StateProofVerificationContext{
		LastAttestedRound: basics.Round(rnd),
		VotersCommitment:  crypto.GenericDigest{byte(rnd), 1},
		OnlineTotalWeight: basics.MicroAlgos{Raw: rnd * 3},
		Version:           protocol.ConsensusCurrentVersion,
	}
}

// ---- execution ------------------------------------------------------------------------

// c47wres is the observable outcome of one write call.
type c47wres struct {
	done   bool // the call was reached (an earlier failing write aborts the batch)
	err    string
	rows   int64 // rowsAffected where the interface returns it, else -1
	refNil bool  // a nil ref was returned where the interface returns a ref
	hasRef bool
}

// c47exec runs one batch on one backend inside a single store transaction, the way
// ledger/tracker.go commits a round. Account refs are resolved before the transaction
// (the ledger reads "old" rows first) and refreshed from InsertAccount results.
func c47exec(rd *c47readers, rewardUnit uint64, cws []c47cw) (res []c47wres, txErr string, panicMsg string) {
	res = make([]c47wres, len(cws))
	refs := map[int8]trackerdb.AccountRef{}
	for _, cw := range cws {
		switch cw.w.k {
		case c47wUpdAcct, c47wDelAcct, c47wInsRes, c47wUpdRes, c47wDelRes:
			if _, ok := refs[cw.w.a]; !ok {
				ref, err := rd.arx.LookupAccountRowID(c47addrs[cw.w.a])
				if err != nil {
					ref = nil
				}
				refs[cw.w.a] = ref
			}
		}
	}
	defer func() {
		if r := recover(); r != nil {
			panicMsg = fmt.Sprint(r)
		}
	}()
	err := rd.st.Transaction(func(ctx context.Context, tx trackerdb.TransactionScope) (err error) {
		var aow trackerdb.AccountsWriter
		var aw trackerdb.AccountsWriterExt
		var oaw trackerdb.OnlineAccountsWriter
		defer func() {
			if aow != nil {
				aow.Close()
			}
			if oaw != nil {
				oaw.Close()
			}
		}()
		for i, cw := range cws {
			w := cw.w
			r := &res[i]
			r.done = true
			r.rows = -1
			var e error
			switch w.k {
			case c47wInsAcct, c47wUpdAcct, c47wDelAcct, c47wInsRes, c47wUpdRes, c47wDelRes, c47wInsCrt, c47wDelCrt, c47wKvPut, c47wKvDel:
				if aow == nil {
					if aow, e = tx.MakeAccountsOptimizedWriter(true, true, true, true); e != nil {
						return e
					}
				}
			case c47wOnIns:
				if oaw == nil {
					if oaw, e = tx.MakeOnlineAccountsOptimizedWriter(true); e != nil {
						return e
					}
				}
			case c47wSpStore, c47wSpDel:
			default:
				if aw == nil {
					if aw, e = tx.MakeAccountsWriter(); e != nil {
						return e
					}
				}
			}
			switch w.k {
			case c47wInsAcct:
				d := c47acctData(w.v)
				var ref trackerdb.AccountRef
				ref, e = aow.InsertAccount(c47addrs[w.a], d.NormalizedOnlineBalance(rewardUnit), d)
				r.hasRef, r.refNil = true, ref == nil
				refs[w.a] = ref
			case c47wUpdAcct:
				d := c47acctData(w.v)
				r.rows, e = aow.UpdateAccount(refs[w.a], d.NormalizedOnlineBalance(rewardUnit), d)
			case c47wDelAcct:
				r.rows, e = aow.DeleteAccount(refs[w.a])
				delete(refs, w.a)
			case c47wInsRes:
				var ref trackerdb.ResourceRef
				ref, e = aow.InsertResource(refs[w.a], c47aidx[w.i], c47resData(w.i, w.v))
				r.hasRef, r.refNil = true, ref == nil
			case c47wUpdRes:
				r.rows, e = aow.UpdateResource(refs[w.a], c47aidx[w.i], c47resData(w.i, w.v))
			case c47wDelRes:
				r.rows, e = aow.DeleteResource(refs[w.a], c47aidx[w.i])
			case c47wInsCrt:
				var ref trackerdb.CreatableRef
				ref, e = aow.InsertCreatable(c47aidx[w.i], c47ctype[w.i], c47addrs[w.a][:])
				r.hasRef, r.refNil = true, ref == nil
			case c47wDelCrt:
				r.rows, e = aow.DeleteCreatable(c47aidx[w.i], c47ctype[w.i])
			case c47wKvPut:
				e = aow.UpsertKvPair(c47keys[w.i], c47vals[w.v])
			case c47wKvDel:
				e = aow.DeleteKvPair(c47keys[w.i])
			case c47wOnIns:
				d := c47onlineData(w.v)
				var ref trackerdb.OnlineAccountRef
				ref, e = oaw.InsertOnlineAccount(c47addrs[w.a], d.NormalizedOnlineBalance(rewardUnit), d, cw.r1, uint64(d.VoteLastValid))
				r.hasRef, r.refNil = true, ref == nil
			case c47wOnDel:
				e = aw.OnlineAccountsDelete(basics.Round(cw.r1))
			case c47wOrpPut:
				var ds []ledgercore.OnlineRoundParamsData
				for k := uint64(0); k < uint64(w.v); k++ {
					ds = append(ds, c47orpData(cw.r1+k))
				}
				e = aw.AccountsPutOnlineRoundParams(ds, basics.Round(cw.r1))
			case c47wOrpPrune:
				e = aw.AccountsPruneOnlineRoundParams(basics.Round(cw.r1))
			case c47wTailNew:
				var ds [][]byte
				for k := uint64(0); k < uint64(w.v); k++ {
					ds = append(ds, c47tailData(cw.r1+k))
				}
				e = aw.TxtailNewRound(ctx, basics.Round(cw.r1), ds, basics.Round(cw.r2))
			case c47wRound:
				e = aw.UpdateAccountsRound(basics.Round(cw.r1))
			case c47wTotals:
				e = aw.AccountsPutTotals(c47totals(w.v), w.i == 1)
			case c47wHashRound:
				e = aw.UpdateAccountsHashRound(ctx, basics.Round(cw.r1))
			case c47wSpStore:
				var cs []*ledgercore.StateProofVerificationContext
				for k := uint64(0); k < uint64(w.v); k++ {
					cs = append(cs, c47spCtx(cw.r1+256*k))
				}
				e = tx.MakeSpVerificationCtxWriter().StoreSPContexts(ctx, cs)
			case c47wSpDel:
				e = tx.MakeSpVerificationCtxWriter().DeleteOldSPContexts(ctx, basics.Round(cw.r1))
			default:
				e = errors.New("c47: unknown write kind")
			}
			if e != nil {
				r.err = e.Error()
				return e
			}
		}
		return nil
	})
	if err != nil {
		txErr = err.Error()
	}
	return
}
