package ledger

// C14 — Catchpoint labels depend only on ledger history.
//
// Engine E-SEQ (differential), level model_checking. Driver: common_c14_catchpoint_test.go
// (a REAL Ledger with catchpoint tracking, blocks fed through Ledger.AddBlock, commits going
// through the real blockQueue -> notifyCommit -> trackerRegistry.scheduleCommit ->
// commitSyncer -> commitRound path; the only wall-clock input of that path, lastFlushTime, is
// pinned per block, which turns "did balancesFlushInterval pass" into an explicit decision).
//
// Enumerated, for each deterministic block history (4 quick / 7 thorough; 20 / 24 rounds;
// CatchpointInterval 4; consensus A: CatchpointLookback 4, consensus B: lookback 6 + stalled
// state proofs; account / asset / app / box churn with entries modified in consecutive rounds):
//   flush schedules  = {every block, only when forced, every 2nd, every 3rd, at catchpoint
//                       boundaries} + every schedule that deviates from "every block" in <= k
//                       decisions (k = 1 quick, 2 thorough) (+ deviations from "only when
//                       forced" with k = 1 in thorough)
//   x restart        = none, or Ledger.reloadLedger after round r for every r in 1..N
//                       (the k = 2 schedules of the thorough tier: restart in {none, N/3, 2N/3}
//                       and the first two trie configurations only)
//   x trie memory    = trackerdb.TrieMemoryConfig in {default, {2 nodes/page, 1 cached node,
//                       .95, threshold 1}, {4, 1, .5, 2}} (+ {2, default cache, .5, 64} and
//                       {4, default, .95, 4} in thorough)
//   node kind alternates between "archival, stores catchpoint files" and "non-archival, tracks
//   labels only". In the quick tier the deviation schedules run under the default trie
//   configuration only (base schedules: all configurations). Extra (not multiplied): block
//   queue batches (rounds s..s+k-1 persisted at once => a single committedUpTo, commit ranges
//   that overshoot catchpoint rounds; k in {3,7} quick, {2,3,5,7,10} thorough, every s, two
//   schedules), catchpoint tracking switched on at the restart (node ran untracked before; the
//   trie is rebuilt from the tables; every restart round, three schedules), tracking PAUSE
//   (tracking on, restart with tracking off after round p, k in {2,5} (thorough {1,2,3,5,8})
//   rounds with flushes, restart with tracking on; every p), crash right after
//   the tracker DB transaction of a commit + restart (postCommit / postCommitUnlocked never run;
//   after every round >= 5, preceded by 0 / 3 / 6 rounds without any commit so that the crashed
//   commit range overshoots first-stage and catchpoint rounds), MaxAcctLookback 2
//   (1,2,8 thorough), LRU caches enabled (config default; the product runs
//   with DisableLedgerLRUCache because allocating the 100k-entry cache buffers at every open
//   dominates the run time), file backed databases with close+OpenLedger as restart.
//
// Oracle (no hand-written expectation): within one history, every run must agree with every
// other run on
//   - the label of each catchpoint round it produced (labels are collected from
//     GetLastCatchpointLabel after every step and from the header of every catchpoint file),
//   - the label-relevant part of each first-stage record it produced (balances trie root,
//     totals, state proof verification hash, online accounts hash, online round params hash),
//   - the balances trie root at each tracker DB round it passed through,
// and no run may fail (AddBlock / reload error) or log a merkle-trie inconsistency.
// A run that did not produce a label for some round (the tracker legitimately skips rounds
// when one commit spans several of them) is not a violation; the count is reported.
// Non-vacuity: the reference run of every history must produce >= 3 labels; label sets of
// different histories must be disjoint.
//
// State (evidence "states"): distinct (history, trie config, round, tracker DB round, number
// of labels produced, restarted?) tuples reached; transitions: executed AddBlock / restart
// operations; traces: runs.
//
// Not covered: crash points other than "after the commit transaction, before postCommit" (C09's
// subject), consensus upgrades inside a
// history, catchpoint intervals other than 4, histories longer than 24 rounds.
//
// Mutants (bin/mut C14 ...), quick tier:
//   M1 catchpointtracker.go accountsUpdateBalances: skip the delete-hash of a resource that
//      was modified more than once in the commit range                        => DETECTED
//      (first-stage trie root differs between every-block and lazier schedules)
//   M2 catchpointtracker.go postCommitUnlocked: label built with the block hash of the last
//      round of the commit range instead of the catchpoint round              => DETECTED
//      (needs a commit range that overshoots a catchpoint round: only the block-queue batch
//      runs produce one; MISSED before those were added)
//   M3 (own) catchpointtracker.go initializeHashes: the trie rebuild skips the KV hashes
//      => DETECTED (needs: boxes exist + node restarted with tracking newly enabled)
//   M4 (own) crypto/merkletrie/cache.go: revert of the C17 fix (evicted tail page not reloaded)
//      => MISSED: 2400 runs under the 2-nodes-per-page / 1-cached-node configuration never
//      reach the trie shape the bug needs; not claimed (C17 decides that property on the trie).

import (
	"fmt"
	"strings"
	"sync/atomic"
	"testing"

	"github.com/algorand/go-algorand/crypto/merkletrie"
	"github.com/algorand/go-algorand/data/basics"
	"github.com/algorand/go-algorand/ledger/store/trackerdb"
	ve "github.com/algorand/go-algorand/verifeng"
)

type c14Job struct {
	hist    int
	sched   string // name
	flush   []bool
	restart int
	reopen  bool
	burstAt int
	burstN  int
	crash   bool
	lag     int
	pauseAt int
	resume  int
	node    c14NodeCfg
	cfgName string
}

func (j *c14Job) describe(hs []*c14History) map[string]any {
	var sb strings.Builder
	for _, f := range j.flush {
		if f {
			sb.WriteByte('1')
		} else {
			sb.WriteByte('0')
		}
	}
	return map[string]any{"engine": "c14", "history": hs[j.hist].Name, "schedule": j.sched, "flush_bits": sb.String(), "restart_after": j.restart, "burst_start": j.burstAt, "burst_len": j.burstN, "crash_after_db_commit": j.crash, "crash_lag": j.lag, "tracking_off_after": j.pauseAt, "tracking_on_after": j.resume,
		"reopen": j.reopen, "late_enable": j.node.LateEnable, "max_acct_lookback": j.node.MaxAcctLookback, "stored": j.node.Stored, "in_mem": j.node.InMem, "no_lru": j.node.NoLRU, "trie_config": j.cfgName}
}

type c14Res struct {
	obs    *c14Obs
	err    error
	states []string
	ops    int64
}

func c14Schedules(n int, kOnes, kZeros int) (names []string, scheds [][]bool) {
	mk := func(f func(r int) bool) []bool {
		s := make([]bool, n)
		for i := range s {
			s[i] = f(i + 1)
		}
		return s
	}
	add := func(name string, s []bool) {
		names = append(names, name)
		scheds = append(scheds, s)
	}
	add("every-block", mk(func(int) bool { return true }))
	add("forced-only", mk(func(int) bool { return false }))
	add("every-2nd", mk(func(r int) bool { return r%2 == 0 }))
	add("every-3rd", mk(func(r int) bool { return r%3 == 0 }))
	add("boundaries", mk(func(r int) bool { return r%c14CatchpointInterval == 0 }))
	dev := func(base bool, k int, tag string) {
		if k >= 1 {
			for i := 0; i < n; i++ {
				s := mk(func(int) bool { return base })
				s[i] = !base
				add(fmt.Sprintf("%s^%d", tag, i+1), s)
			}
		}
		if k >= 2 {
			for i := 0; i < n; i++ {
				for j := i + 1; j < n; j++ {
					s := mk(func(int) bool { return base })
					s[i], s[j] = !base, !base
					add(fmt.Sprintf("%s^%d,%d", tag, i+1, j+1), s)
				}
			}
		}
	}
	dev(true, kOnes, "every-block")
	dev(false, kZeros, "forced-only")
	return
}

type c14TrieCfg struct {
	name string
	cfg  merkletrie.MemoryConfig
}

func TestVerif_C14(t *testing.T) {
	r := ve.NewRun("C14", "model_checking")
	r.Assume("flush timing enters trackerRegistry.scheduleCommit only through lastFlushTime (pinned per block) and pendingDeltas>=128 (never reached by these histories); everything else is the real asynchronous commit path, synchronised by waiting for notifyCommit(r) and accountsWriting")
	r.Assume("restart = Ledger.reloadLedger on the same open databases (plus close+OpenLedger on file backed databases for a subset); crash points inside a commit are out of scope (C09)")
	dir := ve.ScratchDir("c14")
	defer c14RemoveAll(dir)

	rounds := ve.Pick(20, 24)
	hs := []*c14History{
		c14HistMixed(t, dir, "mixedB", c14ProtoB, func() c14Variant { v := c14DefaultVariant(); v.Rounds = rounds; return v }()),
		c14HistBoxes(t, dir, c14ProtoA, rounds),
		c14HistAssets(t, dir, c14ProtoB, rounds),
		c14HistAccounts(t, dir, c14ProtoA, rounds),
	}
	if ve.Thorough() {
		hs = append(hs,
			c14HistApps(t, dir, c14ProtoA, rounds),
			c14HistQuiet(t, dir, c14ProtoB, rounds),
			c14HistMixed(t, dir, "mixedA", c14ProtoA, func() c14Variant { v := c14DefaultVariant(); v.Rounds = rounds; return v }()))
	}
	def := trackerdb.TrieMemoryConfig
	defer func() { trackerdb.TrieMemoryConfig = def }()
	cfgs := []c14TrieCfg{
		{"default", def},
		{"2/1/.95/1", merkletrie.MemoryConfig{NodesCountPerPage: 2, CachedNodesCount: 1, PageFillFactor: 0.95, MaxChildrenPagesThreshold: 1}},
		{"4/1/.5/2", merkletrie.MemoryConfig{NodesCountPerPage: 4, CachedNodesCount: 1, PageFillFactor: 0.5, MaxChildrenPagesThreshold: 2}},
	}
	if ve.Thorough() {
		cfgs = append(cfgs,
			c14TrieCfg{"2/def/.5/64", merkletrie.MemoryConfig{NodesCountPerPage: 2, CachedNodesCount: def.CachedNodesCount, PageFillFactor: 0.5, MaxChildrenPagesThreshold: 64}},
			c14TrieCfg{"4/def/.95/4", merkletrie.MemoryConfig{NodesCountPerPage: 4, CachedNodesCount: def.CachedNodesCount, PageFillFactor: 0.95, MaxChildrenPagesThreshold: 4}})
	}
	if only := ve.Env("VERIF_C14_ONLYCFG", ""); only != "" { // diagnosis aid, not used by the registered check
		var keep []c14TrieCfg
		for _, c := range cfgs {
			if c.name == only {
				keep = append(keep, c)
			}
		}
		cfgs = keep
	}
	schedNames, scheds := c14Schedules(rounds, ve.Pick(1, 2), ve.Pick(0, 1))

	// reference per history: first value seen in job order
	type ref struct {
		labels map[basics.Round]string
		fs     map[basics.Round]string
		roots  map[basics.Round]string
		by     map[string]map[string]any // who contributed which key
	}
	refs := make([]*ref, len(hs))
	for i := range refs {
		refs[i] = &ref{labels: map[basics.Round]string{}, fs: map[basics.Round]string{}, roots: map[basics.Round]string{}, by: map[string]map[string]any{}}
	}
	states := map[string]struct{}{}
	var transitions, traces, labelsSeen, labelsMissing int64
	labelCountClasses := map[int]int{}
	flushPatterns := map[string]struct{}{}
	var reported atomic.Int64

	fsKey := func(fi trackerdb.CatchpointFirstStageInfo) string {
		return fmt.Sprintf("root=%s totals=%+v sp=%s oa=%s orp=%s", fi.TrieBalancesHash, fi.Totals, fi.StateProofVerificationHash, fi.OnlineAccountsHash, fi.OnlineRoundParamsHash)
	}

	runJobs := func(jobs []c14Job) {
		results := make([]c14Res, len(jobs))
		var seq atomic.Int64
		r.ParallelFor(len(jobs), func(i int) {
			if r.OutOfTime() {
				return // budget: the job is skipped (results[i] stays empty), the run is marked capped
			}
			j := &jobs[i]
			h := hs[j.hist]
			id := seq.Add(1)
			n, err := c14OpenNode(h.Gen, dir, fmt.Sprintf("n%s-%d-%d", strings.ReplaceAll(j.cfgName, "/", "_"), i, id), j.node)
			if err != nil {
				results[i].err = fmt.Errorf("OpenLedger: %v", err)
				return
			}
			o, err := c14RunTraced(n, h, c14Plan{Flush: j.flush, RestartAt: j.restart, Reopen: j.reopen, BurstStart: j.burstAt, BurstLen: j.burstN, Crash: j.crash, CrashLag: j.lag, PauseAt: j.pauseAt, ResumeAt: j.resume}, &results[i].states)
			results[i].obs, results[i].err, results[i].ops = o, err, n.ops
			n.close()
			if !j.node.InMem {
				c14RemoveAll(n.prefix)
				for _, suf := range []string{".tracker.sqlite", ".block.sqlite", ".tracker.sqlite-wal", ".tracker.sqlite-shm", ".block.sqlite-wal", ".block.sqlite-shm"} {
					c14RemoveAll(n.prefix + suf)
				}
			} else if j.node.Stored {
				c14RemoveAll(n.prefix)
			}
			r.Eval()
		})
		// deterministic comparison in job order
		for i := range jobs {
			j := &jobs[i]
			res := &results[i]
			if res.obs == nil && res.err == nil {
				continue // skipped (budget)
			}
			rf := refs[j.hist]
			desc := j.describe(hs)
			traces++
			transitions += res.ops
			for _, s := range res.states {
				states[hs[j.hist].Name+"/"+j.cfgName+"/"+s] = struct{}{}
			}
			report := func(key, what string, other map[string]any) {
				if reported.Add(1) > 12 {
					return
				}
				r.Report(key, fmt.Sprintf("history %s: %s; this run: %s; reference run: %s", hs[j.hist].Name, what, ve.JSON(desc), ve.JSON(other)), map[string]any{"this": desc, "reference": other})
			}
			if res.err != nil {
				report("C14:run-error", fmt.Sprintf("the run failed: %v (log: %v)", res.err, res.obs.LogMsgs), nil)
				continue
			}
			o := res.obs
			for _, m := range o.LogMsgs {
				if strings.Contains(m, "merkle trie") || strings.Contains(m, "Could not commit") || strings.Contains(m, "unable to advance tracker") || strings.Contains(m, "error creating catchpoint") || strings.Contains(m, "error finishing catchpoint") {
					report("C14:tracker-error-log", "the ledger logged: "+m, nil)
					break
				}
			}
			for _, rnd := range c14SortedRounds(o.Labels) {
				labelsSeen++
				k := fmt.Sprintf("label/%d", rnd)
				if want, ok := rf.labels[rnd]; !ok {
					rf.labels[rnd] = o.Labels[rnd]
					rf.by[k] = desc
				} else if want != o.Labels[rnd] {
					report("C14:label-differs", fmt.Sprintf("catchpoint round %d has label %s here but %s in the reference run", rnd, o.Labels[rnd], want), rf.by[k])
				}
			}
			for _, rnd := range c14SortedRounds(o.FirstStage) {
				k := fmt.Sprintf("fs/%d", rnd)
				got := fsKey(o.FirstStage[rnd])
				if want, ok := rf.fs[rnd]; !ok {
					rf.fs[rnd] = got
					rf.by[k] = desc
				} else if want != got {
					report("C14:first-stage-differs", fmt.Sprintf("first stage record of accounts round %d is {%s} here but {%s} in the reference run", rnd, got, want), rf.by[k])
				}
			}
			for _, rnd := range c14SortedRounds(o.Roots) {
				k := fmt.Sprintf("root/%d", rnd)
				got := o.Roots[rnd].String()
				if want, ok := rf.roots[rnd]; !ok {
					rf.roots[rnd] = got
					rf.by[k] = desc
				} else if want != got {
					report("C14:trie-root-differs", fmt.Sprintf("balances trie root at tracker round %d is %s here but %s in the reference run", rnd, got, want), rf.by[k])
				}
			}
			labelCountClasses[len(o.Labels)]++
			var fp strings.Builder
			for _, f := range o.Flushes {
				fmt.Fprintf(&fp, "%d-%d;", f.OldBase, f.NewBase)
			}
			flushPatterns[hs[j.hist].Name+"/"+fp.String()] = struct{}{}
		}
	}

	// Phases (sequential, because trackerdb.TrieMemoryConfig is a process global), most important
	// first, so that a budget cap cuts the least important part; the completed phases are
	// reported in the evidence.
	type phase struct {
		name      string
		cfg       int
		schedFrom int
		schedTo   int
		restarts  []int
		extras    bool
		checkRefs bool
	}
	allRestarts := make([]int, 0, rounds+1)
	for rs := 0; rs <= rounds; rs++ {
		allRestarts = append(allRestarts, rs)
	}
	someRestarts := []int{0, rounds / 3, 2 * rounds / 3}
	// index ranges inside scheds: [0,5) base, then k=1 deviations from every-block, then k=2
	// deviations from every-block (thorough), then k=1 deviations from forced-only (thorough)
	k1From, k1To := 5, 5+rounds
	k2From, k2To := k1To, k1To
	if ve.Thorough() {
		k2To = k2From + rounds*(rounds-1)/2
	}
	z1From, z1To := k2To, len(scheds)
	var phases []phase
	for ci := range cfgs {
		phases = append(phases, phase{name: "base-schedules x every-restart/" + cfgs[ci].name, cfg: ci, schedFrom: 0, schedTo: 5, restarts: allRestarts, checkRefs: ci == 0})
		if ci == 0 {
			phases = append(phases, phase{name: "extras", cfg: 0, extras: true})
		}
	}
	for ci := range cfgs {
		if ci > 0 && !ve.Thorough() {
			break // quick: deviation schedules under the default trie configuration only
		}
		phases = append(phases, phase{name: "k=1 deviations from every-block x every-restart/" + cfgs[ci].name, cfg: ci, schedFrom: k1From, schedTo: k1To, restarts: allRestarts})
	}
	if ve.Thorough() {
		for ci := range cfgs {
			phases = append(phases, phase{name: "k=1 deviations from forced-only x every-restart/" + cfgs[ci].name, cfg: ci, schedFrom: z1From, schedTo: z1To, restarts: allRestarts})
		}
		for ci := 0; ci < 2; ci++ {
			phases = append(phases, phase{name: "k=2 deviations from every-block x 3 restart points/" + cfgs[ci].name, cfg: ci, schedFrom: k2From, schedTo: k2To, restarts: someRestarts})
		}
	}
	exhaustive := true
	var completed []string
	for _, ph := range phases {
		if r.OutOfTime() {
			exhaustive = false
			break
		}
		tc := cfgs[ph.cfg]
		trackerdb.TrieMemoryConfig = tc.cfg
		var jobs []c14Job
		for hi := range hs {
			for si := ph.schedFrom; si < ph.schedTo; si++ {
				for _, rs := range ph.restarts {
					jobs = append(jobs, c14Job{hist: hi, sched: schedNames[si], flush: scheds[si], restart: rs, cfgName: tc.name,
						node: c14NodeCfg{Stored: (si+rs)%2 == 0, InMem: true, NoLRU: true}})
				}
			}
			if rep := ve.Env("VERIF_C14_CRASHREP", ""); rep != "" && ph.extras { // diagnosis aid: only the crash jobs, repeated
				n := 0
				fmt.Sscan(rep, &n)
				for k := 0; k < n; k++ {
					for _, lag := range []int{0, 3, 6} {
						for rs := 5 + lag; rs <= rounds-3; rs++ {
							si := (rs + lag) % 2
							jobs = append(jobs, c14Job{hist: hi, sched: schedNames[si], flush: scheds[si], restart: rs, crash: true, lag: lag, cfgName: tc.name, node: c14NodeCfg{Stored: (rs+lag)%3 != 0, InMem: true, NoLRU: true}})
						}
					}
				}
				continue
			}
			if ph.extras {
				// (ordered by how much they add: a budget cap cuts from the end)
				// block queue batches: rounds s..s+k-1 persisted at once (single committedUpTo)
				for _, k := range ve.Pick([]int{3, 7}, []int{3, 7, 2, 5, 10}) {
					for st := 1; st+k-1 <= rounds; st++ {
						for _, si := range []int{0, 1} {
							jobs = append(jobs, c14Job{hist: hi, sched: schedNames[si], flush: scheds[si], burstAt: st, burstN: k, cfgName: tc.name, node: c14NodeCfg{Stored: (st+k)%2 == 0, InMem: true, NoLRU: true}})
						}
					}
				}
				// crash right after the tracker DB transaction of a commit (no postCommit), restart:
				// the catchpoint tracker finishes first stages / catchpoints from its DB records.
				// lag = number of rounds without any commit before the crashed commit.
				for _, lag := range ve.Pick([]int{0, 3, 6}, []int{0, 2, 3, 4, 6, 9}) {
					for rs := 5 + lag; rs <= rounds-3; rs++ {
						si := (rs + lag) % 2
						jobs = append(jobs, c14Job{hist: hi, sched: schedNames[si], flush: scheds[si], restart: rs, crash: true, lag: lag, cfgName: tc.name, node: c14NodeCfg{Stored: (rs+lag)%3 != 0, InMem: true, NoLRU: true}})
					}
				}
				// tracking pause: on -> restart with tracking off after round p -> k rounds (flushing) ->
				// restart with tracking on: the trie must be rebuilt, not the stale one adopted.
				// File backed + close/OpenLedger: reloadLedger keeps the catchpointTracker object and
				// its interval, so tracking cannot be switched off in process.
				for _, k := range ve.Pick([]int{2, 5}, []int{1, 2, 3, 5, 8}) {
					for p := 1; p+k <= rounds-6; p++ {
						si := []int{0, 2, 1}[(p+k)%3]
						jobs = append(jobs, c14Job{hist: hi, sched: schedNames[si], flush: scheds[si], pauseAt: p, resume: p + k, reopen: true, cfgName: tc.name, node: c14NodeCfg{Stored: (p+k)%2 == 0, NoLRU: true}})
					}
				}
				// catchpoint tracking enabled at the restart (trie rebuilt from the tables)
				for _, si := range []int{0, 1, 2} {
					for rs := 1; rs <= rounds-6; rs++ {
						jobs = append(jobs, c14Job{hist: hi, sched: schedNames[si], flush: scheds[si], restart: rs, reopen: false, cfgName: tc.name, node: c14NodeCfg{Stored: (si+rs)%2 == 0, InMem: true, NoLRU: true, LateEnable: true}})
					}
				}
				// other MaxAcctLookback values
				for _, mal := range ve.Pick([]uint64{2}, []uint64{1, 2, 8}) {
					for si := 0; si < ve.Pick(2, 5); si++ {
						jobs = append(jobs, c14Job{hist: hi, sched: schedNames[si], flush: scheds[si], restart: rounds / 2, cfgName: tc.name, node: c14NodeCfg{Stored: true, InMem: true, NoLRU: true, MaxAcctLookback: mal}})
					}
				}
				// file backed, process restart (close + OpenLedger)
				var rsts []int
				if ve.Thorough() {
					for rs := 1; rs <= rounds; rs++ {
						rsts = append(rsts, rs)
					}
				} else {
					rsts = []int{rounds / 4, rounds/2 + 1, 3*rounds/4 + 2}
				}
				for si := 0; si < ve.Pick(2, 5); si++ {
					for _, rs := range rsts {
						jobs = append(jobs, c14Job{hist: hi, sched: schedNames[si], flush: scheds[si], restart: rs, reopen: true, cfgName: tc.name, node: c14NodeCfg{Stored: (si+rs)%2 == 0, NoLRU: true}})
					}
				}
				// LRU caches enabled (config default)
				jobs = append(jobs, c14Job{hist: hi, sched: schedNames[0], flush: scheds[0], restart: 0, cfgName: tc.name, node: c14NodeCfg{Stored: true, InMem: true}})
				jobs = append(jobs, c14Job{hist: hi, sched: schedNames[1], flush: scheds[1], restart: rounds/2 + 1, cfgName: tc.name, node: c14NodeCfg{Stored: false, InMem: true}})
				jobs = append(jobs, c14Job{hist: hi, sched: schedNames[2], flush: scheds[2], restart: 0, cfgName: tc.name, node: c14NodeCfg{Stored: true, InMem: true}})
				if ve.Thorough() {
					for si := 0; si < 5; si++ {
						jobs = append(jobs, c14Job{hist: hi, sched: schedNames[si], flush: scheds[si], restart: rounds/2 + si, cfgName: tc.name, node: c14NodeCfg{Stored: si%2 == 1, InMem: true}})
					}
				}
			}
		}
		// interleave the histories (jobs were generated history by history) so that a budget cap
		// does not leave whole histories out; the first job of every history stays its
		// reference run (every-block, no restart) in the first phase.
		{
			per := make([][]c14Job, len(hs))
			for _, j := range jobs {
				per[j.hist] = append(per[j.hist], j)
			}
			jobs = jobs[:0]
			for k := 0; ; k++ {
				any := false
				for hi := range per {
					if k < len(per[hi]) {
						jobs = append(jobs, per[hi][k])
						any = true
					}
				}
				if !any {
					break
				}
			}
		}
		runJobs(jobs)
		if r.WasCapped() {
			exhaustive = false
			r.Note("budget cap hit in phase %s", ph.name)
			break
		}
		completed = append(completed, ph.name)
		if ph.checkRefs {
			// non-vacuity of the reference
			for hi, rf := range refs {
				if len(rf.labels) < 3 {
					t.Fatalf("harness: history %s produced only %d labels in the default configuration", hs[hi].Name, len(rf.labels))
				}
			}
		}
		if r.Violations() > 0 {
			exhaustive = false
			break
		}
	}
	r.Set("phases_completed", completed)
	trackerdb.TrieMemoryConfig = def

	// labels of different histories must differ
	seenLabel := map[string]string{}
	for hi, rf := range refs {
		for _, rnd := range c14SortedRounds(rf.labels) {
			l := rf.labels[rnd]
			if prev, ok := seenLabel[l]; ok {
				t.Fatalf("harness: label %s produced by both %s and %s", l, prev, hs[hi].Name)
			}
			seenLabel[l] = hs[hi].Name
			r.Class("label/" + l)
		}
		for _, rnd := range c14SortedRounds(rf.roots) {
			r.Class("root/" + hs[hi].Name + "/" + rf.roots[rnd])
		}
	}
	var hsum []string
	for hi, rf := range refs {
		hsum = append(hsum, fmt.Sprintf("%s(%s,%d rounds,%d txns): labels at %v, first stage at %v, %d trie roots", hs[hi].Name, hs[hi].Proto, hs[hi].rounds(), hs[hi].Txns, c14SortedRounds(rf.labels), c14SortedRounds(rf.fs), len(rf.roots)))
		r.Sample(map[string]any{"history": hs[hi].Name, "labels": rf.labels})
	}
	r.Set("histories", hsum)
	r.Set("schedules_per_history", len(scheds))
	r.Set("restart_points", rounds+1)
	r.Set("trie_configs", len(cfgs))
	r.Set("labels_observed", labelsSeen)
	r.Set("distinct_labels", len(seenLabel))
	r.Set("distinct_flush_patterns", len(flushPatterns))
	lc := map[string]int{}
	for k, v := range labelCountClasses {
		lc[fmt.Sprint(k)] = v
		if k < ve.Pick(3, 4) {
			labelsMissing += int64(v)
		}
	}
	r.Set("runs_by_number_of_labels", lc)
	n := r.Finish(ve.Coverage{Rule: fmt.Sprintf("%d histories x %d flush schedules x %d restart points x %d trie memory configs (+LRU-enabled, file-backed/reopen extras), each run on a real Ledger; all runs of a history must agree on labels, first-stage records and trie roots", len(hs), len(scheds), rounds+1, len(cfgs)),
		States: int64(len(states)), Transitions: transitions, Traces: traces, Exhaustive: exhaustive})
	if n > 0 {
		t.Fatalf("C14: %d violation(s)", n)
	}
}

// c14RunTraced is c14Run that additionally records a state key after every step.
func c14RunTraced(n *c14Node, h *c14History, p c14Plan, states *[]string) (*c14Obs, error) {
	return c14RunHook(n, h, p, func(step int, restarted bool, o *c14Obs) {
		*states = append(*states, fmt.Sprintf("%d/%d/%d/%v", step, n.dbRound(), len(o.Labels), restarted))
	})
}
