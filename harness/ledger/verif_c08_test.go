package ledger

// C08 — Ledger queries answer from the block history, not from flush timing.
//
// Engine E-SEQ over the LH driver (common_c08_driver_test.go: a REAL Ledger on in-memory
// SQLite, real BlockEvaluator, synchronous tracker flushes, reloadLedger). BFS over every
// sequence of
//
//	block ops   u+ / u~ / u-   create / modify / delete, in one block, the "user" resources:
//	                           account C (funded / paid+rekeyed / closed), B's holding of asset X
//	                           (opt-in+receive / receive / close-out), B's local state of
//	                           app P (opt-in+write / write / close-out), box "k" of app P
//	                           (create with bytes V0 / toggle V0<->V1, so two modifications
//	                           change it back / delete)
//	            u=             rewrite the user resources with the bytes they already have
//	                           (identical box_put, zero-amount asset transfer, same local value)
//	            o+ / o~ / o-   create / modify / destroy the "owner" resources: a fresh asset Y
//	                           (new id each time: params + creator entry + A's holding), a
//	                           fresh app Q (params + global state + creator entry)
//	            pay            unrelated payment A->B (a round that touches none of the above)
//	control ops flush1         persist exactly one more round to the tracker DB
//	            flushMax       persist everything the configuration allows (latest-MaxAcctLookback)
//	            reload         Ledger.reloadLedger()
//
// so every resource kind is created, modified, rewritten unchanged, deleted and RE-created
// across flush boundaries. Explorations (quick, in this order so that a time-capped run has
// seen every op in every configuration first): the whole alphabet to depth 3; the "user" and
// "owner" halves (each with pay, flushMax, reload) to depth 4; the user half without pay and
// the owner half to depth 5. Thorough: whole alphabet to 4-5, halves + flush1 to 5, halves to
// 6-7 (time-capped). Each for MaxAcctLookback 0 and 2, LRU caches on / off, from two initial
// states (user+owner resources absent / present-but-unflushed), and - with caches on, where
// lookups have side effects - under two query policies (sweep after every op / after block ops
// only; see c08SweepAlways...). "LRU on" uses the real cache code with capacity 256
// (c08LRUSmall); the upstream capacities (c08LRUReal, ~1 s per OpenLedger) run to depth 2 (3).
//
// Plus the dedicated "rowid-family" plan (LRU on, lookback 0): alphabet {C opts into X, C opts
// out, C closes its account while a brand-new account is funded, C is funded again, flushMax,
// reload}, ALL interleavings up to length 9 with at most 3 flushes and at most 1 reload (pure
// restart, nothing pending), from "C exists on disk, not opted in" (2931 transitions).
//
// The sweep: LookupAccount, LookupWithoutRewards, LookupAsset, LookupApplication,
// GetCreatorForRound, LookupKv for every address / creatable id / box key ever mentioned
// (plus never-existing ones; resources also across types) at EVERY round 0..latest+1.
//
// Oracle: a lookup that returns no error must equal R[round] (fold of the evaluator's
// StateDeltas); every round in [tracker DB round, latest] must be answered; rounds above
// latest must be refused; validThrough is within [round, latest] and the account did not
// change in between.
//
// Known finding (key C08:cross-type-lookup, findings/C08-cross-type-resource-lookup): a
// LookupApplication/LookupAsset for an id whose on-disk row is of the other type fails with
// "lookupResources asked for ..." once the row is neither in the deltas nor in the LRU.
//
// Not covered here: the concurrent lookup-vs-commitRound window (needs E-SCHED), the
// pebbledb backend, catchpoint tracking (disabled), depth beyond the bound.
//
// Mutants (bin/mut ... --only), outcomes:
//  M1 lruresources.go write(): never refresh an existing entry               DETECTED (depth 2)
//  M2 acctupdates.go postCommit: deleted KVs not written to baseKVs          DETECTED (depth 3)
//  M3 acctupdates.go postCommit: `cnt == macct.ndeltas` -> `<=` (in-memory
//     account entry dropped although later deltas still modify it)          DETECTED (depth 1)
//  M4 lruaccts.go write(): stale pending write may overwrite a newer entry
//     (needs: lookup, flush, NO lookup, next block)                          MISSED by the
//     sweep-after-every-op policy alone, DETECTED once the sweep-after-blocks policy was added
//  Independently seeded changes (/verif/seeded): C08-A compactKvDeltas loses the first OldData of a
//  key created inside the batch - MISSED by the first version (every box write changed the
//  bytes), DETECTED at depth 2 ([u= flushMax]) after u= and the V0<->V1 toggle were added;
//  C08-B lruResources.write lets a stale row replace a "deleted" placeholder - DETECTED
//  ([flushMax u- flushMax pay] under the sweep-after-blocks policy).
//  C08-r2A (accountsNewRoundImpl keeps the account row id in the "came and went" placeholder; a
//  later holding is inserted under a dead row id and is lost after a restart): beyond the depth
//  bound of the general plans, DETECTED since the dedicated "rowid-family" plan was added
//  ([c-in c-out closeC+newE flushMax fundC c-in flushMax reload], depth 8).
//  (DESIGN's "drop the persistedData.Round == currentDbRound re-check" is equivalent in a
//   sequential run - DB round and cached round never differ without a concurrent commit -
//   and belongs to the E-SCHED part.)

import (
	"fmt"

	"github.com/algorand/avm-abi/apps"
	"os"
	"strings"
	"sync/atomic"
	"testing"
	"time"

	"github.com/algorand/go-algorand/data/basics"
	"github.com/algorand/go-algorand/data/transactions"
	"github.com/algorand/go-algorand/data/txntest"
	ve "github.com/algorand/go-algorand/verifeng"
)

const (
	c08OpUCreate = iota
	c08OpUModify
	c08OpUSame
	c08OpUDelete
	c08OpOCreate
	c08OpOModify
	c08OpODelete
	c08OpPay
	c08OpCIn     // "rowid" family: C opts into asset X
	c08OpCOut    // C closes out of asset X
	c08OpCloseCE // C closes its account to A while a brand-new account E<round> is funded
	c08OpFundC   // A funds (re-creates) C
	c08OpFlush1
	c08OpFlushMax
	c08OpReload
	c08NumOps
)

var c08OpNames = []string{"u+", "u~", "u=", "u-", "o+", "o~", "o-", "pay", "c-in", "c-out", "closeC+newE", "fundC", "flush1", "flushMax", "reload"}

type c08Variant struct {
	cfg     c08Cfg
	present bool   // initial state: user+owner resources already exist
	alpha   string // name of the op subset
	mask    uint   // allowed ops
	policy  int    // when the sweep runs along a path
	// family: the dedicated small alphabet {C opts into X, C opts out, C closes while a new
	// account is created, C is funded again, flushMax, reload} explored to depth 9 over all
	// interleavings with at most 3 flushes and at most 1 reload (a pure restart: only when
	// nothing is pending), from "C exists on disk, not opted in". It reaches account-row-id
	// reuse histories (opt-in+opt-out inside one commit, close, re-fund, opt-in again, restart).
	family bool
}

// Sweep policies. Lookups have side effects on the LRU caches (pending writes, not-found
// marks), so WHEN a client queries is part of the explored behaviour:
//   - c08SweepAlways: after every op (a client that queries all the time);
//   - c08SweepBlocks: after block ops only - flushes and reloads are invisible to clients,
//     so nothing is looked up between a flush and the next block (this is what leaves stale
//     pending cache writes around when the next block arrives);
//   - c08SweepEnd: never along the path.
//
// Under every policy the state reached by the LAST op is swept (Seq.Final, on the instance
// that is then discarded), so every reachable state is checked. With the LRU caches off
// lookups are side-effect free and c08SweepEnd explores exactly the same states as the
// other two, cheaper.
const (
	c08SweepAlways = iota
	c08SweepBlocks
	c08SweepEnd
)

var c08PolicyNames = []string{"sweep-always", "sweep-after-blocks", "sweep-at-end"}

func c08Mask(ops ...int) uint {
	var m uint
	for _, o := range ops {
		m |= 1 << uint(o)
	}
	return m
}

var (
	c08AlphaUser      = c08Mask(c08OpUCreate, c08OpUModify, c08OpUSame, c08OpUDelete, c08OpPay, c08OpFlushMax, c08OpReload)
	c08AlphaUserNoPay = c08Mask(c08OpUCreate, c08OpUModify, c08OpUSame, c08OpUDelete, c08OpFlushMax, c08OpReload)
	c08AlphaOwner     = c08Mask(c08OpOCreate, c08OpOModify, c08OpODelete, c08OpPay, c08OpFlushMax, c08OpReload)
	c08AlphaFull      = uint(1<<c08NumOps-1)&^c08AlphaRowID | 1<<c08OpFlushMax | 1<<c08OpReload
	// c08AlphaRowID: the dedicated "account row id" family (see c08Variant.family)
	c08AlphaRowID = c08Mask(c08OpCIn, c08OpCOut, c08OpCloseCE, c08OpFundC, c08OpFlushMax, c08OpReload)
)

// c08Sys is one explored instance. Apply only advances a cheap shadow model (which ops
// are enabled is a function of it); the ledger is opened and the accepted ops are executed
// (each followed by the full sweep) when the engine asks for the invariant / the key. A
// disabled op therefore costs nothing, and a prefix is executed once per explored path.
type c08Sys struct {
	w  *c08World
	v  c08Variant
	r  *ve.Run
	tm *c08Timers

	// shadow model
	shLatest, shDB basics.Round
	shUser, shOwn  bool
	shCOpt         bool // family: C holds asset X
	shFlushes      int
	shReloads      int
	ops            []int

	// materialised part
	done     int  // ops[:done] were executed on the ledger
	swept    bool // the sweep ran after the last executed op
	h        *c08LH
	asset    basics.AssetIndex // X
	app      basics.AppIndex   // P
	ownAsset basics.AssetIndex // live Y (0: none)
	ownApp   basics.AppIndex   // live Q
	bad      error             // first violation / harness error (sticky)
}

type c08Timers struct{ newNs, opNs, sweepNs, news, ops, sweeps, queries atomic.Int64 }

const c08BoxName = "k"

var (
	c08BoxV0 = []byte("AAAAAAAA")
	c08BoxV1 = []byte("BBBBBBBB")
)

func (s *c08Sys) userPresent() bool {
	_, ok := s.h.Cur().acct[s.h.w.C]
	return ok
}

func (s *c08Sys) blockTxns(op int) []*txntest.Txn {
	w := s.h.w
	v := c08Val(s.h.NextRound())
	boxCur := s.h.Cur().kv[apps.MakeBoxKey(uint64(s.app), c08BoxName)]
	boxNext := c08BoxV1
	if string(boxCur) == string(c08BoxV1) {
		boxNext = c08BoxV0
	}
	switch op {
	case c08OpUCreate:
		return []*txntest.Txn{
			w.txPay(w.A, w.C, 5_000_000),
			w.txAssetXfer(w.B, w.B, s.asset, 0),
			w.txAssetXfer(w.A, w.B, s.asset, 7),
			w.txAppCall(w.B, s.app, transactions.OptInOC, []byte("lset"), v),
			w.txBoxPut(w.A, s.app, c08BoxName, c08BoxV0), // a box is always (re-)created with the same bytes
		}
	case c08OpUModify:
		rekeyTo := w.B // C is rekeyed to B, and back to itself the next time
		if cur := s.h.Cur().acct[w.C]; cur.AuthAddr == w.B {
			rekeyTo = w.C
		}
		return []*txntest.Txn{
			w.txPay(w.A, w.C, 1_000_000),
			w.txAssetXfer(w.A, w.B, s.asset, 1),
			w.txAppCall(w.B, s.app, transactions.NoOpOC, []byte("lset"), v),
			w.txBoxPut(w.A, s.app, c08BoxName, boxNext), // V0 <-> V1: two modifications change it back
			w.txRekey(w.C, rekeyTo),
		}
	case c08OpUSame:
		// rewrite everything with the bytes it already has: identical box_put, zero-amount
		// asset transfer, local state key set to its current value
		local := []byte{}
		if ls := s.h.Cur().res[c08ResKey{w.B, basics.CreatableIndex(s.app), basics.AppCreatable}].AppLocalState; ls != nil {
			local = []byte(ls.KeyValue["l"].Bytes)
		}
		return []*txntest.Txn{
			w.txBoxPut(w.A, s.app, c08BoxName, boxCur),
			w.txAssetXfer(w.A, w.B, s.asset, 0),
			w.txAppCall(w.B, s.app, transactions.NoOpOC, []byte("lset"), local),
		}
	case c08OpUDelete:
		return []*txntest.Txn{
			w.txClose(w.C, w.A),
			w.txAssetCloseOut(w.B, w.A, s.asset),
			w.txAppCall(w.B, s.app, transactions.CloseOutOC),
			w.txBoxDel(w.A, s.app, c08BoxName),
		}
	case c08OpOCreate:
		return []*txntest.Txn{w.txAssetCreate(w.A, "y"), w.txAppCreate(w.A)}
	case c08OpOModify:
		reserve := w.B
		if cur := s.h.Cur().res[c08ResKey{w.A, basics.CreatableIndex(s.ownAsset), basics.AssetCreatable}]; cur.AssetParams != nil && cur.AssetParams.Reserve == w.B {
			reserve = w.A
		}
		return []*txntest.Txn{
			w.txAssetConfig(w.A, s.ownAsset, reserve),
			w.txAppCall(w.A, s.ownApp, transactions.NoOpOC, []byte("gset"), v),
		}
	case c08OpODelete:
		return []*txntest.Txn{
			w.txAssetDestroy(w.A, s.ownAsset),
			w.txAppCall(w.A, s.ownApp, transactions.DeleteApplicationOC),
		}
	case c08OpPay:
		return []*txntest.Txn{w.txPay(w.A, w.B, 1000)}
	case c08OpCIn:
		return []*txntest.Txn{w.txAssetXfer(w.C, w.C, s.asset, 0)}
	case c08OpCOut:
		return []*txntest.Txn{w.txAssetCloseOut(w.C, w.A, s.asset)}
	case c08OpCloseCE:
		return []*txntest.Txn{w.txClose(w.C, w.A), w.txPay(w.A, c08Addr(fmt.Sprintf("E%d", s.h.NextRound())), 1_000_000)}
	case c08OpFundC:
		return []*txntest.Txn{w.txPay(w.A, w.C, 5_000_000)}
	}
	return nil
}

func (s *c08Sys) shMaxFlush() basics.Round {
	return s.shLatest.SubSaturate(basics.Round(s.v.cfg.Lookback))
}

// apply is the engine's Apply: shadow model only.
func (s *c08Sys) apply(op int) (bool, error) {
	if s.v.mask&(1<<uint(op)) == 0 {
		return false, nil
	}
	switch op {
	case c08OpUCreate:
		if s.shUser {
			return false, nil
		}
		s.shUser = true
		s.shLatest++
	case c08OpUModify, c08OpUSame:
		if !s.shUser {
			return false, nil
		}
		s.shLatest++
	case c08OpUDelete:
		if !s.shUser {
			return false, nil
		}
		s.shUser = false
		s.shLatest++
	case c08OpOCreate:
		if s.shOwn {
			return false, nil
		}
		s.shOwn = true
		s.shLatest++
	case c08OpOModify:
		if !s.shOwn {
			return false, nil
		}
		s.shLatest++
	case c08OpODelete:
		if !s.shOwn {
			return false, nil
		}
		s.shOwn = false
		s.shLatest++
	case c08OpPay:
		s.shLatest++
	case c08OpCIn:
		if !s.shUser || s.shCOpt {
			return false, nil
		}
		s.shCOpt = true
		s.shLatest++
	case c08OpCOut:
		if !s.shCOpt {
			return false, nil
		}
		s.shCOpt = false
		s.shLatest++
	case c08OpCloseCE:
		if !s.shUser || s.shCOpt {
			return false, nil
		}
		s.shUser = false
		s.shLatest++
	case c08OpFundC:
		if s.shUser {
			return false, nil
		}
		s.shUser = true
		s.shLatest++
	case c08OpFlush1:
		if s.shDB+1 >= s.shMaxFlush() { // == MaxFlush is flushMax
			return false, nil
		}
		s.shDB++
	case c08OpFlushMax:
		if s.shMaxFlush() <= s.shDB || (s.v.family && s.shFlushes >= 3) {
			return false, nil
		}
		s.shFlushes++
		s.shDB = s.shMaxFlush()
	case c08OpReload:
		if s.v.family && (s.shReloads >= 1 || s.shMaxFlush() > s.shDB) {
			return false, nil
		}
		s.shReloads++
		if s.shMaxFlush() > s.shDB {
			s.shDB = s.shMaxFlush()
		}
	}
	s.ops = append(s.ops, op)
	return true, nil
}

// nextID returns the id the pos-th transaction of the next block gets if it creates something.
func (s *c08Sys) nextID(pos int) uint64 {
	hdr, err := s.h.l.BlockHdr(s.h.l.Latest())
	if err != nil {
		return 0
	}
	return hdr.TxnCounter + uint64(pos)
}

// exec performs one op on the real ledger and runs the sweep.
func (s *c08Sys) exec(op int) error {
	t0 := time.Now()
	var en bool
	var err error
	switch op {
	case c08OpFlush1:
		en, err = s.h.Flush(s.h.dbRound + 1)
	case c08OpFlushMax:
		en, err = s.h.Flush(s.h.MaxFlush())
	case c08OpReload:
		en, err = true, s.h.Reload()
	default:
		id1, id2 := s.nextID(1), s.nextID(2)
		en, err = s.h.AddBlock(s.blockTxns(op)...)
		if err == nil && en {
			switch op {
			case c08OpOCreate:
				s.ownAsset, s.ownApp = basics.AssetIndex(id1), basics.AppIndex(id2)
				if c, ok := s.h.Cur().creator[basics.CreatableIndex(id1)]; !ok || c.ctype != basics.AssetCreatable {
					err = ve.Violationf("C08:harness", "harness: predicted asset id %d not created", id1)
				}
				if c, ok := s.h.Cur().creator[basics.CreatableIndex(id2)]; !ok || c.ctype != basics.AppCreatable {
					err = ve.Violationf("C08:harness", "harness: predicted app id %d not created", id2)
				}
			case c08OpODelete:
				s.ownAsset, s.ownApp = 0, 0
			}
		}
	}
	if err == nil && !en {
		err = ve.Violationf("C08:harness", "harness: op %s enabled in the shadow model but refused by the ledger/evaluator", c08OpNames[op])
	}
	s.tm.opNs.Add(int64(time.Since(t0)))
	s.tm.ops.Add(1)
	if err != nil {
		return err
	}
	s.swept = false
	if s.v.policy == c08SweepAlways || (s.v.policy == c08SweepBlocks && op < c08OpFlush1) {
		return s.sweep()
	}
	return nil
}

func (s *c08Sys) sweep() error {
	t1 := time.Now()
	err := s.h.Sweep()
	s.tm.sweepNs.Add(int64(time.Since(t1)))
	s.tm.sweeps.Add(1)
	s.swept = true
	return err
}

// final is the engine's Final: the state about to be discarded is swept if the policy did
// not already do so.
func (s *c08Sys) final() error {
	if err := s.materialize(); err != nil {
		return err
	}
	if s.swept {
		return nil
	}
	s.bad = s.sweep()
	return s.bad
}

// setup opens the ledger: round 1 creates asset X and app P (both by A) and funds P's
// account (box minimum balance); in the "present" variant rounds 2 and 3 run u+ and o+.
// The sweep runs after each setup block as well.
func (s *c08Sys) setup() error {
	t0 := time.Now()
	h, err := c08Open(s.w, s.v.cfg)
	if err != nil {
		return ve.Violationf("C08:harness", "harness: OpenLedger: %v", err)
	}
	s.h = h
	h.NoXType = c08NoXType
	h.Finding = func(key, msg string) {
		s.r.Report(key, fmt.Sprintf("[%s] after ops %v: %s", s.name(), s.opNames(s.done+1), msg),
			map[string]any{"engine": "seq", "harness": s.name(), "ops": s.ops[:min(s.done+1, len(s.ops))]})
	}
	w := s.w
	id1, id2 := s.nextID(1), s.nextID(2)
	s.asset, s.app = basics.AssetIndex(id1), basics.AppIndex(id2)
	en, err := h.AddBlock(w.txAssetCreate(w.A, "x"), w.txAppCreate(w.A), w.txPay(w.A, s.app.Address(), 1_000_000))
	if err != nil || !en {
		return ve.Violationf("C08:harness", "harness: setup block: enabled=%v err=%v", en, err)
	}
	if c, ok := h.Cur().creator[basics.CreatableIndex(id1)]; !ok || c.ctype != basics.AssetCreatable {
		return ve.Violationf("C08:harness", "harness: asset id %d not created", id1)
	}
	if c, ok := h.Cur().creator[basics.CreatableIndex(id2)]; !ok || c.ctype != basics.AppCreatable {
		return ve.Violationf("C08:harness", "harness: app id %d not created", id2)
	}
	if s.v.policy != c08SweepEnd {
		if err := s.sweep(); err != nil {
			return err
		}
	}
	if s.v.present {
		for _, op := range []int{c08OpUCreate, c08OpOCreate} {
			if err := s.exec(op); err != nil {
				return err
			}
		}
	}
	if s.v.family {
		if en, err := h.AddBlock(w.txPay(w.A, w.C, 5_000_000)); err != nil || !en {
			return ve.Violationf("C08:harness", "harness: family setup block: enabled=%v err=%v", en, err)
		}
		if en, err := h.Flush(h.MaxFlush()); err != nil || !en {
			return ve.Violationf("C08:harness", "harness: family setup flush: enabled=%v err=%v", en, err)
		}
		if err := s.sweep(); err != nil {
			return err
		}
	}
	s.tm.newNs.Add(int64(time.Since(t0)))
	s.tm.news.Add(1)
	return nil
}

func (s *c08Sys) name() string {
	return fmt.Sprintf("ledger/%s/%s/%s/%s", s.v.cfg.Name, map[bool]string{false: "absent", true: "present"}[s.v.present], s.v.alpha, c08PolicyNames[s.v.policy])
}

func (s *c08Sys) opNames(n int) []string {
	var out []string
	for i := 0; i < n && i < len(s.ops); i++ {
		out = append(out, c08OpNames[s.ops[i]])
	}
	return out
}

// materialize brings the real ledger up to the shadow model; returns the first violation.
func (s *c08Sys) materialize() error {
	if s.bad != nil {
		return s.bad
	}
	if s.h == nil {
		if s.bad = s.setup(); s.bad != nil {
			return s.bad
		}
	}
	for s.done < len(s.ops) {
		if s.bad = s.exec(s.ops[s.done]); s.bad != nil {
			return s.bad
		}
		s.done++
	}
	if s.h.Latest() != s.shLatest || s.h.dbRound != s.shDB || s.userPresent() != s.shUser || (s.ownAsset != 0) != s.shOwn {
		s.bad = ve.Violationf("C08:harness", "harness: shadow model (latest %d db %d user %v own %v) diverged from the ledger (latest %d db %d user %v own %v)",
			s.shLatest, s.shDB, s.shUser, s.shOwn, s.h.Latest(), s.h.dbRound, s.userPresent(), s.ownAsset != 0)
	}
	return s.bad
}

func c08NewSys(w *c08World, v c08Variant, r *ve.Run, tm *c08Timers) *c08Sys {
	s := &c08Sys{w: w, v: v, r: r, tm: tm, shLatest: 1}
	if v.present {
		s.shLatest, s.shUser, s.shOwn = 3, true, true
	}
	if v.family {
		s.shLatest, s.shDB, s.shUser = 2, 2, true
	}
	return s
}

func (s *c08Sys) key() string {
	if err := s.materialize(); err != nil {
		return "bad:" + err.Error()
	}
	return fmt.Sprintf("%v/%d/%d/%s", s.v.present, s.ownAsset, s.ownApp, s.h.Key())
}

func (s *c08Sys) close() {
	if s.h != nil {
		s.tm.queries.Add(s.h.queries)
		s.h.Close()
	}
}

// c08NoXType: development switch (VERIF_C08_NO_XTYPE=1) that leaves cross-type resource
// lookups out of the sweep (see finding C08-cross-type-resource-lookup).
var c08NoXType = os.Getenv("VERIF_C08_NO_XTYPE") == "1"

func TestVerif_C08(t *testing.T) {
	r := ve.NewRun("C08", "model_checking")
	w, err := c08MakeWorld(nil)
	if err != nil {
		t.Fatalf("harness: %v", err)
	}
	lruS0 := c08Cfg{Name: "lru-lb0", Lookback: 0, LRU: c08LRUSmall}
	lruS2 := c08Cfg{Name: "lru-lb2", Lookback: 2, LRU: c08LRUSmall}
	off0 := c08Cfg{Name: "nolru-lb0", Lookback: 0, LRU: c08LRUOff}
	off2 := c08Cfg{Name: "nolru-lb2", Lookback: 2, LRU: c08LRUOff}
	real0 := c08Cfg{Name: "reallru-lb0", Lookback: 0, LRU: c08LRUReal}
	real2 := c08Cfg{Name: "reallru-lb2", Lookback: 2, LRU: c08LRUReal}
	type expl struct {
		cfg     c08Cfg
		alpha   string
		mask    uint
		depth   int
		present []bool
		policy  int
	}
	both := []bool{true, false}
	onlyPresent := []bool{true}
	var plan []expl
	add := func(cfgs []c08Cfg, alpha string, mask uint, depth int, present []bool, policy int) {
		for _, c := range cfgs {
			plan = append(plan, expl{c, alpha, mask, depth, present, policy})
		}
	}
	lru := []c08Cfg{lruS0, lruS2}
	off := []c08Cfg{off0, off2}
	realLRU := []c08Cfg{real0, real2}
	userOwner := c08AlphaUser | c08AlphaOwner
	if !ve.Thorough() {
		// Ordered so that a time-capped run has seen every op in every configuration at
		// depth 3 before anything is deepened (transition counts: see evidence notes).
		add(lru, "full", c08AlphaFull, 3, onlyPresent, c08SweepBlocks)
		add(lru, "user", c08AlphaUser, 4, onlyPresent, c08SweepBlocks)
		add(lru, "full", c08AlphaFull, 3, onlyPresent, c08SweepAlways)
		add(off, "full", c08AlphaFull, 3, onlyPresent, c08SweepEnd)
		add([]c08Cfg{lruS0}, "rowid-family", c08AlphaRowID, 9, []bool{false}, c08SweepBlocks)
		add(lru, "full", c08AlphaFull, 3, []bool{false}, c08SweepBlocks)
		add(lru, "user", c08AlphaUser, 4, []bool{false}, c08SweepBlocks)
		add(lru, "owner", c08AlphaOwner, 4, both, c08SweepBlocks)
		add(lru, "user-nopay", c08AlphaUserNoPay, 5, both, c08SweepBlocks)
		add(lru, "owner", c08AlphaOwner, 5, onlyPresent, c08SweepBlocks)
		add(lru, "user", c08AlphaUser, 4, onlyPresent, c08SweepAlways)
		add(lru, "owner", c08AlphaOwner, 4, onlyPresent, c08SweepAlways)
		add(off, "user", c08AlphaUser, 4, onlyPresent, c08SweepEnd)
		add(off, "owner", c08AlphaOwner, 4, onlyPresent, c08SweepEnd)
		add(realLRU, "user+owner", userOwner, 2, onlyPresent, c08SweepAlways)
	} else {
		add(lru, "full", c08AlphaFull, 4, both, c08SweepBlocks)
		add([]c08Cfg{lruS0}, "rowid-family", c08AlphaRowID, 9, []bool{false}, c08SweepBlocks)
		add(lru, "full", c08AlphaFull, 4, both, c08SweepAlways)
		add(off, "full", c08AlphaFull, 4, both, c08SweepEnd)
		add(lru, "user", c08AlphaUser|1<<c08OpFlush1, 5, both, c08SweepBlocks)
		add(lru, "owner", c08AlphaOwner|1<<c08OpFlush1, 5, both, c08SweepBlocks)
		add(lru, "user", c08AlphaUser|1<<c08OpFlush1, 5, both, c08SweepAlways)
		add(lru, "owner", c08AlphaOwner|1<<c08OpFlush1, 5, both, c08SweepAlways)
		add(off, "user", c08AlphaUser|1<<c08OpFlush1, 5, both, c08SweepEnd)
		add(off, "owner", c08AlphaOwner|1<<c08OpFlush1, 5, both, c08SweepEnd)
		add(realLRU, "user+owner", userOwner, 3, onlyPresent, c08SweepAlways)
		add(lru, "user-nopay", c08AlphaUserNoPay, 6, both, c08SweepBlocks)
		add(lru, "owner", c08AlphaOwner, 6, both, c08SweepBlocks)
		add(lru, "full", c08AlphaFull, 5, both, c08SweepBlocks)
		add(lru, "user-nopay", c08AlphaUserNoPay, 7, onlyPresent, c08SweepBlocks)
		add(lru, "owner", c08AlphaOwner, 7, onlyPresent, c08SweepBlocks)
	}
	maxDepth := 0
	var planDesc []string
	seenDesc := map[string]bool{}
	for _, e := range plan {
		d := fmt.Sprintf("%s alphabet to depth %d on %s (%s, initial %v)", e.alpha, e.depth, e.cfg.Name, c08PolicyNames[e.policy], e.present)
		if !seenDesc[d] {
			seenDesc[d] = true
			planDesc = append(planDesc, d)
		}
	}
	var cov ve.Coverage
	cov.Exhaustive = true
	var tm c08Timers
	var skipped []string
explore:
	for _, e := range plan {
		for _, present := range e.present {
			v := c08Variant{cfg: e.cfg, present: present, alpha: e.alpha, mask: e.mask, policy: e.policy, family: e.alpha == "rowid-family"}
			name := c08NewSys(w, v, r, &tm).name()
			if r.WasCapped() || r.OutOfTime() {
				skipped = append(skipped, fmt.Sprintf("%s(depth %d)", name, e.depth))
				continue
			}
			q := &ve.Seq[*c08Sys]{
				Name:      name,
				NumOps:    c08NumOps,
				OpName:    func(op int) string { return c08OpNames[op] },
				New:       func() *c08Sys { return c08NewSys(w, v, r, &tm) },
				Close:     func(s *c08Sys) { s.close() },
				Apply:     func(s *c08Sys, op int) (bool, error) { return s.apply(op) },
				Invariant: func(s *c08Sys) error { return s.materialize() },
				Key:       func(s *c08Sys) string { return s.key() },
				Final:     func(s *c08Sys) error { return s.final() },
				Observe: func(s *c08Sys) string {
					return fmt.Sprintf("latest%d-db%d-u%v-o%v", s.shLatest, s.shDB, s.shUser, s.shOwn)
				},
				MaxDepth: e.depth,
			}
			res := q.Explore(r)
			cov.AddSeq(res)
			if !res.Exhaustive {
				cov.Exhaustive = false
			}
			if res.DepthCompleted > maxDepth {
				maxDepth = res.DepthCompleted
			}
			if r.Violations() > 0 {
				break explore
			}
		}
	}
	if len(skipped) > 0 {
		r.Note("time budget exhausted; explorations not run: %v", skipped)
	}
	depth := maxDepth
	ms := func(ns, n int64) float64 {
		if n == 0 {
			return 0
		}
		return float64(ns) / float64(n) / 1e6
	}
	r.Set("lookups_compared", tm.queries.Load())
	r.Note("timing (not part of the verdict): new+setup %.2f ms x %d, op %.2f ms x %d, sweep %.2f ms x %d",
		ms(tm.newNs.Load(), tm.news.Load()), tm.news.Load(), ms(tm.opNs.Load(), tm.ops.Load()), tm.ops.Load(), ms(tm.sweepNs.Load(), tm.sweeps.Load()), tm.sweeps.Load())
	cov.Rule = fmt.Sprintf("BFS over all sequences (max depth completed %d; plan: "+strings.Join(planDesc, "; ")+") of 7 block patterns (create/modify/delete user resources: account, asset holding, app local state, box; create/modify/destroy owner resources: asset params, app params, creators; unrelated payment), flush-one-round, flush-max, reloadLedger; x {LRU on,off} x {MaxAcctLookback 0,2} x {resources initially absent, present}; after every step every account/asset/app/creator/kv lookup for every known address/id/key at every round 0..latest+1 is compared with the fold of the evaluator's deltas; evaluations = transitions executed; a distinct class = a distinct implementation state (block history, flush boundaries, delta ndeltas bookkeeping, LRU cache contents)", depth)
	r.Assume("reference state = fold of the StateDelta returned by the real BlockEvaluator (evaluator correctness is C18-C24)")
	r.Assume("tracker flushes are executed synchronously through trackerRegistry.produceCommittingTask + commitRound; the time-based flush heuristic is disabled; concurrent lookup-vs-commit interleavings are NOT covered (E-SCHED)")
	r.Assume("SQLite in-memory backend; catchpoint tracking disabled; private consensus version verif-ldg-c08 (vFuture, MaxTxnLife 4, payouts off)")
	if r.Finish(cov) > 0 {
		t.Fatal("violations")
	}
}
