package bookkeeping

// C29 (part b) — Block commitments bind their contents; headers link to the previous block's hash.
//
// Engine E-ENUM on the real Block.ContentsMatchHeader / Block.PaysetCommit and BlockHeader.PreCheck,
// for every protocol registered in config.Consensus (flat and Merkle payset commitments, with and
// without the SHA-256 and SHA-512 commitments / Branch512).
//
// (b1) For paysets of 0..3 (thorough: 0..4) distinct transactions (built with EncodeSignedTxn; payment, payment with
// close-out ApplyData, application call with EvalDelta ApplyData) whose header carries
// PaysetCommit() of that payset:
//   original                                     -> ContentsMatchHeader must be true (where the
//                                                   protocol supports a payset commitment at all)
//   every non-identity permutation, every proper sub-sequence (incl. the empty payset), every
//   duplication of a member at every position, every insertion of a foreign transaction at every
//   position, every single-field alteration of every member: transaction fields (sender, fee, first/
//   last valid, note, lease, group, rekey-to, receiver, amount, close-to), signature (byte flips
//   first/middle/last, msig/lsig/auth-addr set), ApplyData (closing amount, asset closing amount,
//   sender/receiver/close rewards, config asset, application id, eval delta global/local/logs/inner),
//   the HasGenesisID / HasGenesisHash flags; and every alteration of the header's three commitments
//   (byte flips first/middle/last, zeroed, swapped with the commitment of another payset)
//                                                -> ContentsMatchHeader must be false.
// (b2) For a previous header prev (round 7, non-trivial fields) and h = MakeBlock(prev).BlockHeader:
//   h.PreCheck(prev) must pass; must fail for: Branch byte flips / zero / hash of another header,
//   Branch512 byte flips / zero (or set although the protocol does not use it), Round +-1 (with and
//   without re-linking), and h.PreCheck(prev') for every single-field alteration prev' of prev that
//   changes prev.Hash() (i.e. h links to prev, not to a look-alike).
// Oracle: exactly as stated; nothing else is demanded.
//
// Not covered: paysets > 3, the certificate/seed checks of agreement, catchup/service.go's use of
// these functions (C30).
// Unexported identifiers used: none.
//
// Mutants (bin/mut C29 ... --only, quick tier) — all DETECTED:
//   M1 ledger/eval/eval.go TransactionGroup: `len(txgroup) > 1 &&` added to the incomplete-group check
//      (1-member groups unchecked)                          -> part a, C29:group:alter:TransactionGroup (44 cases)
//   M2 data/bookkeeping/txn_merkle.go Marshal: leaf built from the SignedTxnInBlock with ApplyData cleared
//                                                           -> part b1, C29:contents:alter:ad.* for every Merkle protocol
//   M3 data/bookkeeping/block.go PreCheck: SHA-512/256 branch check skipped when the protocol also
//      has Branch512 (own)                                  -> part b2, C29:precheck:branch
//   M4 ledger/eval/eval.go TransactionGroup: "inconsistent group values" check removed (own; the group
//      hash ignores the Group field, so a member carrying a foreign id slips through) -> part a, gid-foreign-one
// Part c (ledger/verif_c29_c_test.go): seeded change C29-A (EvalDelta.Equal comparing inner ApplyData with
// itself) MISSED by parts a/b, DETECTED by part c; own mutants there: M5 eval.go ApplyData comparison skipped
// (`if false && !ad.Equal(applyData)`), M6 eval.go txn-root comparison skipped — both DETECTED by part c.

import (
	"fmt"
	"sort"
	"testing"

	"github.com/algorand/go-algorand/config"
	"github.com/algorand/go-algorand/crypto"
	"github.com/algorand/go-algorand/data/basics"
	"github.com/algorand/go-algorand/data/committee"
	"github.com/algorand/go-algorand/data/transactions"
	"github.com/algorand/go-algorand/protocol"
	ve "github.com/algorand/go-algorand/verifeng"
)

type c29alt struct {
	name string
	f    func(*transactions.SignedTxnInBlock)
}

func c29addr(b byte) (a basics.Address) {
	for i := range a {
		a[i] = b + byte(i)
	}
	return
}

func c29alts() []c29alt {
	return []c29alt{
		{"txn.sender", func(s *transactions.SignedTxnInBlock) { s.Txn.Sender[3] ^= 1 }},
		{"txn.fee", func(s *transactions.SignedTxnInBlock) { s.Txn.Fee.Raw++ }},
		{"txn.firstvalid", func(s *transactions.SignedTxnInBlock) { s.Txn.FirstValid++ }},
		{"txn.lastvalid", func(s *transactions.SignedTxnInBlock) { s.Txn.LastValid++ }},
		{"txn.note", func(s *transactions.SignedTxnInBlock) { s.Txn.Note = append(append([]byte{}, s.Txn.Note...), 1) }},
		{"txn.lease", func(s *transactions.SignedTxnInBlock) { s.Txn.Lease[31] ^= 0x80 }},
		{"txn.group", func(s *transactions.SignedTxnInBlock) { s.Txn.Group[0] ^= 1 }},
		{"txn.rekeyto", func(s *transactions.SignedTxnInBlock) { s.Txn.RekeyTo[0] ^= 1 }},
		{"txn.receiver", func(s *transactions.SignedTxnInBlock) { s.Txn.Receiver[5] ^= 1 }},
		{"txn.amount", func(s *transactions.SignedTxnInBlock) { s.Txn.Amount.Raw++ }},
		{"txn.closeto", func(s *transactions.SignedTxnInBlock) { s.Txn.CloseRemainderTo[9] ^= 1 }},
		{"sig.first", func(s *transactions.SignedTxnInBlock) { s.Sig[0] ^= 1 }},
		{"sig.middle", func(s *transactions.SignedTxnInBlock) { s.Sig[32] ^= 1 }},
		{"sig.last", func(s *transactions.SignedTxnInBlock) { s.Sig[63] ^= 1 }},
		{"msig.set", func(s *transactions.SignedTxnInBlock) { s.Msig.Version = 1; s.Msig.Threshold = 1 }},
		{"lsig.set", func(s *transactions.SignedTxnInBlock) { s.Lsig.Logic = []byte{1, 0x20, 1, 1, 0x22} }},
		{"authaddr", func(s *transactions.SignedTxnInBlock) { s.AuthAddr[1] ^= 1 }},
		{"ad.closingamount", func(s *transactions.SignedTxnInBlock) { s.ClosingAmount.Raw++ }},
		{"ad.assetclosingamount", func(s *transactions.SignedTxnInBlock) { s.AssetClosingAmount++ }},
		{"ad.senderrewards", func(s *transactions.SignedTxnInBlock) { s.SenderRewards.Raw++ }},
		{"ad.receiverrewards", func(s *transactions.SignedTxnInBlock) { s.ReceiverRewards.Raw++ }},
		{"ad.closerewards", func(s *transactions.SignedTxnInBlock) { s.CloseRewards.Raw++ }},
		{"ad.configasset", func(s *transactions.SignedTxnInBlock) { s.ConfigAsset++ }},
		{"ad.applicationid", func(s *transactions.SignedTxnInBlock) { s.ApplicationID++ }},
		{"ad.evaldelta.global", func(s *transactions.SignedTxnInBlock) {
			g := map[string]basics.ValueDelta{}
			for k, v := range s.EvalDelta.GlobalDelta {
				g[k] = v
			}
			g["c29"] = basics.ValueDelta{Action: basics.SetUintAction, Uint: uint64(len(g)) + 1}
			s.EvalDelta.GlobalDelta = g
		}},
		{"ad.evaldelta.local", func(s *transactions.SignedTxnInBlock) {
			s.EvalDelta.LocalDeltas = map[uint64]basics.StateDelta{0: {"c29": basics.ValueDelta{Action: basics.SetUintAction, Uint: 9}}}
		}},
		{"ad.evaldelta.logs", func(s *transactions.SignedTxnInBlock) { s.EvalDelta.Logs = append(append([]string{}, s.EvalDelta.Logs...), "x") }},
		{"ad.evaldelta.inner", func(s *transactions.SignedTxnInBlock) {
			s.EvalDelta.InnerTxns = append(append([]transactions.SignedTxnWithAD{}, s.EvalDelta.InnerTxns...), transactions.SignedTxnWithAD{SignedTxn: transactions.SignedTxn{Txn: transactions.Transaction{Type: protocol.PaymentTx}}})
		}},
		{"flag.hasgenesisid", func(s *transactions.SignedTxnInBlock) { s.HasGenesisID = !s.HasGenesisID }},
		{"flag.hasgenesishash", func(s *transactions.SignedTxnInBlock) { s.HasGenesisHash = !s.HasGenesisHash }},
	}
}

// c29material builds the header and 5 encoded transactions (up to 4 + 1 foreign) for a protocol.
func c29material(v protocol.ConsensusVersion) (BlockHeader, []transactions.SignedTxnInBlock, error) {
	var bh BlockHeader
	bh.CurrentProtocol = v
	bh.Round = 8
	bh.GenesisID = "c29-net"
	bh.GenesisHash = crypto.Digest{0xc2, 0x9b}
	proto := config.Consensus[v]
	mk := func(i byte, typ protocol.TxType, ad transactions.ApplyData) (transactions.SignedTxnInBlock, error) {
		var st transactions.SignedTxn
		st.Txn.Type = typ
		st.Txn.Sender = c29addr(0x10 * i)
		st.Txn.Fee.Raw = 1000 + uint64(i)
		st.Txn.FirstValid, st.Txn.LastValid = 5, 20
		st.Txn.Note = []byte{'n', i}
		if i%2 == 1 {
			st.Txn.GenesisID = bh.GenesisID
		}
		if proto.SupportGenesisHash {
			st.Txn.GenesisHash = bh.GenesisHash
		}
		if typ == protocol.PaymentTx {
			st.Txn.Receiver = c29addr(0x11 * i)
			st.Txn.Amount.Raw = 5000 + uint64(i)
		} else {
			st.Txn.ApplicationID = 77
		}
		for k := range st.Sig {
			st.Sig[k] = i*31 + byte(k)
		}
		return bh.EncodeSignedTxn(st, ad)
	}
	var out []transactions.SignedTxnInBlock
	ads := []transactions.ApplyData{
		{},
		{ClosingAmount: basics.MicroAlgos{Raw: 12}, SenderRewards: basics.MicroAlgos{Raw: 3}, ReceiverRewards: basics.MicroAlgos{Raw: 4}},
		{EvalDelta: transactions.EvalDelta{GlobalDelta: basics.StateDelta{"k": {Action: basics.SetBytesAction, Bytes: "v"}}, Logs: []string{"l"}}},
		{ReceiverRewards: basics.MicroAlgos{Raw: 7}},
		{CloseRewards: basics.MicroAlgos{Raw: 1}},
	}
	types := []protocol.TxType{protocol.PaymentTx, protocol.PaymentTx, protocol.ApplicationCallTx, protocol.PaymentTx, protocol.PaymentTx}
	for i := 0; i < 5; i++ {
		s, err := mk(byte(i+1), types[i], ads[i])
		if err != nil {
			return bh, nil, err
		}
		out = append(out, s)
	}
	return bh, out, nil
}

type c29hdrAlt struct {
	name string
	f    func(*BlockHeader)
}

// c29prevAlts: single-field alterations of a header (each changes its hash).
func c29prevAlts() []c29hdrAlt {
	return []c29hdrAlt{
		{"branch", func(h *BlockHeader) { h.Branch[0] ^= 1 }},
		{"branch512", func(h *BlockHeader) { h.Branch512[0] ^= 1 }},
		{"seed", func(h *BlockHeader) { h.Seed[0] ^= 1 }},
		{"txn-commitment", func(h *BlockHeader) { h.NativeSha512_256Commitment[0] ^= 1 }},
		{"txn256-commitment", func(h *BlockHeader) { h.Sha256Commitment[0] ^= 1 }},
		{"txn512-commitment", func(h *BlockHeader) { h.Sha512Commitment[0] ^= 1 }},
		{"proposer", func(h *BlockHeader) { h.Proposer[0] ^= 1 }},
		{"feescollected", func(h *BlockHeader) { h.FeesCollected.Raw++ }},
		{"proposerpayout", func(h *BlockHeader) { h.ProposerPayout.Raw++ }},
		{"feesink", func(h *BlockHeader) { h.FeeSink[0] ^= 1 }},
		{"rewardspool", func(h *BlockHeader) { h.RewardsPool[0] ^= 1 }},
		{"rewardslevel", func(h *BlockHeader) { h.RewardsLevel++ }},
		{"rewardsrate", func(h *BlockHeader) { h.RewardsRate++ }},
		{"rewardsresidue", func(h *BlockHeader) { h.RewardsResidue++ }},
		{"rewardsrecalc", func(h *BlockHeader) { h.RewardsRecalculationRound++ }},
		{"txncounter", func(h *BlockHeader) { h.TxnCounter++ }},
		{"stateproof", func(h *BlockHeader) {
			h.StateProofTracking = map[protocol.StateProofType]StateProofTrackingData{protocol.StateProofBasic: {StateProofNextRound: 512}}
		}},
		{"expired-accounts", func(h *BlockHeader) {
			h.ExpiredParticipationAccounts = []basics.Address{c29addr(1)}
		}},
		{"absent-accounts", func(h *BlockHeader) {
			h.AbsentParticipationAccounts = []basics.Address{c29addr(2)}
		}},
	}
}

func c29flip(b []byte, where string) {
	switch where {
	case "first":
		b[0] ^= 1
	case "middle":
		b[len(b)/2] ^= 0x10
	case "last":
		b[len(b)-1] ^= 0x80
	case "zero":
		for i := range b {
			b[i] = 0
		}
	}
}

func TestVerif_C29_b(t *testing.T) {
	r := ve.NewRun("C29", "exploration")
	r.Assume("part b: ContentsMatchHeader == true for the unaltered payset is demanded only for protocols whose PaysetCommit type is supported (flat or Merkle); for the others every block, altered or not, must report false")

	var names []string
	for v := range config.Consensus {
		names = append(names, string(v))
	}
	sort.Strings(names)
	alts := c29alts()
	maxK := ve.Pick(3, 4) // payset sizes 0..3 (quick) / 0..4 (thorough)
	prevAlts := c29prevAlts()

	visited := r.ParallelFor(len(names), func(pi int) {
		v := protocol.ConsensusVersion(names[pi])
		proto := config.Consensus[v]
		desc := fmt.Sprintf("commit=%d sha256=%v sha512=%v", proto.PaysetCommit, proto.EnableSHA256TxnCommitmentHeader, proto.EnableSha512BlockHash)
		bh, mat, err := c29material(v)
		if err != nil {
			r.Note("harness: cannot encode material for %s: %v", v, err)
			r.Capped()
			return
		}
		foreign := mat[4]
		supported := proto.PaysetCommit == config.PaysetCommitFlat || proto.PaysetCommit == config.PaysetCommitMerkle
		n := 0
		check := func(blk Block, want bool, kind, detail string) {
			n++
			got := blk.ContentsMatchHeader()
			if got != want {
				r.Report("C29:contents:"+kind, fmt.Sprintf("protocol %s (%s) payset of %d: %s %s -> ContentsMatchHeader=%v, expected %v", v, desc, len(blk.Payset), kind, detail, got, want),
					map[string]any{"engine": "enum", "part": "b1", "protocol": string(v), "kind": kind, "detail": detail})
			}
			r.Class(fmt.Sprintf("b1/%s/%s/%v", desc, kind, got))
			if n%97 == 0 && pi%9 == 0 {
				r.Sample(map[string]any{"part": "b1", "protocol": string(v), "payset": len(blk.Payset), "kind": kind, "detail": detail, "ContentsMatchHeader": got})
			}
		}
		for k := 0; k <= maxK; k++ {
			blk := Block{BlockHeader: bh, Payset: append(transactions.Payset{}, mat[:k]...)}
			tc, err := blk.PaysetCommit()
			if !supported {
				if err == nil {
					r.Report("C29:contents:unsupported-commit", fmt.Sprintf("protocol %s has unsupported payset commit type %d but PaysetCommit succeeded", v, proto.PaysetCommit), map[string]any{"protocol": string(v)})
				}
				check(blk, false, "original-unsupported", "")
				continue
			}
			if err != nil {
				r.Report("C29:contents:commit-error", fmt.Sprintf("protocol %s: PaysetCommit of a well-formed payset of %d failed: %v", v, k, err), map[string]any{"protocol": string(v), "k": k})
				continue
			}
			blk.TxnCommitments = tc
			check(blk, true, "original", "")
			with := func(p transactions.Payset) Block { b := blk; b.Payset = p; return b }
			// permutations
			ve.Permutations(k, func(p []int) {
				id := true
				for i, x := range p {
					if i != x {
						id = false
					}
				}
				if id {
					return
				}
				var ps transactions.Payset
				for _, x := range p {
					ps = append(ps, blk.Payset[x])
				}
				check(with(ps), false, "permutation", fmt.Sprint(p))
			})
			// proper sub-sequences (incl. empty)
			ve.Subsets(k, func(mask uint) {
				if mask == 1<<uint(k)-1 {
					return
				}
				ps := transactions.Payset{}
				for i := 0; i < k; i++ {
					if mask&(1<<uint(i)) != 0 {
						ps = append(ps, blk.Payset[i])
					}
				}
				check(with(ps), false, "subsequence", fmt.Sprintf("keep=%b", mask))
				if len(ps) == 0 {
					check(with(nil), false, "subsequence", "nil payset")
				}
			})
			// duplications and foreign insertions at every position
			for pos := 0; pos <= k; pos++ {
				for i := 0; i <= k; i++ {
					ins, what := foreign, "foreign"
					if i < k {
						ins, what = blk.Payset[i], fmt.Sprintf("duplicate-of-%d", i)
					}
					ps := append(append(append(transactions.Payset{}, blk.Payset[:pos]...), ins), blk.Payset[pos:]...)
					check(with(ps), false, "insert", fmt.Sprintf("%s@%d", what, pos))
				}
			}
			// single-field alterations of every member
			for i := 0; i < k; i++ {
				for _, a := range alts {
					ps := append(transactions.Payset{}, blk.Payset...)
					a.f(&ps[i])
					check(with(ps), false, "alter:"+a.name, fmt.Sprintf("@%d", i))
				}
			}
			// header commitment alterations
			for _, where := range []string{"first", "middle", "last", "zero"} {
				b := blk
				c29flip(b.NativeSha512_256Commitment[:], where)
				if b.NativeSha512_256Commitment != blk.NativeSha512_256Commitment {
					check(b, false, "header:txn", where)
				}
				b = blk
				c29flip(b.Sha256Commitment[:], where)
				if b.Sha256Commitment != blk.Sha256Commitment {
					check(b, false, "header:txn256", where)
				}
				b = blk
				c29flip(b.Sha512Commitment[:], where)
				if b.Sha512Commitment != blk.Sha512Commitment {
					check(b, false, "header:txn512", where)
				}
			}
			// commitment of another payset
			other := Block{BlockHeader: bh, Payset: transactions.Payset{foreign}}
			if oc, err := other.PaysetCommit(); err == nil {
				b := blk
				b.NativeSha512_256Commitment = oc.NativeSha512_256Commitment
				check(b, false, "header:txn", "other-payset")
				if proto.EnableSHA256TxnCommitmentHeader {
					b = blk
					b.Sha256Commitment = oc.Sha256Commitment
					check(b, false, "header:txn256", "other-payset")
				}
				if proto.EnableSha512BlockHash {
					b = blk
					b.Sha512Commitment = oc.Sha512Commitment
					check(b, false, "header:txn512", "other-payset")
				}
			}
		}

		// ---- b2: PreCheck links to prev.Hash(), round prev+1
		var prev BlockHeader
		prev.CurrentProtocol = v
		prev.Round = 7
		prev.GenesisID = "c29-net"
		if proto.SupportGenesisHash {
			prev.GenesisHash = crypto.Digest{0xc2, 0x9b}
		}
		prev.Seed = committee.Seed{1, 2, 3}
		prev.Branch = BlockHash{9, 9}
		prev.RewardsLevel = 5
		prev.TxnCounter = 1234
		prev.FeeSink, prev.RewardsPool = c29addr(0xa0), c29addr(0xb0)
		var h BlockHeader
		var pan any
		func() {
			defer func() { pan = recover() }()
			h = MakeBlock(prev).BlockHeader
		}()
		if pan != nil {
			r.Report("C29:precheck:makeblock-panic", fmt.Sprintf("MakeBlock panicked for protocol %s: %v", v, pan), map[string]any{"protocol": string(v)})
			return
		}
		pdesc := fmt.Sprintf("sha512hdr=%v", proto.EnableSha512BlockHash)
		pc := func(hh, pp BlockHeader, want bool, kind, detail string) {
			n++
			err := hh.PreCheck(pp)
			if (err == nil) != want {
				r.Report("C29:precheck:"+kind, fmt.Sprintf("protocol %s (%s): %s %s -> PreCheck accepted=%v (err %v), expected %v", v, pdesc, kind, detail, err == nil, err, want),
					map[string]any{"engine": "enum", "part": "b2", "protocol": string(v), "kind": kind, "detail": detail})
			}
			ek := "accepted"
			if err != nil {
				ek = err.Error()
				if len(ek) > 22 {
					ek = ek[:22]
				}
			}
			r.Class(fmt.Sprintf("b2/%s/%s/%s", pdesc, kind, ek))
		}
		if h.UpgradeState.CurrentProtocol != v {
			r.Note("protocol %s: MakeBlock switched protocol unexpectedly", v)
		}
		pc(h, prev, true, "original", "")
		for _, where := range []string{"first", "middle", "last", "zero"} {
			m := h
			c29flip(m.Branch[:], where)
			pc(m, prev, false, "branch", where)
			m = h
			c29flip(m.Branch512[:], where)
			if m.Branch512 != h.Branch512 {
				pc(m, prev, false, "branch512", where)
			}
		}
		if !proto.EnableSha512BlockHash {
			m := h
			m.Branch512 = prev.Hash512()
			pc(m, prev, false, "branch512", "set-but-unsupported")
		}
		for _, d := range []int{-1, +1} {
			m := h
			m.Round = basics.Round(int(h.Round) + d)
			pc(m, prev, false, "round", fmt.Sprintf("%+d", d))
			// round shifted on both sides but the link kept: prev' has another round => another hash
			pp := prev
			pp.Round = basics.Round(int(prev.Round) + d)
			pc(m, pp, false, "round", fmt.Sprintf("%+d with prev shifted, branch not re-linked", d))
		}
		for _, a := range prevAlts {
			pp := prev
			a.f(&pp)
			if pp.Hash() == prev.Hash() {
				r.Note("harness: prev alteration %s does not change the hash", a.name)
				continue
			}
			pc(h, pp, false, "prev-lookalike", a.name)
			m := h
			m.Branch = pp.Hash()
			if proto.EnableSha512BlockHash {
				m.Branch512 = pp.Hash512()
			}
			pc(m, prev, false, "branch", "hash-of-lookalike:"+a.name)
			if proto.EnableSha512BlockHash {
				// only one of the two links re-pointed
				m = h
				m.Branch = pp.Hash()
				pc(m, prev, false, "branch", "sha512_256-link-only:"+a.name)
				m = h
				m.Branch512 = pp.Hash512()
				pc(m, prev, false, "branch512", "sha512-link-only:"+a.name)
			}
		}
		r.EvalN(n)
	})
	cov := ve.Coverage{
		Rule:       fmt.Sprintf("part b: %d protocols x {paysets of 0..%d txns: original, all permutations, all proper sub-sequences, all duplications/foreign insertions at every position, %d single-field alterations per member (txn, signature, ApplyData, flags), alterations of the 3 header commitments} through ContentsMatchHeader; MakeBlock header vs Branch/Branch512 byte flips, round +-1 and %d look-alike previous headers through PreCheck", len(names), maxK, len(alts), len(prevAlts)),
		Exhaustive: visited == int64(len(names)),
	}
	if n := r.Finish(cov); n > 0 {
		t.Fatalf("C29 part b: %d violation(s)", n)
	}
}
