// Package verifeng is the shared exploration machinery of /verif. It is mounted into
// the go-algorand module by `go test -overlay` as the virtual package
// github.com/algorand/go-algorand/verifeng and imported by the in-package harness files.
//
// It contains: the per-check Run object (evidence, violations, known findings, replay
// artefacts), E-ENUM (exhaustive small-scope enumeration helpers), E-SEQ (explicit-state
// BFS over operation sequences of a real object against a reference) and E-SCHED
// (a cooperative scheduler exploring thread interleavings with a preemption bound).
package verifeng

import (
	"bufio"
	"crypto/sha256"
	"encoding/hex"
	"encoding/json"
	"fmt"
	"os"
	"path/filepath"
	"sort"
	"strconv"
	"strings"
	"sync"
	"sync/atomic"
	"time"
)

// Env returns the value of an environment variable or a default.
func Env(k, def string) string {
	if v := os.Getenv(k); v != "" {
		return v
	}
	return def
}

// Tier is "quick" or "thorough".
func Tier() string {
	t := Env("VERIF_TIER", "quick")
	if t != "thorough" {
		return "quick"
	}
	return t
}

// Thorough reports whether the thorough tier was requested.
func Thorough() bool { return Tier() == "thorough" }

// Pick returns q in the quick tier and t in the thorough tier.
func Pick[T any](q, t T) T {
	if Thorough() {
		return t
	}
	return q
}

// Seed is VERIF_SEED (only ever used to permute exploration order).
func Seed() int64 {
	v, _ := strconv.ParseInt(Env("VERIF_SEED", "0"), 10, 64)
	return v
}

// Root is /verif.
func Root() string { return Env("VERIF_ROOT", "/verif") }

// ScratchDir returns a fresh scratch directory under /verif/.build/tmp (never /tmp).
func ScratchDir(name string) string {
	base := filepath.Join(Root(), ".build", "tmp")
	_ = os.MkdirAll(base, 0o755)
	d, err := os.MkdirTemp(base, name+"-")
	if err != nil {
		panic(err)
	}
	return d
}

type knownFinding struct {
	Property string `json:"property"`
	Key      string `json:"key"`
	Status   string `json:"status"` // "known" or "fixed"
	What     string `json:"what"`
}

// Run is one execution of one property check.
type Run struct {
	ID    string
	Level string
	start time.Time

	mu         sync.Mutex
	violations int
	knownHit   map[string]bool
	known      map[string]knownFinding
	classes    map[string]struct{}
	samples    []any
	maxSamples int
	assume     []string
	extra      map[string]any
	notes      []string
	replayOnly string

	evals atomic.Int64

	deadline time.Time
	capped   atomic.Bool
}

// NewRun starts a check run. level is one of the EVIDENCE.schema.json levels.
func NewRun(id, level string) *Run {
	r := &Run{ID: id, Level: level, start: time.Now(), knownHit: map[string]bool{}, known: map[string]knownFinding{},
		classes: map[string]struct{}{}, maxSamples: 12, extra: map[string]any{}}
	r.replayOnly = os.Getenv("VERIF_REPLAY")
	// known findings (read-only)
	if f, err := os.Open(filepath.Join(Root(), "known_findings.jsonl")); err == nil {
		sc := bufio.NewScanner(f)
		sc.Buffer(make([]byte, 1<<20), 1<<20)
		for sc.Scan() {
			line := strings.TrimSpace(sc.Text())
			if line == "" || strings.HasPrefix(line, "#") {
				continue
			}
			var k knownFinding
			if json.Unmarshal([]byte(line), &k) == nil && k.Property == id && k.Status == "known" {
				r.known[k.Key] = k
			}
		}
		f.Close()
	}
	// budget: internal deadline after which explorations stop with exhaustive:false
	secs := Pick(100, 1500)
	if v := os.Getenv("VERIF_BUDGET_S"); v != "" {
		if n, err := strconv.Atoi(v); err == nil {
			secs = n
		}
	}
	r.deadline = r.start.Add(time.Duration(secs) * time.Second)
	return r
}

// Budget returns the remaining internal time budget of the run.
func (r *Run) Budget() time.Duration { return time.Until(r.deadline) }

// OutOfTime reports whether the internal deadline passed; it also records that a cap was hit.
func (r *Run) OutOfTime() bool {
	if time.Now().After(r.deadline) {
		r.capped.Store(true)
		return true
	}
	return false
}

// Capped records that some bound other than exhaustion ended an enumeration.
func (r *Run) Capped() { r.capped.Store(true) }

// WasCapped reports whether any cap was hit.
func (r *Run) WasCapped() bool { return r.capped.Load() }

// Eval counts one evaluated case.
func (r *Run) Eval() { r.evals.Add(1) }

// EvalN counts n evaluated cases.
func (r *Run) EvalN(n int) { r.evals.Add(int64(n)) }

// Evals returns the number of evaluated cases so far.
func (r *Run) Evals() int64 { return r.evals.Load() }

// Class records a distinct non-trivial class key.
func (r *Run) Class(k string) {
	r.mu.Lock()
	r.classes[k] = struct{}{}
	r.mu.Unlock()
}

// Classes returns the number of distinct classes recorded.
func (r *Run) Classes() int {
	r.mu.Lock()
	defer r.mu.Unlock()
	return len(r.classes)
}

// Sample records one actual explored case (kept up to a small maximum).
func (r *Run) Sample(s any) {
	r.mu.Lock()
	if len(r.samples) < r.maxSamples {
		r.samples = append(r.samples, s)
	}
	r.mu.Unlock()
}

// Assume records an assumption / trusted-base statement for the evidence file.
func (r *Run) Assume(s string) {
	r.mu.Lock()
	r.assume = append(r.assume, s)
	r.mu.Unlock()
}

// Set records an extra coverage key.
func (r *Run) Set(k string, v any) {
	r.mu.Lock()
	r.extra[k] = v
	r.mu.Unlock()
}

// Add adds n to an integer extra coverage key.
func (r *Run) Add(k string, n int64) {
	r.mu.Lock()
	cur, _ := r.extra[k].(int64)
	r.extra[k] = cur + n
	r.mu.Unlock()
}

// Note appends a free-text note to the evidence.
func (r *Run) Note(format string, a ...any) {
	r.mu.Lock()
	r.notes = append(r.notes, fmt.Sprintf(format, a...))
	r.mu.Unlock()
}

// Violations returns the number of (unlisted) violations reported so far.
func (r *Run) Violations() int {
	r.mu.Lock()
	defer r.mu.Unlock()
	return r.violations
}

// Report reports a property violation. key identifies the concrete failing
// input/call-site/history class (stable across runs); if known_findings.jsonl lists
// (property, key) as "known" a KNOWN-FINDING line is printed and the run stays green.
// replay is any JSON-serialisable description sufficient to re-execute the case.
func (r *Run) Report(key string, what string, replay any) {
	r.mu.Lock()
	defer r.mu.Unlock()
	if k, ok := r.known[key]; ok {
		if !r.knownHit[key] {
			r.knownHit[key] = true
			fmt.Printf("KNOWN-FINDING: property=%s %s [%s]\n", r.ID, k.What, key)
		}
		return
	}
	r.violations++
	if r.violations > 5 {
		return // keep the first few only
	}
	body := map[string]any{"property": r.ID, "key": key, "what": what, "replay": replay, "tier": Tier(), "seed": Seed()}
	b, _ := json.MarshalIndent(body, "", " ")
	h := sha256.Sum256([]byte(key + "\x00" + what))
	dir := filepath.Join(Root(), "replays", r.ID)
	_ = os.MkdirAll(dir, 0o755)
	p := filepath.Join(dir, hex.EncodeToString(h[:6])+".json")
	_ = os.WriteFile(p, b, 0o644)
	fmt.Printf("VIOLATION property=%s replay=%s\n", r.ID, p)
	fmt.Printf("  what: %s\n", truncate(what, 2000))
}

func truncate(s string, n int) string {
	if len(s) > n {
		return s[:n] + "…"
	}
	return s
}

// ReplayRequest returns the decoded "replay" member of the file named by VERIF_REPLAY
// (nil if this is a normal run).
func (r *Run) ReplayRequest() json.RawMessage {
	if r.replayOnly == "" {
		return nil
	}
	b, err := os.ReadFile(r.replayOnly)
	if err != nil {
		fmt.Printf("REPLAY-ERROR cannot read %s: %v\n", r.replayOnly, err)
		return nil
	}
	var body struct {
		Replay json.RawMessage `json:"replay"`
	}
	if json.Unmarshal(b, &body) != nil {
		return nil
	}
	return body.Replay
}

// Coverage is what Finish needs to know beyond what Run counted itself.
type Coverage struct {
	Rule        string
	States      int64 // model_checking
	Transitions int64 // model_checking
	Traces      int64 // model_checking: traces executed on the implementation
	Exhaustive  bool
}

// Finish writes the evidence file and returns the number of violations. The caller
// should fail the Go test if it is non-zero.
func (r *Run) Finish(c Coverage) int {
	r.mu.Lock()
	defer r.mu.Unlock()
	cov := map[string]any{}
	for k, v := range r.extra {
		cov[k] = v
	}
	cov["evaluations"] = r.evals.Load()
	cov["distinct_nontrivial"] = len(r.classes)
	cov["rule"] = c.Rule
	if len(r.samples) == 0 {
		r.samples = append(r.samples, "(no sample recorded)")
	}
	cov["samples"] = r.samples
	cov["exhaustive"] = c.Exhaustive && !r.capped.Load()
	if r.capped.Load() {
		cov["cap_hit"] = true
	}
	if r.Level == "model_checking" {
		cov["states"] = c.States
		cov["transitions"] = c.Transitions
		cov["traces_validated_against_impl"] = c.Traces
	}
	if len(r.notes) > 0 {
		cov["notes"] = r.notes
	}
	var kh []string
	for k := range r.knownHit {
		kh = append(kh, k)
	}
	sort.Strings(kh)
	if len(kh) > 0 {
		cov["known_findings_hit"] = kh
	}
	ev := map[string]any{
		"property_id": r.ID,
		"tier":        Tier(),
		"seed":        Seed(),
		"level":       r.Level,
		"coverage":    cov,
		"assumptions": append([]string{}, r.assume...),
		"wall_s":      time.Since(r.start).Seconds(),
		"violations":  r.violations,
	}
	b, _ := json.MarshalIndent(ev, "", " ")
	p := os.Getenv("VERIF_EVIDENCE")
	if p == "" {
		p = filepath.Join(Root(), "evidence", r.ID+".json")
	}
	_ = os.MkdirAll(filepath.Dir(p), 0o755)
	if err := os.WriteFile(p, b, 0o644); err != nil {
		fmt.Printf("EVIDENCE-ERROR %v\n", err)
	}
	fmt.Printf("VERIF-SUMMARY property=%s tier=%s evaluations=%d classes=%d states=%d transitions=%d exhaustive=%v violations=%d wall=%.1fs\n",
		r.ID, Tier(), r.evals.Load(), len(r.classes), c.States, c.Transitions, cov["exhaustive"], r.violations, time.Since(r.start).Seconds())
	return r.violations
}

// JSON renders v compactly for keys and messages.
func JSON(v any) string {
	b, err := json.Marshal(v)
	if err != nil {
		return fmt.Sprintf("%+v", v)
	}
	return string(b)
}

// HashKey returns a short hex digest of the given parts, for canonical state keys.
func HashKey(parts ...[]byte) string {
	h := sha256.New()
	for _, p := range parts {
		var l [8]byte
		n := len(p)
		for i := 0; i < 8; i++ {
			l[i] = byte(n >> (8 * i))
		}
		h.Write(l[:])
		h.Write(p)
	}
	return hex.EncodeToString(h.Sum(nil)[:16])
}
