package agreement

// E-AGR, part 1: environment shared by the agreement-protocol explorers (checks C01, C02(i), C03, C05, C07).
//
// * a private consensus version (copy of protocol.ConsensusCurrentVersion) whose committee sizes all
//   equal the total online stake, so that sortition is deterministic: every account's credential
//   weight equals its stake (1 microalgo) for every (round, period, step);
// * deterministic keys (seeded VRF keys, one-time-signature keys from a re-seedable RNG, so that
//   the bytes of a vote depend only on (account, round, period, step, value), never on the order in
//   which the explorer happens to ask for votes);
// * a mock ledger view per node;
// * memoized REAL cryptography: every vote is produced by the real makeVote, every vote / bundle /
//   proposal is checked by the real unauthenticatedVote.verify / unauthenticatedBundle.verify /
//   unauthenticatedProposal.validate; results are memoized by the exact message value.
//
// All top-level identifiers are prefixed eagr/Eagr (shared "common" file, mounted for every check of
// this package).
//
// Unexported identifiers of package agreement used by the E-AGR files: player, rootRouter (+ submitTop,
// makeRootRouter), encode, decode, persistent, action types (networkAction, cryptoAction, ensureAction,
// stageDigestAction, rezeroAction, pseudonodeAction, checkpointAction), event types (messageEvent,
// timeoutEvent, roundInterruptionEvent, checkpointEvent), message, compoundMessage, vote types,
// makeVote, proposalForBlock, setupCompoundMessage, clockForRound, tracer, serviceLogger.

import (
	"context"
	"crypto/sha256"
	"encoding/binary"
	"encoding/hex"
	"fmt"
	"io"
	"sync"

	"github.com/algorand/go-algorand/config"
	"github.com/algorand/go-algorand/crypto"
	"github.com/algorand/go-algorand/data/basics"
	"github.com/algorand/go-algorand/data/bookkeeping"
	"github.com/algorand/go-algorand/data/committee"
	"github.com/algorand/go-algorand/logging"
	"github.com/algorand/go-algorand/protocol"
)

// eagrRNG is a re-seedable deterministic crypto.RNG (SHA-256 in counter mode).
type eagrRNG struct {
	seed [32]byte
	ctr  uint64
}

func (g *eagrRNG) reset(parts ...[]byte) {
	h := sha256.New()
	for _, p := range parts {
		var l [8]byte
		binary.LittleEndian.PutUint64(l[:], uint64(len(p)))
		h.Write(l[:])
		h.Write(p)
	}
	copy(g.seed[:], h.Sum(nil))
	g.ctr = 0
}

// RandBytes implements crypto.RNG.
func (g *eagrRNG) RandBytes(buf []byte) {
	for len(buf) > 0 {
		var c [8]byte
		binary.LittleEndian.PutUint64(c[:], g.ctr)
		g.ctr++
		d := sha256.Sum256(append(g.seed[:], c[:]...))
		n := copy(buf, d[:])
		buf = buf[n:]
	}
}

// eagrEnv is the immutable environment of one configuration (accounts, keys, protocol) plus the
// memo tables of the real cryptographic operations.
type eagrEnv struct {
	name      string
	version   protocol.ConsensusVersion
	params    config.ConsensusParams
	n         int    // number of accounts
	threshold uint64 // of every step
	total     uint64 // total online stake = size of every committee
	stakes    []uint64
	addrs     []basics.Address
	vrfs      []*crypto.VRFSecrets
	ots       []crypto.OneTimeSigner
	rngs      []*eagrRNG
	online    map[basics.Address]basics.OnlineAccountData
	acctOf    map[basics.Address]int
	block0    bookkeeping.Block
	log       logging.Logger
	avv       *AsyncVoteVerifier

	signMu    sync.Mutex // serialises makeVote (the OTS secrets draw from the per-account RNG)
	votes     sync.Map   // eagrVoteKey -> unauthenticatedVote
	verified  sync.Map   // unauthenticatedVote -> eagrVoteRes
	bundles   sync.Map   // crypto.Digest (of the encoded bundle) -> eagrBundleRes
	proposals sync.Map   // eagrPropKey -> eagrPropRes
	validated sync.Map   // crypto.Digest (EncodingDigest) -> eagrValRes
	msgs      sync.Map   // [16]byte content id -> *eagrMsg
	voteMsgs  sync.Map   // unauthenticatedVote -> *eagrMsg (fast path of intern)
	compMsgs  sync.Map   // eagrCompKey -> *eagrMsg (fast path of intern)

	statMakeVote, statVerify, statBundleVerify, statValidate int64
}

type eagrVoteKey struct {
	acct int
	rv   rawVote
}

type eagrVoteRes struct {
	v   vote
	err error
}

type eagrBundleRes struct {
	b   bundle
	err error
}

type eagrPropKey struct {
	acct   int
	round  basics.Round
	period period
	branch crypto.Digest
}

type eagrPropRes struct {
	p   proposal
	pv  proposalValue
	err error
}

type eagrValRes struct {
	p   proposal
	err error
}

var eagrEnvMu sync.Mutex
var eagrEnvs = map[string]*eagrEnv{}

// eagrGetEnv returns (building it on first use) the environment with nAcct accounts of stake 1 and
// the given threshold for every step. Must first be called from the test goroutine (it writes
// config.Consensus), before workers start.
func eagrGetEnv(nAcct int, threshold uint64) *eagrEnv {
	st := make([]uint64, nAcct)
	for i := range st {
		st[i] = 1
	}
	return eagrGetEnvStakes(st, threshold)
}

// eagrGetEnvStakes is eagrGetEnv with one stake (in microalgos) per account; every committee has the
// size of the total stake, so every account's weight in every step equals its stake.
func eagrGetEnvStakes(stakes []uint64, threshold uint64) *eagrEnv {
	eagrEnvMu.Lock()
	defer eagrEnvMu.Unlock()
	nAcct := len(stakes)
	var total uint64
	name := fmt.Sprintf("verif-eagr-%dof", threshold)
	for _, x := range stakes {
		total += x
		name += fmt.Sprintf("-%d", x)
	}
	if total == uint64(nAcct) {
		name = fmt.Sprintf("verif-eagr-%dof%d", threshold, nAcct)
	}
	if e, ok := eagrEnvs[name]; ok {
		return e
	}
	env := &eagrEnv{name: name, version: protocol.ConsensusVersion(name), n: nAcct, threshold: threshold, total: total, stakes: stakes}
	p := config.Consensus[protocol.ConsensusCurrentVersion]
	p.ApprovedUpgrades = map[protocol.ConsensusVersion]uint64{}
	sz := total
	p.NumProposers = sz
	p.SoftCommitteeSize, p.SoftCommitteeThreshold = sz, threshold
	p.CertCommitteeSize, p.CertCommitteeThreshold = sz, threshold
	p.NextCommitteeSize, p.NextCommitteeThreshold = sz, threshold
	p.LateCommitteeSize, p.LateCommitteeThreshold = sz, threshold
	p.RedoCommitteeSize, p.RedoCommitteeThreshold = sz, threshold
	p.DownCommitteeSize, p.DownCommitteeThreshold = sz, threshold
	config.Consensus[env.version] = p
	env.params = p

	lg := logging.NewLogger()
	lg.SetOutput(io.Discard)
	lg.SetLevel(logging.Panic)
	env.log = lg
	// contract checks of the state machines use logging.Base().Panicf in a few places; keep its
	// output away from the test log (the panic itself is recovered and reported by the shell)
	logging.Base().SetOutput(io.Discard)
	logging.Base().SetLevel(logging.Panic)

	env.online = map[basics.Address]basics.OnlineAccountData{}
	env.acctOf = map[basics.Address]int{}
	for i := 0; i < nAcct; i++ {
		var seed [32]byte
		copy(seed[:], fmt.Sprintf("verif-eagr-account-%d", i))
		var addr basics.Address
		ad := sha256.Sum256(append([]byte("verif-eagr-addr"), seed[:]...))
		copy(addr[:], ad[:])
		pk, sk := crypto.VrfKeygenFromSeed(seed)
		vrf := &crypto.VRFSecrets{PK: pk, SK: sk}
		rng := &eagrRNG{}
		rng.reset([]byte("keygen"), seed[:])
		ots := crypto.GenerateOneTimeSignatureSecretsRNG(0, 2, rng)
		env.addrs = append(env.addrs, addr)
		env.vrfs = append(env.vrfs, vrf)
		env.ots = append(env.ots, crypto.OneTimeSigner{OneTimeSignatureSecrets: ots})
		env.rngs = append(env.rngs, rng)
		env.acctOf[addr] = i
		env.online[addr] = basics.OnlineAccountData{
			MicroAlgosWithRewards: basics.MicroAlgos{Raw: stakes[i]},
			VotingData: basics.VotingData{
				VoteID:      ots.OneTimeSignatureVerifier,
				SelectionID: vrf.PK,
			},
		}
	}
	env.block0 = bookkeeping.Block{}
	env.avv = MakeAsyncVoteVerifier(nil)
	eagrEnvs[name] = env
	return env
}

// ---------------------------------------------------------------------------------------------
// mock ledger (one view per node)

type eagrEntry struct {
	blk    bookkeeping.Block
	digest crypto.Digest
	cert   Certificate
}

// eagrLedger implements agreement.Ledger. Balances, circulation and protocol are constant; blocks of
// rounds >= 1 are whatever the node committed. A conflicting write is recorded, not panicked on.
type eagrLedger struct {
	env      *eagrEnv
	next     basics.Round
	entries  map[basics.Round]*eagrEntry
	conflict string // non-empty after a conflicting EnsureBlock / EnsureDigest (C01 violation)
	staged   []Certificate
}

func eagrNewLedger(env *eagrEnv) *eagrLedger {
	return &eagrLedger{env: env, next: 1, entries: map[basics.Round]*eagrEntry{}}
}

func (l *eagrLedger) clone() *eagrLedger {
	c := &eagrLedger{env: l.env, next: l.next, entries: make(map[basics.Round]*eagrEntry, len(l.entries)), conflict: l.conflict}
	for r, e := range l.entries {
		c.entries[r] = e
	}
	c.staged = append([]Certificate(nil), l.staged...)
	return c
}

func (l *eagrLedger) NextRound() basics.Round { return l.next }

func (l *eagrLedger) Wait(r basics.Round) chan struct{} {
	c := make(chan struct{})
	if r < l.next {
		close(c)
	}
	return c
}

func (l *eagrLedger) block(r basics.Round) (bookkeeping.Block, error) {
	if r == 0 {
		return l.env.block0, nil
	}
	if r >= l.next {
		return bookkeeping.Block{}, fmt.Errorf("eagrLedger: round %d not committed (next %d)", r, l.next)
	}
	return l.entries[r].blk, nil
}

func (l *eagrLedger) Seed(r basics.Round) (committee.Seed, error) {
	b, err := l.block(r)
	if err != nil {
		return committee.Seed{}, err
	}
	return b.Seed(), nil
}

func (l *eagrLedger) LookupDigest(r basics.Round) (crypto.Digest, error) {
	if r == 0 {
		return l.env.block0.Digest(), nil
	}
	if r >= l.next {
		return crypto.Digest{}, fmt.Errorf("eagrLedger: round %d not committed (next %d)", r, l.next)
	}
	return l.entries[r].digest, nil
}

func (l *eagrLedger) LookupAgreement(r basics.Round, a basics.Address) (basics.OnlineAccountData, error) {
	if r >= l.next {
		return basics.OnlineAccountData{}, fmt.Errorf("eagrLedger: balances of round %d not available (next %d)", r, l.next)
	}
	return l.env.online[a], nil
}

func (l *eagrLedger) Circulation(r basics.Round, voteRnd basics.Round) (basics.MicroAlgos, error) {
	if r >= l.next {
		return basics.MicroAlgos{}, fmt.Errorf("eagrLedger: circulation of round %d not available (next %d)", r, l.next)
	}
	return basics.MicroAlgos{Raw: l.env.total}, nil
}

func (l *eagrLedger) ConsensusParams(r basics.Round) (config.ConsensusParams, error) {
	return l.env.params, nil
}

func (l *eagrLedger) ConsensusVersion(r basics.Round) (protocol.ConsensusVersion, error) {
	return l.env.version, nil
}

func (l *eagrLedger) EnsureValidatedBlock(e ValidatedBlock, c Certificate) { l.EnsureBlock(e.Block(), c) }

func (l *eagrLedger) EnsureBlock(e bookkeeping.Block, c Certificate) {
	r := e.Round()
	d := e.Digest()
	if old, ok := l.entries[r]; ok {
		if old.digest != d {
			l.conflict = fmt.Sprintf("EnsureBlock: round %d already holds block %v, asked to write %v", r, old.digest, d)
		}
		return
	}
	if r != l.next {
		// a write into the future / past without an entry: the real ledger would refuse; recorded as conflict
		l.conflict = fmt.Sprintf("EnsureBlock: write of round %d while next round is %d", r, l.next)
		return
	}
	l.entries[r] = &eagrEntry{blk: e, digest: d, cert: c}
	l.next = r + 1
}

func (l *eagrLedger) EnsureDigest(c Certificate, v *AsyncVoteVerifier) {
	if old, ok := l.entries[c.Round]; ok && old.digest != c.Proposal.BlockDigest {
		l.conflict = fmt.Sprintf("EnsureDigest: round %d already holds block %v, certificate is for %v", c.Round, old.digest, c.Proposal.BlockDigest)
	}
	l.staged = append(l.staged, c)
}

// digestKey renders the ledger content for canonical state keys.
func (l *eagrLedger) digestKey(b []byte) []byte {
	b = binary.LittleEndian.AppendUint64(b, uint64(l.next))
	for r := basics.Round(1); r < l.next; r++ {
		b = append(b, l.entries[r].digest[:]...)
	}
	return b
}

// ---------------------------------------------------------------------------------------------
// memoized real cryptography

type eagrVBlock struct{ blk bookkeeping.Block }

func (b eagrVBlock) Block() bookkeeping.Block { return b.blk }
func (b eagrVBlock) Round() basics.Round      { return b.blk.Round() }
func (b eagrVBlock) FinishBlock(s committee.Seed, proposer basics.Address, eligible bool) Block {
	b.blk.BlockHeader.Seed = s
	b.blk.BlockHeader.Proposer = proposer
	if !eligible {
		b.blk.BlockHeader.ProposerPayout = basics.MicroAlgos{}
	}
	return Block(b.blk)
}

type eagrValidator struct{}

func (eagrValidator) Validate(ctx context.Context, e bookkeeping.Block) (ValidatedBlock, error) {
	return eagrVBlock{blk: e}, nil
}

// makeVote runs the real makeVote for account acct (memoized by the raw vote).
func (env *eagrEnv) makeVote(acct int, rv rawVote, l Ledger) (unauthenticatedVote, error) {
	k := eagrVoteKey{acct: acct, rv: rv}
	if v, ok := env.votes.Load(k); ok {
		return v.(unauthenticatedVote), nil
	}
	env.signMu.Lock()
	defer env.signMu.Unlock()
	if v, ok := env.votes.Load(k); ok {
		return v.(unauthenticatedVote), nil
	}
	env.rngs[acct].reset([]byte("vote"), protocol.Encode(&rv))
	uv, err := makeVote(rv, env.ots[acct], env.vrfs[acct], l)
	if err != nil {
		return unauthenticatedVote{}, err
	}
	env.statMakeVote++
	env.votes.Store(k, uv)
	return uv, nil
}

// verifyVote runs the real unauthenticatedVote.verify (memoized by the exact vote). Verification
// depends on the ledger only through the seed/balances of rounds <= r-2; the explorers keep voting
// rounds <= 2, for which these are the genesis values on every node.
func (env *eagrEnv) verifyVote(uv unauthenticatedVote, l LedgerReader) (vote, error) {
	if r, ok := env.verified.Load(uv); ok {
		res := r.(eagrVoteRes)
		return res.v, res.err
	}
	v, err := uv.verify(l)
	env.verified.Store(uv, eagrVoteRes{v: v, err: err})
	return v, err
}

func (env *eagrEnv) verifyBundle(ub unauthenticatedBundle, l LedgerReader) (bundle, error) {
	d := crypto.Hash(protocol.Encode(&ub))
	if r, ok := env.bundles.Load(d); ok {
		res := r.(eagrBundleRes)
		return res.b, res.err
	}
	b, err := ub.verify(context.Background(), l, env.avv)
	if err == nil {
		// verifyAsync collects the votes in completion order of a worker pool; put them back into
		// the order of the unauthenticated bundle so that the result is a function of the input
		b = eagrSortBundle(b)
	}
	env.bundles.Store(d, eagrBundleRes{b: b, err: err})
	return b, err
}

func eagrSortBundle(b bundle) bundle {
	pos := map[basics.Address]int{}
	for i, a := range b.U.Votes {
		pos[a.Sender] = i
	}
	vs := make([]vote, len(b.Votes))
	for _, v := range b.Votes {
		vs[pos[v.R.Sender]] = v
	}
	epos := map[basics.Address]int{}
	for i, a := range b.U.EquivocationVotes {
		epos[a.Sender] = i
	}
	es := make([]equivocationVote, len(b.EquivocationVotes))
	for _, v := range b.EquivocationVotes {
		es[epos[v.Sender]] = v
	}
	b.Votes = vs
	if len(es) > 0 {
		b.EquivocationVotes = es
	}
	return b
}

// makeProposal runs the real proposalForBlock for account acct on an empty block of the round.
func (env *eagrEnv) makeProposal(acct int, r basics.Round, p period, l *eagrLedger) (proposal, proposalValue, error) {
	prev, err := l.LookupDigest(r - 1)
	if err != nil {
		return proposal{}, proposalValue{}, err
	}
	k := eagrPropKey{acct: acct, round: r, period: p, branch: prev}
	if v, ok := env.proposals.Load(k); ok {
		res := v.(eagrPropRes)
		return res.p, res.pv, res.err
	}
	blk := bookkeeping.Block{BlockHeader: bookkeeping.BlockHeader{Round: r, Branch: bookkeeping.BlockHash(prev)}}
	blk.BlockHeader.CurrentProtocol = env.version
	pp, pv, err := proposalForBlock(env.addrs[acct], env.vrfs[acct], eagrVBlock{blk: blk}, p, l)
	env.proposals.Store(k, eagrPropRes{p: pp, pv: pv, err: err})
	return pp, pv, err
}

// validateProposal runs the real unauthenticatedProposal.validate (memoized by encoding digest and round).
func (env *eagrEnv) validateProposal(up unauthenticatedProposal, r basics.Round, l LedgerReader) (proposal, error) {
	up.receivedAt = 0
	d := crypto.HashObj(up)
	var rb [8]byte
	binary.LittleEndian.PutUint64(rb[:], uint64(r))
	d = crypto.Hash(append(d[:], rb[:]...))
	if v, ok := env.validated.Load(d); ok {
		res := v.(eagrValRes)
		return res.p, res.err
	}
	p, err := up.validate(context.Background(), r, l, eagrValidator{})
	env.validated.Store(d, eagrValRes{p: p, err: err})
	return p, err
}

// ---------------------------------------------------------------------------------------------
// network messages

// eagrMsg is one network message (immutable, interned by content).
type eagrMsg struct {
	id       [16]byte // content hash (tag + canonical encoding)
	tag      protocol.Tag
	vote     unauthenticatedVote   // AgreementVoteTag
	bundle   unauthenticatedBundle // VoteBundleTag
	compound compoundMessage       // ProposalPayloadTag
	desc     string
}

func (m *eagrMsg) ID() string { return hex.EncodeToString(m.id[:6]) }

// eagrCompKey identifies a compound message built from a proposal made by eagrEnv.makeProposal
// (every payload in the system is one) without hashing it.
type eagrCompKey struct {
	vote     unauthenticatedVote
	proposer basics.Address
	operiod  period
	round    basics.Round
	seed     committee.Seed
	branch   bookkeeping.BlockHash
}

func (env *eagrEnv) intern(m *eagrMsg) *eagrMsg {
	var enc []byte
	var ck eagrCompKey
	switch m.tag {
	case protocol.AgreementVoteTag:
		if old, ok := env.voteMsgs.Load(m.vote); ok {
			return old.(*eagrMsg)
		}
	case protocol.ProposalPayloadTag:
		up := m.compound.Proposal
		ck = eagrCompKey{vote: m.compound.Vote, proposer: up.OriginalProposer, operiod: up.OriginalPeriod, round: up.Round(), seed: up.Seed(), branch: up.Branch}
		if old, ok := env.compMsgs.Load(ck); ok {
			return old.(*eagrMsg)
		}
	}
	switch m.tag {
	case protocol.AgreementVoteTag:
		enc = protocol.Encode(&m.vote)
		m.desc = fmt.Sprintf("vote(%s r%d p%d s%d %s)", env.acctName(m.vote.R.Sender), m.vote.R.Round, m.vote.R.Period, m.vote.R.Step, eagrPV(m.vote.R.Proposal))
	case protocol.VoteBundleTag:
		enc = protocol.Encode(&m.bundle)
		m.desc = fmt.Sprintf("bundle(r%d p%d s%d %s n=%d+%d)", m.bundle.Round, m.bundle.Period, m.bundle.Step, eagrPV(m.bundle.Proposal), len(m.bundle.Votes), len(m.bundle.EquivocationVotes))
	case protocol.ProposalPayloadTag:
		m.compound.Proposal.receivedAt = 0
		tp := transmittedPayload{unauthenticatedProposal: m.compound.Proposal, PriorVote: m.compound.Vote}
		enc = protocol.Encode(&tp)
		v := "-"
		if m.compound.Vote != (unauthenticatedVote{}) {
			v = fmt.Sprintf("%s p%d", env.acctName(m.compound.Vote.R.Sender), m.compound.Vote.R.Period)
		}
		m.desc = fmt.Sprintf("proposal(r%d %s vote:%s)", m.compound.Proposal.Round(), eagrPV(m.compound.Proposal.value()), v)
	}
	h := sha256.Sum256(append([]byte(m.tag), enc...))
	copy(m.id[:], h[:16])
	if old, ok := env.msgs.LoadOrStore(m.id, m); ok {
		m = old.(*eagrMsg)
	}
	switch m.tag {
	case protocol.AgreementVoteTag:
		env.voteMsgs.Store(m.vote, m)
	case protocol.ProposalPayloadTag:
		env.compMsgs.Store(ck, m)
	}
	return m
}

func (env *eagrEnv) acctName(a basics.Address) string {
	if i, ok := env.acctOf[a]; ok {
		return fmt.Sprintf("a%d", i)
	}
	return "a?"
}

func eagrPV(pv proposalValue) string {
	if pv == bottom {
		return "bot"
	}
	return hex.EncodeToString(pv.BlockDigest[:3])
}
