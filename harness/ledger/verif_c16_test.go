package ledger

// C16 — Catchpoint catchup reproduces the source state and rejects tampering.
//
// Engine E-SEQ + E-ENUM (single mutations), level exploration. Driver:
// common_c14_catchpoint_test.go.
//
// For each history (the C14 histories) a producer node (a real Ledger, archival, catchpoint
// files enabled) replays the blocks; its REAL catchpoint files (gzip+tar as served to peers)
// are taken.
//
// (0) Writer under time slicing. catchpointTracker.generateCatchpointData calls
//     catchpointFileWriter.FileWriteStep in time slices; a slice ends when the step context's
//     deadline is noticed at one of FileWriteStep's polls. For every producer, the data file of
//     its final tracker round is written with the real writer under EVERY position at which one
//     slice can expire (poll k = 1,2,... until the file completes within the slice) and with
//     periodic expiry (every slice at its m-th poll, m = 4..8); the records of the file must be
//     identical to unsliced writing (violation key C16:writer-time-slice-loses-data).
//
// (1) Faithful restore. Every file is restored into a fresh ledger through the real
//     CatchpointCatchupAccessor exactly as catchup.CatchpointCatchupService does it
//     (ResetStagingBalances, SetLabel, ProcessStagingBalances per tar member, BuildMerkleTrie,
//     GetCatchupBlockRound, VerifyCatchpoint with the authentic block, StoreBalancesRound,
//     StoreFirstBlock, StoreBlock for the preceding blocks, CompleteCatchup). Oracle: the
//     restored ledger answers like the producer at the catchpoint round (accounts with and
//     without rewards, every asset / app resource of every account, every KV pair, totals,
//     online account data and online circulation over the lookback window), and, fed with the
//     remaining blocks of the history, produces the same labels for all later catchpoint rounds
//     and the same final state.
//
// (2) Tamper rejection. EVERY single semantic mutation of the decoded file:
//       header: every field +1 / byte flipped, version replaced by every other known version;
//       every balance record: address bit flip; every leaf field of the decoded BaseAccountData
//         +1 (and -1 in thorough) / flipped; ExpectingMoreEntries flipped; every resource: index
//         +1, every leaf field of the decoded ResourcesData mutated (TealKeyValue maps: value
//         changed, key removed, key renamed, key added), resource dropped, resource copied to a
//         new index; record dropped, duplicated, moved to another chunk, swapped with its
//         neighbour;
//       every KV record: key / value bit flip (first and last byte), byte appended, value
//         truncated, dropped, duplicated, moved to another chunk, a copy with shifted key/value
//         boundary added, and the boundary shift itself (last key byte -> value, first value
//         byte -> key);
//       every online-account and online-round-params record: every field mutated, dropped,
//         duplicated; state proof verification contexts: every field mutated, dropped, bogus
//         context added;
//       chunks (tar members): each dropped, duplicated, swapped with the next, renamed to an
//         unknown section; header dropped, duplicated, moved behind the first chunk; unknown
//         section added; chunk truncated.
//       multi-record classes around ExpectingMoreEntries (a record with the flag set is staged
//         WITHOUT an account hash; the hash comes from the account's final record): an extra
//         trailing record for a new address with the flag set (in the last balances chunk / in a
//         chunk of its own / before another record / carrying a resource / for an existing
//         address), every balance record preceded by a forged record for the same address with
//         the flag set (balance +1e12, status flipped; same chunk or a chunk of its own), every
//         balance record followed by a forged final record, the flag set on the last record of
//         the file, every record with resources replaced by its partial half only, and the
//         legitimate split of a record into a partial and a final record.
//     Oracle: ProcessStagingBalances / BuildMerkleTrie / fetching the block named by the header
//     / VerifyCatchpoint must reject — or, if everything accepts, the node that completes the
//     catchup (CompleteCatchup) must end up in exactly the state of the faithful restore (the
//     mutation did not change the represented state, e.g. a record moved between chunks or a
//     header field that the accessor ignores). An accepted mutation that leads to a different
//     adopted state is a violation: "C16:kv-boundary-shift" for the key/value boundary shift
//     (known finding F-KV), "C16:dangling-partial-record" / "C16:shadowed-first-record" for the
//     two ExpectingMoreEntries classes that the unchanged tree accepts (finding
//     findings/C16-dangling-partial-record), "C16:tamper-accepted:<kind>" otherwise.
//     Attempts reuse one ledger per worker (ResetStagingBalances(newCatchup=true) before every
//     attempt, a new accessor object per attempt — like the service's retry loop); the pristine
//     file is re-verified on the same ledger every 40 attempts and at the end, so a ledger that
//     rejects everything cannot make the check vacuous.
//
// Not covered: non-canonical msgpack encodings of unchanged values, multi-field mutations,
// V5/V6/V7 producer files, files larger than one chunk per table (BalancesPerCatchpointFileChunk
// = 512 accounts), the network/tar layer (ledgerFetcher), authenticity of the blocks (C30).
//
// Mutants (bin/mut C16 ...), quick tier:
//   M1 ledgercore/catchpointlabel.go: totals left out of the label buffer (producer and
//      verifier consistently)                                                 => DETECTED
//      (header totals +1 is accepted and adopted: 56 violations)
//   M2 catchupaccessor.go BuildMerkleTrie ignoring duplicate hashes ("if false && !added")
//      => DETECTED (a KV record copied with shifted boundary is then adopted as an extra box)
//   M3 (own) ledger/encoded/recordsV6.go: OnlineRoundParamsRecordV6.ToBeHashed ignores Data
//      (label no longer covers online supply / rewards level of the history rows) => DETECTED
//   M3' (tried first) OnlineAccountRecordV6.ToBeHashed ignoring VoteLastValid => MISSED, because
//      it is an equivalent change: the staging iterator cross-checks the row's votelastvalid
//      column against the decoded data ("decoded voteLastValid ... does not match row"), so the
//      tampered file is still rejected in VerifyCatchpoint. Replaced by M3.

import (
	"archive/tar"
	"context"
	"fmt"
	"io"
	"os"
	"path/filepath"
	"reflect"
	"sort"
	"strings"
	"sync"
	"sync/atomic"
	"testing"

	"github.com/algorand/go-algorand/config"
	"github.com/algorand/go-algorand/crypto"
	"github.com/algorand/go-algorand/data/basics"
	"github.com/algorand/go-algorand/data/bookkeeping"
	"github.com/algorand/go-algorand/ledger/encoded"
	"github.com/algorand/go-algorand/ledger/ledgercore"
	"github.com/algorand/go-algorand/ledger/store/trackerdb"
	"github.com/algorand/go-algorand/protocol"
	ve "github.com/algorand/go-algorand/verifeng"
	"github.com/algorand/msgp/msgp"
)

// ---------------------------------------------------------------------------------------------
// leaf mutations by reflection

type c16Leaf struct {
	path  string
	apply func(root reflect.Value) bool // root: addressable struct value; false = not applicable (no change)
}

func c16Leaves(typ reflect.Type, both bool) []c16Leaf {
	var out []c16Leaf
	var walk func(path string, get func(v reflect.Value) reflect.Value, t reflect.Type)
	add := func(path, tag string, get func(v reflect.Value) reflect.Value, mut func(f reflect.Value) bool) {
		out = append(out, c16Leaf{path: path + tag, apply: func(root reflect.Value) bool { return mut(get(root)) }})
	}
	walk = func(path string, get func(v reflect.Value) reflect.Value, t reflect.Type) {
		switch t.Kind() {
		case reflect.Struct:
			for i := 0; i < t.NumField(); i++ {
				fl := t.Field(i)
				if fl.Name == "_struct" || !fl.IsExported() {
					continue
				}
				idx := i
				walk(path+"."+fl.Name, func(v reflect.Value) reflect.Value { return get(v).Field(idx) }, fl.Type)
			}
		case reflect.Bool:
			add(path, "!", get, func(f reflect.Value) bool { f.SetBool(!f.Bool()); return true })
		case reflect.Uint8, reflect.Uint16, reflect.Uint32, reflect.Uint64, reflect.Uint:
			add(path, "+1", get, func(f reflect.Value) bool { f.SetUint(f.Uint() + 1); return true })
			if both {
				add(path, "-1", get, func(f reflect.Value) bool {
					if f.Uint() == 0 {
						return false
					}
					f.SetUint(f.Uint() - 1)
					return true
				})
			}
		case reflect.Int, reflect.Int32, reflect.Int64:
			add(path, "+1", get, func(f reflect.Value) bool { f.SetInt(f.Int() + 1); return true })
		case reflect.String:
			add(path, "~", get, func(f reflect.Value) bool {
				s := f.String()
				if s == "" {
					f.SetString("x")
				} else {
					b := []byte(s)
					b[len(b)-1] ^= 1
					f.SetString(string(b))
				}
				return true
			})
			if both {
				add(path, "+b", get, func(f reflect.Value) bool { f.SetString(f.String() + "\x00"); return true })
			}
		case reflect.Array:
			if t.Elem().Kind() == reflect.Uint8 {
				add(path, "^first", get, func(f reflect.Value) bool { f.Index(0).SetUint(f.Index(0).Uint() ^ 1); return true })
				add(path, "^last", get, func(f reflect.Value) bool {
					e := f.Index(f.Len() - 1)
					e.SetUint(e.Uint() ^ 0x80)
					return true
				})
			}
		case reflect.Slice:
			if t.Elem().Kind() == reflect.Uint8 {
				add(path, "^first", get, func(f reflect.Value) bool {
					if f.Len() == 0 {
						f.Set(reflect.ValueOf([]byte{1}).Convert(f.Type()))
						return true
					}
					b := append([]byte{}, f.Bytes()...)
					b[0] ^= 1
					f.Set(reflect.ValueOf(b).Convert(f.Type()))
					return true
				})
				add(path, "+b", get, func(f reflect.Value) bool {
					b := append(append([]byte{}, f.Bytes()...), 0)
					f.Set(reflect.ValueOf(b).Convert(f.Type()))
					return true
				})
				add(path, "-b", get, func(f reflect.Value) bool {
					if f.Len() == 0 {
						return false
					}
					b := append([]byte{}, f.Bytes()[:f.Len()-1]...)
					f.Set(reflect.ValueOf(b).Convert(f.Type()))
					return true
				})
			}
		case reflect.Map:
			if t == reflect.TypeOf(basics.TealKeyValue{}) {
				first := func(m basics.TealKeyValue) (string, bool) {
					var ks []string
					for k := range m {
						ks = append(ks, k)
					}
					sort.Strings(ks)
					if len(ks) == 0 {
						return "", false
					}
					return ks[0], true
				}
				clone := func(f reflect.Value) basics.TealKeyValue {
					m := basics.TealKeyValue{}
					for k, v := range f.Interface().(basics.TealKeyValue) {
						m[k] = v
					}
					return m
				}
				add(path, "[k].val", get, func(f reflect.Value) bool {
					m := clone(f)
					k, ok := first(m)
					if !ok {
						return false
					}
					v := m[k]
					if v.Type == basics.TealUintType {
						v.Uint++
					} else {
						v.Bytes += "\x01"
					}
					m[k] = v
					f.Set(reflect.ValueOf(m))
					return true
				})
				add(path, "[k].type", get, func(f reflect.Value) bool {
					m := clone(f)
					k, ok := first(m)
					if !ok {
						return false
					}
					v := m[k]
					if v.Type == basics.TealUintType {
						v = basics.TealValue{Type: basics.TealBytesType, Bytes: "u"}
					} else {
						v = basics.TealValue{Type: basics.TealUintType, Uint: 1}
					}
					m[k] = v
					f.Set(reflect.ValueOf(m))
					return true
				})
				add(path, "-key", get, func(f reflect.Value) bool {
					m := clone(f)
					k, ok := first(m)
					if !ok {
						return false
					}
					delete(m, k)
					if len(m) == 0 {
						m = nil
					}
					f.Set(reflect.ValueOf(m))
					return true
				})
				add(path, "key~", get, func(f reflect.Value) bool {
					m := clone(f)
					k, ok := first(m)
					if !ok {
						return false
					}
					v := m[k]
					delete(m, k)
					m[k+"_"] = v
					f.Set(reflect.ValueOf(m))
					return true
				})
				add(path, "+key", get, func(f reflect.Value) bool {
					m := clone(f)
					m["zz"] = basics.TealValue{Type: basics.TealUintType, Uint: 1}
					f.Set(reflect.ValueOf(m))
					return true
				})
			}
		}
	}
	walk("", func(v reflect.Value) reflect.Value { return v }, typ)
	return out
}

// c16MutRaw applies leaf mutation lf to the msgpack-encoded value raw of type T. ok=false
// when not applicable or the encoding did not change.
func c16MutRaw[T any, PT interface {
	*T
	msgp.Unmarshaler
	msgp.Marshaler
}](raw []byte, lf c16Leaf) (out []byte, ok bool) {
	var v T
	if err := protocol.Decode(raw, PT(&v)); err != nil {
		return nil, false
	}
	if !lf.apply(reflect.ValueOf(&v).Elem()) {
		return nil, false
	}
	out = protocol.Encode(PT(&v))
	if string(out) == string(raw) {
		return nil, false
	}
	return out, true
}

// ---------------------------------------------------------------------------------------------
// mutation list

type c16Mut struct {
	kind  string // class of the mutation (violation key suffix, evidence class)
	desc  string
	apply func(f *c14File) bool // false = not applicable
}

func c16Mutations(orig *c14File, both bool) []c16Mut {
	var ms []c16Mut
	add := func(kind, desc string, apply func(f *c14File) bool) {
		ms = append(ms, c16Mut{kind: kind, desc: desc, apply: apply})
	}
	hdrIdx := -1
	for i := range orig.secs {
		if orig.secs[i].kind == "header" {
			hdrIdx = i
		}
	}
	// ---- header
	for _, lf := range c16Leaves(reflect.TypeOf(CatchpointFileHeader{}), true) {
		lf := lf
		add("header"+strings.SplitN(lf.path, "+", 2)[0], "header field "+lf.path, func(f *c14File) bool {
			return lf.apply(reflect.ValueOf(&f.secs[hdrIdx].header).Elem())
		})
	}
	for _, v := range []uint64{CatchpointFileVersionV5, CatchpointFileVersionV6, CatchpointFileVersionV7, CatchpointFileVersionV8, 0} {
		v := v
		add("header.Version=", fmt.Sprintf("header version := %#o", v), func(f *c14File) bool {
			if f.secs[hdrIdx].header.Version == v {
				return false
			}
			f.secs[hdrIdx].header.Version = v
			return true
		})
	}
	for _, d := range []int{-8, -4, 4} {
		d := d
		add("header.BlocksRound=", fmt.Sprintf("header BlocksRound %+d", d), func(f *c14File) bool {
			r := int64(f.secs[hdrIdx].header.BlocksRound) + int64(d)
			if r <= 0 {
				return false
			}
			f.secs[hdrIdx].header.BlocksRound = basics.Round(r)
			return true
		})
	}
	// ---- sections
	for si := range orig.secs {
		si := si
		nm := orig.secs[si].name
		add("section-dropped/"+orig.secs[si].kind, "section "+nm+" dropped", func(f *c14File) bool {
			f.secs = append(f.secs[:si:si], f.secs[si+1:]...)
			return true
		})
		add("section-duplicated/"+orig.secs[si].kind, "section "+nm+" duplicated", func(f *c14File) bool {
			cp := f.secs[si]
			f.secs = append(f.secs[:si+1:si+1], append([]c14Sec{cp}, f.secs[si+1:]...)...)
			return true
		})
		if si+1 < len(orig.secs) {
			add("sections-swapped/"+orig.secs[si].kind+"-"+orig.secs[si+1].kind, "sections "+nm+" and "+orig.secs[si+1].name+" swapped", func(f *c14File) bool {
				f.secs[si], f.secs[si+1] = f.secs[si+1], f.secs[si]
				return true
			})
			add("section-names-swapped/"+orig.secs[si].kind+"-"+orig.secs[si+1].kind, "names of "+nm+" and "+orig.secs[si+1].name+" swapped", func(f *c14File) bool {
				f.secs[si].name, f.secs[si+1].name = f.secs[si+1].name, f.secs[si].name
				return true
			})
		}
		add("section-renamed/"+orig.secs[si].kind, "section "+nm+" renamed to an unknown name", func(f *c14File) bool {
			f.secs[si].name = "unknown." + nm
			return true
		})
		add("section-truncated/"+orig.secs[si].kind, "section "+nm+" truncated by one byte", func(f *c14File) bool {
			b := f.encode()[si].Data
			f.secs[si].kind = "raw"
			f.secs[si].raw = b[:len(b)-1]
			return true
		})
	}
	add("section-added/unknown", "unknown section appended", func(f *c14File) bool {
		f.secs = append(f.secs, c14Sec{name: "extra.bin", kind: "raw", raw: []byte{1, 2, 3}})
		return true
	})
	add("section-added/empty-chunk", "empty balances chunk appended", func(f *c14File) bool {
		f.secs = append(f.secs, c14Sec{name: "balances.99.msgpack", kind: "chunk"})
		return true
	})
	// ---- state proof verification contexts
	for si := range orig.secs {
		if orig.secs[si].kind != "sp" {
			continue
		}
		si := si
		add("sp-context-added", "bogus state proof verification context added", func(f *c14File) bool {
			f.secs[si].sp.Data = append(f.secs[si].sp.Data, ledgercore.StateProofVerificationContext{LastAttestedRound: 4096, VotersCommitment: []byte{1}, OnlineTotalWeight: basics.MicroAlgos{Raw: 5}, Version: protocol.ConsensusCurrentVersion})
			return true
		})
		for ci := range orig.secs[si].sp.Data {
			ci := ci
			add("sp-context-dropped", fmt.Sprintf("sp context #%d dropped", ci), func(f *c14File) bool {
				d := f.secs[si].sp.Data
				f.secs[si].sp.Data = append(d[:ci:ci], d[ci+1:]...)
				return true
			})
			add("sp-context-duplicated", fmt.Sprintf("sp context #%d duplicated", ci), func(f *c14File) bool {
				f.secs[si].sp.Data = append(f.secs[si].sp.Data, f.secs[si].sp.Data[ci])
				return true
			})
			for _, lf := range c16Leaves(reflect.TypeOf(ledgercore.StateProofVerificationContext{}), both) {
				lf := lf
				add("sp-context"+lf.path, fmt.Sprintf("sp context #%d field %s", ci, lf.path), func(f *c14File) bool {
					return lf.apply(reflect.ValueOf(&f.secs[si].sp.Data[ci]).Elem())
				})
			}
		}
	}
	// ---- chunks
	chunks := orig.chunkIdx()
	otherChunk := func(si int) int {
		for _, c := range chunks {
			if c != si {
				return c
			}
		}
		return -1
	}
	acctLeaves := c16Leaves(reflect.TypeOf(trackerdb.BaseAccountData{}), both)
	resLeaves := c16Leaves(reflect.TypeOf(trackerdb.ResourcesData{}), both)
	oaLeaves := c16Leaves(reflect.TypeOf(trackerdb.BaseOnlineAccountData{}), both)
	orpLeaves := c16Leaves(reflect.TypeOf(ledgercore.OnlineRoundParamsData{}), both)
	for _, si := range chunks {
		si := si
		ch := &orig.secs[si].chunk
		// balance records
		for bi := range ch.Balances {
			bi := bi
			who := fmt.Sprintf("balance record %s#%d", orig.secs[si].name, bi)
			add("balance.Address", who+" address bit flipped", func(f *c14File) bool {
				f.secs[si].chunk.Balances[bi].Address[31] ^= 1
				return true
			})
			add("balance.ExpectingMoreEntries", who+" ExpectingMoreEntries flipped", func(f *c14File) bool {
				b := &f.secs[si].chunk.Balances[bi]
				b.ExpectingMoreEntries = !b.ExpectingMoreEntries
				return true
			})
			for _, lf := range acctLeaves {
				lf := lf
				add("balance.AccountData"+lf.path, who+" account data "+lf.path, func(f *c14File) bool {
					b := &f.secs[si].chunk.Balances[bi]
					out, ok := c16MutRaw[trackerdb.BaseAccountData](b.AccountData, lf)
					if ok {
						b.AccountData = out
					}
					return ok
				})
			}
			add("balance-dropped", who+" dropped", func(f *c14File) bool {
				b := f.secs[si].chunk.Balances
				f.secs[si].chunk.Balances = append(b[:bi:bi], b[bi+1:]...)
				return true
			})
			add("balance-duplicated", who+" duplicated", func(f *c14File) bool {
				f.secs[si].chunk.Balances = append(f.secs[si].chunk.Balances, f.secs[si].chunk.Balances[bi])
				return true
			})
			if oc := otherChunk(si); oc >= 0 {
				add("balance-moved", who+" moved to "+orig.secs[oc].name, func(f *c14File) bool {
					b := f.secs[si].chunk.Balances
					rec := b[bi]
					f.secs[si].chunk.Balances = append(b[:bi:bi], b[bi+1:]...)
					f.secs[oc].chunk.Balances = append(f.secs[oc].chunk.Balances, rec)
					return true
				})
				add("balance-copied-to-other-chunk", who+" additionally copied to "+orig.secs[oc].name, func(f *c14File) bool {
					f.secs[oc].chunk.Balances = append(f.secs[oc].chunk.Balances, f.secs[si].chunk.Balances[bi])
					return true
				})
			}
			if bi+1 < len(ch.Balances) {
				add("balance-swapped", who+" swapped with its successor", func(f *c14File) bool {
					b := f.secs[si].chunk.Balances
					b[bi], b[bi+1] = b[bi+1], b[bi]
					return true
				})
			}
			var cidxs []uint64
			for c := range ch.Balances[bi].Resources {
				cidxs = append(cidxs, c)
			}
			sort.Slice(cidxs, func(i, j int) bool { return cidxs[i] < cidxs[j] })
			for _, cidx := range cidxs {
				cidx := cidx
				rwho := fmt.Sprintf("%s resource %d", who, cidx)
				cloneRes := func(b *encoded.BalanceRecordV6) {
					m := make(map[uint64]msgp.Raw, len(b.Resources))
					for k, v := range b.Resources {
						m[k] = v
					}
					b.Resources = m
				}
				add("resource.index", rwho+" index +1", func(f *c14File) bool {
					b := &f.secs[si].chunk.Balances[bi]
					if _, taken := b.Resources[cidx+1]; taken {
						return false
					}
					cloneRes(b)
					b.Resources[cidx+1] = b.Resources[cidx]
					delete(b.Resources, cidx)
					return true
				})
				add("resource-dropped", rwho+" dropped", func(f *c14File) bool {
					b := &f.secs[si].chunk.Balances[bi]
					cloneRes(b)
					delete(b.Resources, cidx)
					if len(b.Resources) == 0 {
						b.Resources = nil
					}
					return true
				})
				add("resource-copied", rwho+" copied to a new index", func(f *c14File) bool {
					b := &f.secs[si].chunk.Balances[bi]
					cloneRes(b)
					b.Resources[cidx+1000] = b.Resources[cidx]
					return true
				})
				for _, lf := range resLeaves {
					lf := lf
					add("resource.data"+lf.path, rwho+" data "+lf.path, func(f *c14File) bool {
						b := &f.secs[si].chunk.Balances[bi]
						out, ok := c16MutRaw[trackerdb.ResourcesData](b.Resources[cidx], lf)
						if ok {
							cloneRes(b)
							b.Resources[cidx] = out
						}
						return ok
					})
				}
			}
		}
		// ---- multi-record classes around ExpectingMoreEntries ("this account continues in the
		// next record"): a record with the flag set contributes its resources' hashes but NOT the
		// account hash; the account hash comes from the final record (flag clear).
		if len(ch.Balances) > 0 {
			forge := func(raw msgp.Raw, add uint64) msgp.Raw {
				var bad trackerdb.BaseAccountData
				if err := protocol.Decode(raw, &bad); err != nil {
					return raw
				}
				bad.MicroAlgos.Raw += add
				return protocol.Encode(&bad)
			}
			var fake basics.Address
			for i := range fake {
				fake[i] = 0xfa
			}
			fakeData := protocol.Encode(&trackerdb.BaseAccountData{MicroAlgos: basics.MicroAlgos{Raw: 1_000_000_000_000}, UpdateRound: 1})
			lastBal := len(ch.Balances) - 1
			// (a) dangling partial record: an extra record for a NEW address, flag set, never completed
			add("dangling-partial-record", "extra trailing record {new address, 1e12 uAlgos, ExpectingMoreEntries=true} appended to "+orig.secs[si].name, func(f *c14File) bool {
				f.secs[si].chunk.Balances = append(f.secs[si].chunk.Balances, encoded.BalanceRecordV6{Address: fake, AccountData: fakeData, ExpectingMoreEntries: true})
				return true
			})
			add("dangling-partial-record", "extra record {new address, 1e12 uAlgos, ExpectingMoreEntries=true} in a new chunk of its own at the end of the file", func(f *c14File) bool {
				f.secs = append(f.secs, c14Sec{name: "balances.98.msgpack", kind: "chunk", chunk: CatchpointSnapshotChunkV6{Balances: []encoded.BalanceRecordV6{{Address: fake, AccountData: fakeData, ExpectingMoreEntries: true}}}})
				return true
			})
			add("dangling-partial-record/not-last", "extra record {new address, ExpectingMoreEntries=true} inserted BEFORE the last balance record of "+orig.secs[si].name, func(f *c14File) bool {
				b := f.secs[si].chunk.Balances
				nb := append(append(append([]encoded.BalanceRecordV6{}, b[:lastBal]...), encoded.BalanceRecordV6{Address: fake, AccountData: fakeData, ExpectingMoreEntries: true}), b[lastBal:]...)
				f.secs[si].chunk.Balances = nb
				return true
			})
			add("dangling-partial-record/with-resource", "extra trailing record {new address, ExpectingMoreEntries=true} carrying an asset holding", func(f *c14File) bool {
				var rd trackerdb.ResourcesData
				rd.SetAssetHolding(basics.AssetHolding{Amount: 77})
				f.secs[si].chunk.Balances = append(f.secs[si].chunk.Balances, encoded.BalanceRecordV6{Address: fake, AccountData: fakeData, ExpectingMoreEntries: true,
					Resources: map[uint64]msgp.Raw{4242: protocol.Encode(&rd)}})
				return true
			})
			add("dangling-partial-record/existing-address", "extra trailing record {address of record #0, forged balance, ExpectingMoreEntries=true}", func(f *c14File) bool {
				b0 := f.secs[si].chunk.Balances[0]
				f.secs[si].chunk.Balances = append(f.secs[si].chunk.Balances, encoded.BalanceRecordV6{Address: b0.Address, AccountData: forge(b0.AccountData, 1_000_000_000_000), ExpectingMoreEntries: true})
				return true
			})
			add("last-record-expecting-more", "ExpectingMoreEntries set on the LAST balance record of the file", func(f *c14File) bool {
				f.secs[si].chunk.Balances[lastBal].ExpectingMoreEntries = true
				return true
			})
			for bi := range ch.Balances {
				bi := bi
				who := fmt.Sprintf("balance record %s#%d", orig.secs[si].name, bi)
				// (b) shadowed first record: a forged, flagged record for the same address in front of the genuine one
				add("shadowed-first-record", who+" preceded by {same address, balance +1e12, ExpectingMoreEntries=true}", func(f *c14File) bool {
					b := f.secs[si].chunk.Balances
					forged := encoded.BalanceRecordV6{Address: b[bi].Address, AccountData: forge(b[bi].AccountData, 1_000_000_000_000), ExpectingMoreEntries: true}
					nb := append(append(append([]encoded.BalanceRecordV6{}, b[:bi]...), forged), b[bi:]...)
					f.secs[si].chunk.Balances = nb
					return true
				})
				if bi == 0 {
					add("shadowed-first-record", who+" preceded, in a chunk of its own, by {same address, balance +1e12, ExpectingMoreEntries=true}", func(f *c14File) bool {
						b := f.secs[si].chunk.Balances
						forged := encoded.BalanceRecordV6{Address: b[bi].Address, AccountData: forge(b[bi].AccountData, 1_000_000_000_000), ExpectingMoreEntries: true}
						ns := append(append(append([]c14Sec{}, f.secs[:si]...), c14Sec{name: "balances.97.msgpack", kind: "chunk", chunk: CatchpointSnapshotChunkV6{Balances: []encoded.BalanceRecordV6{forged}}}), f.secs[si:]...)
						f.secs = ns
						return true
					})
				}
				add("shadowed-first-record/status", who+" preceded by {same address, Status flipped to Online, ExpectingMoreEntries=true}", func(f *c14File) bool {
					b := f.secs[si].chunk.Balances
					var bad trackerdb.BaseAccountData
					if err := protocol.Decode(b[bi].AccountData, &bad); err != nil {
						return false
					}
					if bad.Status == basics.Online {
						bad.Status = basics.Offline
					} else {
						bad.Status = basics.Online
					}
					forged := encoded.BalanceRecordV6{Address: b[bi].Address, AccountData: protocol.Encode(&bad), ExpectingMoreEntries: true}
					nb := append(append(append([]encoded.BalanceRecordV6{}, b[:bi]...), forged), b[bi:]...)
					f.secs[si].chunk.Balances = nb
					return true
				})
				// forged record AFTER the genuine one (first insert wins => expected harmless, but it leaves the accessor expecting more)
				add("forged-second-record", who+" followed by {same address, balance +1e12, ExpectingMoreEntries=false}", func(f *c14File) bool {
					b := f.secs[si].chunk.Balances
					forged := encoded.BalanceRecordV6{Address: b[bi].Address, AccountData: forge(b[bi].AccountData, 1_000_000_000_000)}
					nb := append(append(append([]encoded.BalanceRecordV6{}, b[:bi+1]...), forged), b[bi+1:]...)
					f.secs[si].chunk.Balances = nb
					return true
				})
				// legitimate split of one account over two records (what the writer does for big accounts)
				if len(ch.Balances[bi].Resources) >= 1 {
					split := func(f *c14File, complete bool) {
						b := f.secs[si].chunk.Balances
						rec := b[bi]
						var cs []uint64
						for c := range rec.Resources {
							cs = append(cs, c)
						}
						sort.Slice(cs, func(i, j int) bool { return cs[i] < cs[j] })
						first := encoded.BalanceRecordV6{Address: rec.Address, AccountData: rec.AccountData, ExpectingMoreEntries: true, Resources: map[uint64]msgp.Raw{}}
						second := encoded.BalanceRecordV6{Address: rec.Address, AccountData: rec.AccountData}
						for i, c := range cs {
							if i < (len(cs)+1)/2 {
								first.Resources[c] = rec.Resources[c]
							} else {
								if second.Resources == nil {
									second.Resources = map[uint64]msgp.Raw{}
								}
								second.Resources[c] = rec.Resources[c]
							}
						}
						nb := append([]encoded.BalanceRecordV6{}, b[:bi]...)
						nb = append(nb, first)
						if complete {
							nb = append(nb, second)
						}
						nb = append(nb, b[bi+1:]...)
						f.secs[si].chunk.Balances = nb
					}
					add("record-split-in-two", who+" split into a partial and a final record", func(f *c14File) bool { split(f, true); return true })
					add("partial-record-never-completed", who+" replaced by its partial half only (final record missing)", func(f *c14File) bool { split(f, false); return true })
					if oc := otherChunk(si); oc >= 0 && bi == lastBal {
						add("partial-record-never-completed/next-chunk", who+" : partial half stays, final half would be in the next chunk but is missing", func(f *c14File) bool { split(f, false); return true })
					}
				}
			}
		}
		// KV records
		for ki := range ch.KVs {
			ki := ki
			who := fmt.Sprintf("kv record %s#%d", orig.secs[si].name, ki)
			kvm := func(kind, what string, mut func(kv *encoded.KVRecordV6) bool) {
				add(kind, who+" "+what, func(f *c14File) bool {
					kv := &f.secs[si].chunk.KVs[ki]
					kv.Key = append([]byte{}, kv.Key...)
					kv.Value = append([]byte{}, kv.Value...)
					return mut(kv)
				})
			}
			kvm("kv.key^first", "key first byte flipped", func(kv *encoded.KVRecordV6) bool { kv.Key[0] ^= 1; return true })
			kvm("kv.key^last", "key last byte flipped", func(kv *encoded.KVRecordV6) bool { kv.Key[len(kv.Key)-1] ^= 1; return true })
			kvm("kv.key+b", "key extended by a zero byte", func(kv *encoded.KVRecordV6) bool { kv.Key = append(kv.Key, 0); return true })
			kvm("kv.value^first", "value first byte flipped", func(kv *encoded.KVRecordV6) bool {
				if len(kv.Value) == 0 {
					return false
				}
				kv.Value[0] ^= 1
				return true
			})
			kvm("kv.value^last", "value last byte flipped", func(kv *encoded.KVRecordV6) bool {
				if len(kv.Value) == 0 {
					return false
				}
				kv.Value[len(kv.Value)-1] ^= 0x80
				return true
			})
			kvm("kv.value+b", "value extended by a zero byte", func(kv *encoded.KVRecordV6) bool { kv.Value = append(kv.Value, 0); return true })
			kvm("kv.value-b", "value truncated by one byte", func(kv *encoded.KVRecordV6) bool {
				if len(kv.Value) == 0 {
					return false
				}
				kv.Value = kv.Value[:len(kv.Value)-1]
				return true
			})
			kvm("kv-boundary-shift", "boundary shifted: last key byte moved to the value", func(kv *encoded.KVRecordV6) bool {
				if len(kv.Key) < 2 {
					return false
				}
				kv.Value = append([]byte{kv.Key[len(kv.Key)-1]}, kv.Value...)
				kv.Key = kv.Key[:len(kv.Key)-1]
				return true
			})
			kvm("kv-boundary-shift", "boundary shifted: first value byte moved to the key", func(kv *encoded.KVRecordV6) bool {
				if len(kv.Value) < 1 {
					return false
				}
				kv.Key = append(kv.Key, kv.Value[0])
				kv.Value = kv.Value[1:]
				return true
			})
			add("kv-dropped", who+" dropped", func(f *c14File) bool {
				k := f.secs[si].chunk.KVs
				f.secs[si].chunk.KVs = append(k[:ki:ki], k[ki+1:]...)
				return true
			})
			add("kv-duplicated", who+" duplicated", func(f *c14File) bool {
				f.secs[si].chunk.KVs = append(f.secs[si].chunk.KVs, f.secs[si].chunk.KVs[ki])
				return true
			})
			add("kv-shifted-copy-added", who+": a copy with shifted key/value boundary added", func(f *c14File) bool {
				kv := f.secs[si].chunk.KVs[ki]
				if len(kv.Value) < 1 {
					return false
				}
				cp := encoded.KVRecordV6{Key: append(append([]byte{}, kv.Key...), kv.Value[0]), Value: append([]byte{}, kv.Value[1:]...)}
				f.secs[si].chunk.KVs = append(f.secs[si].chunk.KVs, cp)
				return true
			})
			if oc := otherChunk(si); oc >= 0 {
				add("kv-moved", who+" moved to "+orig.secs[oc].name, func(f *c14File) bool {
					k := f.secs[si].chunk.KVs
					rec := k[ki]
					f.secs[si].chunk.KVs = append(k[:ki:ki], k[ki+1:]...)
					f.secs[oc].chunk.KVs = append(f.secs[oc].chunk.KVs, rec)
					return true
				})
			}
		}
		// online accounts
		for oi := range ch.OnlineAccounts {
			oi := oi
			who := fmt.Sprintf("online account record %s#%d", orig.secs[si].name, oi)
			for _, lf := range c16Leaves(reflect.TypeOf(encoded.OnlineAccountRecordV6{}), both) {
				lf := lf
				add("online-account"+lf.path, who+" field "+lf.path, func(f *c14File) bool {
					return lf.apply(reflect.ValueOf(&f.secs[si].chunk.OnlineAccounts[oi]).Elem())
				})
			}
			for _, lf := range oaLeaves {
				lf := lf
				add("online-account.Data"+lf.path, who+" data "+lf.path, func(f *c14File) bool {
					rec := &f.secs[si].chunk.OnlineAccounts[oi]
					out, ok := c16MutRaw[trackerdb.BaseOnlineAccountData](rec.Data, lf)
					if ok {
						rec.Data = out
					}
					return ok
				})
			}
			add("online-account-dropped", who+" dropped", func(f *c14File) bool {
				o := f.secs[si].chunk.OnlineAccounts
				f.secs[si].chunk.OnlineAccounts = append(o[:oi:oi], o[oi+1:]...)
				return true
			})
			add("online-account-duplicated", who+" duplicated", func(f *c14File) bool {
				f.secs[si].chunk.OnlineAccounts = append(f.secs[si].chunk.OnlineAccounts, f.secs[si].chunk.OnlineAccounts[oi])
				return true
			})
			if oc := otherChunk(si); oc >= 0 {
				add("online-account-moved", who+" moved to "+orig.secs[oc].name, func(f *c14File) bool {
					o := f.secs[si].chunk.OnlineAccounts
					rec := o[oi]
					f.secs[si].chunk.OnlineAccounts = append(o[:oi:oi], o[oi+1:]...)
					f.secs[oc].chunk.OnlineAccounts = append(f.secs[oc].chunk.OnlineAccounts, rec)
					return true
				})
			}
			if oi+1 < len(ch.OnlineAccounts) {
				add("online-account-swapped", who+" swapped with its successor", func(f *c14File) bool {
					o := f.secs[si].chunk.OnlineAccounts
					o[oi], o[oi+1] = o[oi+1], o[oi]
					return true
				})
			}
		}
		// online round params
		for pi := range ch.OnlineRoundParams {
			pi := pi
			who := fmt.Sprintf("online round params record %s#%d", orig.secs[si].name, pi)
			add("online-round-params.Round", who+" round +1", func(f *c14File) bool {
				f.secs[si].chunk.OnlineRoundParams[pi].Round++
				return true
			})
			for _, lf := range orpLeaves {
				lf := lf
				add("online-round-params.Data"+lf.path, who+" data "+lf.path, func(f *c14File) bool {
					rec := &f.secs[si].chunk.OnlineRoundParams[pi]
					out, ok := c16MutRaw[ledgercore.OnlineRoundParamsData](rec.Data, lf)
					if ok {
						rec.Data = out
					}
					return ok
				})
			}
			add("online-round-params-dropped", who+" dropped", func(f *c14File) bool {
				o := f.secs[si].chunk.OnlineRoundParams
				f.secs[si].chunk.OnlineRoundParams = append(o[:pi:pi], o[pi+1:]...)
				return true
			})
			add("online-round-params-duplicated", who+" duplicated", func(f *c14File) bool {
				f.secs[si].chunk.OnlineRoundParams = append(f.secs[si].chunk.OnlineRoundParams, f.secs[si].chunk.OnlineRoundParams[pi])
				return true
			})
		}
	}
	return ms
}

// ---------------------------------------------------------------------------------------------
// comparison of two ledgers through the public query API

type c16Universe struct {
	addrs  []basics.Address
	assets []basics.AssetIndex
	apps   []basics.AppIndex
}

func c16MakeUniverse(h *c14History) c16Universe {
	u := c16Universe{}
	seen := map[basics.Address]bool{}
	addA := func(a basics.Address) {
		if !seen[a] {
			seen[a] = true
			u.addrs = append(u.addrs, a)
		}
	}
	for _, a := range h.Gen.addrs {
		addA(a)
	}
	for _, a := range h.Gen.fresh {
		addA(a)
	}
	addA(h.Gen.init.Block.FeeSink)
	addA(h.Gen.init.Block.RewardsPool)
	for _, b := range h.Blocks {
		for _, stib := range b.Payset {
			if c := stib.ApplyData.ApplicationID; c != 0 {
				u.apps = append(u.apps, c)
				addA(c.Address())
			}
			if c := stib.ApplyData.ConfigAsset; c != 0 {
				u.assets = append(u.assets, c)
			}
		}
	}
	return u
}

// c16Answers renders what ledger l answers at round rnd.
func c16Answers(l *Ledger, u c16Universe, rnd basics.Round, proto config.ConsensusParams, onlineFrom basics.Round) (map[string]string, error) {
	out := map[string]string{}
	tot, err := l.Totals(rnd)
	if err != nil {
		return nil, fmt.Errorf("Totals(%d): %v", rnd, err)
	}
	out["totals"] = fmt.Sprintf("%+v", tot)
	for _, a := range u.addrs {
		ad, _, wo, err := l.LookupAccount(rnd, a)
		if err != nil {
			return nil, fmt.Errorf("LookupAccount(%d,%s): %v", rnd, a, err)
		}
		out["acct/"+a.String()] = fmt.Sprintf("%+v|%d", ad, wo.Raw)
		ad2, _, err := l.LookupWithoutRewards(rnd, a)
		if err != nil {
			return nil, fmt.Errorf("LookupWithoutRewards(%d,%s): %v", rnd, a, err)
		}
		out["acctwo/"+a.String()] = fmt.Sprintf("%+v", ad2)
		for _, c := range u.assets {
			ar, err := l.LookupAsset(rnd, a, c)
			if err != nil {
				return nil, fmt.Errorf("LookupAsset: %v", err)
			}
			if ar.AssetHolding != nil || ar.AssetParams != nil {
				s := ""
				if ar.AssetHolding != nil {
					s += fmt.Sprintf("holding=%+v", *ar.AssetHolding)
				}
				if ar.AssetParams != nil {
					s += fmt.Sprintf("|params=%+v", *ar.AssetParams)
				}
				out[fmt.Sprintf("asset/%s/%d", a, c)] = s
			}
		}
		for _, c := range u.apps {
			ap, err := l.LookupApplication(rnd, a, c)
			if err != nil {
				return nil, fmt.Errorf("LookupApplication: %v", err)
			}
			if ap.AppLocalState != nil || ap.AppParams != nil {
				s := ""
				if ap.AppLocalState != nil {
					s += fmt.Sprintf("local=%x", protocol.Encode(ap.AppLocalState))
				}
				if ap.AppParams != nil {
					s += fmt.Sprintf("|params=%x", protocol.Encode(ap.AppParams))
				}
				out[fmt.Sprintf("app/%s/%d", a, c)] = s
			}
		}
	}
	keys, err := l.LookupKeysByPrefix(rnd, "bx:", 10000)
	if err != nil {
		return nil, fmt.Errorf("LookupKeysByPrefix: %v", err)
	}
	sort.Strings(keys)
	out["kvkeys"] = fmt.Sprintf("%q", keys)
	for _, k := range keys {
		v, err := l.LookupKv(rnd, k)
		if err != nil {
			return nil, fmt.Errorf("LookupKv: %v", err)
		}
		out["kv/"+fmt.Sprintf("%x", k)] = fmt.Sprintf("%x", v)
	}
	// online data: agreement lookups for the rounds the restored ledger must be able to serve
	for r := onlineFrom; r <= rnd; r++ {
		for _, a := range u.addrs {
			oad, err := l.LookupAgreement(r, a)
			if err != nil {
				return nil, fmt.Errorf("LookupAgreement(%d): %v", r, err)
			}
			if !oad.MicroAlgosWithRewards.IsZero() || oad.VoteLastValid != 0 {
				out[fmt.Sprintf("agreement/%d/%s", r, a)] = fmt.Sprintf("%+v", oad)
			}
		}
		circ, err := l.OnlineCirculation(r, r+basics.Round(proto.MaxBalLookback))
		if err != nil {
			return nil, fmt.Errorf("OnlineCirculation(%d): %v", r, err)
		}
		out[fmt.Sprintf("circulation/%d", r)] = fmt.Sprint(circ.Raw)
	}
	return out, nil
}

// ---------------------------------------------------------------------------------------------

// ---------------------------------------------------------------------------------------------
// (0) the catchpoint data file writer under time slicing

// c16SliceCtx is a step context for catchpointFileWriter.FileWriteStep whose deadline is
// "noticed" exactly at its expireAt-th poll (FileWriteStep polls ctx.Done() at its entry, at the
// top of every iteration and after every database read). expireAt <= 0: never.
type c16SliceCtx struct {
	context.Context
	polls    int
	expireAt int
}

var c16Closed = func() chan struct{} { c := make(chan struct{}); close(c); return c }()

func (c *c16SliceCtx) Done() <-chan struct{} {
	c.polls++
	if c.expireAt > 0 && c.polls >= c.expireAt {
		return c16Closed
	}
	return nil
}

func (c *c16SliceCtx) Err() error {
	if c.expireAt > 0 && c.polls >= c.expireAt {
		return context.DeadlineExceeded
	}
	return nil
}

// c16WriteSliced writes the (first stage) catchpoint data file of the ledger's current tracker
// round with the real writer, calling FileWriteStep in slices like generateCatchpointData does.
// expiry(step) gives the poll at which slice #step expires (0 = never). Returns a rendering
// of every record of the file in file order, and the number of slices used.
func c16WriteSliced(l *Ledger, params config.ConsensusParams, path string, expiry func(step int) int) (recs []string, steps int, err error) {
	_ = os.Remove(path)
	var w *catchpointFileWriter
	err = l.trackerDBs.Snapshot(func(ctx context.Context, tx trackerdb.SnapshotScope) error {
		ar, err := tx.MakeAccountsReader()
		if err != nil {
			return err
		}
		rnd, err := ar.AccountsRound()
		if err != nil {
			return err
		}
		// like finishFirstStage: only the last MaxBalLookback rounds of online history go into the file
		w, err = makeCatchpointFileWriter(ctx, params, path, tx, ResourcesPerCatchpointFileChunk, rnd, catchpointLookbackHorizonForNextRound(rnd, params))
		if err != nil {
			return err
		}
		more := true
		for more {
			if steps > 500 {
				_ = w.Abort()
				return fmt.Errorf("no progress after %d slices", steps)
			}
			sc := &c16SliceCtx{Context: ctx, expireAt: expiry(steps)}
			steps++
			more, err = w.FileWriteStep(sc)
			if err != nil {
				return err
			}
		}
		return nil
	})
	if err != nil {
		return nil, steps, err
	}
	f, err := os.Open(path)
	if err != nil {
		return nil, steps, err
	}
	defer f.Close()
	dec, err := catchpointStage1Decoder(f)
	if err != nil {
		return nil, steps, err
	}
	tr := tar.NewReader(dec)
	for {
		h, err := tr.Next()
		if err == io.EOF {
			break
		}
		if err != nil {
			return nil, steps, err
		}
		b, err := io.ReadAll(tr)
		if err != nil {
			return nil, steps, err
		}
		var chunk CatchpointSnapshotChunkV6
		if err := protocol.Decode(b, &chunk); err != nil {
			return nil, steps, fmt.Errorf("section %s: %v", h.Name, err)
		}
		recs = append(recs, "section "+h.Name)
		for _, x := range chunk.Balances {
			recs = append(recs, fmt.Sprintf("bal %x", protocol.Encode(&x)))
		}
		for _, x := range chunk.KVs {
			recs = append(recs, fmt.Sprintf("kv %x", protocol.Encode(&x)))
		}
		for _, x := range chunk.OnlineAccounts {
			recs = append(recs, fmt.Sprintf("oa %x", protocol.Encode(&x)))
		}
		for _, x := range chunk.OnlineRoundParams {
			recs = append(recs, fmt.Sprintf("orp %x", protocol.Encode(&x)))
		}
	}
	recs = append(recs, fmt.Sprintf("totals accounts=%d kvs=%d online=%d params=%d chunks=%d", w.totalAccounts, w.totalKVs, w.totalOnlineAccounts, w.totalOnlineRoundParams, w.chunkNum))
	return recs, steps, nil
}

// c16CheckWriterSlicing: every way in which ONE time slice can expire (at its k-th poll, for
// every k until the file is written in a single slice), and slices that all expire at their
// m-th poll (m = 4..8), must produce the same file content as unsliced writing.
func c16CheckWriterSlicing(r *ve.Run, l *Ledger, params config.ConsensusParams, hname string, dir string) (cases int) {
	path := filepath.Join(dir, "slice-"+hname+".data")
	defer os.Remove(path)
	ref, _, err := c16WriteSliced(l, params, path, func(int) int { return 0 })
	if err != nil || len(ref) < 3 {
		r.Report("C16:writer-error", fmt.Sprintf("history %s: unsliced catchpoint data writing failed: %v (%d records)", hname, err, len(ref)), map[string]any{"engine": "c16-writer", "history": hname})
		return 0
	}
	try := func(name string, expiry func(step int) int) (steps int) {
		got, steps, err := c16WriteSliced(l, params, path, expiry)
		cases++
		r.Eval()
		replay := map[string]any{"engine": "c16-writer", "history": hname, "slicing": name}
		if err != nil {
			r.Report("C16:writer-time-slice-error", fmt.Sprintf("history %s, slicing %s: writing failed: %v", hname, name, err), replay)
			return steps
		}
		if strings.Join(got, "\n") != strings.Join(ref, "\n") {
			missing := 0
			have := map[string]bool{}
			for _, x := range got {
				have[x] = true
			}
			for _, x := range ref {
				if !have[x] {
					missing++
				}
			}
			r.Report("C16:writer-time-slice-loses-data", fmt.Sprintf("history %s, slicing %s (%d slices): the catchpoint data file differs from the one written in a single slice: %d lines instead of %d, %d of the reference lines are missing (last line: %q vs %q)", hname, name, steps, len(got), len(ref), missing, got[len(got)-1], ref[len(ref)-1]), replay)
		}
		r.Class(fmt.Sprintf("writer-slicing/%s/%d-slices", hname, steps))
		return steps
	}
	for k := 1; k <= 64; k++ {
		k := k
		if steps := try(fmt.Sprintf("first slice expires at poll %d", k), func(step int) int {
			if step == 0 {
				return k
			}
			return 0
		}); steps == 1 {
			break // the expiry was never reached: everything beyond is the unsliced case
		}
	}
	for m := 4; m <= 8; m++ {
		m := m
		try(fmt.Sprintf("every slice expires at poll %d", m), func(int) int { return m })
	}
	return cases
}

type c16Target struct {
	hist    int
	round   basics.Round
	label   string
	secs    []c14Section
	file    *c14File
	muts    []c16Mut
	dump    map[string]string // state adopted by the faithful restore
	rejects map[string]int
}

func TestVerif_C16(t *testing.T) {
	r := ve.NewRun("C16", "exploration")
	r.Assume("blocks handed to VerifyCatchpoint / StoreBlock are authentic (block authentication is C30); the label given to SetLabel is the producer's label")
	r.Assume("catchup.CatchpointCatchupService's sequence of accessor calls is re-played by the harness (the network/tar layer is not executed)")
	dir := ve.ScratchDir("c16")
	defer c14RemoveAll(dir)
	rounds := ve.Pick(20, 24)
	hs := []*c14History{
		c14HistMixed(t, dir, "mixedB", c14ProtoB, func() c14Variant { v := c14DefaultVariant(); v.Rounds = rounds; return v }()),
		c14HistBoxes(t, dir, c14ProtoA, rounds),
		c14HistAssets(t, dir, c14ProtoB, rounds),
		c14HistAccounts(t, dir, c14ProtoA, rounds),
		// legacy file format (CatchpointFileVersionV7): faithful restore + continuation only
		c14HistAccountsNamed(t, dir, "accountsV7", c14ProtoC, rounds),
	}
	if ve.Thorough() {
		hs = append(hs, c14HistApps(t, dir, c14ProtoA, rounds), c14HistMixed(t, dir, "mixedA", c14ProtoA, func() c14Variant { v := c14DefaultVariant(); v.Rounds = rounds; return v }()))
	}
	restoreCfg := c14NodeCfg{Stored: true, InMem: true, NoLRU: true}
	var targets []*c16Target
	var mu sync.Mutex
	restored := 0
	sliceCases := 0
	var seq atomic.Int64

	// ---- producers + faithful restores
	for hi, h := range hs {
		h := h
		u := c16MakeUniverse(h)
		proto := config.Consensus[h.Proto]
		src := func(rnd basics.Round) (bookkeeping.Block, bool) {
			if rnd < 1 || int(rnd) > len(h.Blocks) {
				return bookkeeping.Block{}, false
			}
			return h.Blocks[rnd-1], true
		}
		prod, err := c14OpenNode(h.Gen, dir, "prod-"+h.Name, c14NodeCfg{Stored: true, InMem: true, NoLRU: true})
		if err != nil {
			t.Fatalf("harness: producer: %v", err)
		}
		prodObs, err := c14Run(prod, h, c14Plan{})
		if err != nil {
			t.Fatalf("harness: producer run: %v", err)
		}
		finalAns, err := c16Answers(prod.l, u, basics.Round(rounds), proto, basics.Round(rounds))
		if err != nil {
			t.Fatalf("harness: producer answers: %v", err)
		}
		cpRounds := c14SortedRounds(prodObs.Labels)
		// the producer itself must not fail while producing catchpoints
		for _, m := range prodObs.LogMsgs {
			if strings.Contains(m, "catchpoint") || strings.Contains(m, "Could not commit") || strings.Contains(m, "unable to advance tracker") {
				r.Report("C16:producer-catchpoint-error", fmt.Sprintf("history %s: the producing ledger logged %q while generating its catchpoints (labels produced: %v)", h.Name, m, cpRounds),
					map[string]any{"engine": "c16", "history": h.Name, "mutation": "none"})
				break
			}
		}
		if len(cpRounds) < 3 {
			if r.Violations() > 0 {
				prod.close()
				continue
			}
			t.Fatalf("harness: producer of %s made only %d catchpoints (log: %v)", h.Name, len(cpRounds), prodObs.LogMsgs)
		}
		for ci, cp := range cpRounds {
			secs, err := prod.catchpointFile(cp)
			if err != nil {
				t.Fatalf("harness: catchpoint file %d of %s: %v", cp, h.Name, err)
			}
			label := prodObs.Labels[cp]
			// a second producer stopped right when round cp is the tracker DB round answers for round cp
			ref, err := c14OpenNode(h.Gen, dir, fmt.Sprintf("ref-%s-%d", h.Name, cp), c14NodeCfg{Stored: false, InMem: true, NoLRU: true})
			if err != nil {
				t.Fatalf("harness: %v", err)
			}
			short := *h
			short.Blocks = h.Blocks[:cp]
			if _, err := c14Run(ref, &short, c14Plan{}); err != nil {
				t.Fatalf("harness: reference run: %v", err)
			}
			onlineFrom := cp.SubSaturate(basics.Round(proto.CatchpointLookback)) + 1
			if !proto.EnableCatchpointsWithOnlineAccounts {
				// a legacy file carries no online history: the restored ledger answers from the catchpoint round on
				onlineFrom = cp
			}
			want, err := c16Answers(ref.l, u, cp, proto, onlineFrom)
			ref.close()
			if err != nil {
				t.Fatalf("harness: reference answers: %v", err)
			}

			rn, err := c14OpenNode(h.Gen, dir, fmt.Sprintf("rest-%s-%d", h.Name, cp), restoreCfg)
			if err != nil {
				t.Fatalf("harness: %v", err)
			}
			replay := map[string]any{"engine": "c16", "history": h.Name, "catchpoint_round": cp, "mutation": "none"}
			acc, top, res := c14Stage(rn.l, label, secs, src, true)
			if res.Err != nil {
				r.Report("C16:valid-file-rejected", fmt.Sprintf("history %s: the producer's own catchpoint file of round %d (label %s) is rejected at %s: %v", h.Name, cp, label, res.Stage, res.Err), replay)
				rn.close()
				continue
			}
			if err := c14Adopt(acc, top, src); err != nil {
				r.Report("C16:valid-file-adoption-failed", fmt.Sprintf("history %s: completing the catchup from the producer's file of round %d failed: %v", h.Name, cp, err), replay)
				rn.close()
				continue
			}
			rn.attachProbe()
			restored++
			r.Eval()
			if rn.l.Latest() != cp {
				r.Report("C16:restored-round", fmt.Sprintf("history %s: restored ledger is at round %d, expected %d", h.Name, rn.l.Latest(), cp), replay)
			}
			dump, err := c14StateDump(rn.l)
			if err != nil {
				t.Fatalf("harness: dump: %v", err)
			}
			got, err := c16Answers(rn.l, u, cp, proto, onlineFrom)
			if err != nil {
				r.Report("C16:restored-query-error", fmt.Sprintf("history %s catchpoint %d: restored ledger cannot answer: %v", h.Name, cp, err), replay)
			} else if d := c14DiffDumps(want, got); len(d) > 0 {
				r.Report("C16:restored-state-differs", fmt.Sprintf("history %s catchpoint %d: restored ledger answers differently from the producer at round %d: %v (first: producer %q restored %q)", h.Name, cp, cp, d, want[d[0][1:]], got[d[0][1:]]), replay)
			}
			r.Class(fmt.Sprintf("restore/%s/%d/%d-answers", h.Name, cp, len(got)))
			// continue with the rest of the history: later labels and final state must match
			var contErr error
			last := basics.Round(0)
			obs := c14NewObs()
			for _, blk := range h.Blocks[cp:] {
				if contErr = rn.addBlock(blk, true); contErr != nil {
					break
				}
				if contErr = rn.observe(obs, &last); contErr != nil {
					break
				}
			}
			if contErr != nil {
				r.Report("C16:restored-cannot-continue", fmt.Sprintf("history %s catchpoint %d: restored ledger fails on the following blocks: %v", h.Name, cp, contErr), replay)
			} else {
				later := 0
				for _, lr := range cpRounds[ci+1:] {
					later++
					if obs.Labels[lr] != prodObs.Labels[lr] {
						r.Report("C16:restored-later-label-differs", fmt.Sprintf("history %s restored from catchpoint %d: label of round %d is %q, producer has %q", h.Name, cp, lr, obs.Labels[lr], prodObs.Labels[lr]), replay)
					}
				}
				gotFinal, err := c16Answers(rn.l, u, basics.Round(rounds), proto, basics.Round(rounds))
				if err != nil {
					r.Report("C16:restored-query-error", fmt.Sprintf("history %s catchpoint %d: restored ledger cannot answer at the end: %v", h.Name, cp, err), replay)
				} else if d := c14DiffDumps(finalAns, gotFinal); len(d) > 0 {
					r.Report("C16:restored-final-state-differs", fmt.Sprintf("history %s restored from catchpoint %d: state at round %d differs from the producer: %v", h.Name, cp, rounds, d), replay)
				}
				r.Class(fmt.Sprintf("continue/%s/%d/later-labels=%d", h.Name, cp, later))
			}
			rn.close()

			mutate := (ve.Thorough() || ci == len(cpRounds)-1) && proto.EnableCatchpointsWithOnlineAccounts
			if mutate {
				f, err := c14Decode(secs)
				if err != nil {
					t.Fatalf("harness: decode: %v", err)
				}
				// canonical re-encoding must reproduce the file
				re := f.encode()
				for i := range re {
					if string(re[i].Data) != string(secs[i].Data) {
						t.Fatalf("harness: section %s does not re-encode canonically", secs[i].Name)
					}
				}
				targets = append(targets, &c16Target{hist: hi, round: cp, label: label, secs: secs, file: f, muts: c16Mutations(f, ve.Thorough()), dump: dump, rejects: map[string]int{}})
			}
		}
		sliceCases += c16CheckWriterSlicing(r, prod.l, proto, h.Name, dir)
		prod.close()
		if hi == 0 {
			r.Sample(map[string]any{"history": h.Name, "labels": prodObs.Labels})
		}
	}
	r.Set("faithful_restores", restored)
	r.Set("writer_slicing_cases", sliceCases)

	// ---- mutations
	type pooled struct {
		n    *c14Node
		uses int
	}
	pools := make([]chan *pooled, len(hs))
	for i := range pools {
		pools[i] = make(chan *pooled, 64)
	}
	var accepted, benign, rejected, notApplicable atomic.Int64
	kvShiftAccepted := 0
	benignKinds := map[string]int{}
	adoptFailed := map[string]int{}
	adoptedDifferent := map[string]int{}
	var adoptedExamples []string
	for _, tg := range targets {
		tg := tg
		h := hs[tg.hist]
		src := func(rnd basics.Round) (bookkeeping.Block, bool) {
			if rnd < 1 || int(rnd) > len(h.Blocks) {
				return bookkeeping.Block{}, false
			}
			return h.Blocks[rnd-1], true
		}
		pristineOK := func(p *pooled) error {
			_, _, res := c14Stage(p.n.l, tg.label, tg.secs, src, false)
			if res.Err != nil {
				return fmt.Errorf("pristine file rejected on a reused ledger at %s: %v", res.Stage, res.Err)
			}
			return nil
		}
		var harnessErr atomic.Value
		r.ParallelFor(len(tg.muts), func(i int) {
			if r.OutOfTime() {
				return
			}
			m := &tg.muts[i]
			f, err := c14Decode(tg.secs)
			if err != nil {
				return
			}
			if !m.apply(f) {
				notApplicable.Add(1)
				return
			}
			msecs := f.encode()
			same := len(msecs) == len(tg.secs)
			for k := 0; same && k < len(msecs); k++ {
				same = msecs[k].Name == tg.secs[k].Name && string(msecs[k].Data) == string(tg.secs[k].Data)
			}
			if same {
				notApplicable.Add(1)
				return
			}
			var p *pooled
			select {
			case p = <-pools[tg.hist]:
			default:
				n, err := c14OpenNode(h.Gen, dir, fmt.Sprintf("att-%s-%d", h.Name, seq.Add(1)), restoreCfg)
				if err != nil {
					harnessErr.Store(err)
					return
				}
				p = &pooled{n: n}
			}
			_, _, res := c14Stage(p.n.l, tg.label, msecs, src, false)
			p.uses++
			r.Eval()
			replay := map[string]any{"engine": "c16", "history": h.Name, "catchpoint_round": tg.round, "mutation_index": i, "mutation": m.desc, "kind": m.kind}
			if tr := ve.Env("VERIF_C16_TRACE", ""); tr != "" && strings.Contains(m.kind, tr) {
				fmt.Printf("TRACE %s/%d %s => stage=%q err=%v\n", h.Name, tg.round, m.desc, res.Stage, res.Err)
			}
			if res.Err != nil {
				rejected.Add(1)
				mu.Lock()
				tg.rejects[res.Stage]++
				mu.Unlock()
				r.Class("rejected/" + res.Stage + "/" + m.kind)
				if p.uses%40 == 0 {
					if err := pristineOK(p); err != nil {
						harnessErr.Store(err)
					}
				}
				pools[tg.hist] <- p
				return
			}
			// accepted by every check: adopt on a fresh ledger and compare with the faithful restore
			accepted.Add(1)
			pools[tg.hist] <- p
			fn, err := c14OpenNode(h.Gen, dir, fmt.Sprintf("adopt-%s-%d", h.Name, seq.Add(1)), restoreCfg)
			if err != nil {
				harnessErr.Store(err)
				return
			}
			defer fn.close()
			acc, top, res2 := c14Stage(fn.l, tg.label, msecs, src, true)
			if res2.Err != nil {
				harnessErr.Store(fmt.Errorf("mutation %q accepted on a reused ledger but rejected on a fresh one at %s: %v", m.desc, res2.Stage, res2.Err))
				return
			}
			key := "C16:tamper-accepted:" + m.kind
			switch {
			case m.kind == "kv-boundary-shift":
				key = "C16:kv-boundary-shift"
			case strings.HasPrefix(m.kind, "dangling-partial-record"):
				key = "C16:dangling-partial-record"
			case strings.HasPrefix(m.kind, "shadowed-first-record"):
				key = "C16:shadowed-first-record"
			}
			if err := c14Adopt(acc, top, src); err != nil {
				mu.Lock()
				adoptFailed[m.kind+": "+err.Error()]++
				mu.Unlock()
				r.Report(key, fmt.Sprintf("history %s catchpoint %d: file with mutation {%s} passes ProcessStagingBalances, BuildMerkleTrie and VerifyCatchpoint against the producer's label %s; completing the catchup then fails: %v", h.Name, tg.round, m.desc, tg.label, err), replay)
				return
			}
			dump, err := c14StateDump(fn.l)
			if err != nil {
				harnessErr.Store(err)
				return
			}
			if d := c14DiffDumps(tg.dump, dump); len(d) > 0 {
				mu.Lock()
				if key == "C16:kv-boundary-shift" {
					kvShiftAccepted++
				}
				adoptedDifferent[m.kind]++
				if len(adoptedExamples) < 40 {
					adoptedExamples = append(adoptedExamples, fmt.Sprintf("%s/%d {%s}: adopted state differs in %v", h.Name, tg.round, m.desc, d))
				}
				mu.Unlock()
				r.Report(key, fmt.Sprintf("history %s catchpoint %d: file with mutation {%s} verifies against the producer's label %s and is adopted; the adopted state differs from the producer's in %v", h.Name, tg.round, m.desc, tg.label, d), replay)
				r.Class("accepted-different-state/" + m.kind)
				return
			}
			benign.Add(1)
			mu.Lock()
			benignKinds[m.kind]++
			mu.Unlock()
			r.Class("accepted-same-state/" + m.kind)
		})
		if e := harnessErr.Load(); e != nil {
			t.Fatalf("harness: %v", e)
		}
		// final pristine check on every pooled ledger of this history
		n := len(pools[tg.hist])
		for k := 0; k < n; k++ {
			p := <-pools[tg.hist]
			if err := pristineOK(p); err != nil {
				t.Fatalf("harness: %v", err)
			}
			pools[tg.hist] <- p
		}
		r.Note("history %s catchpoint %d: %d mutations, rejected by stage %v", h.Name, tg.round, len(tg.muts), tg.rejects)
		if len(tg.muts) > 0 {
			r.Sample(map[string]any{"history": h.Name, "catchpoint": tg.round, "mutation": tg.muts[len(tg.muts)/2].desc})
		}
	}
	for i := range pools {
		close(pools[i])
		for p := range pools[i] {
			p.n.close()
		}
	}
	r.Set("mutations_rejected", rejected.Load())
	r.Set("mutations_accepted_total", accepted.Load())
	r.Set("mutations_accepted_same_state", benign.Load())
	r.Set("mutations_not_applicable", notApplicable.Load())
	r.Set("accepted_same_state_by_kind", benignKinds)
	r.Set("accepted_but_adoption_failed", adoptFailed)
	r.Set("accepted_and_adopted_with_different_state_by_kind", adoptedDifferent)
	sort.Strings(adoptedExamples)
	r.Set("adopted_different_examples", adoptedExamples)
	r.Set("kv_boundary_shift_adopted", kvShiftAccepted)
	r.Set("files_mutated", len(targets))
	nv := r.Finish(ve.Coverage{Rule: fmt.Sprintf("%d histories: every catchpoint file restored faithfully (state + later labels compared); every single semantic mutation (list in the harness header) of %d files staged through the real accessor, accepted ones adopted and compared", len(hs), len(targets)),
		Exhaustive: true})
	if nv > 0 {
		t.Fatalf("C16: %d violation(s)", nv)
	}
}

var _ = context.Background
var _ crypto.Digest
