// place in: ledger/    run with: go test -run 'TestFindingC21SponsorCloseEscapesSizeDeposit' ./ledger
//
// Property C21: after every committed transaction group, every modified account (other than
// fee sink / rewards pool / state-proof sender) is either fully closed or holds at least the
// minimum balance implied by its assets, applications, state schema and boxes.
//
// Finding (unchanged tree, consensus vFuture / AppSizeUpdates): a third party that became the
// "size sponsor" of somebody else's app (ledger/apply/application.go updateApplication: the
// account charged for the app's global schema and extra pages) can CLOSE its account:
// apply.Payment's close path refuses outstanding assets, app params, local states and boxes, but
// not an outstanding size sponsorship (TotalAppSchema / TotalExtraAppPages are simply wiped).
//  (1) the deposit for the app's schema is paid back while the schema stays allocated;
//  (2) AppParams.SizeSponsor keeps naming the closed account, so when the app is later deleted
//      (or resized) the deposit is "released" a second time from whatever the re-opened account
//      holds then: its cached TotalAppSchema under-counts the apps it really owns and
//      checkMinBalance lets it withdraw below the minimum balance implied by those apps.
// No explorer involved: plain DoubleLedger test with the upstream helpers.

package ledger

import (
	"testing"

	"github.com/stretchr/testify/require"

	"github.com/algorand/go-algorand/config"
	"github.com/algorand/go-algorand/data/basics"
	"github.com/algorand/go-algorand/data/transactions"
	"github.com/algorand/go-algorand/data/txntest"
	ledgertesting "github.com/algorand/go-algorand/ledger/testing"
	"github.com/algorand/go-algorand/protocol"
	"github.com/algorand/go-algorand/test/partitiontest"
)

func TestFindingC21SponsorCloseEscapesSizeDeposit(t *testing.T) {
	partitiontest.PartitionTest(t)

	genBalances, addrs, _ := ledgertesting.NewTestGenesis(ledgertesting.TurnOffRewards)
	cv := protocol.ConsensusFuture
	proto := config.Consensus[cv]
	reqs := proto.BalanceRequirements()
	dl := NewDoubleLedger(t, genBalances, cv, config.GetDefaultLocal())
	defer dl.Close()

	creator, funder := addrs[0], addrs[1]
	sponsor := basics.Address{0xC2, 0x1F, 0x01} // a fresh account

	try := func(tx *txntest.Txn) error {
		t.Helper()
		dl.beginBlock()
		fillDefaults(t, dl.generator, dl.eval, tx)
		stxns := []transactions.SignedTxn{tx.SignedTxn()}
		err := dl.eval.TransactionGroup(transactions.WrapSignedTxnsWithAD(stxns)...)
		if err != nil {
			dl.eval = nil
			return err
		}
		dl.endBlock()
		return nil
	}

	schema := basics.StateSchema{NumUint: 8}
	schemaCost := schema.MinBalance(reqs).Raw
	anyone := main("") // approves every call, update and delete

	// X belongs to `creator`.
	x := dl.createApp(creator, anyone, basics.StateSchema{NumUint: 1})
	require.NoError(t, try(&txntest.Txn{Type: "pay", Sender: funder, Receiver: sponsor, Amount: 2_000_000}))

	// 1. `sponsor` resizes X's globals and becomes its size sponsor: it now owes schemaCost.
	require.NoError(t, try(&txntest.Txn{
		Type: "appl", Sender: sponsor, ApplicationID: x, OnCompletion: transactions.UpdateApplicationOC,
		ApprovalProgram: anyone, ClearStateProgram: anyone, GlobalStateSchema: schema,
	}))
	sp := lookup(t, dl.generator, sponsor)
	require.Equal(t, schema, sp.TotalAppSchema)
	require.Equal(t, proto.MinBalance+schemaCost, sp.MinBalance(proto.BalanceRequirements()).Raw)

	// 2. The sponsor closes its account. This should be refused like any close with outstanding
	// obligations; it is accepted, the deposit leaves, X keeps its 8 global uints.
	errClose := try(&txntest.Txn{Type: "pay", Sender: sponsor, CloseRemainderTo: funder})
	t.Logf("close of the sponsoring account: err=%v", errClose)
	xres, err := dl.generator.LookupApplication(dl.generator.Latest(), creator, x)
	require.NoError(t, err)
	require.Equal(t, schema, xres.AppParams.GlobalStateSchema)
	t.Logf("X.SizeSponsor=%v (closed account: %v)", xres.AppParams.SizeSponsor, lookup(t, dl.generator, sponsor).MicroAlgos.IsZero())

	// 3. The account is opened again and creates an app Y of its own with 8 global uints.
	require.NoError(t, try(&txntest.Txn{Type: "pay", Sender: funder, Receiver: sponsor, Amount: 2_000_000}))
	y := dl.createApp(sponsor, anyone, schema)
	implied := proto.MinBalance + proto.AppFlatParamsMinBalance + schemaCost // what owning Y implies (not even counting X)

	// 4. X is deleted: the stale SizeSponsor gets X's schema "released" from its record.
	require.NoError(t, try(&txntest.Txn{Type: "appl", Sender: creator, ApplicationID: x, OnCompletion: transactions.DeleteApplicationOC}))
	sp = lookup(t, dl.generator, sponsor)
	t.Logf("after deleting X: sponsor counters schema=%+v, repo min balance=%d, implied by Y alone=%d",
		sp.TotalAppSchema, sp.MinBalance(proto.BalanceRequirements()).Raw, implied)

	// 5. The account still owns Y but may now withdraw Y's schema deposit.
	bal := micros(t, dl.generator, sponsor)
	fee := proto.MinTxnFee
	errDrain := try(&txntest.Txn{Type: "pay", Sender: sponsor, Receiver: funder, Fee: fee,
		Amount: bal - fee - proto.MinBalance - proto.AppFlatParamsMinBalance})
	_, ok, err := dl.generator.GetCreator(basics.CreatableIndex(y), basics.AppCreatable)
	require.NoError(t, err)
	require.True(t, ok, "Y is still alive")
	have := micros(t, dl.generator, sponsor)
	t.Logf("withdrawal: err=%v; balance now %d, minimum balance implied by Y %d", errDrain, have, implied)

	if errClose == nil {
		t.Errorf("an account that sponsors the size of an app was allowed to close (deposit for X's schema escaped)")
	}
	require.GreaterOrEqual(t, have, implied, "account owning app Y (8 global uints) ended a committed group below the minimum balance implied by Y")
}
