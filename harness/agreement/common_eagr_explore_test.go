package agreement

// E-AGR, part 4: events, replay, and the full-reachability explorer (BFS with canonical state
// hashing). The deviation-bounded explorer is in common_eagr_dfs_test.go.

import (
	"bytes"
	"encoding/json"
	"fmt"
	"reflect"
	"sync"
	"sync/atomic"

	"github.com/algorand/go-algorand/data/basics"
	"github.com/algorand/go-algorand/protocol"
	ve "github.com/algorand/go-algorand/verifeng"
)

// eagrEv is one schedulable event; a list of them is a replayable execution.
type eagrEv struct {
	K   string `json:"k"`             // deliver | dup | drop | hold | timeout | fast | loop | verify | crash | catchup | byz
	N   int    `json:"n"`             // node
	M   string `json:"m,omitempty"`   // message id (deliver/dup/drop/hold)
	T   int64  `json:"t,omitempty"`   // virtual time of a timeout (DFS)
	Idx int    `json:"idx,omitempty"` // verify: index into the pending verifications
	// byz: vote of adversary account Acct for (R,P,S,V) delivered to node N
	Acct int    `json:"acct,omitempty"`
	R    uint64 `json:"r,omitempty"`
	P    uint64 `json:"p,omitempty"`
	S    uint64 `json:"s,omitempty"`
	V    string `json:"v,omitempty"` // "bot" or hex prefix of the block digest
	D    string `json:"d,omitempty"` // human readable description (not used by replay)
}

func (e eagrEv) String() string {
	switch e.K {
	case "deliver", "dup", "drop", "hold":
		return fmt.Sprintf("%s(%s->n%d %s)", e.K, e.M, e.N, e.D)
	case "byz":
		return fmt.Sprintf("byz(a%d r%d p%d s%d %s ->n%d)", e.Acct, e.R, e.P, e.S, e.V, e.N)
	case "timeout", "fast":
		return fmt.Sprintf("%s(n%d @%dms)", e.K, e.N, e.T/1e6)
	case "tick":
		return fmt.Sprintf("tick(nodes %03b)", e.Idx)
	}
	return fmt.Sprintf("%s(n%d)", e.K, e.N)
}

func (s *eagrSys) findFlight(dst int, id string) int {
	best := -1
	for i, f := range s.flight {
		if f.dst == dst && f.m.ID() == id {
			if best < 0 || f.seq < s.flight[best].seq {
				best = i
			}
		}
	}
	return best
}

func (s *eagrSys) removeFlight(i int) eagrFlight {
	f := s.flight[i]
	s.flight = append(append([]eagrFlight(nil), s.flight[:i]...), s.flight[i+1:]...)
	return f
}

func (s *eagrSys) purge() {
	j := 0
	for _, f := range s.flight {
		if !s.nodes[f.dst].passive {
			s.flight[j] = f
			j++
		}
	}
	s.flight = s.flight[:j]
}

// valueByName finds a proposal value seen on the network by the hex prefix of its digest.
func (s *eagrSys) valueByName(v string) (proposalValue, bool) {
	if v == "bot" {
		return bottom, true
	}
	for pv := range s.values {
		if eagrPV(pv) == v {
			return pv, true
		}
	}
	return proposalValue{}, false
}

// apply performs one event on s (which must be privately owned: nodes are cloned on write).
func (s *eagrSys) apply(e eagrEv, out *eagrOut) error {
	if e.N < 0 || e.N >= len(s.nodes) {
		return fmt.Errorf("bad node %d", e.N)
	}
	switch e.K {
	case "deliver", "dup", "drop", "hold":
		i := s.findFlight(e.N, e.M)
		if i < 0 {
			return fmt.Errorf("%v: no such message in flight", e)
		}
		f := s.flight[i]
		switch e.K {
		case "drop":
			s.removeFlight(i)
			return nil
		case "hold": // move to the back of the queue
			s.removeFlight(i)
			s.seq++
			f.seq = s.seq
			s.flight = append(s.flight, f)
			return nil
		case "deliver":
			s.removeFlight(i)
		}
		if s.nodes[e.N].passive {
			return nil
		}
		s.own(e.N).deliver(s, f.m, f.src, out)
	case "timeout", "fast":
		if e.T > s.now {
			s.now = e.T
		}
		s.own(e.N).timeout(s, e.K == "fast", out)
	case "tick": // lock-step explorer: the nodes in mask Idx take their timeout, in node order
		for j := range s.nodes {
			if e.Idx&(1<<uint(j)) != 0 && !s.nodes[j].passive {
				s.own(j).timeout(s, false, out)
			}
		}
	case "loop":
		n := s.own(e.N)
		if len(n.loop) == 0 {
			return fmt.Errorf("%v: loopback queue empty", e)
		}
		n.loopStep(s, out)
		n.settle(s, out)
	case "verify":
		n := s.own(e.N)
		if e.Idx >= len(n.ver) {
			return fmt.Errorf("%v: no such pending verification", e)
		}
		n.verStep(s, e.Idx, out)
		n.settle(s, out)
	case "crash":
		s.own(e.N).restart(s, out)
	case "catchup":
		n := s.nodes[e.N]
		var ent *eagrEntry
		for _, o := range s.nodes {
			if x, ok := o.led.entries[n.led.next]; ok && o != n {
				ent = x
				break
			}
		}
		if ent == nil {
			return fmt.Errorf("%v: nobody committed round %d", e, n.led.next)
		}
		s.own(e.N).catchup(s, ent, out)
	case "byz":
		pv, ok := s.valueByName(e.V)
		if !ok {
			return fmt.Errorf("%v: unknown value", e)
		}
		env := s.cfg.env
		rv := rawVote{Sender: env.addrs[e.Acct], Round: basics.Round(e.R), Period: period(e.P), Step: step(e.S), Proposal: pv}
		uv, err := env.makeVote(e.Acct, rv, s.nodes[e.N].led)
		if err != nil {
			return fmt.Errorf("%v: %v", e, err)
		}
		s.stats.byzVotes++
		m := env.intern(&eagrMsg{tag: protocol.AgreementVoteTag, vote: uv})
		if s.sent != nil {
			s.sent[m.ID()+string(rune('0'+e.N))] = true
		}
		s.own(e.N).deliver(s, m, -1, out)
	default:
		return fmt.Errorf("unknown event kind %q", e.K)
	}
	s.purge()
	s.fixBarrier()
	return nil
}

// fixBarrier starts a new delivery sub-phase when no in-flight message of the current one is left.
func (s *eagrSys) fixBarrier() {
	if !s.cfg.ordered {
		return
	}
	for _, f := range s.flight {
		if f.seq <= s.barrier {
			return
		}
	}
	s.barrier = s.seq
}

// eagrReplay re-executes an event list on a fresh system of the given configuration.
func eagrReplay(cfg *eagrCfg, evs []eagrEv, each func(i int, e eagrEv, s *eagrSys, out *eagrOut) bool) (*eagrSys, error) {
	s := eagrNewSys(cfg)
	out := &eagrOut{trace: true}
	s.boot(out)
	if each != nil && !each(-1, eagrEv{K: "boot"}, s, out) {
		return s, nil
	}
	s.fixBarrier()
	for i, e := range evs {
		out = &eagrOut{trace: true}
		if err := s.apply(e, out); err != nil {
			return s, fmt.Errorf("replay step %d: %v", i, err)
		}
		if each != nil && !each(i, e, s, out) {
			break
		}
	}
	return s, nil
}

// ---------------------------------------------------------------------------------------------
// BFS

type eagrPath struct {
	parent *eagrPath
	ev     eagrEv
	depth  int
}

func (p *eagrPath) list() []eagrEv {
	var evs []eagrEv
	for q := p; q != nil && q.parent != nil; q = q.parent {
		evs = append(evs, q.ev)
	}
	for i, j := 0, len(evs)-1; i < j; i, j = i+1, j-1 {
		evs[i], evs[j] = evs[j], evs[i]
	}
	return evs
}

// eagrBFS configures one full-reachability exploration.
type eagrBFS struct {
	name       string
	cfg        *eagrCfg
	maxStep    step  // a node takes timeouts while Step < maxStep, or Step == maxStep and napping
	fast       bool  // fast-recovery timeouts are schedulable
	maxCrashes int   // total crash-restarts per execution
	catchup    bool  // ledger catch-up events are schedulable
	maxStates  int64 // cap (reported, exhaustive:false)
	maxDepth   int   // cap on BFS depth (0: none)
	// lock-step schedule family (cfg.ordered): execution = alternation of delivery phases and
	// ticks. In a delivery sub-phase every message in flight at its start is, in send order,
	// delivered, lost, or (at most maxDefers times per execution) deferred to the next sub-phase;
	// messages sent meanwhile form the next sub-phase. When nothing is in flight, a tick fires the
	// timeout of every active node (skew: of any non-empty subset of them).
	lockstep  bool
	maxDefers int
	skew      bool
	// onStep is called for every executed transition (pre-state, event, post-state, observations).
	// path() returns the event list from the initial state up to and including this event.
	onStep func(pre *eagrSys, e eagrEv, post *eagrSys, out *eagrOut, path func() []eagrEv)
}

type eagrBFSResult struct {
	states, transitions int64
	depth               int
	exhaustive          bool
	capReason           string
	stats               eagrStats
	maxPeriod           uint64
	layerSizes          []int
}

type eagrVisited struct {
	shards [256]struct {
		mu sync.Mutex
		m  map[[16]byte]struct{}
	}
}

func (v *eagrVisited) add(k [16]byte) bool {
	sh := &v.shards[k[0]]
	sh.mu.Lock()
	defer sh.mu.Unlock()
	if sh.m == nil {
		sh.m = map[[16]byte]struct{}{}
	}
	if _, ok := sh.m[k]; ok {
		return false
	}
	sh.m[k] = struct{}{}
	return true
}

// enabled lists the events schedulable in s under the bounds of b.
func (b *eagrBFS) enabled(s *eagrSys) []eagrEv {
	var evs []eagrEv
	crashes := 0
	for _, n := range s.nodes {
		crashes += n.crashes
	}
	if b.lockstep {
		best := -1
		for i, f := range s.flight {
			if f.seq <= s.barrier && (best < 0 || f.seq < s.flight[best].seq) {
				best = i
			}
		}
		if best >= 0 {
			f := s.flight[best]
			evs = append(evs, eagrEv{K: "deliver", N: f.dst, M: f.m.ID(), D: f.m.desc}, eagrEv{K: "drop", N: f.dst, M: f.m.ID(), D: f.m.desc})
			if s.defers < b.maxDefers {
				evs = append(evs, eagrEv{K: "hold", N: f.dst, M: f.m.ID(), D: f.m.desc})
			}
			return evs
		}
		mask := 0
		for j, n := range s.nodes {
			if !n.passive && (n.p.Step < b.maxStep || (n.p.Step == b.maxStep && n.p.Napping)) {
				mask |= 1 << uint(j)
			}
		}
		if mask != 0 {
			if b.skew {
				for sub := 1; sub <= mask; sub++ {
					if sub&mask == sub {
						evs = append(evs, eagrEv{K: "tick", Idx: sub})
					}
				}
			} else {
				evs = append(evs, eagrEv{K: "tick", Idx: mask})
			}
		}
		for j, n := range s.nodes {
			if !n.passive && crashes < b.maxCrashes {
				evs = append(evs, eagrEv{K: "crash", N: j})
			}
		}
		return evs
	}
	for j, n := range s.nodes {
		if n.passive {
			continue
		}
		seen := map[*eagrMsg]bool{}
		for _, f := range s.flight {
			if f.dst == j && !seen[f.m] {
				seen[f.m] = true
				evs = append(evs, eagrEv{K: "deliver", N: j, M: f.m.ID(), D: f.m.desc})
			}
		}
		if n.p.Step < b.maxStep || (n.p.Step == b.maxStep && n.p.Napping) {
			evs = append(evs, eagrEv{K: "timeout", N: j})
		}
		if b.fast {
			evs = append(evs, eagrEv{K: "fast", N: j})
		}
		if crashes < b.maxCrashes {
			evs = append(evs, eagrEv{K: "crash", N: j})
		}
		if b.catchup {
			for _, o := range s.nodes {
				if _, ok := o.led.entries[n.led.next]; ok && o != n {
					evs = append(evs, eagrEv{K: "catchup", N: j})
					break
				}
			}
		}
	}
	return evs
}

type eagrBFSState struct {
	sys  *eagrSys
	path *eagrPath
}

// run explores every state reachable under the bounds, layer by layer, on all cores.
func (b *eagrBFS) run(r *ve.Run) eagrBFSResult {
	res := eagrBFSResult{exhaustive: true}
	var visited eagrVisited
	init := eagrNewSys(b.cfg)
	out0 := &eagrOut{}
	init.boot(out0)
	init.fixBarrier()
	root := &eagrPath{}
	if b.onStep != nil {
		b.onStep(init, eagrEv{K: "boot"}, init, out0, func() []eagrEv { return nil })
	}
	visited.add(init.key())
	res.states = 1
	frontier := []eagrBFSState{{sys: init, path: root}}
	var transitions atomic.Int64
	var statsMu sync.Mutex
	var maxPeriod atomic.Uint64
	for depth := 0; len(frontier) > 0; depth++ {
		res.depth = depth
		res.layerSizes = append(res.layerSizes, len(frontier))
		if b.maxDepth > 0 && depth >= b.maxDepth {
			res.exhaustive = false
			res.capReason = fmt.Sprintf("depth cap %d reached with %d frontier states", b.maxDepth, len(frontier))
			break
		}
		if b.maxStates > 0 && res.states >= b.maxStates {
			res.exhaustive = false
			res.capReason = fmt.Sprintf("state cap %d reached at depth %d with %d frontier states", b.maxStates, depth, len(frontier))
			break
		}
		next := make([][]eagrBFSState, len(frontier))
		done := r.ParallelFor(len(frontier), func(i int) {
			st := frontier[i]
			var local eagrStats
			for _, e := range b.enabled(st.sys) {
				t := st.sys.clone()
				t.stats = eagrStats{}
				out := &eagrOut{}
				if err := t.apply(e, out); err != nil {
					out.panicMsg = "harness: " + err.Error()
				}
				transitions.Add(1)
				local.add(&t.stats)
				np := &eagrPath{parent: st.path, ev: e, depth: depth + 1}
				if b.onStep != nil {
					b.onStep(st.sys, e, t, out, np.list)
				}
				if out.panicMsg != "" {
					continue // reported by onStep; the successor state is not meaningful
				}
				for _, n := range t.nodes {
					if uint64(n.p.Period) > maxPeriod.Load() {
						maxPeriod.Store(uint64(n.p.Period))
					}
				}
				if visited.add(t.key()) {
					next[i] = append(next[i], eagrBFSState{sys: t, path: np})
				}
			}
			statsMu.Lock()
			res.stats.add(&local)
			statsMu.Unlock()
		})
		var nf []eagrBFSState
		for i := range next {
			nf = append(nf, next[i]...)
			next[i] = nil
		}
		res.states += int64(len(nf))
		if int(done) < len(frontier) {
			res.exhaustive = false
			res.capReason = fmt.Sprintf("time budget ended inside depth %d", depth)
			break
		}
		if r.Violations() > 0 {
			res.exhaustive = false
			res.capReason = "stopped after a violation"
			break
		}
		frontier = nf
	}
	res.transitions = transitions.Load()
	res.maxPeriod = maxPeriod.Load()
	return res
}

// ---------------------------------------------------------------------------------------------
// C07 differential (also usable by any check: cfg.diff)

// eagrEphemeral lists the fields the code documents as not persisted; they are cleared in the
// reference image of a live state before it is compared with its decode(encode()) image.
var eagrEphemeral = map[string]string{
	"message.messageHandle":                  "message.go: 'explicitly unexport this field since we can't define serializers' (network handle of a live connection)",
	"networkAction.h":                        "actions.go: 'this is cleared to correctly handle ephemeral network state on recovery'",
	"proposal.ve":                            "proposal.go: 'This is not serialized to disk, so after a crash, we will fall back to applying the raw Block'",
	"proposal.validatedAt":                   "proposal.go: timing of validation relative to the round's zero, telemetry / dynamic filter timeout only",
	"unauthenticatedProposal.receivedAt":     "proposal.go: timing of receipt, telemetry only",
	"vote.validatedAt":                       "vote.go: timing of verification, feeds credentialArrivalHistory (length of the filter timeout) only",
	"player.dynamicFilterTimeout":            "player.go: 'used for reporting to telemetry'",
	"proposalSeeker.lowestIncludingLate":     "proposalTracker.go: late-credential tracking for the dynamic filter timeout",
	"proposalSeeker.hasLowestIncludingLate":  "proposalTracker.go: late-credential tracking for the dynamic filter timeout",
	"checkpointAction.done":                  "actions.go: 'We don't want to serialize that, since it's not needed in recovery/autopsy'",
	"ensureAction.voteValidatedAt":           "actions.go: telemetry",
	"ensureAction.dynamicFilterTimeout":      "actions.go: telemetry",
}

type eagrDiffer struct {
	copier   *eagrCopier
	states   atomic.Int64 // states round-tripped
	events   atomic.Int64 // events executed on both images
	actsCmp  atomic.Int64 // actions compared
	actTrips atomic.Int64 // action lists round-tripped
	withKids atomic.Int64 // states with period / step sub-routers
	withEq   atomic.Int64 // states holding an equivocation record
	withPend atomic.Int64 // states with pending-table entries
	withNext atomic.Int64 // states holding next-round (pipelined) routers
}

func eagrNewDiffer() *eagrDiffer {
	return &eagrDiffer{copier: &eagrCopier{zero: eagrEphemeral}}
}

type eagrShadow struct {
	p    player
	rr   rootRouter
	acts []action
	pm   string
	err  string
	ref  *eagrNode // the ephemeral-cleared reference image, advanced by the same event
	refA []action
	refP string
}

func eagrDropOldRounds(rr *rootRouter, p *player) {
	// encode(): "Don't persist state for old rounds"
	kids := map[basics.Round]*roundRouter{}
	for r, c := range rr.Children {
		if r >= p.Round {
			kids[r] = c
		}
	}
	if len(kids) == 0 {
		rr.Children = nil
	} else {
		rr.Children = kids
	}
}

func eagrStateDiff(pa *player, ra *rootRouter, pb *player, rb *rootRouter) string {
	o := &eagrDiffOpts{skip: map[string]string{
		"rootRouter.root": "", "rootRouter.proposalRoot": "", "rootRouter.voteRoot": "",
		"roundRouter.proposalRoot": "", "roundRouter.voteRoot": "",
		"periodRouter.proposalRoot": "", "periodRouter.voteRoot": "",
		"stepRouter.voteRoot": "",
	}}
	if d := eagrDiff("player", reflect.ValueOf(pa).Elem(), reflect.ValueOf(pb).Elem(), o); d != "" {
		return d
	}
	return eagrDiff("router", reflect.ValueOf(ra).Elem(), reflect.ValueOf(rb).Elem(), o)
}

// prepare round-trips the live state of n through the persistence format and runs the event on
// the restored image and on the reference image (live state with the documented ephemeral fields cleared).
func (d *eagrDiffer) prepare(s *eagrSys, n *eagrNode, e externalEvent) *eagrShadow {
	sh := &eagrShadow{}
	d.states.Add(1)
	log := serviceLogger{s.cfg.env.log}
	clk := eagrClock{zero: n.zero}
	raw := encode(clk, n.rr, n.p, nil, false)
	c2, rr2, p2, _, err := decode(raw, eagrClock{}, log, false)
	if err != nil {
		sh.err = fmt.Sprintf("decode(encode(S)) failed: %v", err)
		return sh
	}
	if c2.(eagrClock).zero != n.zero {
		sh.err = "clock zero not restored"
		return sh
	}
	if raw2 := encode(c2, rr2, p2, nil, false); !bytes.Equal(raw, raw2) {
		sh.err = fmt.Sprintf("re-encoding the restored state gives different bytes (%d vs %d bytes)", len(raw), len(raw2))
		return sh
	}
	// reflection codec path
	rawR := encode(clk, n.rr, n.p, nil, true)
	c3, rr3, p3, _, err := decode(rawR, eagrClock{}, log, true)
	if err != nil {
		sh.err = fmt.Sprintf("decodeReflect(encodeReflect(S)) failed: %v", err)
		return sh
	}
	if raw3 := encode(c3, rr3, p3, nil, false); !bytes.Equal(raw, raw3) {
		sh.err = fmt.Sprintf("state restored through the reflection codec re-encodes differently (%d vs %d bytes)", len(raw), len(raw3))
		return sh
	}
	// independent reference image
	ref := &eagrNode{id: n.id, led: n.led, zero: n.zero, hist: n.hist}
	// player.lowestCredentialArrivals (history of credential arrival times; influences only the
	// duration of the period-0 filter timeout) is documented as not persisted: decode() re-creates
	// it empty, and so does the reference image.
	np := n.p
	np.lowestCredentialArrivals = makeCredentialArrivalHistory(dynamicFilterCredentialArrivalHistory)
	ref.p, ref.rr = d.copier.copyState(&np, &n.rr)
	eagrDropOldRounds(&ref.rr, &ref.p)
	if df := eagrStateDiff(&ref.p, &ref.rr, &p2, &rr2); df != "" {
		sh.err = "restored state differs from the live state: " + df
		return sh
	}
	d.classify(&ref.p, &ref.rr)
	// same event on both images
	d.events.Add(1)
	rn := &eagrNode{id: n.id, led: n.led, zero: n.zero, hist: n.hist, p: p2, rr: rr2}
	sh.acts, sh.pm = rn.rawSubmit(s, e)
	sh.p, sh.rr = rn.p, rn.rr
	sh.refA, sh.refP = ref.rawSubmit(s, e)
	sh.ref = ref
	return sh
}

func (d *eagrDiffer) classify(p *player, rr *rootRouter) {
	kids, eq, nxt := false, false, false
	for r, c := range rr.Children {
		if r > p.Round && len(c.Children) > 0 {
			nxt = true
		}
		for _, pc := range c.Children {
			for _, sc := range pc.Children {
				kids = true
				if len(sc.VoteTracker.Equivocators) > 0 {
					eq = true
				}
			}
		}
	}
	if kids {
		d.withKids.Add(1)
	}
	if eq {
		d.withEq.Add(1)
	}
	if nxt {
		d.withNext.Add(1)
	}
	if len(p.Pending.Pending) > 0 {
		d.withPend.Add(1)
	}
}

func eagrActsKey(as []action) []string {
	var r []string
	for _, a := range as {
		r = append(r, eagrActStr(a))
	}
	return r
}

// compare checks that the restored image and the reference image behaved identically on the event,
// and that the produced action list survives the persistence format.
func (d *eagrDiffer) compare(s *eagrSys, n *eagrNode, e externalEvent, live []action, sh *eagrShadow) string {
	if sh.err != "" {
		return sh.err
	}
	if sh.pm != "" || sh.refP != "" {
		if (sh.pm == "") != (sh.refP == "") {
			return fmt.Sprintf("event %s: only one image panicked (restored: %q, reference: %q)", eagrEvStr(e), sh.pm, sh.refP)
		}
		return ""
	}
	ka, kb := eagrActsKey(sh.refA), eagrActsKey(sh.acts)
	d.actsCmp.Add(int64(len(ka)))
	if !reflect.DeepEqual(ka, kb) {
		return fmt.Sprintf("event %s: restored node emits %v, uncrashed node emits %v", eagrEvStr(e), kb, ka)
	}
	eagrDropOldRounds(&sh.ref.rr, &sh.ref.p)
	ra := encode(eagrClock{}, sh.ref.rr, sh.ref.p, nil, false)
	rb := encode(eagrClock{}, sh.rr, sh.p, nil, false)
	if !bytes.Equal(ra, rb) {
		df := eagrStateDiff(&sh.ref.p, &sh.ref.rr, &sh.p, &sh.rr)
		return fmt.Sprintf("event %s: successor of the restored node encodes differently from the successor of the uncrashed node (%s)", eagrEvStr(e), df)
	}
	if df := eagrStateDiff(&sh.ref.p, &sh.ref.rr, &sh.p, &sh.rr); df != "" {
		return fmt.Sprintf("event %s: successor states differ: %s", eagrEvStr(e), df)
	}
	// pending actions: the list produced by the live node must survive encode/decode
	if len(live) > 0 {
		d.actTrips.Add(1)
		log := serviceLogger{s.cfg.env.log}
		raw := encode(eagrClock{zero: n.zero}, n.rr, n.p, live, false)
		_, _, _, a2, err := decode(raw, eagrClock{}, log, false)
		if err != nil {
			return fmt.Sprintf("decode of state with pending actions %v failed: %v", eagrActsKey(live), err)
		}
		if len(a2) != len(live) {
			return fmt.Sprintf("pending actions: %d persisted, %d restored", len(live), len(a2))
		}
		o := &eagrDiffOpts{skip: eagrEphemeral}
		for i := range live {
			x := reflect.New(reflect.TypeOf(live[i])).Elem()
			x.Set(reflect.ValueOf(live[i]))
			if reflect.TypeOf(a2[i]) != reflect.TypeOf(live[i]) {
				return fmt.Sprintf("pending action %d: type %T restored as %T", i, live[i], a2[i])
			}
			y := reflect.New(reflect.TypeOf(a2[i])).Elem()
			y.Set(reflect.ValueOf(a2[i]))
			if df := eagrDiff(fmt.Sprintf("action[%d:%s]", i, live[i].t()), x, y, o); df != "" {
				return "pending action restored differently: " + df
			}
		}
	}
	return ""
}

// eagrJSON renders an event list compactly for samples.
func eagrJSON(evs []eagrEv) string {
	b, _ := json.Marshal(evs)
	return string(b)
}
