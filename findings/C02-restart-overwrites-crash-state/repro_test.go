package agreement

// Plain unit test (no explorer) for the finding reported by check C02 part (i):
//
//   Service.mainLoop restores (router, player, pending actions) from the crash database but does not
//   initialise Service.persistRouter / persistStatus / persistActions from them. The restored pending
//   actions are then executed again; a restored attest action calls Service.persistState, which
//   encodes those three (still zero) fields and OVERWRITES the crash database with an empty state
//   (player.Round == 0). Until the next genuine attest, the node's crash state is gone: a second
//   crash makes mainLoop take the "no fresh and valid state" branch and start a brand-new player for
//   the current round, which has forgotten every vote the account already cast in this round and
//   will vote again - possibly for a different value (equivocation by an honest account).
//
// The test drives the REAL agreement.Service (upstream test fixtures: testingNetwork, testLedger,
// testingClock, in-memory crash DB): one node of five (so it can never reach a quorum alone)
// soft-votes, is shut down, and is started again on the same crash database.

import (
	"testing"
	"time"

	"github.com/stretchr/testify/require"

	"github.com/algorand/go-algorand/logging"
)

func c02ReadCrashState(t *testing.T, s *Service) (player, []action, bool) {
	log := serviceLogger{logging.Base()}
	raw, err := restore(log, s.Accessor)
	if err != nil {
		return player{}, nil, false
	}
	_, _, p, a, err := decode(raw, makeTestingClock(nil), log, false)
	if err != nil {
		return player{}, nil, false
	}
	return p, a, true
}

func TestC02RestartOverwritesCrashState(t *testing.T) {
	_, _, cleanupFn, services, clocks, _, _ := setupAgreement(t, 5, disabled, makeTestLedger)
	defer cleanupFn()

	s1 := services[0]
	s1.Start()

	// wait until the node armed its filter timeout, then fire it: the node soft-votes its own
	// proposal (attest action => state persisted, then the vote is released)
	c := clocks[0].(*testingClock)
	require.Eventually(t, func() bool { _, err := c.when(TimeoutFilter); return err == nil }, 10*time.Second, 10*time.Millisecond)
	time.Sleep(300 * time.Millisecond) // let the own proposal go through the state machine
	c.prepareToFire()
	c.fire(TimeoutFilter)

	var p1 player
	var a1 []action
	require.Eventually(t, func() bool {
		p, a, ok := c02ReadCrashState(t, s1)
		if !ok || !persistent(a) {
			return false
		}
		p1, a1 = p, a
		return true
	}, 10*time.Second, 20*time.Millisecond, "the soft vote never produced a crash state")
	require.Equal(t, round(1), p1.Round)
	require.Equal(t, cert, p1.Step) // after the soft vote
	t.Logf("crash state after the soft vote: round %d period %d step %d, %d pending action(s)", p1.Round, p1.Period, p1.Step, len(a1))
	time.Sleep(200 * time.Millisecond)
	s1.Shutdown() // "crash"

	// restart on the same crash database, ledger, keys
	params := Parameters(s1.parameters)
	s2, err := MakeService(params)
	require.NoError(t, err)
	s2.Start()
	// mainLoop restores the state and executes the restored pending actions again
	time.Sleep(1500 * time.Millisecond)
	s2.Shutdown()

	p2, a2, ok := c02ReadCrashState(t, s2)
	require.True(t, ok, "crash state unreadable after the restart")
	t.Logf("crash state after one restart:   round %d period %d step %d, %d pending action(s)", p2.Round, p2.Period, p2.Step, len(a2))
	require.Equal(t, p1.Round, p2.Round, "after a restart the crash database no longer holds the node's state: "+
		"a second crash would start a fresh player for round %d that has forgotten the votes already cast", p1.Round)
	require.Equal(t, p1.Step, p2.Step)
}
