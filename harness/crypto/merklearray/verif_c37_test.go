package merklearray

// C37 — Merkle array proofs are complete and sound.
//
// Engine E-ENUM, level exploration. Everything goes through the real Build /
// BuildVectorCommitmentTree / Tree.Prove / Verify / VerifyVectorCommitment.
//
// Enumerated: arrays of n = 0..9 (quick) / 0..12 (thorough) pairwise distinct elements;
// both tree modes (plain Build, vector commitment); hash factories Sha512_256, Sumhash,
// Sha256 (+ Sha512 in thorough); EVERY subset S of positions (2^n).
//
// Completeness, for every (mode, hash, n, S): Prove(S) succeeds (also when the position
// list is given reversed with a duplicate: identical proof), TreeDepth = ceil(log2 n),
// Verify(root, {p: A[p] | p in S}, proof) == nil, and the msgpack-decoded copy of the
// proof verifies too.
//
// Soundness, for every proof EVERY single mutation of the triple (root, elems, proof):
//   path-flip    each Path digest with one bit flipped (an empty digest — absent right
//                sibling in a plain tree — becomes 0x01 00..00)
//   path-drop    each Path digest removed
//   path-dup     each Path digest duplicated in place
//   treedepth+1 / treedepth-1
//   elem-other   element at p replaced by A[q] for every q != p;  elem-foreign: by a
//                value that is not in the array
//   pos-move     position p moved to every other position p' in [0, max(2^depth, n)]
//                (including one position past the tree)
//   root-flip / root-empty / root-other (root of the tree of the other mode)
//   extra-true   extra position q not in S with its true element A[q] (proof is for S, not
//                for S+q);  extra-foreign: extra position q in [0, 2^depth] with a foreign
//                element
//   depth+pos-compound (the one multi-field class): TreeDepth raised by e in {1,2,3} AND
//                positions shifted by multiples of 2^depth (plain: p + k*2^depth; vc: index
//                (i << e) | j), at least one position really shifted; every shift vector when
//                (2^e)^|S| <= 256, else all uniform and all single-position shifts. Neither
//                field alone reveals a verifier that forgets to check that the climb ends at
//                position 0.
// Oracle: every mutation must be rejected. Written from the statement: "A proof presented
// for a different element, position, root or tree depth does not verify"; a changed Path
// changes the recomputed root.
//
// Mutations NOT required to fail (recognised structurally, counted in the evidence):
//   (X1) S = {} : Verify documents "no elements => nothing to check" — root / depth
//        mutations of an empty claim are vacuous and skipped. extra-* on S = {} is still
//        checked.
//   (X2) the mutated triple is itself exactly what the prover generates: the claim is true
//        (same root, same depth, every (p, e) has e == A[p], p < n) and the path equals
//        Prove(positions')'s path (happens only for n == 1, S = {}, extra-true q = 0, both
//        paths empty). Expected to be ACCEPTED.
//   (X3) plain mode only, pos-move p -> p' >= n where p' differs from p only in bits k
//        that are 0 in p and whose sibling subtree at level k is absent from the tree
//        ((p>>k)|1 >= ceil(n/2^k)): layer.go documents an absent child as [0...0] and
//        pair.ToBeHashed then encodes (x, absent) and (absent, x) identically; Build's doc
//        comment says plain trees prove membership, not position ("If a proof of position
//        is require, a Vector Commitments is required"). Either outcome is tolerated;
//        every other p' (all p' < n, and all non-alias p' >= n) must be rejected. In
//        vector-commitment mode there is no exclusion: every p' must be rejected.
//
// Not covered: n > 12, crafted (non prover-generated) paths beyond single mutations,
// truncated digests, hash-factory substitution, SingleLeafProof encodings.
//
// Unexported identifiers used: none besides the package's exported API.
//
// GENUINE FINDING on the unchanged tree (known_findings.jsonl, findings/C37-treedepth-unchecked):
// TreeDepth +-1 mutations are accepted (verifyPath never checks the depth; the DESIGN
// mutant "Verify not checking TreeDepth" is therefore the shipped behaviour). Keys
// C37:treedepth+1/plain, C37:treedepth-1/plain, C37:treedepth+1/vc, C37:treedepth-1/vc.
//
// Mutants (bin/mut C37 <file> ..., run both on the unchanged code with the four known keys
// listed and on a scratch worktree carrying findings/C37-treedepth-unchecked/
// candidate-fix.patch; all DETECTED, each by a different mutation kind):
//   M1 partial.go: right sibling hashed as left (`if pos&1 == 0 || true`)
//        -> complete-verify (honest proofs for odd positions rejected)
//   M2 merkle.go inspectRoot: only a 16-byte prefix of the root compared -> root-flip
//   M3 vectorCommitmentArray.go: padding leaves are copies of the last element instead of
//      the domain-separated bottom leaf -> pos-move/vc (needs n not a power of two and the
//      last element in S)
//   M4 merkle.go verifyPath: hints left over after TreeDepth levels are ignored
//        -> path-dup (last digest duplicated)
//   M0 (the finding itself) merkle.go without the depth check -> treedepth+-1
//   M5 (seeded C37-B) inspectRoot no longer checks pos == 0 (`len(pl) != 1` instead): MISSED
//      by the single mutations, DETECTED by depth+pos-compound (both modes)

import (
	"bytes"
	"fmt"
	"math/bits"
	"sort"
	"sync"
	"testing"

	"github.com/algorand/go-algorand/crypto"
	"github.com/algorand/go-algorand/protocol"
	ve "github.com/algorand/go-algorand/verifeng"
)

type c37elem string

func (e c37elem) ToBeHashed() (protocol.HashID, []byte) { return protocol.Message, []byte(e) }

type c37array []c37elem

func (a c37array) Length() uint64 { return uint64(len(a)) }
func (a c37array) Marshal(pos uint64) (crypto.Hashable, error) {
	if pos >= uint64(len(a)) {
		return nil, fmt.Errorf("pos %d out of range %d", pos, len(a))
	}
	return a[pos], nil
}

const c37foreign = c37elem("c37 foreign element")

// c37compoundCap bounds the full product of shift vectors per (proof, e).
const c37compoundCap = 256

type c37tree struct {
	vc        bool
	ht        crypto.HashType
	n         int
	arr       c37array
	tree      *Tree
	root      crypto.GenericDigest
	depth     uint8
	otherRoot crypto.GenericDigest // root of the tree of the other mode over the same array
}

func (tr *c37tree) mode() string {
	if tr.vc {
		return "vc"
	}
	return "plain"
}

func (tr *c37tree) verify(root crypto.GenericDigest, elems map[uint64]crypto.Hashable, p *Proof) error {
	if tr.vc {
		return VerifyVectorCommitment(root, elems, p)
	}
	return Verify(root, elems, p)
}

func c37expectedDepth(n int) uint8 {
	if n <= 1 {
		return 0
	}
	return uint8(bits.Len(uint(n - 1)))
}

// c37alias: exclusion (X3).
func c37alias(p, q uint64, n int) bool {
	if q < uint64(n) || q <= p {
		return false
	}
	diff := p ^ q
	for k := uint(0); diff>>k != 0; k++ {
		if (diff>>k)&1 == 0 {
			continue
		}
		if (p>>k)&1 != 0 {
			return false
		}
		levelLen := (uint64(n) + (1 << k) - 1) >> k
		if (p>>k)|1 < levelLen {
			return false // the sibling exists
		}
	}
	return true
}

func c37clonePath(p []crypto.GenericDigest) []crypto.GenericDigest {
	out := make([]crypto.GenericDigest, len(p))
	for i := range p {
		if p[i] != nil {
			out[i] = append(crypto.GenericDigest{}, p[i]...)
		}
	}
	return out
}

func c37pathEqual(a, b []crypto.GenericDigest) bool {
	if len(a) != len(b) {
		return false
	}
	for i := range a {
		if !bytes.Equal(a[i], b[i]) {
			return false
		}
	}
	return true
}

type c37stats struct {
	mu     sync.Mutex
	counts map[string]int64
	vkeys  map[string]int64
}

func (s *c37stats) add(local map[string]int64) {
	s.mu.Lock()
	for k, v := range local {
		s.counts[k] += v
	}
	s.mu.Unlock()
}

// c37case evaluates one (tree, subset).
func c37case(r *ve.Run, st *c37stats, tr *c37tree, mask uint) {
	local := map[string]int64{}
	defer st.add(local)
	n := tr.n
	var S []uint64
	for i := 0; i < n; i++ {
		if mask&(1<<uint(i)) != 0 {
			S = append(S, uint64(i))
		}
	}
	inS := func(p uint64) bool { return p < uint64(n) && mask&(1<<uint(p)) != 0 }
	replay := func(kind, detail string) map[string]any {
		return map[string]any{"engine": "enum", "mode": tr.mode(), "hash": tr.ht.String(), "n": n, "subset_mask": mask, "mutation": kind, "detail": detail}
	}
	report := func(kind, detail, what string) {
		key := "C37:" + kind + "/" + tr.mode()
		st.mu.Lock()
		st.vkeys[key]++
		st.mu.Unlock()
		r.Report(key, fmt.Sprintf("%s tree, %s, n=%d, S=%v: %s %s: %s", tr.mode(), tr.ht, n, S, kind, detail, what), replay(kind, detail))
	}

	// ---- completeness
	proof, err := tr.tree.Prove(append([]uint64(nil), S...))
	r.Eval()
	if err != nil {
		report("complete-prove", "", fmt.Sprintf("Prove failed: %v", err))
		return
	}
	if proof.TreeDepth != tr.depth {
		report("complete-depth", "", fmt.Sprintf("proof.TreeDepth = %d, tree depth %d", proof.TreeDepth, tr.depth))
	}
	elems := make(map[uint64]crypto.Hashable, len(S))
	for _, p := range S {
		elems[p] = tr.arr[p]
	}
	if err := tr.verify(tr.root, elems, proof); err != nil {
		report("complete-verify", "", fmt.Sprintf("generated proof rejected: %v", err))
		return
	}
	r.Eval()
	local["accept/honest"]++
	if len(S) > 0 {
		// positions reversed + one duplicate: same proof
		perm := make([]uint64, 0, len(S)+1)
		for i := len(S) - 1; i >= 0; i-- {
			perm = append(perm, S[i])
		}
		perm = append(perm, S[len(S)/2])
		p2, err := tr.tree.Prove(perm)
		r.Eval()
		if err != nil || p2.TreeDepth != proof.TreeDepth || !c37pathEqual(p2.Path, proof.Path) {
			report("complete-order", "", fmt.Sprintf("Prove on reordered/duplicated positions differs (err %v)", err))
		}
	}
	{ // wire form
		var dec Proof
		if err := protocol.Decode(protocol.Encode(proof), &dec); err != nil {
			report("complete-wire", "", fmt.Sprintf("proof does not decode: %v", err))
		} else if err := tr.verify(tr.root, elems, &dec); err != nil {
			report("complete-wire", "", fmt.Sprintf("decoded proof rejected: %v", err))
		}
		r.Eval()
	}
	r.Class(fmt.Sprintf("%s/%s/honest/accept", tr.mode(), tr.ht))

	// ---- soundness: single mutations
	type expect int
	const (
		mustReject expect = iota
		mustAccept
		free
	)
	try := func(kind, detail string, want expect, root crypto.GenericDigest, el map[uint64]crypto.Hashable, p *Proof) {
		err := tr.verify(root, el, p)
		r.Eval()
		out := "reject"
		if err == nil {
			out = "accept"
		}
		switch want {
		case mustReject:
			local[out+"/"+kind]++
			if err == nil {
				report(kind, detail, "mutated proof ACCEPTED")
			}
		case mustAccept:
			local[out+"/"+kind+"(honest-equivalent)"]++
			if err != nil {
				report(kind+"-equiv", detail, fmt.Sprintf("a triple identical to a prover-generated one was rejected: %v", err))
			}
		case free:
			local[out+"/"+kind+"(excluded)"]++
		}
		r.Class(fmt.Sprintf("%s/%s/%s/%s", tr.mode(), tr.ht, kind, out))
	}
	withPath := func(path []crypto.GenericDigest) *Proof {
		return &Proof{Path: path, HashFactory: proof.HashFactory, TreeDepth: proof.TreeDepth}
	}
	withElems := func(f func(m map[uint64]crypto.Hashable)) map[uint64]crypto.Hashable {
		m := make(map[uint64]crypto.Hashable, len(elems)+1)
		for k, v := range elems {
			m[k] = v
		}
		f(m)
		return m
	}

	if len(S) > 0 {
		dsize := proof.HashFactory.NewHash().Size()
		for i := range proof.Path {
			// flip
			path := c37clonePath(proof.Path)
			if len(path[i]) == 0 {
				path[i] = make(crypto.GenericDigest, dsize)
			}
			path[i][0] ^= 1
			try("path-flip", fmt.Sprint(i), mustReject, tr.root, elems, withPath(path))
			// drop
			path = c37clonePath(proof.Path)
			path = append(path[:i], path[i+1:]...)
			try("path-drop", fmt.Sprint(i), mustReject, tr.root, elems, withPath(path))
			// duplicate
			path = c37clonePath(proof.Path)
			dup := make([]crypto.GenericDigest, 0, len(path)+1)
			dup = append(dup, path[:i+1]...)
			dup = append(dup, path[i])
			dup = append(dup, path[i+1:]...)
			try("path-dup", fmt.Sprint(i), mustReject, tr.root, elems, withPath(dup))
		}
		// tree depth (X1: not for S = {}).
		// KNOWN FINDING (findings/C37-treedepth-unchecked): verifyPath never compares the
		// number of climbed levels with TreeDepth, so a depth-mutated honest proof is
		// accepted exactly when the field's two remaining uses do not object:
		//   plain: +1 always; -1 iff every position < 2^(depth-1) (hashLeaves bound);
		//   vc:    +-1 iff S == {0} (the only position whose bit reversal is the same
		//          under both widths).
		// Acceptances explained by that are reported under C37:treedepth{+1,-1}/{plain,vc}
		// (listed in known_findings.jsonl); an acceptance it does NOT explain gets the
		// separate key C37:treedepth{+1,-1}-unexplained/... and always fails the check.
		explainedVC := len(S) == 1 && S[0] == 0
		kindUp, kindDown := "treedepth+1", "treedepth-1"
		if tr.vc && !explainedVC {
			kindUp, kindDown = "treedepth+1-unexplained", "treedepth-1-unexplained"
		}
		if !tr.vc && proof.TreeDepth > 0 && S[len(S)-1] >= uint64(1)<<(proof.TreeDepth-1) {
			kindDown = "treedepth-1-unexplained"
		}
		pd := withPath(proof.Path)
		pd.TreeDepth = proof.TreeDepth + 1
		try(kindUp, "", mustReject, tr.root, elems, pd)
		if proof.TreeDepth > 0 {
			pd = withPath(proof.Path)
			pd.TreeDepth = proof.TreeDepth - 1
			try(kindDown, "", mustReject, tr.root, elems, pd)
		}
		// elements
		for _, p := range S {
			for q := 0; q < n; q++ {
				if uint64(q) == p {
					continue
				}
				try("elem-other", fmt.Sprintf("A[%d] at %d", q, p), mustReject, tr.root,
					withElems(func(m map[uint64]crypto.Hashable) { m[p] = tr.arr[q] }), proof)
			}
			try("elem-foreign", fmt.Sprint(p), mustReject, tr.root,
				withElems(func(m map[uint64]crypto.Hashable) { m[p] = c37foreign }), proof)
		}
		// positions
		limit := uint64(1) << tr.depth
		if uint64(n) > limit {
			limit = uint64(n)
		}
		for _, p := range S {
			for q := uint64(0); q <= limit; q++ {
				if q == p {
					continue
				}
				want := mustReject
				if !tr.vc && c37alias(p, q, n) {
					want = free // (X3)
				}
				try("pos-move", fmt.Sprintf("%d->%d", p, q), want, tr.root,
					withElems(func(m map[uint64]crypto.Hashable) { delete(m, p); m[q] = tr.arr[p] }), proof)
			}
		}
		// compound class: declared depth raised by e AND positions shifted by multiples of
		// 2^depth (same low bits => the climb follows exactly the honest left/right pattern
		// and ends on a node whose hash is the root but whose position is not 0).
		//   plain: p -> p + k*2^depth, k in [0, 2^e);
		//   vc:    index i -> (i << e) | j, j in [0, 2^e)  (bit reversal over depth+e turns that
		//          into msb index rev_d(i) + rev_e(j)*2^depth, the analogue of the plain shift);
		// at least one position actually shifted (k != 0 / j != 0): the all-zero vector is the
		// pure depth change (plain) resp. the "all indices shifted left" alias (vc), both
		// consequences of the known TreeDepth finding and kept under their existing keys.
		// Every (2^e)^|S| - 1 shift vector when that is <= c37compoundCap, otherwise every
		// uniform vector (same k for all) and every single-position shift.
		for e := uint(1); e <= 3; e++ {
			base := uint64(1) << e
			pd := withPath(proof.Path)
			pd.TreeDepth = proof.TreeDepth + uint8(e)
			apply := func(ks []uint64) {
				el := make(map[uint64]crypto.Hashable, len(S))
				for idx, p := range S {
					q := p + ks[idx]<<tr.depth
					if tr.vc {
						q = p<<e | ks[idx]
					}
					el[q] = tr.arr[p]
				}
				try("depth+pos-compound", fmt.Sprintf("depth+%d shifts %v", e, ks), mustReject, tr.root, el, pd)
			}
			total := uint64(1)
			for range S {
				total *= base
				if total > c37compoundCap {
					break
				}
			}
			ks := make([]uint64, len(S))
			if total <= c37compoundCap {
				for v := uint64(1); v < total; v++ {
					x := v
					for idx := range ks {
						ks[idx] = x % base
						x /= base
					}
					apply(ks)
				}
				local["compound/full-product"]++
			} else {
				for k := uint64(1); k < base; k++ {
					for idx := range ks {
						ks[idx] = k
					}
					apply(ks)
					for one := range ks {
						for idx := range ks {
							ks[idx] = 0
						}
						ks[one] = k
						apply(ks)
					}
				}
				local["compound/uniform+single"]++
			}
		}
		// root
		flipped := append(crypto.GenericDigest{}, tr.root...)
		flipped[len(flipped)-1] ^= 0x80
		try("root-flip", "", mustReject, flipped, elems, proof)
		try("root-empty", "", mustReject, crypto.GenericDigest{}, elems, proof)
		if !bytes.Equal(tr.otherRoot, tr.root) {
			try("root-other", "", mustReject, tr.otherRoot, elems, proof)
		}
	} else {
		local["skipped/root+depth-on-empty-claim(X1)"] += 4
	}
	// extra positions (also for S = {})
	limit := uint64(1) << tr.depth
	for q := uint64(0); q <= limit; q++ {
		if inS(q) {
			continue
		}
		if q < uint64(n) {
			want := mustReject
			// (X2) the result is exactly a prover-generated triple
			S2 := append(append([]uint64(nil), S...), q)
			if hp, err := tr.tree.Prove(S2); err == nil && hp.TreeDepth == proof.TreeDepth && c37pathEqual(hp.Path, proof.Path) {
				want = mustAccept
			}
			try("extra-true", fmt.Sprint(q), want, tr.root,
				withElems(func(m map[uint64]crypto.Hashable) { m[q] = tr.arr[q] }), proof)
		}
		try("extra-foreign", fmt.Sprint(q), mustReject, tr.root,
			withElems(func(m map[uint64]crypto.Hashable) { m[q] = c37foreign }), proof)
	}
}

func TestVerif_C37(t *testing.T) {
	r := ve.NewRun("C37", "exploration")
	maxN := ve.Pick(9, 12)
	hashes := []crypto.HashType{crypto.Sha512_256, crypto.Sumhash, crypto.Sha256}
	if ve.Thorough() {
		hashes = append(hashes, crypto.Sha512)
	}
	type work struct {
		tr   *c37tree
		mask uint
	}
	var items []work
	var trees []*c37tree
	for _, ht := range hashes {
		for n := 0; n <= maxN; n++ {
			arr := make(c37array, n)
			for i := range arr {
				arr[i] = c37elem(fmt.Sprintf("c37 element #%d of %d", i, n))
			}
			hf := crypto.HashFactory{HashType: ht}
			plain, err := Build(arr, hf)
			if err != nil {
				t.Fatalf("HARNESS: Build: %v", err)
			}
			vc, err := BuildVectorCommitmentTree(arr, hf)
			if err != nil {
				t.Fatalf("HARNESS: BuildVectorCommitmentTree: %v", err)
			}
			tp := &c37tree{vc: false, ht: ht, n: n, arr: arr, tree: plain, root: plain.Root(), depth: c37expectedDepth(n), otherRoot: vc.Root()}
			tv := &c37tree{vc: true, ht: ht, n: n, arr: arr, tree: vc, root: vc.Root(), depth: c37expectedDepth(n), otherRoot: plain.Root()}
			if n == 0 && len(plain.Root()) != 0 {
				r.Report("C37:empty-root/plain", "root of the empty plain tree is not the empty digest", map[string]any{"n": 0})
			}
			trees = append(trees, tp, tv)
		}
	}
	// largest trees first so that the parallel tail is short
	sort.SliceStable(trees, func(i, j int) bool { return trees[i].n > trees[j].n })
	for _, tr := range trees {
		for m := uint(0); m < 1<<uint(tr.n); m++ {
			items = append(items, work{tr, m})
		}
	}
	st := &c37stats{counts: map[string]int64{}, vkeys: map[string]int64{}}
	done := r.ParallelFor(len(items), func(i int) { c37case(r, st, items[i].tr, items[i].mask) })
	for k, v := range st.counts {
		r.Set("n:"+k, v)
	}
	if len(st.vkeys) > 0 {
		r.Set("violation_keys", st.vkeys)
	}
	r.Set("subsets_checked", done)
	r.Sample(map[string]any{"mode": "plain", "hash": "sha512_256", "n": 5, "S": []int{4}, "mutation": "pos-move 4->5 (excluded X3: absent sibling)"})
	r.Sample(map[string]any{"mode": "vc", "hash": "sumhash", "n": 3, "S": []int{0, 2}, "mutation": "path-dup 0 => must reject"})
	r.Assume("collision resistance of the hash functions is not challenged: mutations are structural")
	r.Assume("plain (non vector-commitment) trees are not required to bind phantom positions >= n reached through an absent sibling (Build doc comment); exclusion (X3) in the harness header")
	cov := ve.Coverage{Exhaustive: done == int64(len(items)),
		Rule: fmt.Sprintf("arrays of size 0..%d x {plain, vector commitment} x %d hash factories x every subset of positions (%d subset cases): Prove + Verify (+ reordered positions, + msgpack round trip), then every single mutation: each path digest flipped/dropped/duplicated, TreeDepth +-1, each element replaced by every other array element and a foreign one, each position moved to every other position in [0, 2^depth], root flipped/emptied/other-mode root, extra position (true and foreign element); plus the compound class TreeDepth+e (e=1..3) with positions shifted by multiples of 2^depth", maxN, len(hashes), len(items))}
	if r.Finish(cov) > 0 {
		t.Fatal("violations")
	}
}
