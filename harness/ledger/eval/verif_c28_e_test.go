package eval

// C28 (part e) — Only the CURRENT authorizer can authorize a transaction: both stages against
// ledger state.
//
// Engine E-ENUM on the real pipeline verify.TxnGroup (stateless signature stage) followed by
// BlockEvaluator.TransactionGroup (which compares SignedTxn.Authorizer() with the sender's AuthAddr in
// the ledger), over the package's in-memory evalTestLedger (protocol ConsensusFuture). The
// evaluator is also run on the transactions the signature stage rejects, so each stage is checked
// against its own rule, and the conjunction against the property.
//
// Enumerated: 7 ledger scenarios x 5 senders x 15 authorization forms, fresh evaluator per probe.
//   senders (genesis): plain; rekeyed to key K; rekeyed to 2-of-3 multisig M; rekeyed to the contract
//     address L of an approving program; rekeyed to a PQ (Falcon-1024) address
//   scenarios (transactions applied in the same block before the probe): none; plain account rekeys
//     to K; rekeys to K and back to itself; K-rekeyed account rekeys on to X; K-rekeyed account rekeys
//     back to itself; plain account rekeys to M; plain account rekeys to L
//   forms: Sig by the sender's own key; Sig by K with AuthAddr=K; Sig by K without AuthAddr; Sig by a
//     stranger X with AuthAddr=X; Sig by own key with AuthAddr=K; Msig M (2 subsigs / 1 subsig) with
//     AuthAddr=M; approving contract Lsig with AuthAddr=L; rejecting contract Lsig with its address;
//     Lsig delegated by own key; by K with AuthAddr=K; by own key while AuthAddr=K; PQsig with
//     AuthAddr=PQ address; no signature; Sig + delegated Lsig together.
// Oracle (harness table of who the current authorizer is, maintained from the rekey transactions it
// submitted itself): stage 1 accepts iff exactly one category is present and valid for the claimed
// authorizer; stage 2 accepts iff the claimed authorizer is the sender's current authorizer; the
// pipeline accepts iff both. In particular the old key stops working right after a rekey and works
// again after rekeying back.
//
// Cache pipeline (seeded change C28-A): every probe that is valid for its claimed authorizer is verified
// and cached through verify.TxnGroup with a real VerifiedTransactionCache; the same transaction and
// signature material is then presented with AuthAddr in {unset, K, X, M, L, L0, PQ}. If the presented
// authorizer is the sender's current one, the presentation is put into a generated block and the block
// is validated by the real Eval(validate=true, warm cache, backlog pool) — the Ledger.Validate path;
// otherwise the decision GetUnverifiedTransactionGroups + TxnGroup is taken. Accepted iff the
// presentation is exactly the cached one.
//
// Not covered: rekeys performed by inner transactions, groups > 1 in the probe.
// Unexported identifiers used: newTestLedger, evalTestLedger.StartEvaluator (upstream test helpers).

import (
	"context"
	"fmt"
	"sync/atomic"
	"testing"

	"github.com/algorand/go-algorand/crypto"
	"github.com/algorand/go-algorand/data/basics"
	"github.com/algorand/go-algorand/data/bookkeeping"
	"github.com/algorand/go-algorand/data/committee"
	"github.com/algorand/go-algorand/data/transactions"
	"github.com/algorand/go-algorand/data/transactions/logic"
	"github.com/algorand/go-algorand/data/transactions/verify"
	ledgertesting "github.com/algorand/go-algorand/ledger/testing"
	"github.com/algorand/go-algorand/protocol"
	"github.com/algorand/go-algorand/util/execpool"
	ve "github.com/algorand/go-algorand/verifeng"
)

type c28eForm struct {
	name  string
	build func(tx transactions.Transaction, own *crypto.SignatureSecrets) (st transactions.SignedTxn, validForClaimed bool)
}

type c28eStep struct {
	sender int
	rekey  basics.Address
	sign   func(tx transactions.Transaction) transactions.SignedTxn
	newCur basics.Address // current authorizer of sender afterwards
}

type c28eProbe struct {
	Scenario string
	Sender   string
	Form     string
	sc, si   int
	fi       int
}

func TestVerif_C28_e(t *testing.T) {
	r := ve.NewRun("C28", "exploration")
	r.Assume("part e: the harness knows the current authorizer because it wrote the genesis AuthAddr values and submitted the rekey transactions itself")

	genBalances, addrs, secrets := ledgertesting.NewTestGenesis()
	K, X := secrets[5], secrets[6]
	kAddr, xAddr := addrs[5], addrs[6]
	mem := []*crypto.SignatureSecrets{secrets[7], secrets[8], secrets[9]}
	var pks []crypto.PublicKey
	for _, m := range mem {
		pks = append(pks, m.SignatureVerifier)
	}
	md, err := crypto.MultisigAddrGen(1, 2, pks)
	if err != nil {
		t.Fatalf("harness: %v", err)
	}
	mAddr := basics.Address(md)
	asm := func(src string) []byte {
		ops, err := logic.AssembleStringWithVersion(src, 3)
		if err != nil {
			t.Fatalf("harness: %v", err)
		}
		return ops.Program
	}
	approve, reject := asm("int 1"), asm("int 0")
	lAddr, l0Addr := basics.Address(logic.HashProgram(approve)), basics.Address(logic.HashProgram(reject))
	var fseed crypto.FalconSeed
	fseed[0], fseed[1] = 0x28, 0xe
	falcon, err := crypto.GenerateFalconSigner(fseed)
	if err != nil {
		t.Fatalf("harness: %v", err)
	}
	salt, pAddr, err := basics.CanonicalPQAddressSalt(protocol.PQSchemeFalcon1024, falcon.PublicKey[:])
	if err != nil {
		t.Fatalf("harness: %v", err)
	}
	pqEnv := transactions.PQSig{Scheme: protocol.PQSchemeFalcon1024, Salt: salt, PublicKey: append([]byte{}, falcon.PublicKey[:]...)}

	senderNames := []string{"plain", "rekeyed-to-K", "rekeyed-to-msig", "rekeyed-to-lsig", "rekeyed-to-pq"}
	genesisAuth := []basics.Address{{}, kAddr, mAddr, lAddr, pAddr}
	for i, a := range genesisAuth {
		ad := genBalances.Balances[addrs[i]]
		ad.AuthAddr = a
		genBalances.Balances[addrs[i]] = ad
	}
	l := newTestLedger(t, genBalances)
	hdr0, err := l.BlockHdr(0)
	if err != nil {
		t.Fatalf("harness: %v", err)
	}
	nextHdr := bookkeeping.MakeBlock(hdr0).BlockHeader
	proto := l.GenesisProto()
	if !proto.PQSigEnabled() || !proto.LogicSigLMsig {
		r.Note("harness: protocol of the test ledger lacks PQsig/LMsig; the corresponding forms are expected to be rejected")
	}

	msig := func(msg crypto.Hashable, n int) crypto.MultisigSig {
		m := crypto.MultisigSig{Version: 1, Threshold: 2, Subsigs: make([]crypto.MultisigSubsig, 3)}
		for i := range mem {
			m.Subsigs[i].Key = mem[i].SignatureVerifier
			if i < n {
				m.Subsigs[i].Sig = mem[i].Sign(msg)
			}
		}
		return m
	}
	forms := []c28eForm{
		{"Sig own key", func(tx transactions.Transaction, own *crypto.SignatureSecrets) (transactions.SignedTxn, bool) {
			return transactions.SignedTxn{Txn: tx, Sig: own.Sign(tx)}, true
		}},
		{"Sig K, AuthAddr=K", func(tx transactions.Transaction, own *crypto.SignatureSecrets) (transactions.SignedTxn, bool) {
			return transactions.SignedTxn{Txn: tx, Sig: K.Sign(tx), AuthAddr: kAddr}, true
		}},
		{"Sig K, no AuthAddr", func(tx transactions.Transaction, own *crypto.SignatureSecrets) (transactions.SignedTxn, bool) {
			return transactions.SignedTxn{Txn: tx, Sig: K.Sign(tx)}, false
		}},
		{"Sig stranger X, AuthAddr=X", func(tx transactions.Transaction, own *crypto.SignatureSecrets) (transactions.SignedTxn, bool) {
			return transactions.SignedTxn{Txn: tx, Sig: X.Sign(tx), AuthAddr: xAddr}, true
		}},
		{"Sig own key, AuthAddr=K", func(tx transactions.Transaction, own *crypto.SignatureSecrets) (transactions.SignedTxn, bool) {
			return transactions.SignedTxn{Txn: tx, Sig: own.Sign(tx), AuthAddr: kAddr}, false
		}},
		{"Msig M 2 subsigs, AuthAddr=M", func(tx transactions.Transaction, own *crypto.SignatureSecrets) (transactions.SignedTxn, bool) {
			return transactions.SignedTxn{Txn: tx, Msig: msig(tx, 2), AuthAddr: mAddr}, true
		}},
		{"Msig M 1 subsig, AuthAddr=M", func(tx transactions.Transaction, own *crypto.SignatureSecrets) (transactions.SignedTxn, bool) {
			return transactions.SignedTxn{Txn: tx, Msig: msig(tx, 1), AuthAddr: mAddr}, false
		}},
		{"Lsig approving contract, AuthAddr=L", func(tx transactions.Transaction, own *crypto.SignatureSecrets) (transactions.SignedTxn, bool) {
			return transactions.SignedTxn{Txn: tx, Lsig: transactions.LogicSig{Logic: approve}, AuthAddr: lAddr}, true
		}},
		{"Lsig rejecting contract, AuthAddr=its address", func(tx transactions.Transaction, own *crypto.SignatureSecrets) (transactions.SignedTxn, bool) {
			return transactions.SignedTxn{Txn: tx, Lsig: transactions.LogicSig{Logic: reject}, AuthAddr: l0Addr}, false
		}},
		{"Lsig delegated by own key", func(tx transactions.Transaction, own *crypto.SignatureSecrets) (transactions.SignedTxn, bool) {
			return transactions.SignedTxn{Txn: tx, Lsig: transactions.LogicSig{Logic: approve, Sig: own.Sign(logic.Program(approve))}}, true
		}},
		{"Lsig delegated by K, AuthAddr=K", func(tx transactions.Transaction, own *crypto.SignatureSecrets) (transactions.SignedTxn, bool) {
			return transactions.SignedTxn{Txn: tx, Lsig: transactions.LogicSig{Logic: approve, Sig: K.Sign(logic.Program(approve))}, AuthAddr: kAddr}, true
		}},
		{"Lsig delegated by own key, AuthAddr=K", func(tx transactions.Transaction, own *crypto.SignatureSecrets) (transactions.SignedTxn, bool) {
			return transactions.SignedTxn{Txn: tx, Lsig: transactions.LogicSig{Logic: approve, Sig: own.Sign(logic.Program(approve))}, AuthAddr: kAddr}, false
		}},
		{"PQsig, AuthAddr=PQ address", func(tx transactions.Transaction, own *crypto.SignatureSecrets) (transactions.SignedTxn, bool) {
			sig, err := falcon.Sign(tx)
			if err != nil {
				panic(err)
			}
			q := pqEnv
			q.Signature = append([]byte{}, sig...)
			return transactions.SignedTxn{Txn: tx, PQsig: q, AuthAddr: pAddr}, proto.PQSigEnabled()
		}},
		{"no signature", func(tx transactions.Transaction, own *crypto.SignatureSecrets) (transactions.SignedTxn, bool) {
			return transactions.SignedTxn{Txn: tx}, false
		}},
		{"Sig own + Lsig delegated by own (two categories)", func(tx transactions.Transaction, own *crypto.SignatureSecrets) (transactions.SignedTxn, bool) {
			return transactions.SignedTxn{Txn: tx, Sig: own.Sign(tx), Lsig: transactions.LogicSig{Logic: approve, Sig: own.Sign(logic.Program(approve))}}, false
		}},
	}

	mkTx := func(sender int, note string, rekey basics.Address) transactions.Transaction {
		return transactions.Transaction{Type: protocol.PaymentTx,
			Header: transactions.Header{Sender: addrs[sender], Fee: basics.MicroAlgos{Raw: 10 * proto.MinTxnFee}, FirstValid: nextHdr.Round, LastValid: nextHdr.Round + 10,
				GenesisHash: l.GenesisHash(), Note: []byte(note), RekeyTo: rekey},
			PaymentTxnFields: transactions.PaymentTxnFields{Receiver: addrs[9], Amount: basics.MicroAlgos{Raw: 1000}}}
	}
	ownSig := func(i int) func(transactions.Transaction) transactions.SignedTxn {
		return func(tx transactions.Transaction) transactions.SignedTxn {
			return transactions.SignedTxn{Txn: tx, Sig: secrets[i].Sign(tx)}
		}
	}
	kSig := func(tx transactions.Transaction) transactions.SignedTxn {
		return transactions.SignedTxn{Txn: tx, Sig: K.Sign(tx), AuthAddr: kAddr}
	}
	type scenario struct {
		name  string
		steps []c28eStep
	}
	scenarios := []scenario{
		{"genesis", nil},
		{"plain rekeys to K", []c28eStep{{0, kAddr, ownSig(0), kAddr}}},
		{"plain rekeys to K and back", []c28eStep{{0, kAddr, ownSig(0), kAddr}, {0, addrs[0], kSig, addrs[0]}}},
		{"K-rekeyed rekeys on to X", []c28eStep{{1, xAddr, kSig, xAddr}}},
		{"K-rekeyed rekeys back to itself", []c28eStep{{1, addrs[1], kSig, addrs[1]}}},
		{"plain rekeys to M", []c28eStep{{0, mAddr, ownSig(0), mAddr}}},
		{"plain rekeys to L", []c28eStep{{0, lAddr, ownSig(0), lAddr}}},
	}

	var probes []c28eProbe
	for sc := range scenarios {
		for si := range senderNames {
			for fi := range forms {
				probes = append(probes, c28eProbe{Scenario: scenarios[sc].name, Sender: senderNames[si], Form: forms[fi].name, sc: sc, si: si, fi: fi})
			}
		}
	}

	visited := r.ParallelFor(len(probes), func(i int) {
		p := probes[i]
		ev, err := l.StartEvaluator(nextHdr, 0, 0, nil)
		if err != nil {
			r.Note("harness: StartEvaluator: %v", err)
			r.Capped()
			return
		}
		// the harness's table of current authorizers
		cur := make([]basics.Address, len(senderNames))
		for k := range cur {
			cur[k] = genesisAuth[k]
			if cur[k].IsZero() {
				cur[k] = addrs[k]
			}
		}
		hdr := nextHdr
		for k, st := range scenarios[p.sc].steps {
			stx := st.sign(mkTx(st.sender, fmt.Sprintf("c28-step-%d", k), st.rekey))
			if _, err := verify.TxnGroup([]transactions.SignedTxn{stx}, &hdr, nil, l); err != nil {
				r.Report("C28:eval:scenario-step-rejected", fmt.Sprintf("scenario %q step %d (a correctly authorized rekey) rejected by verify.TxnGroup: %v", p.Scenario, k, err), p)
				return
			}
			if err := ev.TransactionGroup(stx.WithAD()); err != nil {
				r.Report("C28:eval:scenario-step-rejected", fmt.Sprintf("scenario %q step %d (a correctly authorized rekey) rejected by TransactionGroup: %v", p.Scenario, k, err), p)
				return
			}
			cur[st.sender] = st.newCur
		}
		tx := mkTx(p.si, "c28-probe", basics.Address{})
		stx, validForClaimed := forms[p.fi].build(tx, secrets[p.si])
		claimedIsCurrent := stx.Authorizer() == cur[p.si]
		_, err1 := verify.TxnGroup([]transactions.SignedTxn{stx}, &hdr, nil, l)
		err2 := ev.TransactionGroup(stx.WithAD())
		r.EvalN(2)
		got1, got2 := err1 == nil, err2 == nil
		r.Class(fmt.Sprintf("e/valid-for-claimed=%v/claimed-is-current=%v/stage1=%v/stage2=%v", validForClaimed, claimedIsCurrent, got1, got2))
		if i%41 == 0 {
			r.Sample(map[string]any{"part": "e", "scenario": p.Scenario, "sender": p.Sender, "form": p.Form, "verify.TxnGroup": got1, "TransactionGroup": got2})
		}
		if got1 != validForClaimed {
			r.Report("C28:eval:stage1", fmt.Sprintf("scenario %q, sender %s, %s: verify.TxnGroup accepted=%v (err %v), oracle (valid for the claimed authorizer) says %v", p.Scenario, p.Sender, p.Form, got1, err1, validForClaimed), p)
		}
		if got2 != claimedIsCurrent {
			r.Report("C28:eval:stage2", fmt.Sprintf("scenario %q, sender %s, %s: TransactionGroup accepted=%v (err %v), oracle (claimed authorizer %v is the current one %v) says %v", p.Scenario, p.Sender, p.Form, got2, err2, stx.Authorizer(), cur[p.si], claimedIsCurrent), p)
		}
		if (got1 && got2) != (validForClaimed && claimedIsCurrent) {
			r.Report("C28:eval:pipeline", fmt.Sprintf("scenario %q, sender %s, %s: accepted by both stages=%v, property says %v", p.Scenario, p.Sender, p.Form, got1 && got2, validForClaimed && claimedIsCurrent), p)
		}
		if got1 && got2 {
			r.Add("pipeline_accepted", 1)
		}
	})

	// ---- cache pipeline: eval.Eval (the entry point of Ledger.Validate) with a WARM verified-
	// transaction cache. For every probe whose authorization is valid for its claimed authorizer:
	// verify + cache it (verify.TxnGroup with a real VerifiedTransactionCache), then present the same
	// transaction and signature material with AuthAddr set to each of 7 values (unset, K, X, M, L,
	// rejecting-contract address, PQ address; one of them is the original). When the presented
	// authorizer is the sender's current one the presentation is put into a block (generated by a
	// fresh evaluator, which trusts its input like the pool does) and the block is validated with
	// Eval(validate=true, warm cache, backlog pool); otherwise the cache + TxnGroup decision is
	// taken directly. Oracle: accepted iff the presentation is the cached one (the signature
	// material is bound to one authorizer address) — and, for blocks, the claimed authorizer is current.
	pool := execpool.MakeBacklog(nil, 0, execpool.LowPriority, nil)
	defer pool.Shutdown()
	presAddrs := []basics.Address{{}, kAddr, xAddr, mAddr, lAddr, l0Addr, pAddr}
	presNames := []string{"unset", "K", "X", "M", "L", "L0", "PQ"}
	var sigStageReports, blockReports atomic.Int64
	visited2 := r.ParallelFor(len(probes), func(i int) {
		p := probes[i]
		cur := make([]basics.Address, len(senderNames))
		for k := range cur {
			cur[k] = genesisAuth[k]
			if cur[k].IsZero() {
				cur[k] = addrs[k]
			}
		}
		var steps []transactions.SignedTxn
		for k, st := range scenarios[p.sc].steps {
			steps = append(steps, st.sign(mkTx(st.sender, fmt.Sprintf("c28-step-%d", k), st.rekey)))
			cur[st.sender] = st.newCur
		}
		tx := mkTx(p.si, "c28-probe", basics.Address{})
		w, validForClaimed := forms[p.fi].build(tx, secrets[p.si])
		if !validForClaimed {
			return
		}
		hdr := nextHdr
		cache := verify.MakeVerifiedTransactionCache(64)
		if _, err := verify.TxnGroup([]transactions.SignedTxn{w}, &hdr, cache, l); err != nil {
			r.Report("C28:eval:cache-warmup", fmt.Sprintf("scenario %q, sender %s, %s: valid authorization rejected when verified with a cache: %v", p.Scenario, p.Sender, p.Form, err), p)
			return
		}
		spec := transactions.SpecialAddresses{FeeSink: hdr.FeeSink, RewardsPool: hdr.RewardsPool}
		for ai, a := range presAddrs {
			pres := w
			pres.AuthAddr = a
			same := a == w.AuthAddr
			current := pres.Authorizer() == cur[p.si]
			r.Eval()
			if !current {
				unv := cache.GetUnverifiedTransactionGroups([][]transactions.SignedTxn{{pres}}, spec, hdr.CurrentProtocol)
				accepted := len(unv) == 0
				if !accepted {
					_, err := verify.TxnGroup([]transactions.SignedTxn{pres}, &hdr, nil, l)
					accepted = err == nil
				}
				r.Class(fmt.Sprintf("e/cache/not-current/same=%v/sig-stage-accepted=%v", same, accepted))
				if accepted != same && sigStageReports.Add(1) <= 2 { // keep room for block-level reports
					r.Report("C28:eval:cache-sigstage", fmt.Sprintf("scenario %q, sender %s, cached %q, presented with AuthAddr=%s: signature stage with warm cache accepted=%v, oracle says %v", p.Scenario, p.Sender, p.Form, presNames[ai], accepted, same), p)
				}
				continue
			}
			// block path
			ev, err := l.StartEvaluator(nextHdr, 0, 0, nil)
			if err != nil {
				r.Note("harness: StartEvaluator: %v", err)
				r.Capped()
				return
			}
			ok := true
			for _, st := range append(append([]transactions.SignedTxn{}, steps...), pres) {
				if err := ev.TransactionGroup(st.WithAD()); err != nil {
					r.Note("harness: generating evaluator refused a presentation whose claimed authorizer is current (%s / %s / %s / AuthAddr=%s): %v", p.Scenario, p.Sender, p.Form, presNames[ai], err)
					r.Add("cache_blocks_not_generated", 1)
					ok = false
					break
				}
			}
			if !ok {
				continue
			}
			ub, err := ev.GenerateBlock(nil)
			if err != nil {
				r.Note("harness: GenerateBlock: %v", err)
				r.Add("cache_blocks_not_generated", 1)
				continue
			}
			blk := ub.FinishBlock(committee.Seed{0x28}, addrs[9], false)
			_, verr := Eval(context.Background(), l, blk, true, cache, pool, nil)
			accepted := verr == nil
			r.Add("cache_blocks_validated", 1)
			r.Class(fmt.Sprintf("e/cache/block/same=%v/accepted=%v", same, accepted))
			if accepted != same && blockReports.Add(1) <= 3 {
				r.Report("C28:eval:cache-block", fmt.Sprintf("scenario %q, sender %s, cached %q (authorizer %v), block carrying the same txn and signature with AuthAddr=%s (authorizer %v = current): Eval with the warm cache accepted=%v (err %v), oracle says %v", p.Scenario, p.Sender, p.Form, w.Authorizer(), presNames[ai], pres.Authorizer(), accepted, verr, same), p)
			}
		}
	})
	cov := ve.Coverage{
		Rule:       fmt.Sprintf("part e: %d probes = %d ledger scenarios (genesis, rekey, rekey-back, rekey-on, rekey to msig / lsig) x %d senders (plain, rekeyed to key / multisig / contract / PQ address) x %d authorization forms, each through verify.TxnGroup and BlockEvaluator.TransactionGroup on a fresh evaluator; plus, for every probe valid for its claimed authorizer, 7 AuthAddr presentations of the same txn+signature against a verified-transaction cache warmed with it — through eval.Eval(validate, warm cache) on a generated block when the presented authorizer is current, else through GetUnverifiedTransactionGroups + TxnGroup", len(probes), len(scenarios), len(senderNames), len(forms)),
		Exhaustive: visited == int64(len(probes)) && visited2 == int64(len(probes)),
	}
	if n := r.Finish(cov); n > 0 {
		t.Fatalf("C28 part e: %d violation(s)", n)
	}
}
