package logic

// Plain unit test (no explorer) for the C33 finding "assembler panics on `int N; loads` with a
// constant N >= 256": the type tracker's refine function typeLoads (and typeStores) indexes
// ProgramKnowledge.scratchSpace[256] with the constant taken from the tracked stack type without
// a range check. AssembleString / AssembleStringWithVersion panic instead of returning an error
// (at run time `loads` with such an index is an ordinary "invalid Scratch index" failure).

import (
	"testing"

	"github.com/stretchr/testify/require"
)

func TestC33AssemblerPanicLoadsConst(t *testing.T) {
	for _, src := range []string{
		"int 256\nloads\n",
		"int 16384\nloads\n",
		"int 300\nint 1\nstores\n",
	} {
		require.NotPanics(t, func() {
			_, err := AssembleStringWithVersion(src, LogicVersion)
			t.Logf("%q -> %v", src, err)
		}, "source %q", src)
	}
}
