//go:build verifshim

package network

// C43 part (c), concurrent — E-SCHED: two real wsPeer read loops (managed threads P1, P2) share one real
// messageFilter (2 buckets x 2) and one readBuffer and deliver the same dedup-safe message concurrently.
// Scheduling points: every deadlock.Mutex acquire of a managed thread (the filter's lock in CheckDigest, the
// peer's closersMu on close). All interleavings with <= 2 preemptions (thorough: 3).
// Programs:
//   same-message      P1: [AV m]            P2: [AV m]              oracle: m is queued on readBuffer exactly once
//   crossed-pair      P1: [TX a, TX b]      P2: [TX b, TX a]        oracle: a and b exactly once each (2 digests
//                                                                    never leave the 2x2 guaranteed window)
//   same-twice        P1: [AV m, AV m]      P2: [AV m]              oracle: exactly once
// Everything (filter, peers, channels) is created inside Setup; the read loops end when their scripted connection
// is exhausted, so no goroutine survives an execution.

import (
	"encoding/json"
	"fmt"
	"testing"

	"github.com/algorand/websocket"

	"github.com/algorand/go-algorand/protocol"
	ve "github.com/algorand/go-algorand/verifeng"
)

type c43SchedMsg struct {
	tag  protocol.Tag
	data string
}

func c43SchedFrames(msgs []c43SchedMsg) []c43Frame {
	var out []c43Frame
	for _, m := range msgs {
		f := c43FrameOf(m.tag, []byte(m.data))
		out = append(out, c43Frame{mtype: websocket.BinaryMessage, data: f, script: c43Script{Chunks: []int{len(f)}, ErrAt: -1}})
	}
	return out
}

func c43SchedProgram(name string, bound int, scripts [][]c43SchedMsg) *ve.SchedProgram {
	return &ve.SchedProgram{Name: name, PreemptionBound: bound, Setup: func(s *ve.Sched) (func() error, func()) {
		f := makeMessageFilter(2, 2)
		f.nonce = [16]byte{}
		total := 0
		for _, sc := range scripts {
			total += len(sc)
		}
		rb := make(chan IncomingMessage, total+2)
		peers := make([]*wsPeer, len(scripts))
		nets := make([]*c43Net, len(scripts))
		conns := make([]*c43Conn, len(scripts))
		for i, sc := range scripts {
			conns[i] = &c43Conn{frames: c43SchedFrames(sc)}
			peers[i], nets[i] = c43NewPeer(conns[i], rb, c43PeerOpt{inFilter: f, queue: total + 2})
			wp := peers[i]
			wp.wg.Add(1)
			s.Go(fmt.Sprintf("P%d", i+1), func() { wp.readLoop() })
		}
		check := func() error {
			count := map[c43SchedMsg]int{}
			for len(rb) > 0 {
				m := <-rb
				count[c43SchedMsg{m.Tag, string(m.Data)}]++
			}
			for i := range peers {
				if len(nets[i].closed) != 1 || conns[i].next != len(conns[i].frames) {
					return ve.Violationf("C43:sched-incomplete", "peer %d read %d of %d frames, close reports %v", i+1, conns[i].next, len(conns[i].frames), nets[i].closed)
				}
			}
			want := map[c43SchedMsg]bool{}
			for _, sc := range scripts {
				for _, m := range sc {
					want[m] = true
				}
			}
			for m := range want {
				if count[m] != 1 {
					return ve.Violationf("C43:concurrent-duplicate", "message %s %q was handed to the handler %d times by concurrent peers (want exactly once)", m.tag, m.data, count[m])
				}
			}
			if len(count) != len(want) {
				return ve.Violationf("C43:sched-unexpected", "unexpected messages handed: %v", count)
			}
			return nil
		}
		return check, nil
	}}
}

func TestVerif_C43_sched(t *testing.T) {
	r := ve.NewRun("C43", "model_checking")
	var cov ve.Coverage
	cov.Exhaustive = true
	// warm-up outside the scheduler: metric counters take a lock only the first time they (or a tag) are used
	for _, tag := range []protocol.Tag{protocol.AgreementVoteTag, protocol.TxnTag} {
		conn := &c43Conn{frames: c43SchedFrames([]c43SchedMsg{{tag, "warm-up"}, {tag, "warm-up"}})} // second = duplicate path
		wp, _ := c43NewPeer(conn, make(chan IncomingMessage, 4), c43PeerOpt{inFilter: makeMessageFilter(2, 2)})
		wp.wg.Add(1)
		wp.readLoop()
	}
	if raw := r.ReplayRequest(); raw != nil {
		var req struct {
			Engine string `json:"engine"`
		}
		if json.Unmarshal(raw, &req) != nil || req.Engine != "sched" {
			return // replay file addressed to part 1
		}
	}
	bound := ve.Pick(2, 3)
	av, tx := protocol.AgreementVoteTag, protocol.TxnTag
	progs := []*ve.SchedProgram{
		c43SchedProgram("C43-same-message", bound, [][]c43SchedMsg{{{av, "vote-m"}}, {{av, "vote-m"}}}),
		c43SchedProgram("C43-crossed-pair", bound, [][]c43SchedMsg{{{tx, "txn-a"}, {tx, "txn-b"}}, {{tx, "txn-b"}, {tx, "txn-a"}}}),
		c43SchedProgram("C43-same-twice", bound, [][]c43SchedMsg{{{av, "vote-m"}, {av, "vote-m"}}, {{av, "vote-m"}}}),
	}
	for _, p := range progs {
		res := ve.ExploreSchedules(t, r, p)
		cov.AddSched(res)
		if !res.Exhaustive {
			cov.Exhaustive = false
		}
	}
	cov.Rule = "E-SCHED: all interleavings with <= " + fmt.Sprint(bound) + " preemptions (scheduling points = every deadlock.Mutex acquire) of two real wsPeer.readLoop threads sharing one real 2x2 messageFilter, programs same-message / crossed-pair / same-twice"
	r.Assume("goroutine hand-offs of the cooperative scheduler are happens-before edges: data races are out of scope of this part")
	if n := r.Finish(cov); n > 0 {
		t.Fatalf("%d violation(s)", n)
	}
}
