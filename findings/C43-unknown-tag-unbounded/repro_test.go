package network

// Plain unit test (no explorer) for the C43 observation "unknown tag = no per-message limit".
//
// wsPeer.readLoop sets the per-message limit with slurper.Reset(uint64(msg.Tag.MaxMessageSize())).
// protocol.Tag.MaxMessageSize() returns 0 for a tag it does not know ("Unknown tag"), but
// LimitedReaderSlurper treats currentMessageMaxSize == 0 as "no per-message limit" (only the
// 6 MiB allocation limit applies). So a frame with an unknown (or deprecated: "pi","pj") tag is
// buffered in full, up to MaxMessageLength, and only then dropped ("unrecognized tag ... drop
// message"); the peer is not disconnected and may repeat this indefinitely. Every KNOWN tag
// with a small limit (e.g. "UE": 67 bytes) is cut off after at most base+64 KiB.
//
// Run (scratch worktree, through the verif overlay so that crypto links):
//   cp /verif/findings/C43-unknown-tag-unbounded/repro_test.go <worktree>/network/zz_c43_repro_test.go
//   (cd <worktree> && GOFLAGS=-mod=mod GOPROXY=off go test -tags "verif sqlite_unlock_notify sqlite_omit_load_extension" \
//        -overlay /verif/.build/gen/<tag>/overlay.json -vet=off -run TestReproC43 ./network)
//
// Fails on the unchanged tree (6291454 bytes pulled and buffered for tag "zz"); passes once readLoop
// refuses/limits unknown tags (e.g. treats MaxMessageSize()==0 as "disconnect" or Reset(1)).

import (
	"context"
	"io"
	"net"
	"testing"
	"time"

	"github.com/algorand/websocket"

	"github.com/algorand/go-algorand/logging"
)

type reproC43Net struct {
	GossipNode
	closed []disconnectReason
}

func (n *reproC43Net) peerRemoteClose(_ *wsPeer, r disconnectReason) { n.closed = append(n.closed, r) }

type reproC43Reader struct {
	left   int
	pulled int
}

func (r *reproC43Reader) Read(p []byte) (int, error) {
	if r.left == 0 {
		return 0, io.EOF
	}
	n := min(len(p), r.left)
	for i := 0; i < n; i++ {
		p[i] = 'z'
	}
	r.left -= n
	r.pulled += n
	return n, nil
}

type reproC43Conn struct {
	frames  []*reproC43Reader
	next    int
	fetched int
}

func (c *reproC43Conn) RemoteAddr() net.Addr                     { return nil }
func (c *reproC43Conn) RemoteAddrString() string                 { return "repro" }
func (c *reproC43Conn) WriteMessage(int, []byte) error           { return nil }
func (c *reproC43Conn) CloseWithMessage([]byte, time.Time) error { return nil }
func (c *reproC43Conn) SetReadLimit(int64)                       {}
func (c *reproC43Conn) CloseWithoutFlush() error                 { return nil }
func (c *reproC43Conn) UnderlyingConn() net.Conn                 { return nil }
func (c *reproC43Conn) NextReader() (int, io.Reader, error) {
	if c.next >= len(c.frames) {
		return 0, nil, &websocket.CloseError{Code: websocket.CloseNormalClosure}
	}
	c.next++
	c.fetched++
	return websocket.BinaryMessage, c.frames[c.next-1], nil
}

func reproC43Run(t *testing.T, frameLen int) (pulled int, framesFetched int, handed int, reasons []disconnectReason) {
	log := logging.NewLogger()
	log.SetOutput(io.Discard)
	conn := &reproC43Conn{frames: []*reproC43Reader{{left: frameLen}, {left: frameLen}}}
	nt := &reproC43Net{}
	rb := make(chan IncomingMessage, 4)
	wp := &wsPeer{wsPeerCore: makePeerCore(context.Background(), nt, log, rb, "repro", nil, ""), conn: conn}
	wp.closing = make(chan struct{})
	wp.responseChannels = make(map[uint64]chan *Response)
	wp.processed = make(chan struct{}, 4)
	for i := 0; i < 4; i++ {
		wp.processed <- struct{}{}
	}
	wp.msgCodec = makeWsPeerMsgCodec(wp)
	wp.wg.Add(1)
	wp.readLoop() // returns when the scripted connection is exhausted or the peer is dropped
	return conn.frames[0].pulled, conn.fetched, len(rb), nt.closed
}

func TestReproC43UnknownTagIsBufferedUpToMaxMessageLength(t *testing.T) {
	// every byte of the frame is 'z': tag "zz" (unknown to protocol.TagMap), payload MaxMessageLength-2
	pulled, fetched, handed, reasons := reproC43Run(t, MaxMessageLength)
	t.Logf("unknown tag: pulled %d bytes of the first frame, frames fetched %d, handed %d, close reasons %v", pulled, fetched, handed, reasons)
	if handed != 0 {
		t.Fatalf("unknown tag handed to the handlers")
	}
	// Tag("zz").MaxMessageSize() == 0: the property "never buffers more than the tag's limit while reading"
	// allows at most the pre-allocated base buffer plus one allocation step before the peer is cut off.
	if bound := averageMessageLength + int(allocationStep); pulled-2 > bound {
		t.Errorf("readLoop buffered %d payload bytes of a message whose tag has MaxMessageSize()=0 (bound %d); the peer was not dropped (%d frames fetched)", pulled-2, bound, fetched)
	}
}
