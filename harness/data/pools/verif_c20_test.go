package pools

// C20 — Proposed blocks validate and evaluation is deterministic.
//
// Engine E-SEQ (level model_checking): breadth-first exploration of every sequence of node-level
// operations on the REAL TransactionPool over a REAL generator Ledger L1 (ConsensusFuture:
// payouts enabled, bonus, apps with inner transactions and boxes), every proposal the pool
// assembles being finished with a proposer "as the node does" (UnfinishedBlock.FinishBlock with
// the eligibility computed like agreement.payoutEligible) and pushed through validation and
// evaluation on two OTHER ledgers in the same state (L2: default LRU caches, L3:
// DisableLedgerLRUCache), rebuilt from the block history with Ledger.AddBlock (one pair per
// distinct history, shared read-only by all proposals on that history).
//
// Start state (built through the real API in New): block 1 = [D creates application APP,
// D funds the application account, P re-registers its keys paying the incentive fee]. Consensus =
// ConsensusFuture with SeedLookback=SeedRefreshInterval=1 (balance lookback 2 rounds instead of 320). Accounts: A (1 Algo), B C D (rich), P (online,
// IncentiveEligible, 1M Algos: eligible proposer), Q (online, not eligible), E (online, voting
// keys expired at round 1), fee sink, rewards pool. Genesis timestamp 1 pins all timestamps.
//
// Alphabet (simplest first):
//   Remember(g), g in (signatures checked first with verify.TxnGroup like the txHandler)
//     T1   pay A->B 300000
//     T3   pay A->B 300001      (fine after T1; NOT after T1 once the external X took 300000 from A:
//                                a pending group that becomes invalid because an EARLIER pool group
//                                spends the funds)
//     APC  C calls APP: global counter++ and an INNER payment APP->C
//     APD  D calls APP with a box reference: counter++ and box_put (KvMods)
//     GAP  atomic group [B pays the APP account, B calls APP (inner payment)]
//     PE   pay B->E (touches the expired online account E => ExpiredParticipationAccounts list)
//     PCL  P closes its account into B (the eligible proposer closes: FinishBlock must drop the payout)
//     G2   atomic group [C->D, D->C]                                  (thorough only)
//     T2   pay A->B 650000 (overspends after T1/T3: rejected by the pool; thorough only)
//   Tick    an empty block from elsewhere (proposer Q) is validated+added, OnNewBlock: the pool
//           re-evaluates its pending groups and pre-generates its proposal for the next round
//   Commit  the pool's own pre-generated proposal (AssembleBlock, FinishBlock with P) is
//           validated+added on L1, OnNewBlock
//   Ext     a block from elsewhere holding X = pay A->C 300000 (proposer Q), validated+added, OnNewBlock
// Second world "small": the same consensus version with MaxTxnBytesPerBlock = 2.5 payments, block 1 =
// [KEYREG], items T1 T3 PB (B->C) PC (C->D) PE: a pool of three payments holds MORE than one block,
// so the pool's evaluator hits ErrNoSpace, generates the proposal and keeps feeding the following
// groups into the same evaluator (ResetTxnBytes) — the assembled block must still validate.
// Thorough adds RK to the std world: a payment from R (rekeyed to K in block 1) signed by K.
// Bound: quick: <= 3 ops (+ the Tick of clause (b)), <= 3 pending groups, <= 2 round ops (7 Remember items);
//        thorough: <= 6 ops (small world: <= 4), <= 4 pending groups, <= 3 round ops (10 items), time-capped.
// Key = block history (txn names + proposer per block), ordered pending groups, payset of the
// pre-generated proposal, fee multiplier / pending whole blocks.
//
// Oracle, run for every distinct (history, proposal payset) reached — (a) on the proposal the
// pool pre-generated for the next round, and (b) after one more Tick, on the re-evaluated
// proposal that holds every pending group — for each proposer in {P eligible, Q ineligible}:
//   accept    Ledger.Validate on L2 and L3 (and on L1 itself) accepts the finished block, with 1
//             and with 4 verification workers (own ExecutionPool of that size under
//             execpool.MakeBacklog), cold VerifiedTransactionCache (first call on the fresh L2/L3,
//             fresh cache handed to eval.Eval) and warm (repetitions), LRU caches on (L2) / off (L3)
//   same      the canonicalised StateDelta (reflection dump: maps and account/resource records
//             sorted, pointers dereferenced, unexported index caches skipped) of all these
//             evaluations — Validate, eval.Eval(validate=true, fresh cache), eval.Eval(validate=
//             false) = the AddBlock path — is identical across ledgers, configurations and 3 repetitions
//   noprefetch re-running the payset through a generating evaluator (StartEvaluator + TransactionGroup
//             + GenerateBlock: no prefetcher, no signature pool) on L2 and L3 reproduces the identical
//             finished block (payset with ApplyData, header) and the same StateDelta except for
//             the proposer/fee-sink records, totals and header (the payout is only applied once the
//             proposer is known); the same holds for the pool's own UnfinishedDeltas
//   state     L2 and L3, which followed the block history (external blocks and the pool's committed
//             proposals) with Ledger.AddBlock, are in the same state as the generator's L1, which
//             added the same blocks with Validate+AddValidatedBlock: all accounts, the
//             application's global state and box, the totals
//   payout    FeesCollected equals the sum of the fees of the payset; an ineligible proposer (Q)
//             is promised no payout (agreement.verifyProposer would reject the proposal)
//   altered   for every transaction of P's proposal, single alterations that keep txid and signature
//             (AuthAddr := Sender / cleared / := another account; commitment and Load recomputed):
//             cold signature cache, a cache that verified the original block and the generator's own
//             ledger must give the SAME verdict, "reject" whenever verify.TxnGroup rejects the group
// Eval(validate=true) itself compares every recomputed ApplyData with the one in the block, so
// "accept" includes ApplyData equality in every configuration.
//
// NOT covered: the goroutine interleavings inside the prefetcher, the signature-verification pool
// and the evaluator loop are NOT enumerated (each evaluation runs them freely once; only the
// configurations listed above are varied) — that is E-SCHED territory. The prefetcher cannot be
// switched off inside eval.Eval; the "no prefetch" leg is the generating evaluator. Assembly
// deadlines (partial blocks on timeout) are not exercised: the pool is driven synchronously with a
// zero deadline. Logic-sig transactions, assets, rekeying, state proofs, protocol upgrades,
// heartbeat/absent-account suspension are not in the alphabet. Block seeds/certificates are
// agreement's business (fixed seed).
//
// Unexported identifiers used: TransactionPool.feeThresholdMultiplier, .numPendingWholeBlocks (key only).
//
// Mutants (bin/mut, quick tier; all DETECTED):
//   M1 endOfBlock (generate) does not fill FeesCollected when payouts are enabled. In this code
//      base the generating evaluator also runs validateForPayouts on its own block, so the bare
//      mutant only makes GenerateBlock fail (the pool then proposes empty blocks: a liveness loss,
//      reported as harness failure, not a verdict). Adapted: that self-check is first restricted
//      to !eval.generate (neutral on its own), then the mutant is applied: block 1 and every
//      proposal with fees is refused by Validate ("fees collected wrong") -> C20:external-block-rejected
//   M2 eval.Eval hands the prefetcher round-2 instead of the evaluation base round (a stale
//      prefetched account enters roundCowBase) -> C20:delta-differs-noprefetch after [Remember(PE)] + Tick
//   M3 Block.WithProposer keeps ProposerPayout for an ineligible proposer -> C20:payout-ineligible
//   M4 (own, needs Remember(PCL) then a round) UnfinishedBlock.FinishBlock no longer drops the
//      payout of a proposer that closed its account in the block -> C20:proposal-rejected
// Independent seeded changes (/verif/seeded): C20-A (signature cache compares Authorizer() instead of
//   AuthAddr: warm cache accepts an AuthAddr:=Sender twin) -> C20:verdict-depends-on-cache; C20-B
//   (ResetTxnBytes truncates the payset the generated block aliases) -> C20:proposal-rejected in "small".
//   (a generator forgetting TxnCounter is caught by the generator's own end-of-block checks, like bare M1)

import (
	"bytes"
	"context"
	"crypto/sha256"
	"encoding/hex"
	"fmt"
	"reflect"
	"sort"
	"strings"
	"sync"
	"sync/atomic"
	"testing"
	"time"

	"github.com/algorand/avm-abi/apps"
	"github.com/algorand/go-algorand/agreement"
	"github.com/algorand/go-algorand/config"
	"github.com/algorand/go-algorand/crypto"
	"github.com/algorand/go-algorand/data/basics"
	"github.com/algorand/go-algorand/data/bookkeeping"
	"github.com/algorand/go-algorand/data/committee"
	"github.com/algorand/go-algorand/data/transactions"
	"github.com/algorand/go-algorand/data/transactions/logic"
	"github.com/algorand/go-algorand/data/transactions/verify"
	"github.com/algorand/go-algorand/ledger"
	"github.com/algorand/go-algorand/ledger/eval"
	"github.com/algorand/go-algorand/ledger/ledgercore"
	"github.com/algorand/go-algorand/logging"
	"github.com/algorand/go-algorand/protocol"
	"github.com/algorand/go-algorand/util/execpool"
	ve "github.com/algorand/go-algorand/verifeng"
)

const (
	// ConsensusFuture with the agreement balance lookback shortened to 2 rounds, so that an account
	// that registered for incentives in block 1 is an ELIGIBLE proposer from round 3 on (with the
	// real 320-round lookback no payout could ever be observed in a short history).
	c20Proto      = protocol.ConsensusVersion("verif-c20-future-short-lookback")
	c20ProtoSmall = protocol.ConsensusVersion("verif-c20-future-short-lookback-small-blocks")
	c20Fee        = 5000
	c20Last       = 30
)

// account indexes
const (
	c20A = iota
	c20B
	c20C
	c20D
	c20P
	c20Q
	c20E
	c20R // rekeyed to K in block 1 (std world)
	c20K
	c20nAcct
)

// items
const (
	c20T1 = iota
	c20T3
	c20APC
	c20APD
	c20GAP
	c20PE
	c20PCL
	c20G2
	c20T2
	c20RK
	c20nItems
)

var c20ItemNames = []string{"T1", "T3", "APC", "APD", "GAP", "PE", "PCL", "G2", "T2", "RK"}

const c20AppSource = `#pragma version 10
txn ApplicationID
bz done
byte "c"
byte "c"
app_global_get
int 1
+
app_global_put
txn NumAppArgs
bz pay
byte "b"
byte "c"
app_global_get
itob
box_put
b done
pay:
itxn_begin
int pay
itxn_field TypeEnum
txn Sender
itxn_field Receiver
int 1000
itxn_field Amount
int 0
itxn_field Fee
itxn_submit
done:
int 1
`

type c20world struct {
	name      string
	proto     protocol.ConsensusVersion
	itemNames []string
	params    config.ConsensusParams
	genesis   ledgercore.InitState
	secrets   []*crypto.SignatureSecrets
	addrs     []basics.Address
	sink      basics.Address
	rewards   basics.Address
	nItems    int
	maxPend   int
	maxRnd    int

	prefix  []transactions.SignedTxn // block 1
	appID   basics.AppIndex
	appAddr basics.Address
	items   [][]transactions.SignedTxn
	extX    []transactions.SignedTxn
	names   map[transactions.Txid]string
	fees    map[transactions.Txid]uint64
	seed    committee.Seed

	bl1, bl4 execpool.BacklogPool

	repMu     sync.Mutex
	reps      map[string]*c20replicas
	repClock  int64
	nReplicas atomic.Int64
	nLRU      atomic.Int64
	histSeen  sync.Map // history key -> LRU-on validator takes part

	finalDone sync.Map // memo of checked (history, block digest) / (history, pending list)
	nFinal    atomic.Int64
	nLegs     atomic.Int64
	outcomes  sync.Map
}

var c20DBSeq atomic.Uint64
var c20LogOnce sync.Once
var c20Log logging.Logger

func c20Logger() logging.Logger {
	c20LogOnce.Do(func() {
		c20Log = logging.NewLogger()
		c20Log.SetLevel(logging.Error)
	})
	return c20Log
}

// c20workers is an execpool.ExecutionPool with a chosen number of workers (execpool.MakePool is
// hard-wired to NumCPU).
type c20workers struct {
	n  int
	ch chan func()
	wg sync.WaitGroup
}

func c20MakeWorkers(n int) *c20workers {
	p := &c20workers{n: n, ch: make(chan func())}
	p.wg.Add(n)
	for i := 0; i < n; i++ {
		go func() {
			defer p.wg.Done()
			for f := range p.ch {
				f()
			}
		}()
	}
	return p
}

func (p *c20workers) Enqueue(ctx context.Context, t execpool.ExecFunc, arg any, _ execpool.Priority, out chan any) error {
	f := func() {
		res := t(arg)
		if out != nil {
			out <- res
		}
	}
	select {
	case p.ch <- f:
		return nil
	case <-ctx.Done():
		return ctx.Err()
	}
}
func (p *c20workers) GetOwner() any       { return p }
func (p *c20workers) GetParallelism() int { return p.n }
func (p *c20workers) Shutdown()           { close(p.ch); p.wg.Wait() }

func c20Addr(i int) (*crypto.SignatureSecrets, basics.Address) {
	var seed crypto.Seed
	copy(seed[:], fmt.Sprintf("verif-c20-account-seed-%02d........", i))
	s := crypto.GenerateSignatureSecrets(seed)
	return s, basics.Address(s.SignatureVerifier)
}

func c20LedgerCfg(noLRU bool) config.Local {
	cfg := config.GetDefaultLocal()
	cfg.Archival = true
	cfg.TxPoolSize = 16
	cfg.VerifiedTranscationsCacheSize = 64
	cfg.DisableLedgerLRUCache = noLRU
	cfg.LedgerSynchronousMode = 0
	cfg.AccountsRebuildSynchronousMode = 0
	return cfg
}

func (w *c20world) openLedger(noLRU bool) (*ledger.Ledger, error) {
	gen := w.genesis
	gen.Accounts = make(map[basics.Address]basics.AccountData, len(w.genesis.Accounts))
	for a, d := range w.genesis.Accounts {
		gen.Accounts[a] = d
	}
	return ledger.OpenLedger(c20Logger(), fmt.Sprintf("verif-c20-%d", c20DBSeq.Add(1)), true, gen, c20LedgerCfg(noLRU))
}

func (w *c20world) hdr(tx transactions.Transaction) transactions.Transaction {
	tx.Fee = basics.MicroAlgos{Raw: c20Fee}
	tx.FirstValid = 0
	tx.LastValid = c20Last
	tx.GenesisHash = w.genesis.GenesisHash
	return tx
}

func (w *c20world) pay(from, to int, amt uint64, note string) transactions.Transaction {
	return w.hdr(transactions.Transaction{
		Type:             protocol.PaymentTx,
		Header:           transactions.Header{Sender: w.addrs[from], Note: []byte(note)},
		PaymentTxnFields: transactions.PaymentTxnFields{Receiver: w.addrs[to], Amount: basics.MicroAlgos{Raw: amt}},
	})
}

func (w *c20world) call(from int, note string, box bool) transactions.Transaction {
	tx := w.hdr(transactions.Transaction{
		Type:                     protocol.ApplicationCallTx,
		Header:                   transactions.Header{Sender: w.addrs[from], Note: []byte(note)},
		ApplicationCallTxnFields: transactions.ApplicationCallTxnFields{ApplicationID: w.appID},
	})
	if box {
		tx.ApplicationArgs = [][]byte{[]byte("box")}
		tx.Boxes = []transactions.BoxRef{{Index: 0, Name: []byte("b")}}
	}
	return tx
}

func (w *c20world) sign(tx transactions.Transaction, from int, name string) transactions.SignedTxn {
	stx := tx.Sign(w.secrets[from])
	w.names[stx.ID()] = name
	w.fees[stx.ID()] = tx.Fee.Raw
	return stx
}

func (w *c20world) group(name string, txs []transactions.Transaction, from []int) []transactions.SignedTxn {
	gid := c20GroupID(txs)
	out := make([]transactions.SignedTxn, len(txs))
	for i := range txs {
		txs[i].Group = gid
		out[i] = w.sign(txs[i], from[i], fmt.Sprintf("%s%c", name, 'a'+i))
	}
	return out
}

func c20GroupID(txns []transactions.Transaction) crypto.Digest {
	var g transactions.TxGroup
	for _, t := range txns {
		t.Group = crypto.Digest{}
		g.TxGroupHashes = append(g.TxGroupHashes, crypto.Digest(t.ID()))
	}
	return crypto.HashObj(g)
}

var c20ProtoOnce sync.Once

func c20RegisterProto() {
	c20ProtoOnce.Do(func() {
		p := config.Consensus[protocol.ConsensusFuture]
		p.SeedLookback = 1
		p.SeedRefreshInterval = 1
		p.ApprovedUpgrades = map[protocol.ConsensusVersion]uint64{}
		config.Consensus[c20Proto] = p
		// the same with blocks that hold two payments: a pool of three overflows into a second block
		var gh crypto.Digest
		copy(gh[:], "verif-c20-genesis-hash..........")
		sk, a := c20Addr(0)
		_, b := c20Addr(1)
		tx := transactions.Transaction{Type: protocol.PaymentTx,
			Header:           transactions.Header{Sender: a, Fee: basics.MicroAlgos{Raw: c20Fee}, LastValid: c20Last, GenesisHash: gh, Note: []byte("T1")},
			PaymentTxnFields: transactions.PaymentTxnFields{Receiver: b, Amount: basics.MicroAlgos{Raw: 300_000}}}
		hdr := bookkeeping.BlockHeader{GenesisHash: gh, UpgradeState: bookkeeping.UpgradeState{CurrentProtocol: c20Proto}}
		txib, err := hdr.EncodeSignedTxn(tx.Sign(sk), transactions.ApplyData{})
		if err != nil {
			panic(err)
		}
		l := txib.GetEncodedLength()
		p.MaxTxnBytesPerBlock = 2*l + l/2
		config.Consensus[c20ProtoSmall] = p
	})
}

func c20MakeWorld(name string) (*c20world, error) {
	c20RegisterProto()
	small := name == "small"
	proto := c20Proto
	if small {
		proto = c20ProtoSmall
	}
	w := &c20world{name: name, proto: proto, reps: map[string]*c20replicas{}, params: config.Consensus[proto], names: map[transactions.Txid]string{}, fees: map[transactions.Txid]uint64{}}
	w.itemNames = c20ItemNames
	w.nItems = ve.Pick(c20G2, c20nItems)
	w.maxPend = ve.Pick(3, 4)
	w.maxRnd = ve.Pick(2, 3)
	copy(w.seed[:], "verif-c20-block-seed............")
	for i := 0; i < c20nAcct; i++ {
		s, a := c20Addr(i)
		w.secrets = append(w.secrets, s)
		w.addrs = append(w.addrs, a)
	}
	copy(w.sink[:], "verif-c20-fee-sink-address......")
	copy(w.rewards[:], "verif-c20-rewards-pool-address..")
	accts := map[basics.Address]basics.AccountData{}
	online := func(bal uint64, eligible bool, lastValid basics.Round, tag byte) basics.AccountData {
		d := basics.AccountData{MicroAlgos: basics.MicroAlgos{Raw: bal}, Status: basics.Online, IncentiveEligible: eligible,
			VoteFirstValid: 0, VoteLastValid: lastValid, VoteKeyDilution: 10000}
		d.VoteID[0], d.SelectionID[0], d.StateProofID[0] = tag, tag, tag
		return d
	}
	for i, a := range w.addrs {
		switch i {
		case c20A:
			accts[a] = basics.AccountData{MicroAlgos: basics.MicroAlgos{Raw: 1_000_000}}
		case c20P:
			accts[a] = online(1_000_000_000_000, true, 1_000_000, 1)
		case c20Q:
			accts[a] = online(2_000_000_000_000, false, 1_000_000, 2)
		case c20E:
			accts[a] = online(50_000_000, false, 1, 3)
		default:
			accts[a] = basics.AccountData{MicroAlgos: basics.MicroAlgos{Raw: 10_000_000_000}}
		}
	}
	accts[w.sink] = basics.AccountData{MicroAlgos: basics.MicroAlgos{Raw: 1_000_000_000_000}, Status: basics.NotParticipating}
	accts[w.rewards] = basics.AccountData{MicroAlgos: basics.MicroAlgos{Raw: 1_000_000_000}, Status: basics.NotParticipating}
	var gh crypto.Digest
	copy(gh[:], "verif-c20-genesis-hash..........")
	blk := bookkeeping.Block{BlockHeader: bookkeeping.BlockHeader{
		GenesisID:    "verif-c20",
		GenesisHash:  gh,
		TimeStamp:    1,
		TxnCounter:   1000, // as MakeGenesisBlock does when AppForbidLowResources
		UpgradeState: bookkeeping.UpgradeState{CurrentProtocol: proto},
		RewardsState: bookkeeping.RewardsState{FeeSink: w.sink, RewardsPool: w.rewards},
	}}
	var err error
	if blk.TxnCommitments, err = blk.PaysetCommit(); err != nil {
		return nil, err
	}
	w.genesis = ledgercore.InitState{Block: blk, Accounts: accts, GenesisHash: gh}
	w.bl1 = execpool.MakeBacklog(c20MakeWorkers(1), 0, execpool.LowPriority, nil)
	w.bl4 = execpool.MakeBacklog(c20MakeWorkers(4), 0, execpool.LowPriority, nil)
	keyregTxn := func() transactions.Transaction {
		// P registers (again) paying the GoOnlineFee: IncentiveEligible from block 1 on (genesis
		// cannot carry the flag into the online-accounts history)
		k := w.hdr(transactions.Transaction{
			Type:   protocol.KeyRegistrationTx,
			Header: transactions.Header{Sender: w.addrs[c20P], Note: []byte("keyreg")},
			KeyregTxnFields: transactions.KeyregTxnFields{
				VotePK: accts[w.addrs[c20P]].VoteID, SelectionPK: accts[w.addrs[c20P]].SelectionID, StateProofPK: accts[w.addrs[c20P]].StateProofID,
				VoteFirst: 1, VoteLast: 1_000_000, VoteKeyDilution: 10000,
			},
		})
		k.Fee = basics.MicroAlgos{Raw: w.params.Payouts.GoOnlineFee}
		return k
	}
	if small {
		// payments only; block 1 = [KEYREG]; blocks hold two payments
		w.prefix = []transactions.SignedTxn{w.sign(keyregTxn(), c20P, "KEYREG")}
		w.itemNames = []string{"T1", "T3", "PB", "PC", "PE"}
		w.nItems = len(w.itemNames)
		w.items = [][]transactions.SignedTxn{
			{w.sign(w.pay(c20A, c20B, 300_000, "T1"), c20A, "T1")},
			{w.sign(w.pay(c20A, c20B, 300_001, "T3"), c20A, "T3")},
			{w.sign(w.pay(c20B, c20C, 1000, "PB"), c20B, "PB")},
			{w.sign(w.pay(c20C, c20D, 2000, "PC"), c20C, "PC")},
			{w.sign(w.pay(c20B, c20E, 1000, "PE"), c20B, "PE")},
		}
		w.extX = []transactions.SignedTxn{w.sign(w.pay(c20A, c20C, 300_000, "X"), c20A, "X")}
		return w, nil
	}

	// application
	ops, err := logic.AssembleString(c20AppSource)
	if err != nil {
		return nil, fmt.Errorf("assemble app: %w", err)
	}
	clr, err := logic.AssembleString("#pragma version 10\nint 1\n")
	if err != nil {
		return nil, err
	}
	create := w.hdr(transactions.Transaction{
		Type:   protocol.ApplicationCallTx,
		Header: transactions.Header{Sender: w.addrs[c20D], Note: []byte("create")},
		ApplicationCallTxnFields: transactions.ApplicationCallTxnFields{
			ApprovalProgram: ops.Program, ClearStateProgram: clr.Program,
			GlobalStateSchema: basics.StateSchema{NumUint: 1},
		},
	})
	w.prefix = []transactions.SignedTxn{w.sign(create, c20D, "CREATE")}
	// learn the application id from a scratch ledger
	l, err := w.openLedger(true)
	if err != nil {
		return nil, err
	}
	defer l.Close()
	ev, err := c20FreshEval(l)
	if err != nil {
		return nil, err
	}
	if err := ev.TransactionGroup(transactions.WrapSignedTxnsWithAD(w.prefix)...); err != nil {
		return nil, fmt.Errorf("app creation: %w", err)
	}
	ub, err := ev.GenerateBlock(nil)
	if err != nil {
		return nil, err
	}
	w.appID = ub.UnfinishedBlock().Payset[0].ApplyData.ApplicationID
	if w.appID == 0 {
		return nil, fmt.Errorf("no application id in block 1")
	}
	w.appAddr = w.appID.Address()
	fund := w.hdr(transactions.Transaction{
		Type:             protocol.PaymentTx,
		Header:           transactions.Header{Sender: w.addrs[c20D], Note: []byte("fund")},
		PaymentTxnFields: transactions.PaymentTxnFields{Receiver: w.appAddr, Amount: basics.MicroAlgos{Raw: 10_000_000}},
	})
	rekey := w.pay(c20R, c20R, 0, "rekey")
	rekey.RekeyTo = w.addrs[c20K]
	w.prefix = append(w.prefix, w.sign(fund, c20D, "FUND"), w.sign(keyregTxn(), c20P, "KEYREG"), w.sign(rekey, c20R, "REKEY"))

	one := func(name string, tx transactions.Transaction, from int) []transactions.SignedTxn {
		return []transactions.SignedTxn{w.sign(tx, from, name)}
	}
	w.items = make([][]transactions.SignedTxn, c20nItems)
	w.items[c20T1] = one("T1", w.pay(c20A, c20B, 300_000, "T1"), c20A)
	w.items[c20T3] = one("T3", w.pay(c20A, c20B, 300_001, "T3"), c20A)
	w.items[c20T2] = one("T2", w.pay(c20A, c20B, 650_000, "T2"), c20A)
	w.items[c20APC] = one("APC", w.call(c20C, "APC", false), c20C)
	w.items[c20APD] = one("APD", w.call(c20D, "APD", true), c20D)
	w.items[c20PE] = one("PE", w.pay(c20B, c20E, 1000, "PE"), c20B)
	w.items[c20G2] = w.group("G2", []transactions.Transaction{w.pay(c20C, c20D, 1000, "G2a"), w.pay(c20D, c20C, 2000, "G2b")}, []int{c20C, c20D})
	gp := w.hdr(transactions.Transaction{
		Type:             protocol.PaymentTx,
		Header:           transactions.Header{Sender: w.addrs[c20B], Note: []byte("GAPa")},
		PaymentTxnFields: transactions.PaymentTxnFields{Receiver: w.appAddr, Amount: basics.MicroAlgos{Raw: 5000}},
	})
	w.items[c20GAP] = w.group("GAP", []transactions.Transaction{gp, w.call(c20B, "GAPb", false)}, []int{c20B, c20B})
	pcl := w.pay(c20P, c20B, 1000, "PCL")
	pcl.CloseRemainderTo = w.addrs[c20B]
	w.items[c20PCL] = one("PCL", pcl, c20P)
	w.extX = one("X", w.pay(c20A, c20C, 300_000, "X"), c20A)
	// R was rekeyed to K in block 1: signed by K, AuthAddr = K
	rk := w.pay(c20R, c20B, 1000, "RK").Sign(w.secrets[c20K])
	rk.AuthAddr = w.addrs[c20K]
	w.names[rk.ID()], w.fees[rk.ID()] = "RK", rk.Txn.Fee.Raw
	w.items[c20RK] = []transactions.SignedTxn{rk}
	return w, nil
}

func c20FreshEval(l *ledger.Ledger) (*eval.BlockEvaluator, error) {
	prev, err := l.BlockHdr(l.Latest())
	if err != nil {
		return nil, err
	}
	return l.StartEvaluator(bookkeeping.MakeBlock(prev).BlockHeader, 0, 0, nil)
}

// VotingAccountsForRound: the accounts this "node" holds participation keys for.
func (w *c20world) VotingAccountsForRound(basics.Round) []basics.Address {
	return []basics.Address{w.addrs[c20P], w.addrs[c20Q]}
}

// eligible mirrors agreement.payoutEligible on ledger l.
func (w *c20world) eligible(l *ledger.Ledger, rnd basics.Round, proposer basics.Address) (bool, error) {
	br := agreement.BalanceRound(rnd, w.params)
	rec, err := l.LookupAgreement(br, proposer)
	if err != nil {
		return false, err
	}
	return rec.IncentiveEligible && rec.MicroAlgosWithRewards.Raw >= w.params.Payouts.MinBalance &&
		rec.MicroAlgosWithRewards.Raw <= w.params.Payouts.MaxBalance, nil
}

type c20sys struct {
	w      *c20world
	l1     *ledger.Ledger
	pool   *TransactionPool
	bad    error
	badKey string // set when bad is a property violation (a generated block was refused), not a harness failure

	hist      []bookkeeping.Block
	histName  []string
	nRound    int
	asmNames  string // payset of the pre-generated proposal
	asmDigest string // digest of the whole pre-generated (unfinished) block: a block is NOT assumed to be a function of its payset names
	outcome   string
	consumed  bool // Final mutated the instance
	lingering bool // a rejecting evaluation ran on l1: close it later (see c20CloseLater)
}

func (s *c20sys) name(id transactions.Txid) string {
	if n, ok := s.w.names[id]; ok {
		return n
	}
	return "?" + id.String()[:8]
}

func (s *c20sys) groupsNames(groups [][]transactions.SignedTxn) string {
	var gs []string
	for _, g := range groups {
		var parts []string
		for _, t := range g {
			parts = append(parts, s.name(t.ID()))
		}
		gs = append(gs, strings.Join(parts, "+"))
	}
	return strings.Join(gs, ",")
}

func (s *c20sys) paysetNames(blk bookkeeping.Block) (string, error) {
	var parts []string
	for _, txib := range blk.Payset {
		stx, _, err := blk.DecodeSignedTxn(txib)
		if err != nil {
			return "", err
		}
		parts = append(parts, s.name(stx.ID()))
	}
	return strings.Join(parts, ","), nil
}

func c20New(w *c20world) *c20sys {
	s := &c20sys{w: w}
	l, err := w.openLedger(true)
	if err != nil {
		s.bad = fmt.Errorf("OpenLedger: %w", err)
		return s
	}
	s.l1 = l
	// block 1: application creation + funding, proposed elsewhere (by Q)
	ev, err := c20FreshEval(l)
	if err != nil {
		s.bad = err
		return s
	}
	for _, t := range w.prefix {
		if err := ev.TransactionGroup(t.WithAD()); err != nil {
			s.bad = fmt.Errorf("prefix block: %w", err)
			return s
		}
	}
	ub, err := ev.GenerateBlock(w.VotingAccountsForRound(1))
	if err != nil {
		s.bad = err
		return s
	}
	blk := ub.FinishBlock(w.seed, w.addrs[c20Q], false)
	cfg := c20LedgerCfg(true)
	if err := s.addToL1(blk, "Q", false); err != nil {
		// a block generated by the real evaluator and finished like a proposal is refused by
		// validation on the same state: that is the property, not a harness problem
		s.bad = fmt.Errorf("block 1 generated by a fresh evaluator for proposer Q is not accepted: %w", err)
		s.badKey = "C20:external-block-rejected"
		return s
	}
	s.pool = MakeTransactionPool(l, cfg, c20Logger(), w)
	if err := s.refreshAsm(); err != nil {
		s.bad = err
	}
	return s
}

func (s *c20sys) close() {
	if s.pool != nil {
		s.pool.Shutdown()
	}
	if s.l1 != nil {
		if s.lingering {
			c20CloseLater(s.l1.Close)
		} else {
			s.l1.Close()
		}
	}
}

// An eval.Eval that REJECTS a block returns as soon as the signature validator reports, while
// worker goroutines of the prefetcher may still be inside a ledger lookup (they are not awaited);
// Ledger.Close at that moment makes such a lookup dereference the already cleared account
// queries (nil pointer panic in accountUpdates.lookupWithoutRewards — a shutdown race of the
// repository, unrelated to C20). Ledgers that saw a rejecting evaluation are therefore closed a
// few seconds later. Wall-clock use for resource clean-up only: no verdict depends on it.
var c20Graveyard struct {
	mu   sync.Mutex
	list []c20pendingClose
}

type c20pendingClose struct {
	fn func()
	at time.Time
}

const c20CloseDelay = 5 * time.Second

func c20CloseLater(fn func()) {
	now := time.Now()
	var due []func()
	c20Graveyard.mu.Lock()
	c20Graveyard.list = append(c20Graveyard.list, c20pendingClose{fn, now})
	for len(c20Graveyard.list) > 0 && now.Sub(c20Graveyard.list[0].at) > c20CloseDelay {
		due = append(due, c20Graveyard.list[0].fn)
		c20Graveyard.list = c20Graveyard.list[1:]
	}
	c20Graveyard.mu.Unlock()
	for _, f := range due {
		f()
	}
}

func c20CloseAllLater() {
	c20Graveyard.mu.Lock()
	list := c20Graveyard.list
	c20Graveyard.list = nil
	c20Graveyard.mu.Unlock()
	if len(list) > 0 {
		if d := c20CloseDelay - time.Since(list[len(list)-1].at); d > 0 {
			time.Sleep(d)
		}
	}
	for _, e := range list {
		e.fn()
	}
}

// addToL1 validates blk on L1 like a node does for a proposal it received (or made), adds it and
// notifies the pool.
func (s *c20sys) addToL1(blk bookkeeping.Block, proposer string, notify bool) error {
	vb, err := s.l1.Validate(context.Background(), blk, s.w.bl4)
	if err != nil {
		return fmt.Errorf("L1.Validate round %d: %w", blk.Round(), err)
	}
	if err := s.l1.AddValidatedBlock(*vb, agreement.Certificate{}); err != nil {
		return err
	}
	names, err := s.paysetNames(blk)
	if err != nil {
		return err
	}
	s.hist = append(s.hist, blk)
	s.histName = append(s.histName, "["+names+"]@"+proposer)
	if notify {
		s.pool.OnNewBlock(vb.Block(), vb.Delta())
	}
	return nil
}

func (s *c20sys) assemble() (*ledgercore.UnfinishedBlock, error) {
	next := s.l1.Latest() + 1
	ub, err := s.pool.AssembleBlock(next, time.Time{})
	if err != nil {
		return nil, err
	}
	if ub == nil || ub.Round() != next {
		return nil, fmt.Errorf("AssembleBlock(%d) returned no block for that round", next)
	}
	for _, a := range s.w.VotingAccountsForRound(next) {
		if !ub.ContainsAddress(a) {
			return nil, fmt.Errorf("assembled block lacks the end-of-block state of voting account %v", a)
		}
	}
	return ub, nil
}

func (s *c20sys) refreshAsm() error {
	ub, err := s.assemble()
	if err != nil {
		return err
	}
	blk := ub.UnfinishedBlock()
	h := sha256.Sum256(protocol.Encode(&blk))
	s.asmDigest = hex.EncodeToString(h[:8])
	s.asmNames, err = s.paysetNames(blk)
	return err
}

// externalBlock builds a block elsewhere (fresh evaluator, proposer Q) holding groups.
func (s *c20sys) externalBlock(groups [][]transactions.SignedTxn) (bookkeeping.Block, bool, error) {
	ev, err := c20FreshEval(s.l1)
	if err != nil {
		return bookkeeping.Block{}, true, err
	}
	for _, g := range groups {
		if err := ev.TransactionGroup(transactions.WrapSignedTxnsWithAD(g)...); err != nil {
			return bookkeeping.Block{}, false, nil
		}
	}
	next := s.l1.Latest() + 1
	ub, err := ev.GenerateBlock(s.w.VotingAccountsForRound(next))
	if err != nil {
		return bookkeeping.Block{}, true, err
	}
	el, err := s.w.eligible(s.l1, next, s.w.addrs[c20Q])
	if err != nil {
		return bookkeeping.Block{}, true, err
	}
	return ub.FinishBlock(s.w.seed, s.w.addrs[c20Q], el), true, nil
}

func (s *c20sys) apply(op int) (bool, error) {
	w := s.w
	harness := func(err error) (bool, error) {
		return true, ve.Violationf("C20:harness", "harness: %s: %v", c20OpName(w, op), err)
	}
	switch {
	case op < w.nItems:
		if len(s.pool.PendingTxGroups()) >= w.maxPend {
			return false, nil
		}
		g := w.items[op]
		hdr, err := s.l1.BlockHdr(s.l1.Latest())
		if err != nil {
			return harness(err)
		}
		if _, err := verify.TxnGroup(g, &hdr, s.l1.VerifiedTransactionCache(), s.l1); err != nil {
			return harness(fmt.Errorf("signature verification: %w", err))
		}
		err = s.pool.Remember(g)
		if err == nil {
			s.outcome = "remember/" + w.itemNames[op] + "/admitted"
		} else {
			s.outcome = "remember/" + w.itemNames[op] + "/rejected:" + ClassifyTxPoolError(err)
		}
		// the proposal pre-generated for this round must not be affected by later submissions: take
		// its digest again (a block is re-checked whenever its digest is new)
		if err := s.refreshAsm(); err != nil {
			return true, ve.Violationf("C20:assemble-error", "AssembleBlock after %s: %v", c20OpName(w, op), err)
		}
		return true, nil
	case s.nRound >= w.maxRnd:
		return false, nil
	case op == w.nItems: // Tick
		blk, ok, err := s.externalBlock(nil)
		if err != nil || !ok {
			return harness(fmt.Errorf("empty external block: ok=%v err=%v", ok, err))
		}
		if err := s.addToL1(blk, "Q", true); err != nil {
			return true, ve.Violationf("C20:external-block-rejected", "an empty block generated by a fresh evaluator for proposer Q is not accepted: %v", err)
		}
		s.outcome = "tick"
	case op == w.nItems+1: // Commit own proposal
		ub, err := s.assemble()
		if err != nil {
			return true, ve.Violationf("C20:assemble-error", "AssembleBlock on a pool in sync with the ledger: %v", err)
		}
		pr := w.addrs[c20P]
		el, err := w.eligible(s.l1, ub.Round(), pr)
		if err != nil {
			return harness(err)
		}
		blk := ub.FinishBlock(w.seed, pr, el)
		if err := s.addToL1(blk, "P", true); err != nil {
			return true, ve.Violationf("C20:own-proposal-rejected", "the node's own proposal [%s] is rejected by its own ledger: %v", s.asmNames, err)
		}
		s.outcome = fmt.Sprintf("commit/%d", len(blk.Payset))
	case op == w.nItems+2: // Ext
		blk, ok, err := s.externalBlock([][]transactions.SignedTxn{w.extX})
		if err != nil {
			return harness(err)
		}
		if !ok {
			return false, nil
		}
		if err := s.addToL1(blk, "Q", true); err != nil {
			return true, ve.Violationf("C20:external-block-rejected", "a block generated by a fresh evaluator holding X is not accepted: %v", err)
		}
		s.outcome = "ext"
	default:
		return false, nil
	}
	s.nRound++
	if err := s.refreshAsm(); err != nil {
		return true, ve.Violationf("C20:assemble-error", "AssembleBlock after %s: %v", c20OpName(w, op), err)
	}
	return true, nil
}

func c20OpName(w *c20world, op int) string {
	switch {
	case op < w.nItems:
		return "Remember(" + w.itemNames[op] + ")"
	case op == w.nItems:
		return "Tick"
	case op == w.nItems+1:
		return "Commit"
	default:
		return "Ext(X)"
	}
}

func (s *c20sys) key() string {
	return fmt.Sprintf("h%s|p[%s]|a[%s]%s|m%d|w%d", strings.Join(s.histName, ""), s.groupsNames(s.pool.PendingTxGroups()), s.asmNames, s.asmDigest,
		s.pool.feeThresholdMultiplier, s.pool.numPendingWholeBlocks)
}

// ---- canonical dump of a StateDelta (or anything) -------------------------------------------

type c20dumpOpts struct {
	skipAddr map[basics.Address]bool // drop these accounts' BalanceRecords
	partial  bool                    // drop Hdr and Totals (generating evaluator before the proposer is known)
}

var c20AddrType = reflect.TypeOf(basics.Address{})

func c20Dump(b *strings.Builder, v reflect.Value, o *c20dumpOpts, depth int) {
	if depth > 40 {
		b.WriteString("<deep>")
		return
	}
	switch v.Kind() {
	case reflect.Ptr, reflect.Interface:
		if v.IsNil() {
			b.WriteString("nil")
			return
		}
		b.WriteString("&")
		c20Dump(b, v.Elem(), o, depth+1)
	case reflect.Struct:
		t := v.Type()
		b.WriteString(t.Name() + "{")
		for i := 0; i < v.NumField(); i++ {
			f := t.Field(i)
			if f.PkgPath != "" { // unexported: index caches, allocation hints
				continue
			}
			if o.partial && t.Name() == "StateDelta" && (f.Name == "Hdr" || f.Name == "Totals") {
				continue
			}
			b.WriteString(f.Name + ":")
			c20Dump(b, v.Field(i), o, depth+1)
			b.WriteString(";")
		}
		b.WriteString("}")
	case reflect.Map:
		type kv struct{ k, v string }
		var ents []kv
		it := v.MapRange()
		for it.Next() {
			var kb, vb strings.Builder
			c20Dump(&kb, it.Key(), o, depth+1)
			c20Dump(&vb, it.Value(), o, depth+1)
			ents = append(ents, kv{kb.String(), vb.String()})
		}
		sort.Slice(ents, func(i, j int) bool { return ents[i].k < ents[j].k })
		b.WriteString("map[")
		for _, e := range ents {
			b.WriteString(e.k + "=>" + e.v + ",")
		}
		b.WriteString("]")
	case reflect.Slice, reflect.Array:
		if v.Kind() == reflect.Slice && v.IsNil() {
			b.WriteString("[]")
			return
		}
		if v.Type().Elem().Kind() == reflect.Uint8 {
			bs := make([]byte, v.Len())
			for i := range bs {
				bs[i] = byte(v.Index(i).Uint())
			}
			b.WriteString("x" + hex.EncodeToString(bs))
			return
		}
		en := v.Type().Elem().Name()
		records := en == "BalanceRecord" || en == "AppResourceRecord" || en == "AssetResourceRecord"
		var elems []string
		for i := 0; i < v.Len(); i++ {
			e := v.Index(i)
			if en == "BalanceRecord" && o.skipAddr != nil {
				if a, ok := e.FieldByName("Addr").Interface().(basics.Address); ok && o.skipAddr[a] {
					continue
				}
			}
			var eb strings.Builder
			c20Dump(&eb, e, o, depth+1)
			elems = append(elems, eb.String())
		}
		if records { // insertion order of the delta records carries no meaning
			sort.Strings(elems)
		}
		b.WriteString("[" + strings.Join(elems, ",") + "]")
	case reflect.String:
		b.WriteString(fmt.Sprintf("%q", v.String()))
	case reflect.Bool:
		b.WriteString(fmt.Sprint(v.Bool()))
	case reflect.Int, reflect.Int8, reflect.Int16, reflect.Int32, reflect.Int64:
		b.WriteString(fmt.Sprint(v.Int()))
	case reflect.Uint, reflect.Uint8, reflect.Uint16, reflect.Uint32, reflect.Uint64, reflect.Uintptr:
		b.WriteString(fmt.Sprint(v.Uint()))
	default:
		b.WriteString(fmt.Sprintf("<%s>", v.Kind()))
	}
}

func c20Canon(d *ledgercore.StateDelta, o *c20dumpOpts) string {
	var b strings.Builder
	c20Dump(&b, reflect.ValueOf(d), o, 0)
	return b.String()
}

func c20Diff(a, b string) string {
	i := 0
	for i < len(a) && i < len(b) && a[i] == b[i] {
		i++
	}
	lo := i - 160
	if lo < 0 {
		lo = 0
	}
	cut := func(s string) string {
		hi := i + 160
		if hi > len(s) {
			hi = len(s)
		}
		return s[lo:hi]
	}
	return fmt.Sprintf("first difference at byte %d: ...%s...  VERSUS  ...%s...", i, cut(a), cut(b))
}

// ---- the oracle ------------------------------------------------------------------------------

// c20replicas are the two validator ledgers for one block history: L2 (LRU caches on — opening
// one allocates ~100 MB of cache buffers, hence the sharing) and L3 (DisableLedgerLRUCache), both
// fed with Ledger.AddBlock. They are only READ by the checks (Validate / Eval / StartEvaluator),
// so all proposals on the same history share them; the first user sees them cold.
type c20replicas struct {
	once     sync.Once
	l2, l3   *ledger.Ledger
	err      error
	refs     int
	stamp    int64
	state2   string
	state3   string
	stateErr error
}

const c20ReplicaCap = 6

func (s *c20sys) acquireReplicas() *c20replicas {
	w := s.w
	hk := strings.Join(s.histName, "")
	w.repMu.Lock()
	e := w.reps[hk]
	if e == nil {
		e = &c20replicas{}
		w.reps[hk] = e
	}
	e.refs++
	w.repClock++
	e.stamp = w.repClock
	var victims []*c20replicas
	for len(w.reps) > c20ReplicaCap {
		var vk string
		var v *c20replicas
		for k, x := range w.reps {
			if x.refs == 0 && (v == nil || x.stamp < v.stamp) {
				vk, v = k, x
			}
		}
		if v == nil {
			break
		}
		delete(w.reps, vk)
		victims = append(victims, v)
	}
	w.repMu.Unlock()
	for _, v := range victims {
		v.close()
	}
	e.once.Do(func() {
		w.nReplicas.Add(1)
		build := func(noLRU bool) (*ledger.Ledger, error) {
			l, err := w.openLedger(noLRU)
			if err != nil {
				return nil, err
			}
			for _, b := range s.hist {
				if err := l.AddBlock(b, agreement.Certificate{}); err != nil {
					l.Close()
					return nil, fmt.Errorf("AddBlock(%d): %w", b.Round(), err)
				}
			}
			return l, nil
		}
		if e.l3, e.err = build(true); e.err != nil {
			return
		}
		if e.state3, e.stateErr = s.stateDump(e.l3); e.stateErr != nil {
			return
		}
		// Opening a ledger with the LRU caches enabled costs several CPU seconds (hundreds of MB of
		// cache buffers are allocated and cleared), so the LRU-on validator L2 takes part for a fixed,
		// deterministic subset of the histories: those of <= 2 blocks (which carry all the proposals
		// of clause (b) from the start state, i.e. every pool content) and, in the thorough tier, 1
		// in 16 of the others.
		h := sha256.Sum256([]byte(hk))
		lru := w.name == "std" && (len(s.hist) <= 2 || (ve.Thorough() && h[0]%16 == 0))
		w.histSeen.Store(hk, lru)
		if lru {
			w.nLRU.Add(1)
			if e.l2, e.err = build(false); e.err != nil {
				return
			}
			e.state2, e.stateErr = s.stateDump(e.l2)
		}
	})
	return e
}

func (e *c20replicas) close() {
	if e.l2 != nil {
		c20CloseLater(e.l2.Close)
	}
	if e.l3 != nil {
		c20CloseLater(e.l3.Close)
	}
}

func (w *c20world) releaseReplicas(e *c20replicas) {
	w.repMu.Lock()
	e.refs--
	w.repMu.Unlock()
}

func (s *c20sys) stateDump(l *ledger.Ledger) (string, error) {
	var b strings.Builder
	w := s.w
	addrs := append(append([]basics.Address{}, w.addrs...), w.sink, w.rewards)
	if w.appID != 0 {
		addrs = append(addrs, w.appAddr)
	}
	for _, a := range addrs {
		d, _, _, err := l.LookupLatest(a)
		if err != nil {
			return "", err
		}
		b.WriteString(a.String()[:6] + "=")
		c20Dump(&b, reflect.ValueOf(d), &c20dumpOpts{}, 0)
		b.WriteString("\n")
	}
	if w.appID != 0 {
		rnd := l.Latest()
		app, err := l.LookupApplication(rnd, w.addrs[c20D], w.appID)
		if err != nil {
			return "", err
		}
		b.WriteString("app=")
		c20Dump(&b, reflect.ValueOf(app), &c20dumpOpts{}, 0)
		kv, err := l.LookupKv(rnd, apps.MakeBoxKey(uint64(w.appID), "b"))
		if err != nil {
			return "", err
		}
		b.WriteString("\nbox=" + hex.EncodeToString(kv))
	}
	_, tot, err := l.LatestTotals()
	if err != nil {
		return "", err
	}
	b.WriteString("\ntotals=")
	c20Dump(&b, reflect.ValueOf(tot), &c20dumpOpts{}, 0)
	return b.String(), nil
}

// checkProposal runs all legs on the proposal ub the pool assembled on top of s.hist.
func (s *c20sys) checkProposal(ub *ledgercore.UnfinishedBlock, what string) error {
	w := s.w
	ctx := context.Background()
	rep := s.acquireReplicas()
	defer w.releaseReplicas(rep)
	if rep.err != nil {
		return ve.Violationf("C20:replica-rejects-history", "a fresh ledger does not accept the block history %v through AddBlock: %v", s.histName, rep.err)
	}
	l2, l3 := rep.l2, rep.l3
	// state clause: the validators that followed the history with AddBlock are in the generator's state
	if rep.stateErr != nil {
		return ve.Violationf("C20:harness", "harness: state dump of the replicas: %v", rep.stateErr)
	}
	d1, err := s.stateDump(s.l1)
	if err != nil {
		return ve.Violationf("C20:harness", "harness: state dump L1: %v", err)
	}
	if l2 != nil && d1 != rep.state2 {
		return ve.Violationf("C20:state-differs", "after history %v the state of L2 (AddBlock) differs from the generator's L1: %s", s.histName, c20Diff(rep.state2, d1))
	}
	if d1 != rep.state3 {
		return ve.Violationf("C20:state-differs", "after history %v the state of L3 (noLRU, AddBlock) differs from the generator's L1: %s", s.histName, c20Diff(rep.state3, d1))
	}

	names, _ := s.paysetNames(ub.UnfinishedBlock())
	var feeSum uint64
	for _, txib := range ub.UnfinishedBlock().Payset {
		stx, _, _ := ub.UnfinishedBlock().DecodeSignedTxn(txib)
		feeSum += w.fees[stx.ID()]
	}
	ownCanon := c20Canon(c20PtrDelta(ub.UnfinishedDeltas()), &c20dumpOpts{partial: true, skipAddr: map[basics.Address]bool{w.sink: true, w.addrs[c20P]: true, w.addrs[c20Q]: true}})

	for pi, pidx := range []int{c20P, c20Q} {
		pr := w.addrs[pidx]
		pname := []string{"P", "Q"}[pi]
		el, err := w.eligible(s.l1, ub.Round(), pr)
		if err != nil {
			return ve.Violationf("C20:harness", "harness: eligibility: %v", err)
		}
		blk := ub.FinishBlock(w.seed, pr, el)
		desc := fmt.Sprintf("%s proposal [%s] for round %d by %s on history %v", what, names, blk.Round(), pname, s.histName)
		// payout clause
		if blk.FeesCollected.Raw != feeSum {
			return ve.Violationf("C20:fees-collected", "%s: header FeesCollected=%d, the payset pays %d", desc, blk.FeesCollected.Raw, feeSum)
		}
		closed := strings.Contains(names, "PCL")
		if pidx == c20P && !closed {
			w.outcomes.Store(fmt.Sprintf("payout/P/nonzero=%v", !blk.ProposerPayout().IsZero()), true)
		}
		if pidx == c20Q && !blk.ProposerPayout().IsZero() {
			return ve.Violationf("C20:payout-ineligible", "%s: ineligible proposer is promised %d", desc, blk.ProposerPayout().Raw)
		}

		type leg struct {
			name string
			run  func() (ledgercore.StateDelta, error)
		}
		validate := func(l *ledger.Ledger, bp execpool.BacklogPool) func() (ledgercore.StateDelta, error) {
			return func() (ledgercore.StateDelta, error) {
				vb, err := l.Validate(ctx, blk, bp)
				if err != nil {
					return ledgercore.StateDelta{}, err
				}
				return vb.Delta(), nil
			}
		}
		legs := []leg{
			{"L3(noLRU).Validate/4workers", validate(l3, w.bl4)},
			{"L3(noLRU).Validate/1worker", validate(l3, w.bl1)},
			{"eval.Eval(L3,validate,fresh sig cache)/4workers", func() (ledgercore.StateDelta, error) {
				return eval.Eval(ctx, l3, blk, true, verify.MakeVerifiedTransactionCache(64), w.bl4, nil)
			}},
			{"eval.Eval(L3,no validation)", func() (ledgercore.StateDelta, error) {
				return eval.Eval(ctx, l3, blk, false, l3.VerifiedTransactionCache(), nil, nil)
			}},
			{"L1.Validate/4workers", validate(s.l1, w.bl4)},
		}
		qlegs := []leg{legs[0], legs[3], legs[4]}
		if l2 != nil {
			legs = append(legs,
				leg{"L2(LRU).Validate/4workers", validate(l2, w.bl4)},
				leg{"L2(LRU).Validate/1worker", validate(l2, w.bl1)},
				leg{"eval.Eval(L2,validate,fresh sig cache)/1worker", func() (ledgercore.StateDelta, error) {
					return eval.Eval(ctx, l2, blk, true, verify.MakeVerifiedTransactionCache(64), w.bl1, nil)
				}})
			qlegs = append(qlegs, legs[5])
		}
		var ref, refName string
		var refPartial string
		partialOpts := &c20dumpOpts{partial: true, skipAddr: map[basics.Address]bool{w.sink: true, w.addrs[c20P]: true, w.addrs[c20Q]: true}}
		reps := 3
		if pidx == c20Q { // the ineligible-proposer variant only differs in the header: one pass over three legs
			reps = 1
			legs = qlegs
		}
		for rep := 0; rep < reps; rep++ {
			for li, lg := range legs {
				if rep > 0 && (li == 2 || li == 4 || li == 7) {
					continue // fresh-cache evaluations and the generator's own ledger: first pass only
				}
				d, err := lg.run()
				w.nLegs.Add(1)
				if err != nil {
					return ve.Violationf("C20:proposal-rejected", "%s: %s (repetition %d) rejects it: %v", desc, lg.name, rep, err)
				}
				c := c20Canon(&d, &c20dumpOpts{})
				if ref == "" {
					ref, refName = c, lg.name
					refPartial = c20Canon(&d, partialOpts)
				} else if c != ref {
					return ve.Violationf("C20:delta-differs", "%s: StateDelta of %s (repetition %d) differs from %s: %s", desc, lg.name, rep, refName, c20Diff(c, ref))
				}
			}
		}
		// no-prefetch leg: generating evaluator on L2 and L3
		groups, err := blk.DecodePaysetGroups()
		if err != nil {
			return ve.Violationf("C20:proposal-rejected", "%s: payset does not decode: %v", desc, err)
		}
		for li, l := range []*ledger.Ledger{l3, l2} {
			if l == nil || (pidx == c20Q && li == 1) {
				continue
			}
			lname := []string{"L3(noLRU)", "L2(LRU)"}[li]
			ev, err := c20FreshEval(l)
			if err != nil {
				return ve.Violationf("C20:harness", "harness: %v", err)
			}
			for gi, g := range groups {
				plain := make([]transactions.SignedTxn, len(g))
				for i := range g {
					plain[i] = g[i].SignedTxn
				}
				if err := ev.TransactionGroup(transactions.WrapSignedTxnsWithAD(plain)...); err != nil {
					return ve.Violationf("C20:regenerate-rejected", "%s: a generating evaluator on %s rejects group %d: %v", desc, lname, gi, err)
				}
			}
			ub2, err := ev.GenerateBlock(w.VotingAccountsForRound(blk.Round()))
			w.nLegs.Add(1)
			if err != nil {
				return ve.Violationf("C20:regenerate-rejected", "%s: GenerateBlock on %s: %v", desc, lname, err)
			}
			blk2 := ub2.FinishBlock(w.seed, pr, el)
			if !bytes.Equal(protocol.Encode(&blk2), protocol.Encode(&blk)) {
				var a, b strings.Builder
				c20Dump(&a, reflect.ValueOf(blk2), &c20dumpOpts{}, 0)
				c20Dump(&b, reflect.ValueOf(blk), &c20dumpOpts{}, 0)
				return ve.Violationf("C20:regenerated-block-differs", "%s: the block regenerated from the same payset on %s differs (header or ApplyData): %s", desc, lname, c20Diff(a.String(), b.String()))
			}
			c := c20Canon(c20PtrDelta(ub2.UnfinishedDeltas()), partialOpts)
			if c != refPartial {
				return ve.Violationf("C20:delta-differs-noprefetch", "%s: StateDelta of the generating evaluator (no prefetch) on %s differs from %s (proposer/sink records, totals, header excluded): %s", desc, lname, refName, c20Diff(c, refPartial))
			}
		}
		if ownCanon != refPartial {
			return ve.Violationf("C20:delta-differs-pool", "%s: the pool's own UnfinishedDeltas differ from %s (proposer/sink records, totals, header excluded): %s", desc, refName, c20Diff(ownCanon, refPartial))
		}
		if pidx == c20P {
			if err := s.checkAlterations(blk, desc, l3); err != nil {
				return err
			}
		}
	}
	return nil
}

// checkAlterations: the verdict on a block must not depend on what the signature cache holds —
// also for blocks a dishonest proposer derives from the proposal. For every transaction of the
// block, single alterations that keep the txid and the signature (the authorizing address is not
// part of the signed transaction): AuthAddr := Sender, AuthAddr cleared (when set), and for the
// first transaction AuthAddr := another account; the payset commitment and the Load field are
// recomputed so that nothing else is wrong with the block. Each altered block is evaluated with a cold signature
// cache, with a cache that has verified the ORIGINAL block, and by the generator's own ledger
// (whose cache verified the originals when they were submitted). All verdicts must agree, they
// must be "reject" whenever verify.TxnGroup rejects the altered group, and accepted variants must
// produce the same StateDelta.
func (s *c20sys) checkAlterations(blk bookkeeping.Block, desc string, l3 *ledger.Ledger) error {
	w := s.w
	ctx := context.Background()
	if len(blk.Payset) == 0 {
		return nil
	}
	s.lingering = true
	warm := verify.MakeVerifiedTransactionCache(64)
	w.nLegs.Add(1)
	if _, err := eval.Eval(ctx, l3, blk, true, warm, w.bl4, nil); err != nil {
		return ve.Violationf("C20:proposal-rejected", "%s: eval.Eval(L3, validate, fresh sig cache) rejects it: %v", desc, err)
	}
	for i := range blk.Payset {
		stx, ad, err := blk.DecodeSignedTxn(blk.Payset[i])
		if err != nil {
			return ve.Violationf("C20:harness", "harness: decode payset[%d]: %v", i, err)
		}
		type alt struct {
			name string
			auth basics.Address
		}
		alts := []alt{{"AuthAddr:=Sender", stx.Txn.Sender}}
		if !stx.AuthAddr.IsZero() {
			alts = append(alts, alt{"AuthAddr cleared", basics.Address{}})
		}
		if i == 0 {
			other := w.addrs[c20B]
			if other == stx.Txn.Sender || other == stx.AuthAddr {
				other = w.addrs[c20C]
			}
			alts = append(alts, alt{"AuthAddr:=another account", other})
		}
		for _, a := range alts {
			astx := stx
			astx.AuthAddr = a.auth
			ab := blk
			ab.Payset = append(transactions.Payset{}, blk.Payset...)
			txib, err := ab.EncodeSignedTxn(astx, ad)
			if err != nil || astx.ID() != stx.ID() {
				return ve.Violationf("C20:harness", "harness: altered payset[%d]: %v", i, err)
			}
			ab.Payset[i] = txib
			if ab.TxnCommitments, err = ab.PaysetCommit(); err != nil {
				return ve.Violationf("C20:harness", "harness: PaysetCommit: %v", err)
			}
			c20FixLoad(&ab, w)
			adesc := fmt.Sprintf("%s, altered: %s on transaction %d (%s), txid and signature unchanged", desc, a.name, i, s.name(stx.ID()))
			// what signature verification says about the altered groups
			groups, err := ab.DecodePaysetGroups()
			if err != nil {
				return ve.Violationf("C20:harness", "harness: DecodePaysetGroups: %v", err)
			}
			var sigErr error
			for _, g := range groups {
				plain := make([]transactions.SignedTxn, len(g))
				for k := range g {
					plain[k] = g[k].SignedTxn
				}
				if _, err := verify.TxnGroup(plain, &ab.BlockHeader, verify.MakeVerifiedTransactionCache(8), l3); err != nil {
					sigErr = err
				}
			}
			type verdict struct {
				name  string
				err   error
				canon string
			}
			run := func(name string, f func() (ledgercore.StateDelta, error)) verdict {
				w.nLegs.Add(1)
				d, err := f()
				v := verdict{name: name, err: err}
				if err == nil {
					v.canon = c20Canon(&d, &c20dumpOpts{})
				}
				return v
			}
			vs := []verdict{
				run("cold signature cache", func() (ledgercore.StateDelta, error) {
					return eval.Eval(ctx, l3, ab, true, verify.MakeVerifiedTransactionCache(64), w.bl4, nil)
				}),
				run("signature cache that verified the original block", func() (ledgercore.StateDelta, error) {
					return eval.Eval(ctx, l3, ab, true, warm, w.bl1, nil)
				}),
				run("generator ledger L1 (cache warmed by the submissions)", func() (ledgercore.StateDelta, error) {
					vb, err := s.l1.Validate(ctx, ab, w.bl4)
					if err != nil {
						return ledgercore.StateDelta{}, err
					}
					return vb.Delta(), nil
				}),
			}
			w.outcomes.Store(fmt.Sprintf("altered/%s/sigvalid=%v/accepted=%v", a.name, sigErr == nil, vs[0].err == nil), true)
			for _, v := range vs[1:] {
				if (v.err == nil) != (vs[0].err == nil) {
					return ve.Violationf("C20:verdict-depends-on-cache", "%s: with a %s the block is %s, with a %s it is %s (signature verification of the altered group says: %v)",
						adesc, vs[0].name, c20Verdict(vs[0].err), v.name, c20Verdict(v.err), c20Verdict(sigErr))
				}
				if v.err == nil && v.canon != vs[0].canon {
					return ve.Violationf("C20:delta-differs", "%s: StateDelta with a %s differs from the one with a %s: %s", adesc, v.name, vs[0].name, c20Diff(v.canon, vs[0].canon))
				}
			}
			if sigErr != nil && vs[0].err == nil {
				return ve.Violationf("C20:invalid-signature-accepted", "%s: validation accepts the block although signature verification rejects the altered group: %v", adesc, sigErr)
			}
		}
	}
	return nil
}

// c20FixLoad recomputes the header's Load (block utilisation) for an altered payset, as a
// proposer would.
func c20FixLoad(b *bookkeeping.Block, w *c20world) {
	if !w.params.LoadTracking {
		return
	}
	n := 0
	for i := range b.Payset {
		n += b.Payset[i].GetEncodedLength()
	}
	b.Load = eval.ComputeLoad(n, w.params.MaxTxnBytesPerBlock)
}

func c20Verdict(err error) string {
	if err == nil {
		return "ACCEPTED"
	}
	msg := err.Error()
	if i := strings.LastIndex(msg, "} "); i >= 0 && len(msg) > 300 {
		msg = "..." + msg[i+2:]
	}
	if len(msg) > 300 {
		msg = msg[:300] + "..."
	}
	return fmt.Sprintf("REJECTED (%s)", msg)
}

func c20PtrDelta(d ledgercore.StateDelta) *ledgercore.StateDelta { return &d }

// final: (a) the pre-generated proposal of this state (non-destructive); (b) one Tick later, the
// re-evaluated proposal that holds every still-valid pending group (consumes the instance).
// Both are memoised: (a) by history + digest of the whole assembled block, (b) by history + ordered
// pending list (the recompute starts from exactly that).
func (s *c20sys) final() error {
	w := s.w
	hk := strings.Join(s.histName, "")
	check := func(what string) error {
		if _, done := w.finalDone.LoadOrStore("a|"+strings.Join(s.histName, "")+"|"+s.asmNames+"|"+s.asmDigest, true); done {
			return nil
		}
		ub, err := s.assemble()
		if err != nil {
			return ve.Violationf("C20:assemble-error", "AssembleBlock: %v", err)
		}
		w.nFinal.Add(1)
		w.outcomes.Store("proposal/["+s.asmNames+"]", true)
		return s.checkProposal(ub, what)
	}
	if err := check("pre-generated"); err != nil {
		return err
	}
	pend := s.groupsNames(s.pool.PendingTxGroups())
	if _, done := w.finalDone.LoadOrStore("b|"+hk+"|"+pend, true); done {
		return nil
	}
	s.consumed = true
	blk, ok, err := s.externalBlock(nil)
	if err != nil || !ok {
		return ve.Violationf("C20:harness", "harness: empty external block: ok=%v err=%v", ok, err)
	}
	if err := s.addToL1(blk, "Q", true); err != nil {
		return ve.Violationf("C20:external-block-rejected", "an empty block generated by a fresh evaluator for proposer Q is not accepted: %v", err)
	}
	if err := s.refreshAsm(); err != nil {
		return ve.Violationf("C20:assemble-error", "AssembleBlock: %v", err)
	}
	return check("re-evaluated")
}

// c20h: same instance-reuse scheme as C44 (see c44h): the clone takes the parent's live
// instance and hands it back iff the state key is unchanged and nothing destructive happened.
type c20h struct {
	world   *c20world
	sys     *c20sys
	ops     []int
	parent  *c20h
	baseKey string
	dirty   bool
}

func c20Clone(b *c20h) *c20h {
	h := &c20h{world: b.world, ops: append([]int{}, b.ops...), parent: b}
	if b.sys != nil && b.sys.bad == nil && !b.dirty && !b.sys.consumed {
		h.sys, b.sys = b.sys, nil
	} else {
		h.sys = c20New(b.world)
		for _, op := range b.ops {
			if h.sys.bad != nil {
				break
			}
			en, err := h.sys.apply(op)
			if err != nil || !en {
				h.sys.bad = fmt.Errorf("replay of %v diverged at %s: enabled=%v err=%v", b.ops, c20OpName(b.world, op), en, err)
			}
		}
	}
	if h.sys.bad == nil {
		h.baseKey = h.sys.key()
	}
	return h
}

func c20Close(h *c20h) {
	if h.sys == nil {
		return
	}
	if p := h.parent; p != nil && p.sys == nil && !h.dirty && h.sys.bad == nil && !h.sys.consumed && h.sys.key() == h.baseKey {
		p.sys, h.sys = h.sys, nil
		return
	}
	h.sys.close()
	h.sys = nil
}

func TestVerif_C20(t *testing.T) {
	r := ve.NewRun("C20", "model_checking")
	r.Assume("the goroutine interleavings inside the prefetcher / signature pool / evaluator loop are NOT enumerated: each evaluation runs them freely; only configurations (workers 1/4, caches cold/warm, LRU on/off, generating evaluator without prefetch) and 3 repetitions are varied")
	r.Assume("transactions are correctly signed and verified with verify.TxnGroup before Remember, as the txHandler does; the pool is driven synchronously (zero assembly deadline: never waits, never truncates a block)")
	r.Assume("block seed / certificate / proposer credentials are agreement's business: fixed seed, proposer eligibility computed like agreement.payoutEligible")
	depth := ve.Pick(3, 6)
	var cov ve.Coverage
	cov.Exhaustive = true
	allOutcomes := map[string]bool{}
	var nFinal, nLegs int64
	nh, nl := 0, 0
	var rules []string
	// "small" first and bounded at depth 4: the time budget is global and "std" at depth 6 uses all of it
	for _, wname := range []string{"small", "std"} {
		w, err := c20MakeWorld(wname)
		if err != nil {
			t.Fatalf("C20 harness: cannot build the world %s: %v", wname, err)
		}
		probe := c20New(w)
		if probe.bad != nil {
			if probe.badKey == "" {
				t.Fatalf("C20 harness: start state of %s cannot be built: %v", wname, probe.bad)
			}
			r.Report(probe.badKey, probe.bad.Error(), map[string]any{"engine": "seq", "harness": "propose/" + wname, "ops": []int{}})
			probe.close()
			if n := r.Finish(ve.Coverage{Rule: "start state only: block 1 was refused"}); n > 0 {
				t.Fatalf("C20: %d violation(s)", n)
			}
			return
		}
		probe.close()
		nOps := w.nItems + 3
		q := &ve.Seq[*c20h]{
			Name:   "propose/" + wname,
			NumOps: nOps,
			OpName: func(op int) string { return c20OpName(w, op) },
			New:    func() *c20h { return &c20h{world: w, sys: c20New(w)} },
			Clone:  c20Clone,
			Close:  c20Close,
			Apply: func(h *c20h, op int) (bool, error) {
				s := h.sys
				if s.bad != nil {
					h.dirty = true
					return true, ve.Violationf("C20:harness", "harness: %v", s.bad)
				}
				h.ops = append(h.ops, op)
				en, err := s.apply(op)
				if err != nil {
					h.dirty = true
				}
				if en && err == nil {
					w.outcomes.Store(s.outcome, true)
				}
				return en, err
			},
			Key: func(h *c20h) string { return h.sys.key() },
			Final: func(h *c20h) error {
				err := h.sys.final()
				if err != nil {
					h.dirty = true
				}
				return err
			},
			Observe:  func(h *c20h) string { return h.sys.outcome },
			MaxDepth: depth,
		}
		if wname == "small" {
			q.MaxDepth = ve.Pick(3, 4)
		}
		// the start state's own proposal
		if r.ReplayRequest() == nil {
			s0 := c20New(w)
			if err := s0.final(); err != nil {
				r.Report("C20:start", err.Error(), map[string]any{"engine": "seq", "harness": "propose/" + wname, "ops": []int{}})
			}
			s0.close()
		}
		res := q.Explore(r)
		cov.AddSeq(res)
		if !res.Exhaustive {
			cov.Exhaustive = false
		}
		for _, e := range w.reps {
			e.close()
		}
		c20CloseAllLater()
		w.bl1.Shutdown()
		w.bl4.Shutdown()
		w.outcomes.Range(func(k, _ any) bool { allOutcomes[wname+"/"+k.(string)] = true; return true })
		w.histSeen.Range(func(_, v any) bool {
			nh++
			if v.(bool) {
				nl++
			}
			return true
		})
		nFinal += w.nFinal.Load()
		nLegs += w.nLegs.Load()
		r.Set("depth_completed_"+wname, res.DepthCompleted)
		rules = append(rules, fmt.Sprintf("%s: %d group kinds, <= %d pending groups, <= %d round ops", wname, w.nItems, w.maxPend, w.maxRnd))
		if r.Violations() > 0 {
			break
		}
	}
	var outs []string
	for o := range allOutcomes {
		outs = append(outs, o)
	}
	sort.Strings(outs)
	for _, o := range outs {
		r.Class("outcome/" + o)
	}
	r.Set("outcome_classes", outs)
	r.Set("distinct_histories_validated", nh)
	r.Set("distinct_histories_with_lru_validator", nl)
	r.Set("proposals_checked", nFinal)
	r.Set("evaluations_of_proposals", nLegs)
	r.EvalN(int(nLegs))
	cov.Rule = fmt.Sprintf("every sequence of <= %d ops (Remember; Tick/Commit/Ext) on the real TransactionPool+Ledger, two worlds (%s); every distinct (history, proposal) validated/evaluated on further ledgers x {1,4 workers} x {cold,warm sig cache} x {LRU on,off} x 3 repetitions + generating evaluator without prefetch, for 2 proposers; canonical StateDelta / block / resulting state compared; every single AuthAddr alteration of every transaction of every proposal judged identically with cold and warm signature caches", depth, strings.Join(rules, "; "))
	if n := r.Finish(cov); n > 0 {
		t.Fatalf("C20: %d violation(s)", n)
	}
}
