package ledger

// C13 — Consensus sees the right online stake for every round.
//
// Engine E-SEQ (explicit-state BFS over operation sequences of a REAL Ledger, driver in
// verif_c13_driver_test.go), level model_checking.
//
// Accounts: A (focus, offline at genesis), B (online at genesis, keys expire after round 3),
// C (online, long-lived keys), D (funds / receives), fee sink, rewards pool (rewards rate 0;
// in the "rewards" explorations the pool is funded and the rewards level rises every round).
// Block alphabet (one transaction per block, evaluated by the real BlockEvaluator):
//   empty | onA(+1) keyreg online, VoteFirst=cur, VoteLast=cur+1 | onA(+3) | offA keyreg
//   offline | payA D->A (re-creates A after a close) | closeA A close-to D | payB D->B
//   (touching B after its keys expired makes the evaluator put it on the block's
//   ExpiredParticipationAccounts list, i.e. B goes offline through the expiration path).
// Action blocks are allowed in rounds 1..H, then only empty blocks up to round R; control
// operations flush / reloadLedger / Close+OpenLedger are allowed everywhere and unbounded
// (states merge), so the BFS runs to its fixpoint: every history of <= H actions x every
// placement of flushes and restarts.
//
// Reference (boring Go): per round a map address -> AccountData folded from the StateDelta
// the evaluator returned for that block (round 0 = genesis). From it:
//   online(r,a)       = AccountData.OnlineAccountData at r (zero value unless Status==Online)
//   circulation(r,v)  = sum of stake of accounts Online at r, minus the stake of those whose
//                       VoteLastValid != 0 and < v (keys expired before v); r == 0 is the
//                       documented special case: genesis total, nothing subtracted
//   top(r,v,n)        = first n of {Online at r, VoteFirst <= v <= VoteLast} ordered by
//                       (normalized balance desc, address desc); total = sum online - expired
//   voters(x)         = top(x, x+SPLookback+SPInterval, StateProofTopVoters) as participants
// Oracle, swept for EVERY round r in [0, Latest] after every operation ("warm": queries are
// part of the operation, so their cache effects are part of the explored state) or on the
// instance about to be discarded ("cold": caches only ever see the evaluator):
//   LookupAgreement(r, a) for the 4 accounts, OnlineCirculation(r, v) for v in r+1..r+4 and r+6
//   (contains the agreement pair v = r + balance lookback), TopOnlineAccounts(r, v, n) and
//   VotersForStateProof(x) — all equal the reference. Rounds r >= Latest+1-MaxBalLookback
//   (what agreement asks for at voting rounds Latest+1, Latest+2, ...) MUST be served; an
//   older round may be refused with an error but, if answered, must be answered correctly
//   (violation keys of that case carry the suffix ":old-round"). TopOnlineAccounts is only
//   queried where the code promises it: must-serve rounds and voters rounds.
// The reference ignores flush/reload/reopen, so identical answers across flush schedules
// and restarts are part of every comparison.
//
// State key: see key() — action history, tracker DB round, shape of the onlineAccounts
// tracker, membership of the onlineAccountsCache, voters rounds, persisted onlineaccounts /
// onlineroundparams rows (cache ENTRIES are deliberately not part of the key, see there).
//
// Mutants (bin/mut C13 ... --only, quick tier), all DETECTED:
//   1. acctonline.go onlineAcctsExpiredByRound  `voteRnd > d.VoteLastValid` -> `>=` (deltas path)
//   2. sqlitedriver/accountsV2.go ExpiredOnlineAccountsForRound `votelastvalid < ?` -> `<=` (DB path)
//   3. acctonline.go postCommit  `maxOnlineLookback := MaxBalLookback + len(deltas)` -> `... - 1`
//      (round-params history pruned one round early: the oldest must-serve round is refused
//      right after a flush)
//   4. onlineaccountscache.go writeFrontIfExist never writes (stale cache entry after a flush:
//      payB, flush -> LookupAgreement(1,B) serves the pre-payment stake)
//   5. acctonline.go commitRound `AccountsPruneOnlineRoundParams(forgetBefore)` -> `+ 1`
//      (only visible after flush + restart: the persisted params window is one round short)
//   6. acctonline.go TopOnlineAccounts `voteRnd <= d.VoteLastValid` -> `<` (deltas path)
//   Seeded by independent agents: C13-B (= mutant 1 written as `VoteLastValid <= voteRnd`)
//   DETECTED. C13-A (makeCompactOnlineAccountDeltas skips `deltaRound++` for rounds whose
//   AccountDeltas are EMPTY) is not detected and cannot be by any harness driving the real
//   evaluator: StartEvaluator always Puts the rewards pool, so every real block's delta has
//   >= 1 account (evidence key blocks_with_empty_account_delta stays absent/0); only
//   hand-made deltas of mock-ledger tests are empty. The reachable form of the same mistake
//   (`Len() <= 1`, i.e. pool-only rounds skipped) is DETECTED at depth 3: [empty payB flush]
//   -> LookupAgreement(1,B) serves the round-2 stake.
//
// Not covered: suspension via heartbeat/absent lists (payouts disabled),
// more than one transaction per block, consensus upgrades, concurrent lookup-vs-commit
// (E-SCHED part of the design), catchpoint restore.

import (
	"bytes"
	"context"
	"fmt"
	"os"
	"sort"
	"strings"
	"sync"
	"testing"

	"github.com/algorand/go-deadlock"

	"github.com/algorand/go-algorand/config"
	"github.com/algorand/go-algorand/crypto"
	"github.com/algorand/go-algorand/crypto/merklesignature"
	"github.com/algorand/go-algorand/data/basics"
	"github.com/algorand/go-algorand/data/transactions"
	"github.com/algorand/go-algorand/ledger/ledgercore"
	"github.com/algorand/go-algorand/ledger/store/trackerdb"
	"github.com/algorand/go-algorand/protocol"
	ve "github.com/algorand/go-algorand/verifeng"
)

const (
	c13Empty = iota
	c13OnShort
	c13OnLong
	c13Off
	c13PayA
	c13CloseA
	c13PayB
)

var c13ActionName = []string{"empty", "onA(+1)", "onA(+3)", "offA", "payA", "closeA", "payB"}

func c13MakeTx(act int, cur basics.Round) transactions.SignedTxn {
	hdr := transactions.Header{
		Fee:         basics.MicroAlgos{Raw: 1000},
		FirstValid:  cur,
		LastValid:   cur + c13MaxTxnLife,
		GenesisHash: c13GenHash,
	}
	var tx transactions.Transaction
	switch act {
	case c13OnShort, c13OnLong:
		last := cur + 1
		if act == c13OnLong {
			last = cur + 3
		}
		hdr.Sender = c13A
		tx = transactions.Transaction{Type: protocol.KeyRegistrationTx, Header: hdr,
			KeyregTxnFields: transactions.KeyregTxnFields{
				VotePK:          crypto.OneTimeSignatureVerifier(c13Key(0x40 + byte(cur))),
				SelectionPK:     crypto.VRFVerifier(c13Key(0x50 + byte(cur))),
				StateProofPK:    c13SPKey(0x60 + byte(cur)),
				VoteFirst:       cur,
				VoteLast:        last,
				VoteKeyDilution: 10,
			}}
	case c13Off:
		hdr.Sender = c13A
		tx = transactions.Transaction{Type: protocol.KeyRegistrationTx, Header: hdr}
	case c13PayA:
		hdr.Sender = c13D
		tx = transactions.Transaction{Type: protocol.PaymentTx, Header: hdr,
			PaymentTxnFields: transactions.PaymentTxnFields{Receiver: c13A, Amount: basics.MicroAlgos{Raw: 3_000_000}}}
	case c13CloseA:
		hdr.Sender = c13A
		tx = transactions.Transaction{Type: protocol.PaymentTx, Header: hdr,
			PaymentTxnFields: transactions.PaymentTxnFields{Receiver: c13D, CloseRemainderTo: c13D}}
	case c13PayB:
		hdr.Sender = c13D
		tx = transactions.Transaction{Type: protocol.PaymentTx, Header: hdr,
			PaymentTxnFields: transactions.PaymentTxnFields{Receiver: c13B, Amount: basics.MicroAlgos{Raw: 1_000_000}}}
	}
	return transactions.SignedTxn{Txn: tx}
}

// ---------------------------------------------------------------- reference

type c13Ref struct {
	proto   config.ConsensusParams
	rounds  []map[basics.Address]ledgercore.AccountData // index = round
	rewards []uint64                                    // rewards level per round
}

func c13NewRef(proto config.ConsensusParams, genesis ledgercore.InitState) *c13Ref {
	m := map[basics.Address]ledgercore.AccountData{}
	for a, d := range genesis.Accounts {
		m[a] = ledgercore.ToAccountData(d)
	}
	return &c13Ref{proto: proto, rounds: []map[basics.Address]ledgercore.AccountData{m}, rewards: []uint64{genesis.Block.RewardsLevel}}
}

func (r *c13Ref) addBlock(delta ledgercore.StateDelta) {
	prev := r.rounds[len(r.rounds)-1]
	m := make(map[basics.Address]ledgercore.AccountData, len(prev))
	for a, d := range prev {
		m[a] = d
	}
	for i := 0; i < delta.Accts.Len(); i++ {
		a, d := delta.Accts.GetByIdx(i)
		m[a] = d
	}
	r.rounds = append(r.rounds, m)
	r.rewards = append(r.rewards, delta.Hdr.RewardsLevel)
}

func (r *c13Ref) latest() basics.Round { return basics.Round(len(r.rounds) - 1) }

func (r *c13Ref) online(rnd basics.Round, a basics.Address) basics.OnlineAccountData {
	d, ok := r.rounds[rnd][a]
	if !ok {
		return basics.OnlineAccountData{}
	}
	return d.OnlineAccountData(r.proto.RewardUnit, r.rewards[rnd])
}

// sums returns (total online stake at rnd, stake of online accounts whose keys expired before voteRnd).
func (r *c13Ref) sums(rnd, voteRnd basics.Round) (total, expired uint64) {
	for a := range r.rounds[rnd] {
		o := r.online(rnd, a)
		total += o.MicroAlgosWithRewards.Raw
		if o.VoteLastValid != 0 && o.VoteLastValid < voteRnd {
			expired += o.MicroAlgosWithRewards.Raw
		}
	}
	return
}

func (r *c13Ref) circulation(rnd, voteRnd basics.Round) uint64 {
	total, expired := r.sums(rnd, voteRnd)
	if rnd == 0 {
		// documented special case: balance round 0 = genesis totals, no expiry subtraction
		return total
	}
	return total - expired
}

type c13Top struct {
	addr  basics.Address
	algos uint64 // MicroAlgos without pending rewards
	stake uint64 // with pending rewards at the queried round
	norm  uint64
	last  basics.Round
	spid  merklesignature.Commitment
}

func (r *c13Ref) top(rnd, voteRnd basics.Round, n uint64) (list []c13Top, total uint64) {
	for a, d := range r.rounds[rnd] {
		if d.Status != basics.Online {
			continue
		}
		norm := basics.NormalizedOnlineAccountBalance(d.Status, d.RewardsBase, d.MicroAlgos, r.proto.RewardUnit)
		if norm == 0 {
			continue
		}
		if !(d.VoteFirstValid <= voteRnd && voteRnd <= d.VoteLastValid) {
			continue
		}
		list = append(list, c13Top{addr: a, algos: d.MicroAlgos.Raw, stake: r.online(rnd, a).MicroAlgosWithRewards.Raw, norm: norm, last: d.VoteLastValid, spid: d.StateProofID})
	}
	sort.Slice(list, func(i, j int) bool {
		if list[i].norm != list[j].norm {
			return list[i].norm > list[j].norm
		}
		return bytes.Compare(list[i].addr[:], list[j].addr[:]) > 0
	})
	if uint64(len(list)) > n {
		list = list[:n]
	}
	t, e := r.sums(rnd, voteRnd)
	return list, t - e
}

// ---------------------------------------------------------------- system under exploration

type c13Config struct {
	name    string
	balLook uint64 // agreement balance lookback = MaxBalLookback
	sp      bool   // state proofs (voters tracker) on
	acctLB  uint64 // config.Local MaxAcctLookback
	mem     bool
	lru     bool
	warm    bool  // sweep after every op (true) or only on the discarded instance (false)
	rewards bool  // rewards pool funded: rewards level rises every round
	actions []int // block alphabet (always contains c13Empty at index 0)
	h, r    basics.Round
}

type c13Sys struct {
	cf      *c13Config
	d       *c13Drv
	ref     *c13Ref
	proto   config.ConsensusParams
	hist    []byte // action per block
	run     *ve.Run
	path    []byte
	memo    *sync.Map
	failed  bool
	stats   map[string]int64
	statsMu *sync.Mutex
}

func (s *c13Sys) fresh() bool {
	_, seen := s.memo.Load(string(s.path))
	return !seen
}

func (s *c13Sys) histString() string {
	var parts []string
	for _, a := range s.hist {
		parts = append(parts, c13ActionName[a])
	}
	return strings.Join(parts, " ")
}

func c13Short(a basics.Address) string {
	switch a {
	case c13A:
		return "A"
	case c13B:
		return "B"
	case c13C:
		return "C"
	case c13D:
		return "D"
	}
	return fmt.Sprintf("%x", a[:2])
}

// sweep compares every agreement-facing answer of the ledger with the reference.
//
// full=false is the replay variant: only the queries with cache side effects (LookupAgreement
// fills onlineAccountsCache, OnlineCirculation fills the expired-stake memo for exactly the
// (r,v) pairs TopOnlineAccounts would touch) are repeated, so that a replayed prefix leaves the
// caches exactly as the first execution did; their results were already compared then.
func (s *c13Sys) sweep(where string, full bool) error {
	l := s.d.l
	latest := l.Latest()
	if latest != s.ref.latest() {
		return ve.Violationf("C13:latest", "%s: ledger Latest()=%d but %d blocks were added", where, latest, s.ref.latest())
	}
	mbl := basics.Round(s.proto.MaxBalLookback)
	mustFrom := (latest + 1).SubSaturate(mbl)
	ctx := func() string {
		return fmt.Sprintf("history=[%s] latest=%d dbRound=%d", s.histString(), latest, s.d.dbRound())
	}
	local := map[string]int64{}
	for r := basics.Round(0); r <= latest; r++ {
		must := r >= mustFrom
		suffix := ""
		if !must {
			suffix = ":old-round"
		}
		// --- LookupAgreement
		for _, a := range c13Accts {
			got, err := l.LookupAgreement(r, a)
			if err != nil {
				if must {
					return ve.Violationf("C13:lookup-refused", "%s: LookupAgreement(%d,%s) failed inside the must-serve window [%d,%d]: %v (%s)", where, r, c13Short(a), mustFrom, latest, err, ctx())
				}
				local["lookup_refused_old_round"]++
				continue
			}
			want := s.ref.online(r, a)
			if got != want {
				return ve.Violationf("C13:lookup-mismatch"+suffix, "%s: LookupAgreement(%d,%s) = {stake %d voteLast %d voteFirst %d voteID %x} want {stake %d voteLast %d voteFirst %d voteID %x} (%s)",
					where, r, c13Short(a), got.MicroAlgosWithRewards.Raw, got.VoteLastValid, got.VoteFirstValid, got.VoteID[:2],
					want.MicroAlgosWithRewards.Raw, want.VoteLastValid, want.VoteFirstValid, want.VoteID[:2], ctx())
			}
			if want.MicroAlgosWithRewards.Raw != 0 {
				local["lookup_online"]++
			} else {
				local["lookup_offline"]++
			}
		}
		// --- OnlineCirculation
		for _, v := range []basics.Round{r + 1, r + 2, r + 3, r + 4, r + c13SPLookback + c13SPInterval} {
			got, err := l.OnlineCirculation(r, v)
			if err != nil {
				if must {
					return ve.Violationf("C13:circulation-refused", "%s: OnlineCirculation(%d,%d) failed inside the must-serve window [%d,%d]: %v (%s)", where, r, v, mustFrom, latest, err, ctx())
				}
				local["circulation_refused_old_round"]++
				continue
			}
			want := s.ref.circulation(r, v)
			if got.Raw != want {
				t, e := s.ref.sums(r, v)
				return ve.Violationf("C13:circulation-mismatch"+suffix, "%s: OnlineCirculation(%d,%d) = %d want %d (online %d, expired before %d: %d) (%s)", where, r, v, got.Raw, want, t, v, e, ctx())
			}
			if _, e := s.ref.sums(r, v); e != 0 && r != 0 {
				local["circulation_with_expired"]++
			} else {
				local["circulation_plain"]++
			}
		}
		// --- TopOnlineAccounts (must-serve rounds only; voters rounds are checked below)
		if must && full {
			vs := []basics.Round{r + basics.Round(s.proto.MaxBalLookback), r + c13SPLookback + c13SPInterval}
			for _, v := range vs {
				for _, n := range []uint64{1, 2, 10} {
					gotList, gotTotal, err := l.acctsOnline.TopOnlineAccounts(r, v, n, &s.proto, s.ref.rewards[r])
					if err != nil {
						return ve.Violationf("C13:top-refused", "%s: TopOnlineAccounts(%d,%d,%d) failed: %v (%s)", where, r, v, n, err, ctx())
					}
					wantList, wantTotal := s.ref.top(r, v, n)
					ok := len(gotList) == len(wantList) && gotTotal.Raw == wantTotal
					if ok {
						for i := range gotList {
							if gotList[i].Address != wantList[i].addr || gotList[i].MicroAlgos.Raw != wantList[i].algos || gotList[i].VoteLastValid != wantList[i].last {
								ok = false
							}
						}
					}
					if !ok {
						return ve.Violationf("C13:top-mismatch", "%s: TopOnlineAccounts(%d,%d,%d) = %s total %d want %s total %d (%s)", where, r, v, n, c13FmtTop(gotList), gotTotal.Raw, c13FmtRef(wantList), wantTotal, ctx())
					}
					local["top_queries"]++
				}
			}
		}
	}
	// --- voters
	if s.cf.sp && full {
		for x := basics.Round(c13SPInterval - c13SPLookback); x <= latest; x += c13SPInterval {
			vr, err := l.VotersForStateProof(x)
			if err != nil {
				return ve.Violationf("C13:voters-error", "%s: VotersForStateProof(%d) failed: %v (%s)", where, x, err, ctx())
			}
			if vr == nil {
				return ve.Violationf("C13:voters-missing", "%s: VotersForStateProof(%d) is not tracked although no state proof covering it was ever formed (%s)", where, x, ctx())
			}
			want, wantTotal := s.ref.top(x, x+c13SPLookback+c13SPInterval, c13SPTop)
			ok := len(vr.Participants) == len(want) && vr.TotalWeight.Raw == wantTotal && len(vr.AddrToPos) == len(want)
			if ok {
				for i, w := range want {
					p := vr.Participants[i]
					if p.Weight != w.stake || !bytes.Equal(p.PK.Commitment[:], w.spid[:]) || vr.AddrToPos[w.addr] != uint64(i) {
						ok = false
					}
				}
			}
			if !ok {
				var got []string
				for _, p := range vr.Participants {
					got = append(got, fmt.Sprintf("%d/%x", p.Weight, p.PK.Commitment[:2]))
				}
				return ve.Violationf("C13:voters-mismatch", "%s: VotersForStateProof(%d) = %v total %d want %s total %d (%s)", where, x, got, vr.TotalWeight.Raw, c13FmtRef(want), wantTotal, ctx())
			}
			local["voters_checked"]++
		}
	}
	if s.ref.rewards[latest] > 0 {
		local["sweeps_with_rewards_level_gt0"]++
	}
	s.statsMu.Lock()
	n := 0
	for k, v := range local {
		s.stats[k] += v
		n += int(v)
	}
	s.statsMu.Unlock()
	s.run.EvalN(n)
	return nil
}

func c13FmtTop(l []*ledgercore.OnlineAccount) string {
	var p []string
	for _, o := range l {
		p = append(p, fmt.Sprintf("%s:%d", c13Short(o.Address), o.MicroAlgos.Raw))
	}
	return "[" + strings.Join(p, " ") + "]"
}

func c13FmtRef(l []c13Top) string {
	var p []string
	for _, o := range l {
		p = append(p, fmt.Sprintf("%s:%d", c13Short(o.addr), o.algos))
	}
	return "[" + strings.Join(p, " ") + "]"
}

func (s *c13Sys) apply(op int) (bool, error) {
	if s.failed {
		return false, nil
	}
	s.path = append(s.path, byte(op))
	na := len(s.cf.actions)
	var where string
	switch {
	case op < na:
		act := s.cf.actions[op]
		latest := s.d.l.Latest()
		if latest >= s.cf.r || (act != c13Empty && latest >= s.cf.h) {
			return false, nil
		}
		cur := latest + 1
		ev, err := s.d.startEval()
		if err != nil {
			return true, ve.Violationf("C13:starteval", "StartEvaluator(%d) failed: %v (history=[%s])", cur, err, s.histString())
		}
		if act != c13Empty {
			stx := c13MakeTx(act, cur)
			if err := ev.TransactionGroup(transactions.SignedTxnWithAD{SignedTxn: stx}); err != nil {
				// not a legal move of the alphabet in this state (e.g. closeA when A does not exist)
				return false, nil
			}
		}
		delta, err := s.d.endBlock(ev, s.fresh())
		if err != nil {
			return true, ve.Violationf("C13:block-rejected", "block %d (%s) was not accepted: %v (history=[%s])", cur, c13ActionName[act], err, s.histString())
		}
		s.ref.addBlock(delta)
		s.statsMu.Lock()
		if delta.Accts.Len() == 0 {
			s.stats["blocks_with_empty_account_delta"]++ // never: StartEvaluator always Puts the rewards pool
		} else if act == c13Empty {
			s.stats["empty_blocks_with_pool_only_delta"]++
		}
		s.statsMu.Unlock()
		s.hist = append(s.hist, byte(act))
		where = fmt.Sprintf("after block %d (%s)", cur, c13ActionName[act])
	case op == na:
		if !s.d.canFlush() {
			return false, nil
		}
		before := s.d.dbRound()
		if !s.d.flush() {
			return true, ve.Violationf("C13:flush-stuck", "flush did not advance the tracker DB round (%d, latest %d, history=[%s])", before, s.d.l.Latest(), s.histString())
		}
		where = fmt.Sprintf("after flush %d->%d", before, s.d.dbRound())
	case op == na+1:
		if err := s.d.reload(); err != nil {
			return true, ve.Violationf("C13:reload-failed", "reloadLedger failed: %v (latest %d dbRound %d history=[%s])", err, s.d.l.Latest(), s.d.dbRound(), s.histString())
		}
		where = "after reload"
	default:
		if err := s.d.reopen(); err != nil {
			s.failed = true
			return true, ve.Violationf("C13:reopen-failed", "Close+OpenLedger failed: %v (history=[%s])", err, s.histString())
		}
		where = "after close+reopen"
	}
	if s.cf.warm {
		if err := s.sweep(where, s.fresh()); err != nil {
			return true, err
		}
	}
	s.memo.Store(string(s.path), struct{}{})
	return true, nil
}

func (s *c13Sys) final() error {
	if s.cf.warm || s.failed {
		return nil
	}
	return s.sweep("cold sweep", true)
}

// key: action history + tracker DB round + the schedule-dependent shape of the tracker:
// number of in-memory deltas, size of the round-params window, which accounts have pending
// deltas, WHICH accounts are in the onlineAccountsCache, voters rounds, and the persisted
// onlineaccounts / onlineroundparams rows.
// Canonicalization note: the ENTRIES of the two lookup caches (onlineAccountsCache lists, the
// expired-stake memo) are not part of the key. They are meant to be transparent, and keeping
// them makes nearly every op sequence its own state (no merging, 9^depth). Consequence: per
// abstract state the warm exploration continues from ONE concrete cache content (the one of
// the BFS-shortest sequence); every transition executed (first run and replays) still runs
// with whatever the caches really hold and is swept, and the cold explorations cover the
// cache-free extreme.
func (s *c13Sys) key() string {
	if s.d == nil || s.d.l == nil {
		return "dead"
	}
	var b strings.Builder
	l := s.d.l
	fmt.Fprintf(&b, "h%v r%d db%d|", s.hist, l.Latest(), s.d.dbRound())
	ao := &l.acctsOnline
	ao.accountsMu.RLock()
	fmt.Fprintf(&b, "dl%d cdb%d np%d|", len(ao.deltas), ao.cachedDBRoundOnline, len(ao.onlineRoundParamsData))
	var ents []string
	for a, m := range ao.accounts {
		ents = append(ents, fmt.Sprintf("%s:%d", c13Short(a), m.ndeltas))
	}
	sort.Strings(ents)
	fmt.Fprintf(&b, "acc%v|", ents)
	ents = ents[:0]
	for a := range ao.onlineAccountsCache.accounts {
		ents = append(ents, c13Short(a))
	}
	sort.Strings(ents)
	fmt.Fprintf(&b, "oac%v|", ents)
	ao.accountsMu.RUnlock()
	vt := &ao.voters
	vt.votersMu.RLock()
	var vr []int
	for x := range vt.votersForRoundCache {
		vr = append(vr, int(x))
	}
	vt.votersMu.RUnlock()
	sort.Ints(vr)
	fmt.Fprintf(&b, "vt%v|", vr)
	_ = l.trackerDBs.Snapshot(func(ctx context.Context, tx trackerdb.SnapshotScope) error {
		ar, err := tx.MakeAccountsReader()
		if err != nil {
			return err
		}
		rows, err := ar.OnlineAccountsAll(10000)
		if err != nil {
			fmt.Fprintf(&b, "dberr %v", err)
			return nil
		}
		for _, row := range rows {
			fmt.Fprintf(&b, "%s@%d:%d:%d;", c13Short(row.Addr), row.UpdRound, row.AccountData.MicroAlgos.Raw, row.AccountData.VoteLastValid)
		}
		params, end, err := ar.AccountsOnlineRoundParams()
		if err != nil {
			fmt.Fprintf(&b, "dberr %v", err)
			return nil
		}
		fmt.Fprintf(&b, "|orp n%d end%d", len(params), end)
		return nil
	})
	return ve.HashKey([]byte(b.String()))
}

func c13Configs() []c13Config {
	all := []int{c13Empty, c13OnShort, c13OnLong, c13Off, c13PayA, c13CloseA, c13PayB}
	core := []int{c13Empty, c13OnShort, c13OnLong, c13Off, c13PayA, c13PayB}
	small := []int{c13Empty, c13OnShort, c13PayA, c13PayB}
	tiny := []int{c13Empty, c13OnShort, c13PayB}
	if !ve.Thorough() {
		return []c13Config{
			{name: "bl2/warm", balLook: 2, acctLB: 0, mem: true, warm: true, actions: small, h: 2, r: 4},
			{name: "bl2-sp/warm", balLook: 2, sp: true, acctLB: 0, mem: true, warm: true, actions: tiny, h: 2, r: 4},
			{name: "bl2/cold", balLook: 2, acctLB: 0, mem: true, warm: false, actions: core, h: 2, r: 4},
			{name: "bl2/warm/rewards", balLook: 2, acctLB: 0, mem: true, warm: true, rewards: true, actions: tiny, h: 2, r: 4},
		}
	}
	// ordered so that a capped run (busy machine) has covered every kind of configuration
	// before it spends the rest of the budget on the largest state spaces
	return []c13Config{
		{name: "bl2/warm", balLook: 2, acctLB: 0, mem: true, warm: true, actions: core, h: 3, r: 5},
		{name: "bl2-sp/warm", balLook: 2, sp: true, acctLB: 0, mem: true, warm: true, actions: small, h: 3, r: 6},
		{name: "bl4-sp/warm", balLook: 4, sp: true, acctLB: 0, mem: true, warm: true, actions: tiny, h: 3, r: 8},
		{name: "bl2-sp/warm/rewards", balLook: 2, sp: true, acctLB: 0, mem: true, warm: true, rewards: true, actions: tiny, h: 3, r: 6},
		{name: "bl4/cold/lb2", balLook: 4, acctLB: 2, mem: true, warm: false, actions: small, h: 3, r: 8},
		{name: "bl2/warm/file+lru", balLook: 2, acctLB: 0, mem: false, lru: true, warm: true, actions: tiny, h: 2, r: 4},
		{name: "bl2/warm/close", balLook: 2, acctLB: 0, mem: true, warm: true, actions: []int{c13Empty, c13OnShort, c13CloseA, c13PayA}, h: 4, r: 5},
		{name: "bl2/cold", balLook: 2, acctLB: 0, mem: true, warm: false, actions: all, h: 3, r: 5},
	}
}

func TestVerif_C13(t *testing.T) {
	r := ve.NewRun("C13", "model_checking")
	deadlock.Opts.Disable = true // production default; see C11
	cfgs := c13Configs()
	if only := os.Getenv("VERIF_C13_CONFIGS"); only != "" {
		// development aid: run only the explorations whose name contains one of the
		// comma-separated substrings (never set by bin/vcheck)
		var sel []c13Config
		for _, cf := range cfgs {
			for _, sub := range strings.Split(only, ",") {
				if strings.Contains(cf.name, sub) {
					sel = append(sel, cf)
					break
				}
			}
		}
		cfgs = sel
	}
	for i := range cfgs {
		c13Proto(cfgs[i].balLook, cfgs[i].sp)
	}
	var cov ve.Coverage
	cov.Exhaustive = true
	stats := map[string]int64{}
	var statsMu sync.Mutex
	var descr []string
	for i := range cfgs {
		cf := &cfgs[i]
		if r.OutOfTime() {
			cov.Exhaustive = false
			r.Note("out of time before starting %s", cf.name)
			continue
		}
		cv := c13Proto(cf.balLook, cf.sp)
		proto := config.Consensus[cv]
		memo := &sync.Map{}
		na := len(cf.actions)
		q := &ve.Seq[*c13Sys]{
			Name:   "c13/" + cf.name,
			NumOps: na + 3,
			OpName: func(op int) string {
				if op < na {
					return c13ActionName[cf.actions[op]]
				}
				return []string{"flush", "reload", "reopen"}[op-na]
			},
			New: func() *c13Sys {
				d, err := c13Open(cv, cf.rewards, cf.acctLB, cf.mem, cf.lru)
				if err != nil {
					panic(fmt.Sprintf("c13: cannot open ledger: %v", err))
				}
				return &c13Sys{cf: cf, d: d, ref: c13NewRef(proto, d.genesis), proto: proto, run: r, memo: memo, stats: stats, statsMu: &statsMu}
			},
			Close:    func(s *c13Sys) { s.d.close() },
			Apply:    func(s *c13Sys, op int) (bool, error) { return s.apply(op) },
			Key:      func(s *c13Sys) string { return s.key() },
			Final:    func(s *c13Sys) error { return s.final() },
			Observe:  func(s *c13Sys) string { return s.histString() },
			MaxDepth: 64,
		}
		res := q.Explore(r)
		cov.AddSeq(res)
		if !res.Exhaustive || !res.FrontierEmptied {
			cov.Exhaustive = false
		}
		var an []string
		for _, a := range cf.actions {
			an = append(an, c13ActionName[a])
		}
		descr = append(descr, fmt.Sprintf("%s{balance lookback %d, stateproofs %v, rewards %v, MaxAcctLookback %d, %s, actions %v in rounds 1..%d, empty up to %d}", cf.name, cf.balLook, cf.sp, cf.rewards, cf.acctLB, map[bool]string{true: "warm", false: "cold"}[cf.warm], an, cf.h, cf.r))
		if r.Violations() > 0 {
			break
		}
	}
	for k, v := range stats {
		r.Set(k, v)
	}
	cov.Rule = "BFS to fixpoint over all sequences of one-transaction blocks (bounded action phase, then empty blocks), flush, reloadLedger, Close+OpenLedger on a real Ledger; after every op (warm) or on the discarded instance (cold) LookupAgreement x 4 accounts, OnlineCirculation x 4 vote rounds for EVERY round 0..Latest, TopOnlineAccounts on must-serve rounds and VotersForStateProof are compared with a reference folded from the StateDeltas. Explorations: " + strings.Join(descr, "; ")
	r.Assume("blockQueue syncer and voters loadTree goroutines drained after every block; flushes happen only where the op sequence says so (lastFlushTime pinned)")
	r.Assume("signature verification mocked (unsigned transactions); restarts are process-level; in-memory explorations keep the SQLite shared-cache databases alive across Close with one extra connection; LRU write-through caches disabled except in the file+lru exploration")
	r.Assume("reference uses AccountData.OnlineAccountData / NormalizedOnlineAccountBalance (data-layer definitions) on the evaluator's StateDelta")
	if r.Finish(cov) > 0 {
		t.Fatal("violations")
	}
}
