package ledger

// "LH" driver shared by the C08 / C12 / C10 checks (all identifiers are c08-prefixed).
//
// A REAL Ledger (OpenLedger, in-memory SQLite) on a private consensus version, a block
// builder that evaluates real transactions with the real BlockEvaluator and adds the
// block with AddValidatedBlock, SYNCHRONOUS tracker flushes (produceCommittingTask +
// trackerRegistry.commitRound executed on the calling goroutine, exactly like upstream
// triggerTrackerFlush/commitSync, with the wall-clock heuristic of scheduleCommit
// neutralised by keeping lastFlushTime in the future) and explicit reloadLedger.
//
// The reference state R[r] is a plain-map fold of the StateDelta the evaluator produced
// for block r (accounts, asset/app resources, kv, creators): the checks built on this
// driver are about trackers/caches/disk, not about the evaluator.

import (
	"bytes"
	"context"
	"encoding/binary"
	"fmt"
	"io"
	"sort"
	"strings"
	"sync"
	"sync/atomic"
	"time"

	"github.com/algorand/avm-abi/apps"
	"github.com/algorand/go-deadlock"

	"github.com/algorand/go-algorand/agreement"
	"github.com/algorand/go-algorand/config"
	"github.com/algorand/go-algorand/crypto"
	"github.com/algorand/go-algorand/data/basics"
	"github.com/algorand/go-algorand/data/bookkeeping"
	"github.com/algorand/go-algorand/data/transactions"
	"github.com/algorand/go-algorand/data/transactions/logic"
	"github.com/algorand/go-algorand/data/txntest"
	"github.com/algorand/go-algorand/ledger/eval"
	"github.com/algorand/go-algorand/ledger/ledgercore"
	"github.com/algorand/go-algorand/logging"
	"github.com/algorand/go-algorand/protocol"
	ve "github.com/algorand/go-algorand/verifeng"
)

// ---------------------------------------------------------------------------------
// world: consensus version, addresses, programs (immutable, shared by all instances)

const c08ProtoName = protocol.ConsensusVersion("verif-ldg-c08")

var c08ProtoOnce sync.Once

// c08Proto registers (once) the private consensus version: vFuture with small
// lookbacks, fast rewards-rate refresh and payouts disabled (no proposer needed).
func c08Proto() (protocol.ConsensusVersion, config.ConsensusParams) {
	c08ProtoOnce.Do(func() {
		// production nodes run with go-deadlock detection off (config DeadlockDetection);
		// the detector only costs time here.
		deadlock.Opts.Disable = true
		p := config.Consensus[protocol.ConsensusFuture]
		p.ApprovedUpgrades = map[protocol.ConsensusVersion]uint64{}
		p.MaxTxnLife = 4
		p.SeedLookback = 1
		p.SeedRefreshInterval = 2
		p.MaxBalLookback = 4
		p.RewardsRateRefreshInterval = 2
		p.Payouts.Enabled = false
		config.Consensus[c08ProtoName] = p
	})
	return c08ProtoName, config.Consensus[c08ProtoName]
}

const c08AppSource = `#pragma version 10
txn ApplicationID
bz ok
txn NumAppArgs
bz ok
txna ApplicationArgs 0
byte "gset"
==
bnz gset
txna ApplicationArgs 0
byte "gdel"
==
bnz gdel
txna ApplicationArgs 0
byte "lset"
==
bnz lset
txna ApplicationArgs 0
byte "ldel"
==
bnz ldel
txna ApplicationArgs 0
byte "bput"
==
bnz bput
txna ApplicationArgs 0
byte "bdel"
==
bnz bdel
err
gset:
byte "g"
txna ApplicationArgs 1
app_global_put
b ok
gdel:
byte "g"
app_global_del
b ok
lset:
txn Sender
byte "l"
txna ApplicationArgs 1
app_local_put
b ok
ldel:
txn Sender
byte "l"
app_local_del
b ok
bput:
txna ApplicationArgs 1
txna ApplicationArgs 2
box_put
b ok
bdel:
txna ApplicationArgs 1
box_del
pop
b ok
ok:
int 1
`

const c08ClearSource = "#pragma version 10\nint 1\n"

type c08World struct {
	proto    protocol.ConsensusVersion
	params   config.ConsensusParams
	genBal   bookkeeping.GenesisBalances
	genBlock bookkeeping.Block
	genHash  crypto.Digest
	// named addresses: A (creator, rich), B (user, rich), C (not in genesis unless
	// requested), Z (never exists), D, E (extra, used by C12)
	A, B, C, D, E, Z, sink, pool basics.Address
	approval, clear              []byte
}

func c08Addr(tag string) basics.Address {
	return basics.Address(crypto.Hash([]byte("verif-c08-addr-" + tag)))
}

// c08MakeWorld builds the immutable part. extra lets a check add/override genesis accounts.
func c08MakeWorld(extra map[basics.Address]basics.AccountData) (*c08World, error) {
	w := &c08World{}
	w.proto, w.params = c08Proto()
	w.A, w.B, w.C, w.D, w.E, w.Z = c08Addr("A"), c08Addr("B"), c08Addr("C"), c08Addr("D"), c08Addr("E"), c08Addr("Z")
	w.sink, w.pool = c08Addr("sink"), c08Addr("pool")
	accts := map[basics.Address]basics.AccountData{
		w.A:    {MicroAlgos: basics.MicroAlgos{Raw: 1_000_000_000_000}, Status: basics.Offline},
		w.B:    {MicroAlgos: basics.MicroAlgos{Raw: 1_000_000_000_000}, Status: basics.Offline},
		w.sink: {MicroAlgos: basics.MicroAlgos{Raw: 5_000_000_000}, Status: basics.NotParticipating},
		w.pool: {MicroAlgos: basics.MicroAlgos{Raw: 1_000_000_000_000}, Status: basics.NotParticipating},
	}
	for a, d := range extra {
		accts[a] = d
	}
	w.genBal = bookkeeping.MakeGenesisBalances(accts, w.sink, w.pool)
	w.genHash = crypto.Hash([]byte("verif-c08-genesis"))
	var err error
	w.genBlock, err = bookkeeping.MakeGenesisBlock(w.proto, w.genBal, "verif-c08", w.genHash)
	if err != nil {
		return nil, err
	}
	ops, err := logic.AssembleString(c08AppSource)
	if err != nil {
		return nil, fmt.Errorf("assemble approval: %v", err)
	}
	w.approval = ops.Program
	ops, err = logic.AssembleString(c08ClearSource)
	if err != nil {
		return nil, fmt.Errorf("assemble clear: %v", err)
	}
	w.clear = ops.Program
	return w, nil
}

// ---------------------------------------------------------------------------------
// reference state

type c08ResKey struct {
	addr  basics.Address
	idx   basics.CreatableIndex
	ctype basics.CreatableType
}

type c08Creator struct {
	ctype   basics.CreatableType
	creator basics.Address
}

// c08Ref is R[r]: the state after applying exactly blocks 1..r to genesis.
type c08Ref struct {
	rnd          basics.Round
	acct         map[basics.Address]ledgercore.AccountData
	res          map[c08ResKey]ledgercore.AccountResource // deep copies; missing = no resource
	kv           map[string][]byte                        // missing = no such key
	creator      map[basics.CreatableIndex]c08Creator
	rewardsLevel uint64
	fp           string // fingerprint of the block's delta (for state keys)
}

func c08CloneRes(r ledgercore.AccountResource) ledgercore.AccountResource {
	var out ledgercore.AccountResource
	if r.AssetParams != nil {
		v := *r.AssetParams
		out.AssetParams = &v
	}
	if r.AssetHolding != nil {
		v := *r.AssetHolding
		out.AssetHolding = &v
	}
	if r.AppParams != nil {
		v := r.AppParams.Clone()
		out.AppParams = &v
	}
	if r.AppLocalState != nil {
		v := r.AppLocalState.Clone()
		out.AppLocalState = &v
	}
	return out
}

func c08ResString(r ledgercore.AccountResource) string {
	var b strings.Builder
	if r.AssetParams != nil {
		fmt.Fprintf(&b, "AssetParams%+v ", *r.AssetParams)
	}
	if r.AssetHolding != nil {
		fmt.Fprintf(&b, "AssetHolding%+v ", *r.AssetHolding)
	}
	if r.AppParams != nil {
		fmt.Fprintf(&b, "AppParams%+v ", *r.AppParams)
	}
	if r.AppLocalState != nil {
		fmt.Fprintf(&b, "AppLocalState%+v ", *r.AppLocalState)
	}
	if b.Len() == 0 {
		return "<none>"
	}
	return b.String()
}

func c08GenesisRef(w *c08World) *c08Ref {
	r := &c08Ref{acct: map[basics.Address]ledgercore.AccountData{}, res: map[c08ResKey]ledgercore.AccountResource{},
		kv: map[string][]byte{}, creator: map[basics.CreatableIndex]c08Creator{}}
	for a, d := range w.genBal.Balances {
		r.acct[a] = ledgercore.ToAccountData(d)
	}
	r.rewardsLevel = w.genBlock.RewardsLevel
	r.fp = "genesis"
	return r
}

// c08Fold applies the evaluator's StateDelta of one block to R[r-1], giving R[r].
// Per the StateDelta definition: Accts.Accts holds the complete new AccountData of each
// touched account (empty = deleted); each Asset/AppResources record holds the complete new
// (params, holding/local state) pair of that (address, creatable) — nil pointer = absent;
// KvMods: Data nil = deleted; Creatables: Created false = deleted.
func c08Fold(prev *c08Ref, d *ledgercore.StateDelta) *c08Ref {
	n := &c08Ref{rnd: prev.rnd + 1,
		acct: make(map[basics.Address]ledgercore.AccountData, len(prev.acct)+2),
		res:  make(map[c08ResKey]ledgercore.AccountResource, len(prev.res)+2),
		kv:   make(map[string][]byte, len(prev.kv)+1), creator: make(map[basics.CreatableIndex]c08Creator, len(prev.creator)+1)}
	for k, v := range prev.acct {
		n.acct[k] = v
	}
	for k, v := range prev.res {
		n.res[k] = v // values are never mutated after insertion
	}
	for k, v := range prev.kv {
		n.kv[k] = v
	}
	for k, v := range prev.creator {
		n.creator[k] = v
	}
	var fp strings.Builder
	for i := 0; i < d.Accts.Len(); i++ {
		addr, data := d.Accts.GetByIdx(i)
		if data == (ledgercore.AccountData{}) {
			delete(n.acct, addr)
		} else {
			n.acct[addr] = data
		}
		fmt.Fprintf(&fp, "A%x=%+v;", addr[:4], data)
	}
	for _, rec := range d.Accts.AssetResources {
		k := c08ResKey{rec.Addr, basics.CreatableIndex(rec.Aidx), basics.AssetCreatable}
		v := c08CloneRes(ledgercore.AccountResource{AssetParams: rec.Params.Params, AssetHolding: rec.Holding.Holding})
		if v.AssetParams == nil && v.AssetHolding == nil {
			delete(n.res, k)
		} else {
			n.res[k] = v
		}
		fmt.Fprintf(&fp, "S%x/%d=%s;", rec.Addr[:4], rec.Aidx, c08ResString(v))
	}
	for _, rec := range d.Accts.AppResources {
		k := c08ResKey{rec.Addr, basics.CreatableIndex(rec.Aidx), basics.AppCreatable}
		v := c08CloneRes(ledgercore.AccountResource{AppParams: rec.Params.Params, AppLocalState: rec.State.LocalState})
		if v.AppParams == nil && v.AppLocalState == nil {
			delete(n.res, k)
		} else {
			n.res[k] = v
		}
		fmt.Fprintf(&fp, "P%x/%d=%s;", rec.Addr[:4], rec.Aidx, c08ResString(v))
	}
	kvKeys := make([]string, 0, len(d.KvMods))
	for k := range d.KvMods {
		kvKeys = append(kvKeys, k)
	}
	sort.Strings(kvKeys)
	for _, k := range kvKeys {
		v := d.KvMods[k]
		if v.Data == nil {
			delete(n.kv, k)
		} else {
			n.kv[k] = append([]byte{}, v.Data...)
		}
		fmt.Fprintf(&fp, "K%x=%x/%v;", k, v.Data, v.Data == nil)
	}
	cids := make([]basics.CreatableIndex, 0, len(d.Creatables))
	for c := range d.Creatables {
		cids = append(cids, c)
	}
	sort.Slice(cids, func(i, j int) bool { return cids[i] < cids[j] })
	for _, c := range cids {
		m := d.Creatables[c]
		if m.Created {
			n.creator[c] = c08Creator{m.Ctype, m.Creator}
		} else {
			delete(n.creator, c)
		}
		fmt.Fprintf(&fp, "C%d=%v/%v/%x;", c, m.Ctype, m.Created, m.Creator[:4])
	}
	n.rewardsLevel = d.Hdr.RewardsLevel
	fmt.Fprintf(&fp, "L%d", n.rewardsLevel)
	n.fp = ve.HashKey([]byte(fp.String()))
	return n
}

// ---------------------------------------------------------------------------------
// the ledger instance

// LRU cache modes. The capacities of the three base caches of accountUpdates are compile
// time constants (100000/10000/5000 entries, preallocated: ~0.5 s per OpenLedger/reload), so
// the bulk of the exploration uses c08LRUSmall: the ledger is opened with
// DisableLedgerLRUCache (no preallocation) and the harness then calls the caches' own
// init() with capacity 256 — same code paths (read/writePending/flushPendingWrites/write/
// prune), smaller buffers. c08LRUReal runs the upstream sizes (used for shallow depths).
const (
	c08LRUOff = iota
	c08LRUSmall
	c08LRUReal
)

type c08Cfg struct {
	Name     string
	Lookback uint64 // config.Local.MaxAcctLookback
	LRU      int
}

type c08LH struct {
	w   *c08World
	cfg c08Cfg
	l   *Ledger
	ref []*c08Ref // ref[r], r = 0..latest

	dbRound  basics.Round   // model: what the tracker DB round must be
	flushLog []basics.Round // successive tracker DB rounds (DB row layout is a function of history + this list)

	// query universe (grows as blocks mention new things)
	addrs   []basics.Address
	addrIn  map[basics.Address]bool
	raddrs  []basics.Address // addresses asked for resources: A, B, Z + every address that ever had one
	raddrIn map[basics.Address]bool
	cidx    []basics.CreatableIndex
	cidxIn  map[basics.CreatableIndex]bool
	kvKeys  []string
	kvIn    map[string]bool

	queries int64 // number of lookups issued (evidence)

	LastBlock bookkeeping.Block // the block added last (ApplyData carries created ids)

	// Finding, if set, receives violations of classes that have a dedicated known-finding
	// key and must not stop the exploration of the instance (see Sweep: cross-type lookups).
	Finding func(key, msg string)
	NoXType bool // development switch: do not issue cross-type resource lookups at all
}

var c08FarFuture = time.Date(2999, 1, 1, 0, 0, 0, 0, time.UTC)

// c08DBSeq makes in-memory database names unique inside the process (SQLite shares an
// in-memory database between all connections that use the same name).
var c08DBSeq atomic.Int64

func c08Open(w *c08World, cfg c08Cfg) (*c08LH, error) {
	lc := config.GetDefaultLocal()
	lc.Archival = false
	lc.MaxAcctLookback = cfg.Lookback
	lc.DisableLedgerLRUCache = cfg.LRU != c08LRUReal
	lc.CatchpointTracking = -1
	lc.TxPoolSize = 8 // sizes of the verified-transaction cache (preallocated maps)
	lc.VerifiedTranscationsCacheSize = 16
	lc.EnableAccountUpdatesStats = false
	log := logging.NewLogger()
	log.SetOutput(io.Discard)
	log.SetLevel(logging.Error)
	l, err := OpenLedger(log, fmt.Sprintf("verif-c08-%d", c08DBSeq.Add(1)), true, ledgercore.InitState{Block: w.genBlock, Accounts: w.genBal.Balances, GenesisHash: w.genHash}, lc)
	if err != nil {
		return nil, err
	}
	h := &c08LH{w: w, cfg: cfg, l: l, addrIn: map[basics.Address]bool{}, raddrIn: map[basics.Address]bool{}, cidxIn: map[basics.CreatableIndex]bool{}, kvIn: map[string]bool{}}
	h.ref = []*c08Ref{c08GenesisRef(w)}
	for _, a := range []basics.Address{w.A, w.B, w.C, w.Z, w.sink, w.pool} {
		h.addAddr(a)
	}
	var gen []basics.Address
	for a := range w.genBal.Balances {
		gen = append(gen, a)
	}
	sort.Slice(gen, func(i, j int) bool { return bytes.Compare(gen[i][:], gen[j][:]) < 0 })
	for _, a := range gen {
		h.addAddr(a)
	}
	for _, a := range []basics.Address{w.A, w.B, w.Z} {
		h.addRAddr(a)
	}
	h.addCidx(basics.CreatableIndex(w.genBlock.TxnCounter + 900)) // never created
	h.addKv(apps.MakeBoxKey(w.genBlock.TxnCounter+900, "nope"))   // never created
	h.freezeFlushClock()
	h.enableSmallLRU()
	return h, nil
}

// enableSmallLRU: see c08LRUSmall. Called after OpenLedger and after every reloadLedger
// (both end with caches that were (re)initialised by initializeFromDisk).
func (h *c08LH) enableSmallLRU() {
	if h.cfg.LRU != c08LRUSmall {
		return
	}
	au := &h.l.accts
	au.accountsMu.Lock()
	au.baseAccounts.init(au.log, 256, 200)
	au.baseResources.init(au.log, 256, 200)
	au.baseKVs.init(au.log, 256, 200)
	au.accountsMu.Unlock()
}

func (h *c08LH) Close() {
	if h.l != nil {
		h.l.Close()
		h.l = nil
	}
}

func (h *c08LH) addAddr(a basics.Address) {
	if !h.addrIn[a] {
		h.addrIn[a] = true
		h.addrs = append(h.addrs, a)
	}
}
func (h *c08LH) addRAddr(a basics.Address) {
	if !h.raddrIn[a] {
		h.raddrIn[a] = true
		h.raddrs = append(h.raddrs, a)
	}
}
func (h *c08LH) addCidx(c basics.CreatableIndex) {
	if !h.cidxIn[c] {
		h.cidxIn[c] = true
		h.cidx = append(h.cidx, c)
		sort.Slice(h.cidx, func(i, j int) bool { return h.cidx[i] < h.cidx[j] })
	}
}
func (h *c08LH) addKv(k string) {
	if !h.kvIn[k] {
		h.kvIn[k] = true
		h.kvKeys = append(h.kvKeys, k)
		sort.Strings(h.kvKeys)
	}
}

// freezeFlushClock makes trackerRegistry.scheduleCommit (called asynchronously by the block
// queue syncer through notifyCommit) never decide to flush on its own: its only time input
// is lastFlushTime. Called only while the syncer is quiescent.
func (h *c08LH) freezeFlushClock() {
	tr := &h.l.trackers
	tr.mu.Lock()
	tr.lastFlushTime = c08FarFuture
	tr.mu.Unlock()
}

func (h *c08LH) Latest() basics.Round { return basics.Round(len(h.ref) - 1) }
func (h *c08LH) Cur() *c08Ref         { return h.ref[len(h.ref)-1] }

// c08Val is the 8-byte value used by "modify" patterns: changes every round.
func c08Val(r basics.Round) []byte {
	var b [8]byte
	binary.BigEndian.PutUint64(b[:], uint64(r))
	return b[:]
}

// NextRound is the round of the block about to be built.
func (h *c08LH) NextRound() basics.Round { return h.Latest() + 1 }

// AddBlock evaluates txs (each its own group) with the real BlockEvaluator on top of the
// ledger's latest state, adds the generated block with AddValidatedBlock and folds the
// evaluator's StateDelta into the reference. enabled=false: the evaluator rejected a
// transaction (nothing was added).
func (h *c08LH) AddBlock(txs ...*txntest.Txn) (enabled bool, err error) {
	l := h.l
	prev, err := l.BlockHdr(l.Latest())
	if err != nil {
		return true, fmt.Errorf("harness: BlockHdr(latest): %v", err)
	}
	if l.Latest() != h.Latest() {
		return true, ve.Violationf("C08:latest", "Ledger.Latest()=%d but %d blocks were added", l.Latest(), h.Latest())
	}
	nextHdr := bookkeeping.MakeBlock(prev).BlockHeader
	nextHdr.TimeStamp = prev.TimeStamp + 1 // deterministic
	ev, err := eval.StartEvaluator(l, nextHdr, eval.EvaluatorOptions{Generate: true, Validate: true, PaysetHint: len(txs)})
	if err != nil {
		return true, fmt.Errorf("harness: StartEvaluator: %v", err)
	}
	for i, tx := range txs {
		tx.GenesisHash = h.w.genHash
		tx.FirstValid = ev.Round()
		if tx.Note == nil {
			tx.Note = fmt.Sprintf("%d/%d", ev.Round(), i)
		}
		tx.FillDefaults(h.w.params)
		stxn := tx.SignedTxn()
		if ad, ok := h.Cur().acct[tx.Sender]; ok && !ad.AuthAddr.IsZero() && ad.AuthAddr != tx.Sender {
			stxn.AuthAddr = ad.AuthAddr // sender was rekeyed in an earlier block
		}
		group := []transactions.SignedTxn{stxn}
		if err := ev.TestTransactionGroup(group); err != nil {
			return false, nil
		}
		if err := ev.TransactionGroup(transactions.WrapSignedTxnsWithAD(group)...); err != nil {
			return false, nil
		}
	}
	ub, err := ev.GenerateBlock(nil)
	if err != nil {
		return true, fmt.Errorf("harness: GenerateBlock: %v", err)
	}
	blk := ub.UnfinishedBlock()
	delta := ub.UnfinishedDeltas()
	// reference first (deep copies), then hand block+delta to the ledger
	nref := c08Fold(h.Cur(), &delta)
	for i := 0; i < delta.Accts.Len(); i++ {
		a, _ := delta.Accts.GetByIdx(i)
		h.addAddr(a)
	}
	for _, rec := range delta.Accts.AssetResources {
		h.addCidx(basics.CreatableIndex(rec.Aidx))
		h.addRAddr(rec.Addr)
	}
	for _, rec := range delta.Accts.AppResources {
		h.addCidx(basics.CreatableIndex(rec.Aidx))
		h.addRAddr(rec.Addr)
	}
	for c := range delta.Creatables {
		h.addCidx(c)
	}
	for k := range delta.KvMods {
		h.addKv(k)
	}
	vb := ledgercore.MakeValidatedBlock(blk, delta)
	if err := l.AddValidatedBlock(vb, agreement.Certificate{}); err != nil {
		return true, ve.Violationf("C08:addblock", "AddValidatedBlock(round %d) failed: %v", blk.Round(), err)
	}
	h.ref = append(h.ref, nref)
	h.LastBlock = blk
	// wait until the block queue syncer wrote the block AND finished notifyCommit (which runs
	// committedUpTo/scheduleCommit under trackerMu), so that nothing runs concurrently with
	// the following harness steps.
	l.WaitForCommit(blk.Round())
	<-l.Wait(blk.Round())
	l.trackerMu.Lock()
	l.trackerMu.Unlock() //nolint:staticcheck // barrier only
	return true, nil
}

// MaxFlush is the highest round a legal flush may persist now (latest - MaxAcctLookback).
func (h *c08LH) MaxFlush() basics.Round {
	return h.Latest().SubSaturate(basics.Round(h.cfg.Lookback))
}

// Flush persists rounds (dbRound, upTo] synchronously: the commit task is produced by the
// trackers themselves for committedRound = upTo+lookback and executed with the registry's
// own commitRound (prepareCommit, DB transaction, postCommit, postCommitUnlocked).
func (h *c08LH) Flush(upTo basics.Round) (enabled bool, err error) {
	if upTo <= h.dbRound || upTo > h.MaxFlush() {
		return false, nil
	}
	tr := &h.l.trackers
	lookback := basics.Round(h.cfg.Lookback)
	dcc := &deferredCommitContext{deferredCommitRange: deferredCommitRange{lookback: lookback}}
	tr.mu.RLock()
	dbRound := tr.dbRound
	cdr := tr.produceCommittingTask(upTo+lookback, dbRound, &dcc.deferredCommitRange)
	tr.mu.RUnlock()
	if cdr == nil {
		return true, ve.Violationf("C08:flush-refused", "trackers produced no commit task for rounds (%d,%d] (latest %d, lookback %d)", dbRound, upTo, h.Latest(), lookback)
	}
	dcc.deferredCommitRange = *cdr
	tr.accountsWriting.Add(1)
	if err := tr.commitRound(dcc); err != nil {
		return true, ve.Violationf("C08:commit-error", "commitRound (%d,%d] failed: %v", dbRound, upTo, err)
	}
	h.freezeFlushClock()
	got := h.l.LatestTrackerCommitted()
	if got != upTo {
		return true, ve.Violationf("C08:flush-round", "flush to %d left the tracker DB at round %d", upTo, got)
	}
	h.dbRound = upTo
	h.flushLog = append(h.flushLog, upTo)
	return true, nil
}

// Reload runs Ledger.reloadLedger (trackers closed, re-initialised from disk, blocks after
// the DB round replayed). reloadLedger itself flushes down to latest-lookback when more than
// lookback rounds are pending (its decision goes through the wall-clock test, which it
// primes itself); the harness then issues the same flush explicitly so that the resulting
// state never depends on that clock.
func (h *c08LH) Reload() error {
	if h.cfg.LRU == c08LRUSmall {
		// Upstream re-creates the three caches (maps AND pending-write channels) inside
		// reloadLedger; with DisableLedgerLRUCache init(0) leaves the receivers untouched, so
		// the harness-enabled small caches must be dropped here or their stale pending writes
		// would survive the restart. The replay inside reloadLedger therefore runs with the
		// caches off (an empty cache is always a legal LRU state); enableSmallLRU follows.
		au := &h.l.accts
		au.accountsMu.Lock()
		au.baseAccounts = lruAccounts{}
		au.baseResources = lruResources{}
		au.baseKVs = lruKV{}
		au.accountsMu.Unlock()
	}
	if err := h.l.reloadLedger(); err != nil {
		return ve.Violationf("C08:reload-error", "reloadLedger failed at latest=%d dbRound=%d: %v", h.Latest(), h.dbRound, err)
	}
	h.freezeFlushClock()
	h.enableSmallLRU()
	got := h.l.LatestTrackerCommitted()
	if got != h.dbRound {
		if got != h.MaxFlush() || got < h.dbRound {
			return ve.Violationf("C08:reload-round", "after reload the tracker DB is at round %d (was %d, latest %d, lookback %d)", got, h.dbRound, h.Latest(), h.cfg.Lookback)
		}
		h.dbRound = got
		h.flushLog = append(h.flushLog, got)
	}
	if h.MaxFlush() > h.dbRound {
		if _, err := h.Flush(h.MaxFlush()); err != nil {
			return err
		}
	}
	if h.l.Latest() != h.Latest() {
		return ve.Violationf("C08:reload-latest", "after reload Latest()=%d, expected %d", h.l.Latest(), h.Latest())
	}
	return nil
}

// ---------------------------------------------------------------------------------
// the query sweep

func (h *c08LH) wantAcct(r basics.Round, a basics.Address) ledgercore.AccountData {
	return h.ref[r].acct[a]
}

var errC08Skipped = fmt.Errorf("skipped: lookupResources asked for")

// c08IsXTypeErr recognises the type-assertion error of the DB readers (sqlitedriver/sql.go,
// generickv/accounts_reader.go LookupResources).
func c08IsXTypeErr(err error) bool {
	return err != nil && strings.Contains(err.Error(), "lookupResources asked for")
}

// xtype handles an error returned at a served round by a lookup that asks for the asset
// (application) numbered c of address a while (a, c) is a resource of the other type: the
// correct answer is "none". This class has its own key so that it can be listed as a
// known finding without hiding anything else; with a Finding hook the instance goes on.
func (h *c08LH) xtype(what string, r basics.Round, a basics.Address, c basics.CreatableIndex, db, latest basics.Round, err error) error {
	msg := fmt.Sprintf("%s(round %d, %x, %d) (db %d, latest %d): id %d is a resource of the other type for this address, the history says \"none\", but the lookup failed: %v (the same lookup succeeds while the row is in the deltas or the LRU cache)", what, r, a[:4], c, db, latest, c, err)
	if h.Finding != nil {
		h.Finding("C08:cross-type-lookup", msg)
		return nil
	}
	return ve.Violationf("C08:cross-type-lookup", "%s", msg)
}

// Sweep issues every lookup of the ledger API for every address / creatable / kv key of the
// universe at every round 0..latest+1 and compares with R[round]. A lookup that succeeds
// must equal R[round]; rounds in [trackerDB round, latest] must succeed; rounds above
// latest must fail.
func (h *c08LH) Sweep() error {
	l := h.l
	latest := h.Latest()
	if got := l.Latest(); got != latest {
		return ve.Violationf("C08:latest", "Ledger.Latest()=%d, expected %d", got, latest)
	}
	db := l.LatestTrackerCommitted()
	if db != h.dbRound {
		return ve.Violationf("C08:dbround", "tracker DB round %d, expected %d", db, h.dbRound)
	}
	ru := h.w.params.RewardUnit
	for r := basics.Round(0); r <= latest+1; r++ {
		served := r >= db && r <= latest
		// check classifies one lookup's error status; returns true if the answer must be compared
		check := func(what string, err error) (bool, error) {
			h.queries++
			if err != nil {
				if served {
					return false, ve.Violationf("C08:served-round-error", "%s at served round %d (db %d, latest %d) failed: %v", what, r, db, latest, err)
				}
				return false, nil
			}
			if r > latest {
				return false, ve.Violationf("C08:future-round-answered", "%s at round %d > latest %d returned no error", what, r, latest)
			}
			return true, nil
		}
		for _, a := range h.addrs {
			var want ledgercore.AccountData
			if r <= latest {
				want = h.wantAcct(r, a)
			}
			// LookupWithoutRewards
			got, vt, err := l.LookupWithoutRewards(r, a)
			cmp, verr := check(fmt.Sprintf("LookupWithoutRewards(%x)", a[:4]), err)
			if verr != nil {
				return verr
			}
			if cmp {
				if got != want {
					return ve.Violationf("C08:account-mismatch", "LookupWithoutRewards(round %d, %x) (db %d, latest %d) = %+v, history says %+v", r, a[:4], db, latest, got, want)
				}
				if vt < r || vt > latest {
					return ve.Violationf("C08:validthrough", "LookupWithoutRewards(round %d, %x) validThrough=%d (latest %d)", r, a[:4], vt, latest)
				}
				for x := r; x <= vt; x++ {
					if h.wantAcct(x, a) != got {
						return ve.Violationf("C08:validthrough", "LookupWithoutRewards(round %d, %x) says valid through %d but the account changed in round %d", r, a[:4], vt, x)
					}
				}
			}
			// LookupAccount (rewards applied at the level of round r)
			got2, vt2, wo, err := l.LookupAccount(r, a)
			cmp, verr = check(fmt.Sprintf("LookupAccount(%x)", a[:4]), err)
			if verr != nil {
				return verr
			}
			if cmp {
				want2 := want.WithUpdatedRewards(ru, h.ref[r].rewardsLevel)
				if got2 != want2 || wo != want.MicroAlgos {
					return ve.Violationf("C08:account-mismatch", "LookupAccount(round %d, %x) (db %d, latest %d) = %+v (withoutRewards %d), history says %+v (withoutRewards %d)", r, a[:4], db, latest, got2, wo.Raw, want2, want.MicroAlgos.Raw)
				}
				if vt2 < r || vt2 > latest {
					return ve.Violationf("C08:validthrough", "LookupAccount(round %d, %x) validThrough=%d (latest %d)", r, a[:4], vt2, latest)
				}
			}
			// resources
			if !h.raddrIn[a] {
				continue
			}
			for _, c := range h.cidx {
				// cross-type question: (a, c) is a resource of the other type at round r.
				// xAsset: an asset lookup on (a, c) whose ON-DISK row (state at the tracker DB
				// round) is an application resource; xApp: the converse. Only then can the DB
				// reader's type assertion fire (known finding C08:cross-type-lookup).
				_, xAsset := h.ref[db].res[c08ResKey{a, c, basics.AppCreatable}]
				_, xApp := h.ref[db].res[c08ResKey{a, c, basics.AssetCreatable}]
				var ga ledgercore.AssetResource
				var err error
				if xAsset && h.NoXType {
					err = errC08Skipped
				} else {
					ga, err = l.LookupAsset(r, a, basics.AssetIndex(c))
				}
				if xAsset && err != nil && served && c08IsXTypeErr(err) {
					if err != errC08Skipped {
						h.queries++
						if x := h.xtype("LookupAsset", r, a, c, db, latest, err); x != nil {
							return x
						}
					}
					cmp, verr = false, nil
				} else {
					cmp, verr = check(fmt.Sprintf("LookupAsset(%x,%d)", a[:4], c), err)
				}
				if verr != nil {
					return verr
				}
				if cmp {
					wa := h.ref[r].res[c08ResKey{a, c, basics.AssetCreatable}]
					gs := c08ResString(ledgercore.AccountResource{AssetParams: ga.AssetParams, AssetHolding: ga.AssetHolding})
					if ws := c08ResString(wa); gs != ws {
						return ve.Violationf("C08:asset-mismatch", "LookupAsset(round %d, %x, %d) (db %d, latest %d) = %s, history says %s", r, a[:4], c, db, latest, gs, ws)
					}
				}
				var gp ledgercore.AppResource
				if xApp && h.NoXType {
					err = errC08Skipped
				} else {
					gp, err = l.LookupApplication(r, a, basics.AppIndex(c))
				}
				if xApp && err != nil && served && c08IsXTypeErr(err) {
					if err != errC08Skipped {
						h.queries++
						if x := h.xtype("LookupApplication", r, a, c, db, latest, err); x != nil {
							return x
						}
					}
					cmp, verr = false, nil
				} else {
					cmp, verr = check(fmt.Sprintf("LookupApplication(%x,%d)", a[:4], c), err)
				}
				if verr != nil {
					return verr
				}
				if cmp {
					wp := h.ref[r].res[c08ResKey{a, c, basics.AppCreatable}]
					gs := c08ResString(ledgercore.AccountResource{AppParams: gp.AppParams, AppLocalState: gp.AppLocalState})
					if ws := c08ResString(wp); gs != ws {
						return ve.Violationf("C08:app-mismatch", "LookupApplication(round %d, %x, %d) (db %d, latest %d) = %s, history says %s", r, a[:4], c, db, latest, gs, ws)
					}
				}
			}
		}
		for _, c := range h.cidx {
			for _, ct := range []basics.CreatableType{basics.AssetCreatable, basics.AppCreatable} {
				creator, ok, err := l.GetCreatorForRound(r, c, ct)
				cmp, verr := check(fmt.Sprintf("GetCreatorForRound(%d,%v)", c, ct), err)
				if verr != nil {
					return verr
				}
				if cmp {
					w, wok := h.ref[r].creator[c]
					if wok && w.ctype != ct {
						wok = false
					}
					if ok != wok || (ok && creator != w.creator) {
						return ve.Violationf("C08:creator-mismatch", "GetCreatorForRound(round %d, %d, type %v) (db %d, latest %d) = %x,%v, history says %x,%v", r, c, ct, db, latest, creator[:4], ok, w.creator[:4], wok)
					}
				}
			}
		}
		for _, k := range h.kvKeys {
			got, err := l.LookupKv(r, k)
			cmp, verr := check(fmt.Sprintf("LookupKv(%x)", k), err)
			if verr != nil {
				return verr
			}
			if cmp {
				want, wok := h.ref[r].kv[k]
				if (got != nil) != wok || !bytes.Equal(got, want) {
					return ve.Violationf("C08:kv-mismatch", "LookupKv(round %d, %x) (db %d, latest %d) = %x (present %v), history says %x (present %v)", r, k, db, latest, got, got != nil, want, wok)
				}
			}
		}
	}
	return nil
}

// ---------------------------------------------------------------------------------
// state key: model history + flush boundaries + the implementation's in-memory state

func (h *c08LH) Key() string {
	var b strings.Builder
	fmt.Fprintf(&b, "%s|", h.cfg.Name)
	for _, r := range h.ref {
		b.WriteString(r.fp)
		b.WriteByte(',')
	}
	fmt.Fprintf(&b, "|db%d|fl%v|", h.dbRound, h.flushLog)
	au := &h.l.accts
	au.accountsMu.RLock()
	defer au.accountsMu.RUnlock()
	fmt.Fprintf(&b, "cdb%d nd%d|", au.cachedDBRound, len(au.deltas))
	var lines []string
	for a, m := range au.accounts {
		lines = append(lines, fmt.Sprintf("ma%x:%d", a[:4], m.ndeltas))
	}
	for k, m := range au.resources {
		lines = append(lines, fmt.Sprintf("mr%x/%d:%d", k.address[:4], k.index, m.ndeltas))
	}
	for k, m := range au.kvStore {
		lines = append(lines, fmt.Sprintf("mk%x:%d", k, m.ndeltas))
	}
	for k, m := range au.creatables {
		lines = append(lines, fmt.Sprintf("mc%d:%d", k, m.Ndeltas))
	}
	for a, n := range au.baseAccounts.accounts {
		lines = append(lines, fmt.Sprintf("ba%x:r%d:%v:%+v", a[:4], n.Value.Round, n.Value.Ref != nil, n.Value.AccountData))
	}
	for a := range au.baseAccounts.notFound {
		lines = append(lines, fmt.Sprintf("bn%x", a[:4]))
	}
	for k, n := range au.baseResources.resources {
		lines = append(lines, fmt.Sprintf("br%x/%d:r%d:%v:%s", k.address[:4], k.index, n.Value.Round, n.Value.AcctRef != nil, c08ResString(n.Value.AccountResource())))
	}
	for k := range au.baseResources.notFound {
		lines = append(lines, fmt.Sprintf("bm%x/%d", k.address[:4], k.index))
	}
	for k, n := range au.baseKVs.kvs {
		lines = append(lines, fmt.Sprintf("bk%x:r%d:%x:%v", k, n.Value.Round, n.Value.Value, n.Value.Value == nil))
	}
	sort.Strings(lines)
	b.WriteString(strings.Join(lines, ";"))
	fmt.Fprintf(&b, "|p%d,%d,%d,%d,%d", len(au.baseAccounts.pendingAccounts), len(au.baseAccounts.pendingNotFound),
		len(au.baseResources.pendingResources), len(au.baseResources.pendingNotFound), len(au.baseKVs.pendingKVs))
	return ve.HashKey([]byte(b.String()))
}

// ---------------------------------------------------------------------------------
// transaction patterns (building blocks of the block alphabets)

func (w *c08World) txPay(from, to basics.Address, amt uint64) *txntest.Txn {
	return &txntest.Txn{Type: protocol.PaymentTx, Sender: from, Receiver: to, Amount: amt}
}
func (w *c08World) txRekey(from, to basics.Address) *txntest.Txn {
	return &txntest.Txn{Type: protocol.PaymentTx, Sender: from, Receiver: from, Amount: 0, RekeyTo: to}
}
func (w *c08World) txClose(from, to basics.Address) *txntest.Txn {
	return &txntest.Txn{Type: protocol.PaymentTx, Sender: from, Receiver: to, Amount: 0, CloseRemainderTo: to}
}
func (w *c08World) txAssetCreate(from basics.Address, unit string) *txntest.Txn {
	return &txntest.Txn{Type: protocol.AssetConfigTx, Sender: from, AssetParams: basics.AssetParams{
		Total: 1000, Decimals: 0, UnitName: unit, AssetName: "verif-" + unit, Manager: from, Reserve: from, Freeze: from, Clawback: from}}
}
func (w *c08World) txAssetConfig(from basics.Address, id basics.AssetIndex, reserve basics.Address) *txntest.Txn {
	return &txntest.Txn{Type: protocol.AssetConfigTx, Sender: from, ConfigAsset: id, AssetParams: basics.AssetParams{
		Manager: from, Reserve: reserve, Freeze: from, Clawback: from}}
}
func (w *c08World) txAssetDestroy(from basics.Address, id basics.AssetIndex) *txntest.Txn {
	return &txntest.Txn{Type: protocol.AssetConfigTx, Sender: from, ConfigAsset: id}
}
func (w *c08World) txAssetXfer(from, to basics.Address, id basics.AssetIndex, amt uint64) *txntest.Txn {
	return &txntest.Txn{Type: protocol.AssetTransferTx, Sender: from, AssetReceiver: to, XferAsset: id, AssetAmount: amt}
}
func (w *c08World) txAssetCloseOut(from, to basics.Address, id basics.AssetIndex) *txntest.Txn {
	return &txntest.Txn{Type: protocol.AssetTransferTx, Sender: from, AssetReceiver: to, XferAsset: id, AssetCloseTo: to}
}
func (w *c08World) txAppCreate(from basics.Address) *txntest.Txn {
	return &txntest.Txn{Type: protocol.ApplicationCallTx, Sender: from, ApprovalProgram: w.approval, ClearStateProgram: w.clear,
		GlobalStateSchema: basics.StateSchema{NumByteSlice: 1}, LocalStateSchema: basics.StateSchema{NumByteSlice: 1}}
}
func (w *c08World) txAppCall(from basics.Address, id basics.AppIndex, oc transactions.OnCompletion, args ...[]byte) *txntest.Txn {
	return &txntest.Txn{Type: protocol.ApplicationCallTx, Sender: from, ApplicationID: id, OnCompletion: oc, ApplicationArgs: args}
}
func (w *c08World) txBoxPut(from basics.Address, id basics.AppIndex, name string, val []byte) *txntest.Txn {
	t := w.txAppCall(from, id, transactions.NoOpOC, []byte("bput"), []byte(name), val)
	t.Boxes = []transactions.BoxRef{{Index: 0, Name: []byte(name)}}
	return t
}
func (w *c08World) txBoxDel(from basics.Address, id basics.AppIndex, name string) *txntest.Txn {
	t := w.txAppCall(from, id, transactions.NoOpOC, []byte("bdel"), []byte(name))
	t.Boxes = []transactions.BoxRef{{Index: 0, Name: []byte(name)}}
	return t
}

// c08Ctx is only here to keep the context import used by helper code in sibling files.
var c08Ctx = context.Background()
