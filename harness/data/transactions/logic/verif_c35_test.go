package logic

// C35 — App programs can touch only resources made available to them.
//
// Engine E-ENUM over the real EvalContract on transaction groups, level exploration.
//
// Universe: accounts S (sender of the examined call), A, B, the app accounts of self/p/q (and of
// an app c created earlier in the group); assets x, y (and z created earlier in the group); apps
// self, p, q (and c); one box name per app (bs, bp, bq).
//
// Enumerated. Examined call E = application call of `self`, always the last member of the group.
//  * foreign-array mode: EVERY subset of Accounts {A,B} x ForeignAssets {x,y} x ForeignApps {p,q}
//    (64 configurations; the two-element arrays also in reversed order for the slot semantics);
//  * box mode: every subset of <= 2 box references out of {(self,bs),(p,bp),(q,bq),(p,bs),(self,bp)}
//    that is expressible with the chosen ForeignApps subset;
//  * access-list mode (program v >= 9): every tx.Access list made of <= 2 distinct basic entries
//    of {A,B,x,y,p,q} in every order, optionally followed by one derived entry (every holding /
//    locals / box reference expressible over the list, sender=0 and current-app=0 included);
//  x group context: E alone; + app call of p with foreign arrays (sender B, Accounts[A], Assets[x],
//    Apps[q], Boxes[(0,bp),(1,bq)]); + app call of p using tx.Access [B, y, holding(B,y), box(0,bp)];
//    + pay S->A; + axfer x S->B; + afrz y of A; + acfg creating z (ApplyData recorded as the
//    evaluator does); + app creation of c (its program is executed first, as in a real group);
//  x program version of E in {4, 6, 8, 9, 11, LogicVersion};
//  x access: balance, min_balance, acct_params_get, asset_params_get, app_params_get,
//    app_global_get_ex, asset_holding_get, app_opted_in, app_local_get_ex, app_local_get,
//    app_local_put, app_local_del, box_get/put/create/del, app_box_get, and itxn_field
//    Receiver / AssetReceiver / FreezeAssetAccount / Accounts / XferAsset / ConfigAsset /
//    FreezeAsset / Assets / ApplicationID / Applications; every account operand as address and as
//    slot 0..3, every asset operand as id and as slot 0..2, every app operand as id and slot 0..3.
//
// Oracle — two-sided, deliberately bracketed reference written from the documented rules
// (ApplicationCallTxnFields field comments in data/transactions/application.go; the version
// constants and their comments in opcodes.go: directRef v4, createdResources v6,
// appAddressAvailable v7, sharedResources v9; resources.go comments: what each transaction type
// shares and "tx0 mentions an account A, tx1 mentions an ASA X does NOT make the holding AX
// available"; TEAL_opcodes "_available_"):
//   MUST  = sender, the call's own foreign arrays (and their documented cross products: any of
//           sender/Accounts/own app account with any ForeignAssets / {self} u ForeignApps), the own
//           app, own box references, explicitly listed tx.Access entries (+ sender, app, sender's
//           locals), and from v9 on things created earlier in the group;
//   MAY   = MUST + everything group sharing allows: from v6 created assets/apps and created app
//           accounts, from v7 the accounts of own ForeignApps, from v9 every account/asset/app
//           mentioned by any member, holdings and locals ONLY as pairs shared by one member (or via
//           a created asset/app), boxes referenced by any member; the own app account in
//           access-list mode.
//   Violation iff an access SUCCEEDS outside MAY, or fails with an UNAVAILABILITY error
//   ("unavailable Account/Asset/App/Holding/Local State", "invalid Account reference",
//   "invalid Box reference", "not a valid foreign ... slot", "is not an Address in tx.Access")
//   inside MUST. All other errors are ordinary run-time matters.
//
//   Bracket: an asset operand that is literally 0 in access-list mode. Id 0 names no asset;
//   availableAsset(0) is true there as soon as the list holds a non-asset entry (rr.Asset == 0
//   matches), the opcode then reports "does not exist" / itxn_field accepts 0. Nothing is read, so
//   nothing is demanded (mentioned in the report as an observation, not a finding).
//
// Detection (bin/mut ... --only, quick tier; all DETECTED):
//   1. resources.go allowsHolding also true when account and asset are each available  -> access-outside-MAY:holding
//   2. resources.go fillApplicationCallForeign ignores the app index of a box reference -> outside-MAY:box + inside-MUST
//   3. eval.go      availableAccount honours group-shared accounts from v6 instead of v9 -> access-outside-MAY:acct
//   4. resources.go fillApplicationCallAccess no longer shares (sender, app) locals     -> unavailable-inside-MUST:local
//   5. resources.go allowsHolding: created asset usable with ANY account                -> access-outside-MAY:holding
//   seeded C35-A (allowsApplicationCall skips foreign-app accounts for v7/v8 callees)   -> layer H
//   seeded C35-B (availableAppBox tests createdApps[running app] instead of [owner])    -> layer G
//
// Layer G (v13 foreign box opcodes): app_box_create/put/get/len/del/replace/resize (+ box_* when
//   the owner is the running app) x running app pre-existing or created in this group (E is the
//   creating call) x box owner self / pre-existing sibling p / created-in-group c / q x box
//   references none / empty / two empty / named / fresh-name, with one creator and all permission
//   flags set. MAY = named by a member, or owner created in group and an empty reference present.
// Layer H (itxn_submit): caller v9/current builds an inner appl (callee program v6,7,8,9,current;
//   every subset of Accounts{A} x Assets{x} x Applications{p}), axfer or afrz from resources it
//   obtained from its own arrays and/or other members (5 contexts) and submits it; the inner
//   transaction must be refused if it would make a holding/local accessible that no member shared
//   (for callees < v9: sender, Accounts, callee app account, and from callee v7 the foreign apps'
//   accounts, each x Assets and x {callee} u Applications).
//
// Not covered: inner calls deeper than one level, inner app creation, ClearState programs,
// UnnamedResources (simulation), value correctness of reads.
//
// Unexported identifiers used: test Ledger (NewLedger, NewApp, NewAsset, NewHolding, NewLocals,
// NewBox, SetForeignBoxReads), makeTestProto, EvalParams.RecordAD, panicError.

import (
	"encoding/hex"
	"fmt"
	"regexp"
	"sort"
	"strings"
	"sync"
	"sync/atomic"
	"testing"

	"github.com/algorand/go-algorand/config"
	"github.com/algorand/go-algorand/data/basics"
	"github.com/algorand/go-algorand/data/transactions"
	"github.com/algorand/go-algorand/protocol"
	ve "github.com/algorand/go-algorand/verifeng"
)

const (
	c35X    = basics.AssetIndex(1001)
	c35Y    = basics.AssetIndex(1002)
	c35Z    = basics.AssetIndex(1003) // created in group
	c35Self = basics.AppIndex(2001)
	c35P    = basics.AppIndex(2002)
	c35Q    = basics.AppIndex(2003)
	c35C    = basics.AppIndex(2004) // created in group
)

func c35Addr(s string) basics.Address {
	var a basics.Address
	copy(a[:], s+"--------------------------------")
	return a
}

var (
	c35S = c35Addr("SENDER")
	c35A = c35Addr("ACCT-A")
	c35B = c35Addr("ACCT-B")
)

var c35BoxNames = map[basics.AppIndex]string{c35Self: "bs", c35P: "bp", c35Q: "bq", c35C: "bc"}

// ---------------------------------------------------------------------------------------------
// group description
// ---------------------------------------------------------------------------------------------

type c35Group struct {
	name         string
	txns         []transactions.SignedTxn // context members, then E
	createdAsset basics.AssetIndex
	createdApp   basics.AppIndex
}

func c35Appl(sender basics.Address, app basics.AppIndex) transactions.SignedTxn {
	var t transactions.SignedTxn
	t.Txn.Type = protocol.ApplicationCallTx
	t.Txn.Sender = sender
	t.Txn.ApplicationID = app
	t.Txn.Fee.Raw = 1000
	t.Txn.FirstValid = 100
	t.Txn.LastValid = 200
	return t
}

type c35Context struct {
	name string
	mk   func() (ctx []transactions.SignedTxn, createdAsset basics.AssetIndex, createdApp basics.AppIndex)
}

var c35Contexts = []c35Context{
	{"alone", func() ([]transactions.SignedTxn, basics.AssetIndex, basics.AppIndex) { return nil, 0, 0 }},
	{"appl-p-foreign", func() ([]transactions.SignedTxn, basics.AssetIndex, basics.AppIndex) {
		t := c35Appl(c35B, c35P)
		t.Txn.Accounts = []basics.Address{c35A}
		t.Txn.ForeignAssets = []basics.AssetIndex{c35X}
		t.Txn.ForeignApps = []basics.AppIndex{c35Q}
		t.Txn.Boxes = []transactions.BoxRef{{Index: 0, Name: []byte("bp")}, {Index: 1, Name: []byte("bq")}}
		return []transactions.SignedTxn{t}, 0, 0
	}},
	{"appl-p-access", func() ([]transactions.SignedTxn, basics.AssetIndex, basics.AppIndex) {
		t := c35Appl(c35A, c35P)
		t.Txn.Access = []transactions.ResourceRef{
			{Address: c35B}, {Asset: c35Y},
			{Holding: transactions.HoldingRef{Address: 1, Asset: 2}},
			{Box: transactions.BoxRef{Index: 0, Name: []byte("bp")}},
		}
		return []transactions.SignedTxn{t}, 0, 0
	}},
	{"pay-S-A", func() ([]transactions.SignedTxn, basics.AssetIndex, basics.AppIndex) {
		var t transactions.SignedTxn
		t.Txn.Type = protocol.PaymentTx
		t.Txn.Sender = c35S
		t.Txn.Receiver = c35A
		return []transactions.SignedTxn{t}, 0, 0
	}},
	{"axfer-x-S-B", func() ([]transactions.SignedTxn, basics.AssetIndex, basics.AppIndex) {
		var t transactions.SignedTxn
		t.Txn.Type = protocol.AssetTransferTx
		t.Txn.Sender = c35S
		t.Txn.XferAsset = c35X
		t.Txn.AssetReceiver = c35B
		return []transactions.SignedTxn{t}, 0, 0
	}},
	{"afrz-y-A", func() ([]transactions.SignedTxn, basics.AssetIndex, basics.AppIndex) {
		var t transactions.SignedTxn
		t.Txn.Type = protocol.AssetFreezeTx
		t.Txn.Sender = c35S
		t.Txn.FreezeAsset = c35Y
		t.Txn.FreezeAccount = c35A
		return []transactions.SignedTxn{t}, 0, 0
	}},
	{"acfg-create-z", func() ([]transactions.SignedTxn, basics.AssetIndex, basics.AppIndex) {
		var t transactions.SignedTxn
		t.Txn.Type = protocol.AssetConfigTx
		t.Txn.Sender = c35S
		t.Txn.AssetParams.Total = 7
		return []transactions.SignedTxn{t}, c35Z, 0
	}},
	{"appl-create-c", func() ([]transactions.SignedTxn, basics.AssetIndex, basics.AppIndex) {
		t := c35Appl(c35S, 0)
		return []transactions.SignedTxn{t}, 0, c35C
	}},
}

// ---------------------------------------------------------------------------------------------
// reference: what each member shares (resources.go fill* comments / application.go field docs)
// ---------------------------------------------------------------------------------------------

type c35Pair struct {
	addr basics.Address
	id   uint64
}

type c35Box struct {
	app  basics.AppIndex
	name string
}

type c35Shared struct {
	accts  map[basics.Address]bool
	assets map[basics.AssetIndex]bool
	apps   map[basics.AppIndex]bool
	holds  map[c35Pair]bool
	locals map[c35Pair]bool
	boxes  map[c35Box]bool
	empty  int // empty box references (quota bumps usable by created apps)
}

func c35NewShared() *c35Shared {
	return &c35Shared{map[basics.Address]bool{}, map[basics.AssetIndex]bool{}, map[basics.AppIndex]bool{},
		map[c35Pair]bool{}, map[c35Pair]bool{}, map[c35Box]bool{}, 0}
}

// c35Share adds what transaction t contributes to group sharing.
func c35Share(sh *c35Shared, t *transactions.Transaction) {
	acctHold := func(a basics.Address, x basics.AssetIndex) {
		if a.IsZero() {
			return
		}
		sh.accts[a] = true
		if x != 0 {
			sh.holds[c35Pair{a, uint64(x)}] = true
		}
	}
	switch t.Type {
	case protocol.PaymentTx:
		sh.accts[t.Sender] = true
		sh.accts[t.Receiver] = true
		if !t.CloseRemainderTo.IsZero() {
			sh.accts[t.CloseRemainderTo] = true
		}
	case protocol.KeyRegistrationTx:
		sh.accts[t.Sender] = true
	case protocol.AssetConfigTx:
		sh.accts[t.Sender] = true
		if t.ConfigAsset != 0 {
			sh.assets[t.ConfigAsset] = true
		}
	case protocol.AssetTransferTx:
		sh.assets[t.XferAsset] = true
		acctHold(t.Sender, t.XferAsset)
		acctHold(t.AssetReceiver, t.XferAsset)
		acctHold(t.AssetSender, t.XferAsset)
		acctHold(t.AssetCloseTo, t.XferAsset)
	case protocol.AssetFreezeTx:
		sh.accts[t.Sender] = true
		sh.assets[t.FreezeAsset] = true
		acctHold(t.FreezeAccount, t.FreezeAsset)
	case protocol.ApplicationCallTx:
		if t.Access != nil {
			sh.accts[t.Sender] = true
			if t.ApplicationID != 0 {
				sh.apps[t.ApplicationID] = true
				sh.locals[c35Pair{t.Sender, uint64(t.ApplicationID)}] = true
			}
			addrAt := func(i uint64) (basics.Address, bool) {
				if i == 0 {
					return t.Sender, true
				}
				if i > uint64(len(t.Access)) || t.Access[i-1].Address.IsZero() {
					return basics.Address{}, false
				}
				return t.Access[i-1].Address, true
			}
			for _, rr := range t.Access {
				switch {
				case !rr.Address.IsZero():
					sh.accts[rr.Address] = true
				case rr.Asset != 0:
					sh.assets[rr.Asset] = true
				case rr.App != 0:
					sh.apps[rr.App] = true
				case !rr.Holding.Empty():
					a, ok := addrAt(rr.Holding.Address)
					if ok && rr.Holding.Asset >= 1 && rr.Holding.Asset <= uint64(len(t.Access)) && t.Access[rr.Holding.Asset-1].Asset != 0 {
						sh.holds[c35Pair{a, uint64(t.Access[rr.Holding.Asset-1].Asset)}] = true
					}
				case !rr.Locals.Empty():
					a, ok := addrAt(rr.Locals.Address)
					app := t.ApplicationID
					if rr.Locals.App != 0 {
						app = 0
						if rr.Locals.App <= uint64(len(t.Access)) {
							app = t.Access[rr.Locals.App-1].App
						}
					}
					if ok && app != 0 {
						sh.locals[c35Pair{a, uint64(app)}] = true
					}
				case !rr.Box.Empty():
					app := t.ApplicationID
					if rr.Box.Index != 0 {
						app = 0
						if rr.Box.Index <= uint64(len(t.Access)) {
							app = t.Access[rr.Box.Index-1].App
						}
					}
					if app != 0 {
						sh.boxes[c35Box{app, string(rr.Box.Name)}] = true
					}
				default:
					sh.empty++
				}
			}
			return
		}
		accts := []basics.Address{t.Sender}
		accts = append(accts, t.Accounts...)
		apps := []basics.AppIndex{}
		if t.ApplicationID != 0 {
			apps = append(apps, t.ApplicationID)
		}
		apps = append(apps, t.ForeignApps...)
		for _, ap := range apps {
			accts = append(accts, ap.Address())
			sh.apps[ap] = true
		}
		for _, x := range t.ForeignAssets {
			sh.assets[x] = true
		}
		for _, a := range accts {
			sh.accts[a] = true
			for _, x := range t.ForeignAssets {
				sh.holds[c35Pair{a, uint64(x)}] = true
			}
			for _, ap := range apps {
				sh.locals[c35Pair{a, uint64(ap)}] = true
			}
		}
		for _, br := range t.Boxes {
			if br.Index == 0 && br.Name == nil {
				sh.empty++
			}
			app := t.ApplicationID
			if br.Index > 0 {
				if br.Index > uint64(len(t.ForeignApps)) {
					continue
				}
				app = t.ForeignApps[br.Index-1]
			}
			if app != 0 {
				sh.boxes[c35Box{app, string(br.Name)}] = true
			}
		}
	}
}

// c35Ref is the reference model of one (group, version) situation.
type c35Ref struct {
	v          uint64
	e          *transactions.Transaction
	accessMode bool
	own        *c35Shared // what E itself names
	group      *c35Shared // union over all members (including E)
	createdZ   bool
	createdC   bool
}

func c35NewRef(v uint64, g *c35Group) *c35Ref {
	r := &c35Ref{v: v, e: &g.txns[len(g.txns)-1].Txn, own: c35NewShared(), group: c35NewShared()}
	r.accessMode = r.e.Access != nil
	c35Share(r.own, r.e)
	for i := range g.txns {
		c35Share(r.group, &g.txns[i].Txn)
	}
	r.createdZ = g.createdAsset != 0
	r.createdC = g.createdApp != 0
	return r
}

func (r *c35Ref) ownAccountsList() []basics.Address {
	out := []basics.Address{r.e.Sender}
	if r.accessMode {
		for _, rr := range r.e.Access {
			if !rr.Address.IsZero() {
				out = append(out, rr.Address)
			}
		}
		return out
	}
	return append(out, r.e.Accounts...)
}

func c35In[T comparable](l []T, x T) bool {
	for _, y := range l {
		if x == y {
			return true
		}
	}
	return false
}

func (r *c35Ref) ownAssets() []basics.AssetIndex {
	if r.accessMode {
		var out []basics.AssetIndex
		for _, rr := range r.e.Access {
			if rr.Asset != 0 {
				out = append(out, rr.Asset)
			}
		}
		return out
	}
	return r.e.ForeignAssets
}

func (r *c35Ref) ownApps() []basics.AppIndex {
	out := []basics.AppIndex{c35Self}
	if r.accessMode {
		for _, rr := range r.e.Access {
			if rr.App != 0 {
				out = append(out, rr.App)
			}
		}
		return out
	}
	return append(out, r.e.ForeignApps...)
}

func (r *c35Ref) mustAcct(a basics.Address) bool {
	if c35In(r.ownAccountsList(), a) {
		return true
	}
	return !r.accessMode && a == c35Self.Address()
}

func (r *c35Ref) mayAcct(a basics.Address) bool {
	if c35In(r.ownAccountsList(), a) || a == c35Self.Address() {
		return true
	}
	if r.v >= 6 && r.createdC && a == c35C.Address() {
		return true
	}
	if r.v >= 7 && !r.accessMode {
		for _, ap := range r.e.ForeignApps {
			if a == ap.Address() {
				return true
			}
		}
	}
	return r.v >= 9 && r.group.accts[a]
}

func (r *c35Ref) mustAsset(x basics.AssetIndex) bool {
	return c35In(r.ownAssets(), x) || (r.v >= 9 && r.createdZ && x == c35Z)
}

func (r *c35Ref) mayAsset(x basics.AssetIndex) bool {
	if c35In(r.ownAssets(), x) {
		return true
	}
	if r.v >= 6 && r.createdZ && x == c35Z {
		return true
	}
	return r.v >= 9 && r.group.assets[x]
}

func (r *c35Ref) mustApp(p basics.AppIndex) bool {
	return c35In(r.ownApps(), p) || (r.v >= 9 && r.createdC && p == c35C)
}

func (r *c35Ref) mayApp(p basics.AppIndex) bool {
	if c35In(r.ownApps(), p) {
		return true
	}
	if r.v >= 6 && r.createdC && p == c35C {
		return true
	}
	return r.v >= 9 && r.group.apps[p]
}

func (r *c35Ref) mustHolding(a basics.Address, x basics.AssetIndex) bool {
	if r.accessMode {
		return r.own.holds[c35Pair{a, uint64(x)}]
	}
	return r.mustAcct(a) && c35In(r.ownAssets(), x)
}

func (r *c35Ref) mayHolding(a basics.Address, x basics.AssetIndex) bool {
	if r.v < 9 {
		return r.mayAcct(a) && r.mayAsset(x)
	}
	if r.group.holds[c35Pair{a, uint64(x)}] {
		return true
	}
	if r.createdZ && x == c35Z && r.mayAcct(a) {
		return true
	}
	return r.createdC && a == c35C.Address() && r.mayAsset(x)
}

func (r *c35Ref) mustLocal(a basics.Address, p basics.AppIndex) bool {
	if r.accessMode {
		return r.own.locals[c35Pair{a, uint64(p)}]
	}
	return r.mustAcct(a) && c35In(r.ownApps(), p)
}

func (r *c35Ref) mayLocal(a basics.Address, p basics.AppIndex) bool {
	if r.v < 9 {
		return r.mayAcct(a) && r.mayApp(p)
	}
	if r.group.locals[c35Pair{a, uint64(p)}] {
		return true
	}
	if r.createdC && p == c35C && r.mayAcct(a) {
		return true
	}
	return r.createdC && a == c35C.Address() && r.mayApp(p)
}

func (r *c35Ref) mustBox(app basics.AppIndex, name string) bool {
	return r.own.boxes[c35Box{app, name}]
}

func (r *c35Ref) mayBox(app basics.AppIndex, name string) bool {
	if r.group.boxes[c35Box{app, name}] {
		return true
	}
	return r.createdC && app == c35C && r.group.empty > 0
}

// ---------------------------------------------------------------------------------------------
// accesses
// ---------------------------------------------------------------------------------------------

type c35Operand struct {
	isAddr bool
	addr   basics.Address
	num    uint64
}

func (o c35Operand) push() string {
	if o.isAddr {
		return "byte 0x" + hex.EncodeToString(o.addr[:])
	}
	return fmt.Sprintf("int %d", o.num)
}

func (o c35Operand) String() string {
	if o.isAddr {
		return "addr:" + strings.TrimRight(string(o.addr[:8]), "-")
	}
	return fmt.Sprintf("#%d", o.num)
}

type c35Access struct {
	op    string
	kind  string // acct, asset, app, holding, local, localmut, box, appbox
	minV  uint64
	acct  *c35Operand
	id    *c35Operand // asset or app operand
	name  string      // box name
	field string      // itxn_field name
}

func (a c35Access) String() string {
	s := a.op
	if a.field != "" {
		s += " " + a.field
	}
	if a.acct != nil {
		s += " " + a.acct.String()
	}
	if a.id != nil {
		s += " " + a.id.String()
	}
	if a.name != "" {
		s += " " + a.name
	}
	return s
}

func (a c35Access) source() string {
	var sb strings.Builder
	w := func(s string) { sb.WriteString(s + "\n") }
	switch a.op {
	case "balance", "min_balance":
		w(a.acct.push())
		w(a.op)
		w("pop")
	case "acct_params_get":
		w(a.acct.push())
		w("acct_params_get AcctBalance")
		w("pop")
		w("pop")
	case "asset_params_get":
		w(a.id.push())
		w("asset_params_get AssetTotal")
		w("pop")
		w("pop")
	case "app_params_get":
		w(a.id.push())
		w("app_params_get AppCreator")
		w("pop")
		w("pop")
	case "app_global_get_ex":
		w(a.id.push())
		w(`byte "k"`)
		w("app_global_get_ex")
		w("pop")
		w("pop")
	case "asset_holding_get":
		w(a.acct.push())
		w(a.id.push())
		w("asset_holding_get AssetBalance")
		w("pop")
		w("pop")
	case "app_opted_in":
		w(a.acct.push())
		w(a.id.push())
		w("app_opted_in")
		w("pop")
	case "app_local_get_ex":
		w(a.acct.push())
		w(a.id.push())
		w(`byte "k"`)
		w("app_local_get_ex")
		w("pop")
		w("pop")
	case "app_local_get":
		w(a.acct.push())
		w(`byte "k"`)
		w("app_local_get")
		w("pop")
	case "app_local_put":
		w(a.acct.push())
		w(`byte "k"`)
		w("int 7")
		w("app_local_put")
	case "app_local_del":
		w(a.acct.push())
		w(`byte "k"`)
		w("app_local_del")
	case "box_get":
		w(`byte "` + a.name + `"`)
		w("box_get")
		w("pop")
		w("pop")
	case "box_put":
		w(`byte "` + a.name + `"`)
		w(`byte "v1"`)
		w("box_put")
	case "box_create":
		w(`byte "` + a.name + `"`)
		w("int 2")
		w("box_create")
		w("pop")
	case "box_del":
		w(`byte "` + a.name + `"`)
		w("box_del")
		w("pop")
	case "app_box_get":
		w(a.id.push())
		w(`byte "` + a.name + `"`)
		w("app_box_get")
		w("pop")
		w("pop")
	case "itxn_field":
		w("itxn_begin")
		if a.acct != nil {
			w(a.acct.push())
		} else {
			w(a.id.push())
		}
		w("itxn_field " + a.field)
	}
	w("int 1")
	return sb.String()
}

func c35Accesses(withCreated bool) []c35Access {
	var out []c35Access
	addrs := []basics.Address{c35S, c35A, c35B, c35Self.Address(), c35P.Address(), c35Q.Address(), c35C.Address()}
	var acctOps []c35Operand
	for _, a := range addrs {
		acctOps = append(acctOps, c35Operand{isAddr: true, addr: a})
	}
	for i := uint64(0); i <= 3; i++ {
		acctOps = append(acctOps, c35Operand{num: i})
	}
	var assetOps, appOps []c35Operand
	for _, x := range []basics.AssetIndex{c35X, c35Y, c35Z} {
		assetOps = append(assetOps, c35Operand{num: uint64(x)})
	}
	for i := uint64(0); i <= 2; i++ {
		assetOps = append(assetOps, c35Operand{num: i})
	}
	for _, p := range []basics.AppIndex{c35Self, c35P, c35Q, c35C} {
		appOps = append(appOps, c35Operand{num: uint64(p)})
	}
	for i := uint64(0); i <= 3; i++ {
		appOps = append(appOps, c35Operand{num: i})
	}
	p := func(o c35Operand) *c35Operand { return &o }
	for _, a := range acctOps {
		out = append(out, c35Access{op: "balance", kind: "acct", minV: 2, acct: p(a)})
		out = append(out, c35Access{op: "min_balance", kind: "acct", minV: 3, acct: p(a)})
		out = append(out, c35Access{op: "acct_params_get", kind: "acct", minV: 6, acct: p(a)})
		out = append(out, c35Access{op: "app_local_get", kind: "local0", minV: 2, acct: p(a)})
		out = append(out, c35Access{op: "app_local_put", kind: "localmut", minV: 2, acct: p(a)})
		out = append(out, c35Access{op: "app_local_del", kind: "localmut", minV: 2, acct: p(a)})
		for _, x := range assetOps {
			out = append(out, c35Access{op: "asset_holding_get", kind: "holding", minV: 2, acct: p(a), id: p(x)})
		}
		for _, ap := range appOps {
			out = append(out, c35Access{op: "app_opted_in", kind: "local", minV: 2, acct: p(a), id: p(ap)})
			out = append(out, c35Access{op: "app_local_get_ex", kind: "local", minV: 2, acct: p(a), id: p(ap)})
		}
		if a.isAddr {
			for _, f := range []string{"Receiver", "AssetReceiver", "FreezeAssetAccount", "Accounts"} {
				minV := uint64(5)
				if f == "Accounts" {
					minV = 6
				}
				out = append(out, c35Access{op: "itxn_field", kind: "itxn-acct", minV: minV, acct: p(a), field: f})
			}
		}
	}
	for _, x := range assetOps {
		out = append(out, c35Access{op: "asset_params_get", kind: "asset", minV: 2, id: p(x)})
		if x.num >= 1000 {
			for _, f := range []string{"XferAsset", "ConfigAsset", "FreezeAsset", "Assets"} {
				minV := uint64(5)
				if f == "Assets" {
					minV = 6
				}
				out = append(out, c35Access{op: "itxn_field", kind: "itxn-asset", minV: minV, id: p(x), field: f})
			}
		}
	}
	for _, ap := range appOps {
		out = append(out, c35Access{op: "app_params_get", kind: "app", minV: 5, id: p(ap)})
		out = append(out, c35Access{op: "app_global_get_ex", kind: "app", minV: 2, id: p(ap)})
		if ap.num >= 1000 {
			for _, f := range []string{"ApplicationID", "Applications"} {
				out = append(out, c35Access{op: "itxn_field", kind: "itxn-app", minV: 6, id: p(ap), field: f})
			}
		}
	}
	return out
}

func c35BoxAccesses() []c35Access {
	var out []c35Access
	p := func(o c35Operand) *c35Operand { return &o }
	for _, n := range []string{"bs", "bp", "bq", "bc"} {
		for _, op := range []string{"box_get", "box_put", "box_create", "box_del"} {
			out = append(out, c35Access{op: op, kind: "box", minV: 8, name: n})
		}
		for _, ap := range []basics.AppIndex{c35Self, c35P, c35Q} {
			out = append(out, c35Access{op: "app_box_get", kind: "appbox", minV: foreignBoxVersion, id: p(c35Operand{num: uint64(ap)}), name: n})
		}
	}
	return out
}

// ---------------------------------------------------------------------------------------------
// reference verdict for one access
// ---------------------------------------------------------------------------------------------

// resolveAcct: what an account operand denotes for E (slot semantics of AddressByIndex).
func (r *c35Ref) resolveAcct(o *c35Operand) (basics.Address, bool) {
	if o.isAddr {
		return o.addr, true
	}
	if o.num == 0 {
		return r.e.Sender, true
	}
	if r.accessMode {
		if o.num <= uint64(len(r.e.Access)) && !r.e.Access[o.num-1].Address.IsZero() {
			return r.e.Access[o.num-1].Address, true
		}
		return basics.Address{}, false
	}
	if o.num <= uint64(len(r.e.Accounts)) {
		return r.e.Accounts[o.num-1], true
	}
	return basics.Address{}, false
}

// asset candidates: the operand as an id, and as a slot (ForeignAssets 0-based, tx.Access 1-based).
func (r *c35Ref) assetCandidates(o *c35Operand) []basics.AssetIndex {
	out := []basics.AssetIndex{basics.AssetIndex(o.num)}
	if !r.accessMode && o.num < uint64(len(r.e.ForeignAssets)) {
		out = append(out, r.e.ForeignAssets[o.num])
	}
	if r.accessMode && o.num >= 1 && o.num <= uint64(len(r.e.Access)) && r.e.Access[o.num-1].Asset != 0 {
		out = append(out, r.e.Access[o.num-1].Asset)
	}
	return out
}

func (r *c35Ref) appCandidates(o *c35Operand) []basics.AppIndex {
	if o.num == 0 {
		return []basics.AppIndex{c35Self}
	}
	out := []basics.AppIndex{basics.AppIndex(o.num)}
	if !r.accessMode && o.num <= uint64(len(r.e.ForeignApps)) {
		out = append(out, r.e.ForeignApps[o.num-1])
	}
	if r.accessMode && o.num <= uint64(len(r.e.Access)) && r.e.Access[o.num-1].App != 0 {
		out = append(out, r.e.Access[o.num-1].App)
	}
	return out
}

// verdict returns (must, may) for the access.
func (r *c35Ref) verdict(a c35Access) (must, may bool) {
	var addr basics.Address
	haveAddr := false
	if a.acct != nil {
		addr, haveAddr = r.resolveAcct(a.acct)
		if !haveAddr {
			return false, false // a slot that names nothing can never be accessed
		}
	}
	switch a.kind {
	case "acct", "itxn-acct":
		return r.mustAcct(addr), r.mayAcct(addr)
	case "asset", "itxn-asset":
		if a.id.num == 0 && r.accessMode {
			// id 0 names no asset; in access-list mode availableAsset(0) is true as soon as the list
			// has a non-asset entry (rr.Asset == 0) and asset_params_get then reports "does not
			// exist". Nothing is read, so nothing is demanded (reported as an observation).
			return false, true
		}
		for i, x := range r.assetCandidates(a.id) {
			if a.kind == "itxn-asset" && i > 0 {
				break // itxn_field takes ids only
			}
			must = must || r.mustAsset(x)
			may = may || r.mayAsset(x)
		}
		return
	case "app", "itxn-app":
		for i, p := range r.appCandidates(a.id) {
			if a.kind == "itxn-app" && (i > 0 || a.id.num == 0) {
				if a.id.num == 0 {
					return false, true
				}
				break
			}
			must = must || r.mustApp(p)
			may = may || r.mayApp(p)
		}
		return
	case "holding":
		if a.id.num == 0 && r.accessMode {
			return false, true // asset id 0 names no asset (see "asset" above)
		}
		for _, x := range r.assetCandidates(a.id) {
			must = must || (r.mustHolding(addr, x) && r.mustAsset(x))
			may = may || (r.mayHolding(addr, x) && r.mayAsset(x))
		}
		return
	case "local":
		for _, p := range r.appCandidates(a.id) {
			must = must || (r.mustLocal(addr, p) && r.mustApp(p))
			may = may || (r.mayLocal(addr, p) && r.mayApp(p))
		}
		return
	case "local0":
		return r.mustLocal(addr, c35Self), r.mayLocal(addr, c35Self)
	case "localmut":
		// before v9 a mutation needs the account in Sender/Accounts (it is recorded by slot)
		must = r.mustLocal(addr, c35Self) && c35In(r.ownAccountsList(), addr)
		may = r.mayLocal(addr, c35Self) && (r.v >= 9 || c35In(r.ownAccountsList(), addr))
		return
	case "box":
		return r.mustBox(c35Self, a.name), r.mayBox(c35Self, a.name)
	case "appbox":
		app := basics.AppIndex(a.id.num)
		return r.mustBox(app, a.name), r.mayBox(app, a.name)
	}
	return false, true
}

var c35Unavailable = regexp.MustCompile(`unavailable (Account|Asset|App|Holding|Local State)|invalid Account reference|invalid Box reference|is not a valid foreign (app|asset) slot|is not an Address in tx\.Access`)

func c35IsUnavailable(s string) bool {
	if !strings.Contains(s, "unavailable ") && !strings.Contains(s, "invalid ") && !strings.Contains(s, "is not a") {
		return false
	}
	return c35Unavailable.MatchString(s)
}

// ---------------------------------------------------------------------------------------------
// execution
// ---------------------------------------------------------------------------------------------

func c35Ledger() *Ledger {
	accts := []basics.Address{c35S, c35A, c35B, c35Self.Address(), c35P.Address(), c35Q.Address(), c35C.Address()}
	bal := map[basics.Address]uint64{}
	for i, a := range accts {
		bal[a] = 50_000_000 + uint64(i)
	}
	l := NewLedger(bal)
	for i, x := range []basics.AssetIndex{c35X, c35Y, c35Z} {
		l.NewAsset(c35B, x, basics.AssetParams{Total: 1000 + uint64(i), Freeze: c35Self.Address(), Manager: c35Self.Address(), Clawback: c35Self.Address()})
	}
	for _, p := range []basics.AppIndex{c35Self, c35P, c35Q, c35C} {
		params := basics.AppParams{GlobalState: basics.TealKeyValue{"k": basics.TealValue{Type: basics.TealUintType, Uint: uint64(p)}}}
		params.StateSchemas.LocalStateSchema = basics.StateSchema{NumUint: 4, NumByteSlice: 4}
		params.StateSchemas.GlobalStateSchema = basics.StateSchema{NumUint: 4, NumByteSlice: 4}
		l.NewApp(c35A, p, params)
		_ = l.SetForeignBoxReads(p, true)
	}
	for _, a := range accts {
		for j, x := range []basics.AssetIndex{c35X, c35Y, c35Z} {
			l.NewHolding(a, x, uint64(10+j), false)
		}
		for _, p := range []basics.AppIndex{c35Self, c35P, c35Q, c35C} {
			l.NewLocals(a, p)
		}
	}
	for p, n := range c35BoxNames {
		_ = l.NewBox(p, n, []byte("v0"), p.Address())
	}
	return l
}

type c35Runner struct {
	r        *ve.Run
	proto    *config.ConsensusParams
	progs    sync.Map // "v|source" -> []byte (nil: does not assemble at v)
	intOne   [LogicVersion + 1][]byte
	fails    atomic.Int64
	outside  atomic.Int64
	inside   atomic.Int64
	evals    atomic.Int64
	nSuccess atomic.Int64
	nUnavail atomic.Int64
	nOther   atomic.Int64
	nMust    atomic.Int64
	nGray    atomic.Int64
	nNotMay  atomic.Int64
	mu       sync.Mutex
	keys     map[string]int
	examples map[string][]string
	others   map[string]int
}

func (c *c35Runner) program(v uint64, src string) []byte {
	k := fmt.Sprintf("%d|%s", v, src)
	if p, ok := c.progs.Load(k); ok {
		return p.([]byte)
	}
	ops, err := AssembleStringWithVersion(src, v)
	var p []byte
	if err == nil {
		p = ops.Program
	}
	c.progs.Store(k, p)
	return p
}

// run executes one access of E in group g and applies the oracle.
func (c *c35Runner) run(g *c35Group, ref *c35Ref, ledger *Ledger, a c35Access, mode string, classes map[string]struct{}) {
	v := ref.v
	if v < a.minV {
		return
	}
	prog := c.program(v, a.source())
	if prog == nil {
		return
	}
	ep := NewAppEvalParams(transactions.WrapSignedTxnsWithAD(g.txns), c.proto, &transactions.SpecialAddresses{})
	ep.Ledger = ledger
	ep.SigLedger = ledger
	if g.createdAsset != 0 {
		ep.RecordAD(0, transactions.ApplyData{ConfigAsset: g.createdAsset})
	}
	if g.createdApp != 0 {
		// the creating call runs first, exactly as the block evaluator would do it
		pass, _, err := EvalContract(c.intOne[v], 0, g.createdApp, ep)
		if err != nil || !pass {
			c.r.Report("C35:harness-create", fmt.Sprintf("creating app call failed: %v", err), nil)
			return
		}
	}
	gi := len(g.txns) - 1
	pass, _, err := EvalContract(prog, gi, c35Self, ep)
	c.evals.Add(1)
	must, may := ref.verdict(a)
	replay := func() any {
		return map[string]any{"mode": mode, "group": g.name, "version": v, "access": a.String(), "source": a.source(),
			"E": c35Describe(ref.e), "must": must, "may": may}
	}
	if _, isPanic := err.(panicError); isPanic {
		c.r.Report("C35:panic", fmt.Sprintf("EvalContract panicked: %v", err), replay())
		return
	}
	switch {
	case must:
		c.nMust.Add(1)
	case may:
		c.nGray.Add(1)
	default:
		c.nNotMay.Add(1)
	}
	unavailable := err != nil && c35IsUnavailable(err.Error())
	switch {
	case err == nil && pass:
		c.nSuccess.Add(1)
		if !may {
			c.outside.Add(1)
			key := fmt.Sprintf("C35:access-outside-MAY:%s:%s", a.kind, a.op)
			c.note(key, fmt.Sprintf("v%d %s group=%s E=%s access=%s", v, mode, g.name, c35Describe(ref.e), a.String()))
			if c.fails.Add(1) <= 6 {
				c.r.Report(key, fmt.Sprintf("v%d %s, group %s, E=%s: `%s` SUCCEEDED although the resource is not available under the documented rules", v, mode, g.name, c35Describe(ref.e), a.String()), replay())
			} else {
				c.r.Report(key, "more of the same", nil)
			}
		}
	case unavailable:
		c.nUnavail.Add(1)
		if must {
			c.inside.Add(1)
			key := fmt.Sprintf("C35:unavailable-inside-MUST:%s:%s", a.kind, a.op)
			c.note(key, fmt.Sprintf("v%d %s group=%s E=%s access=%s err=%v", v, mode, g.name, c35Describe(ref.e), a.String(), err))
			if c.fails.Add(1) <= 6 {
				c.r.Report(key, fmt.Sprintf("v%d %s, group %s, E=%s: `%s` failed with an unavailability error although the resource is plainly available: %v", v, mode, g.name, c35Describe(ref.e), a.String(), err), replay())
			} else {
				c.r.Report(key, "more of the same", nil)
			}
		}
	default:
		c.nOther.Add(1)
		msg := "reject"
		if err != nil {
			msg = err.Error()
			if i := strings.Index(msg, ". Details"); i > 0 {
				msg = msg[:i]
			}
			msg = regexp.MustCompile(`[0-9A-Z]{52,58}|\d+`).ReplaceAllString(msg, "#")
		}
		c.mu.Lock()
		c.others[a.op+": "+msg]++
		c.mu.Unlock()
	}
	outcome := "other-error"
	if err == nil && pass {
		outcome = "success"
	} else if unavailable {
		outcome = "unavailable"
	}
	classes[mode+"|"+a.op+"|"+c35Bools[must]+c35Bools[may]+"|"+outcome] = struct{}{}
}

var c35Bools = map[bool]string{false: "0", true: "1"}

func (c *c35Runner) note(key string, example string) {
	c.mu.Lock()
	c.keys[key]++
	if c.examples == nil {
		c.examples = map[string][]string{}
	}
	if len(c.examples[key]) < 6 {
		c.examples[key] = append(c.examples[key], example)
	}
	c.mu.Unlock()
}

func c35Describe(t *transactions.Transaction) string {
	nm := func(a basics.Address) string { return strings.TrimRight(string(a[:8]), "-") }
	var sb strings.Builder
	if t.Access != nil {
		sb.WriteString("Access[")
		for i, rr := range t.Access {
			if i > 0 {
				sb.WriteString(" ")
			}
			switch {
			case !rr.Address.IsZero():
				sb.WriteString(nm(rr.Address))
			case rr.Asset != 0:
				fmt.Fprintf(&sb, "asset%d", rr.Asset)
			case rr.App != 0:
				fmt.Fprintf(&sb, "app%d", rr.App)
			case !rr.Holding.Empty():
				fmt.Fprintf(&sb, "H(%d,%d)", rr.Holding.Address, rr.Holding.Asset)
			case !rr.Locals.Empty():
				fmt.Fprintf(&sb, "L(%d,%d)", rr.Locals.Address, rr.Locals.App)
			case !rr.Box.Empty():
				fmt.Fprintf(&sb, "B(%d,%s)", rr.Box.Index, rr.Box.Name)
			default:
				sb.WriteString("empty")
			}
		}
		sb.WriteString("]")
		return sb.String()
	}
	sb.WriteString("Accounts[")
	for i, a := range t.Accounts {
		if i > 0 {
			sb.WriteString(" ")
		}
		sb.WriteString(nm(a))
	}
	fmt.Fprintf(&sb, "] Assets%v Apps%v Boxes[", t.ForeignAssets, t.ForeignApps)
	for i, b := range t.Boxes {
		if i > 0 {
			sb.WriteString(" ")
		}
		fmt.Fprintf(&sb, "(%d,%s)", b.Index, b.Name)
	}
	sb.WriteString("]")
	return sb.String()
}

// ordered sub-lists: every subset, two-element subsets in both orders
func c35Orders[T any](u []T) [][]T {
	out := [][]T{{}}
	for _, x := range u {
		out = append(out, []T{x})
	}
	if len(u) == 2 {
		out = append(out, []T{u[0], u[1]})
		if ve.Thorough() {
			out = append(out, []T{u[1], u[0]}) // reversed order: last element, thorough tier only
		}
	}
	return out
}

// c35Reversed reports whether l is the reversed two-element order of u.
func c35Reversed[T comparable](l, u []T) bool {
	return len(l) == 2 && len(u) == 2 && l[0] == u[1] && l[1] == u[0]
}

func c35ForeignConfigs() []transactions.SignedTxn {
	var out []transactions.SignedTxn
	for _, ac := range c35Orders([]basics.Address{c35A, c35B}) {
		for _, as := range c35Orders([]basics.AssetIndex{c35X, c35Y}) {
			for _, ap := range c35Orders([]basics.AppIndex{c35P, c35Q}) {
				t := c35Appl(c35S, c35Self)
				t.Txn.Accounts = ac
				t.Txn.ForeignAssets = as
				t.Txn.ForeignApps = ap
				out = append(out, t)
			}
		}
	}
	return out
}

func c35BoxConfigs() []transactions.SignedTxn {
	type ref struct {
		app  basics.AppIndex
		name string
	}
	univ := []ref{{c35Self, "bs"}, {c35P, "bp"}, {c35Q, "bq"}, {c35P, "bs"}, {c35Self, "bp"}}
	var out []transactions.SignedTxn
	for _, ap := range c35Orders([]basics.AppIndex{c35P, c35Q}) {
		idx := func(a basics.AppIndex) (uint64, bool) {
			if a == c35Self {
				return 0, true
			}
			for i, x := range ap {
				if x == a {
					return uint64(i + 1), true
				}
			}
			return 0, false
		}
		var subsets [][]ref
		subsets = append(subsets, nil)
		for i := range univ {
			subsets = append(subsets, []ref{univ[i]})
			for j := i + 1; j < len(univ); j++ {
				subsets = append(subsets, []ref{univ[i], univ[j]})
			}
		}
		for _, ss := range subsets {
			t := c35Appl(c35S, c35Self)
			t.Txn.ForeignApps = ap
			ok := true
			for _, rf := range ss {
				i, have := idx(rf.app)
				if !have {
					ok = false
					break
				}
				t.Txn.Boxes = append(t.Txn.Boxes, transactions.BoxRef{Index: i, Name: []byte(rf.name)})
			}
			if ok {
				out = append(out, t)
			}
		}
		// one configuration with an empty (quota) reference, which a created app may use
		t := c35Appl(c35S, c35Self)
		t.Txn.ForeignApps = ap
		t.Txn.Boxes = []transactions.BoxRef{{}}
		out = append(out, t)
	}
	return out
}

func c35AccessConfigs() []transactions.SignedTxn {
	type basic struct {
		rr transactions.ResourceRef
	}
	basics6 := []transactions.ResourceRef{{Address: c35A}, {Address: c35B}, {Asset: c35X}, {Asset: c35Y}, {App: c35P}, {App: c35Q}}
	var lists [][]transactions.ResourceRef
	lists = append(lists, []transactions.ResourceRef{})
	for i := range basics6 {
		lists = append(lists, []transactions.ResourceRef{basics6[i]})
		for j := range basics6 {
			if i != j {
				lists = append(lists, []transactions.ResourceRef{basics6[i], basics6[j]})
			}
		}
	}
	var out []transactions.SignedTxn
	emit := func(l []transactions.ResourceRef) {
		t := c35Appl(c35S, c35Self)
		t.Txn.Access = append([]transactions.ResourceRef{}, l...)
		if len(l) == 0 {
			t.Txn.Access = []transactions.ResourceRef{{}} // non-nil: an empty ref (quota bump) selects access mode
		}
		out = append(out, t)
	}
	for _, l := range lists {
		emit(l)
		addrPos := []uint64{0}
		var assetPos, appPos []uint64
		for i, rr := range l {
			switch {
			case !rr.Address.IsZero():
				addrPos = append(addrPos, uint64(i+1))
			case rr.Asset != 0:
				assetPos = append(assetPos, uint64(i+1))
			case rr.App != 0:
				appPos = append(appPos, uint64(i+1))
			}
		}
		for _, ap := range addrPos {
			for _, xp := range assetPos {
				emit(append(append([]transactions.ResourceRef{}, l...), transactions.ResourceRef{Holding: transactions.HoldingRef{Address: ap, Asset: xp}}))
			}
			for _, pp := range append([]uint64{0}, appPos...) {
				if ap == 0 && pp == 0 {
					continue // the empty LocalsRef
				}
				emit(append(append([]transactions.ResourceRef{}, l...), transactions.ResourceRef{Locals: transactions.LocalsRef{Address: ap, App: pp}}))
			}
		}
		emit(append(append([]transactions.ResourceRef{}, l...), transactions.ResourceRef{Box: transactions.BoxRef{Index: 0, Name: []byte("bs")}}))
		for _, pp := range appPos {
			app := l[pp-1].App
			emit(append(append([]transactions.ResourceRef{}, l...), transactions.ResourceRef{Box: transactions.BoxRef{Index: pp, Name: []byte(c35BoxNames[app])}}))
			emit(append(append([]transactions.ResourceRef{}, l...), transactions.ResourceRef{Box: transactions.BoxRef{Index: pp, Name: []byte("bs")}}))
		}
	}
	return out
}

// ---------------------------------------------------------------------------------------------
// layer G: foreign box opcodes (v13+), running app / box owner created-in-group or pre-existing
// ---------------------------------------------------------------------------------------------

type c35BoxCase struct {
	name      string
	runCreate bool // E is the creating call of c (ApplicationID 0, evaluated as app c); else E calls self
	ctxCreate bool // a preceding member creates c
	apps      []basics.AppIndex
	boxes     []transactions.BoxRef
}

func c35FBoxOps(owner basics.AppIndex, name string, own bool) map[string]string {
	id := fmt.Sprintf("int %d\n", owner)
	nm := fmt.Sprintf("byte \"%s\"\n", name)
	m := map[string]string{
		"app_box_create":  id + nm + "int 2\napp_box_create\npop\nint 1",
		"app_box_put":     id + nm + "byte \"v1\"\napp_box_put\nint 1",
		"app_box_get":     id + nm + "app_box_get\npop\npop\nint 1",
		"app_box_len":     id + nm + "app_box_len\npop\npop\nint 1",
		"app_box_del":     id + nm + "app_box_del\npop\nint 1",
		"app_box_replace": id + nm + "int 0\nbyte \"w\"\napp_box_replace\nint 1",
		"app_box_resize":  id + nm + "int 2\napp_box_resize\nint 1",
	}
	if own {
		m["box_create"] = nm + "int 2\nbox_create\npop\nint 1"
		m["box_get"] = nm + "box_get\npop\npop\nint 1"
		m["box_put"] = nm + "byte \"v1\"\nbox_put\nint 1"
		m["box_del"] = nm + "box_del\npop\nint 1"
	}
	return m
}

// c35LayerG: reference = a box (owner,name) may be touched iff some member's box reference names
// it, or the OWNER app is created in this group and the group carries an empty box reference
// (resources.go `boxes`/`unnamedAccess` comments, box.go availableAppBox comment). Permissions
// are taken out of the picture: all apps share one creator and have ForeignBoxReads and
// FamilyBoxAccess set.
func (c *c35Runner) layerG() {
	refTo := func(i uint64, n string) transactions.BoxRef { return transactions.BoxRef{Index: i, Name: []byte(n)} }
	var cases []c35BoxCase
	boxSets := func(first basics.AppIndex) map[string][]transactions.BoxRef {
		return map[string][]transactions.BoxRef{
			"none": nil, "empty": {{}}, "empty2": {{}, {}},
			"own-named": {refTo(0, c35BoxNames[first])}, "own-fresh": {refTo(0, "nw")},
			"p-named": {refTo(1, "bp")}, "p-fresh": {refTo(1, "nw")}, "p-fresh+empty": {refTo(1, "nw"), {}},
			"c-named": {refTo(2, "bc")}, "c-fresh": {refTo(2, "nw")},
		}
	}
	for _, rc := range []bool{false, true} {
		for _, cc := range []bool{false, true} {
			if rc && cc {
				continue
			}
			first := c35Self
			if rc {
				first = c35C
			}
			sets := boxSets(first)
			var names []string
			for k := range sets {
				names = append(names, k)
			}
			sort.Strings(names)
			for _, bn := range names {
				if rc && strings.HasPrefix(bn, "c-") {
					continue // index 2 names c itself only through ForeignApps; the creating call uses index 0
				}
				cases = append(cases, c35BoxCase{fmt.Sprintf("runCreated=%v ctxCreates=%v boxes=%s", rc, cc, bn), rc, cc, []basics.AppIndex{c35P, c35C}, sets[bn]})
			}
		}
	}
	type target struct {
		owner basics.AppIndex
		name  string
	}
	targets := []target{{c35Self, "bs"}, {c35Self, "nw"}, {c35P, "bp"}, {c35P, "nw"}, {c35C, "bc"}, {c35C, "nw"}, {c35Q, "bq"}}
	var nOut, nIn, nEval, nSucc atomic.Int64
	c.r.ParallelFor(len(cases), func(i int) {
		bc := cases[i]
		for _, v := range []uint64{foreignBoxVersion, LogicVersion} {
			if v < foreignBoxVersion {
				continue
			}
			for _, tg := range targets {
				running := c35Self
				if bc.runCreate {
					running = c35C
				}
				if bc.runCreate && tg.owner == c35Self {
					continue
				}
				ops := c35FBoxOps(tg.owner, tg.name, tg.owner == running)
				var opNames []string
				for k := range ops {
					opNames = append(opNames, k)
				}
				sort.Strings(opNames)
				for _, opn := range opNames {
					prog := c.program(v, ops[opn])
					if prog == nil {
						continue
					}
					// group
					var txns []transactions.SignedTxn
					if bc.ctxCreate {
						txns = append(txns, c35Appl(c35S, 0))
					}
					e := c35Appl(c35S, c35Self)
					if bc.runCreate {
						e.Txn.ApplicationID = 0
					}
					e.Txn.ForeignApps = bc.apps
					e.Txn.Boxes = bc.boxes
					txns = append(txns, e)
					// reference
					named, empties := false, 0
					created := map[basics.AppIndex]bool{}
					if bc.ctxCreate || bc.runCreate {
						created[c35C] = true
					}
					for _, br := range bc.boxes {
						if br.Index == 0 && br.Name == nil {
							empties++
							continue
						}
						app := running
						if br.Index > 0 {
							app = bc.apps[br.Index-1]
						}
						if app == tg.owner && string(br.Name) == tg.name {
							named = true
						}
					}
					must := named
					may := named || (created[tg.owner] && empties > 0)
					// run
					ledger := c35Ledger()
					for _, ap := range []basics.AppIndex{c35Self, c35P, c35Q, c35C} {
						_ = ledger.SetFamilyBoxAccess(ap, true)
					}
					ep := NewAppEvalParams(transactions.WrapSignedTxnsWithAD(txns), c.proto, &transactions.SpecialAddresses{})
					ep.Ledger = ledger
					ep.SigLedger = ledger
					if bc.ctxCreate {
						if pass, _, err := EvalContract(c.intOne[v], 0, c35C, ep); err != nil || !pass {
							c.r.Report("C35:harness-create", fmt.Sprintf("creating app call failed: %v", err), nil)
							return
						}
					}
					pass, _, err := EvalContract(prog, len(txns)-1, running, ep)
					nEval.Add(1)
					what := fmt.Sprintf("v%d foreign-box layer, %s: `%s` on box (%d,%q), running app %d", v, bc.name, opn, tg.owner, tg.name, running)
					replay := map[string]any{"layer": "G", "case": bc.name, "version": v, "op": opn, "owner": tg.owner, "box": tg.name, "must": must, "may": may}
					if _, isPanic := err.(panicError); isPanic {
						c.r.Report("C35:panic", what+fmt.Sprintf(": EvalContract panicked: %v", err), replay)
						continue
					}
					outcome := "other-error"
					switch {
					case err == nil && pass:
						outcome = "success"
						nSucc.Add(1)
						if !may {
							nOut.Add(1)
							key := "C35:access-outside-MAY:foreign-box:" + opn
							c.note(key, what)
							c.r.Report(key, what+" SUCCEEDED although no member names the box and its owner was not created in this group", replay)
						}
					case err != nil && c35IsUnavailable(err.Error()):
						outcome = "unavailable"
						if must {
							nIn.Add(1)
							key := "C35:unavailable-inside-MUST:foreign-box:" + opn
							c.note(key, what+" err="+err.Error())
							c.r.Report(key, what+fmt.Sprintf(" failed although a box reference names it: %v", err), replay)
						}
					default:
						if err != nil {
							c.mu.Lock()
							c.others["G "+opn+": "+regexp.MustCompile(`[0-9A-Z]{52,58}|\d+`).ReplaceAllString(strings.SplitN(err.Error(), ". Details", 2)[0], "#")]++
							c.mu.Unlock()
						}
					}
					c.r.Class(fmt.Sprintf("G|%s|runCreated=%v|ownerCreated=%v|must=%v|may=%v|%s", opn, bc.runCreate, created[tg.owner], must, may, outcome))
				}
			}
		}
	})
	c.r.EvalN(int(nEval.Load()))
	c.r.Set("G_foreign_box_accesses", nEval.Load())
	c.r.Set("G_success", nSucc.Load())
}

// ---------------------------------------------------------------------------------------------
// layer H: itxn_submit — an inner transaction must not make an unshared cross product accessible
// ---------------------------------------------------------------------------------------------

func c35AcctName(a basics.Address) string {
	for _, ap := range []basics.AppIndex{c35Self, c35P, c35Q, c35C} {
		if a == ap.Address() {
			return fmt.Sprintf("account of app %d", ap)
		}
	}
	for _, cv := range c35CalleeVersions {
		if a == c35Callee(cv).Address() {
			return fmt.Sprintf("account of callee app %d", c35Callee(cv))
		}
	}
	return strings.TrimRight(string(a[:8]), "-")
}

func c35Callee(v uint64) basics.AppIndex { return basics.AppIndex(3000 + v) }

var c35CalleeVersions = []uint64{6, 7, 8, 9, LogicVersion}

// c35LayerH: the caller E (v9 / current) builds an inner appl (callee program version 6,7,8,9,
// current; every subset of Accounts{A} x Assets{x} x Applications{p}), axfer (asset x|y to
// S|A|B|p's account) or afrz (asset x|y, account S|A|B|p's account) and submits it.
// Reference (resources.go allows* comments: "find all of the cross product resources this
// attempted call will have access to, and check that they are already available"; a pre-v9
// callee trusts its own arrays: sender, Accounts, its own app account and - from callee v7, the
// appAddressAvailableVersion - the accounts of its foreign apps, each with every foreign asset
// and with the called app and every foreign app): success requires every such holding / local
// to be in MAY for the caller; an "... would be accessible" failure is wrong when all are in MUST.
func (c *c35Runner) layerH() {
	type inner struct {
		kind      string
		calleeVer uint64
		accts     []basics.Address
		assets    []basics.AssetIndex
		apps      []basics.AppIndex
		asset     basics.AssetIndex
		acct      basics.Address
	}
	var inners []inner
	for _, cv := range c35CalleeVersions {
		for m := 0; m < 8; m++ {
			in := inner{kind: "appl", calleeVer: cv}
			if m&1 != 0 {
				in.accts = []basics.Address{c35A}
			}
			if m&2 != 0 {
				in.assets = []basics.AssetIndex{c35X}
			}
			if m&4 != 0 {
				in.apps = []basics.AppIndex{c35P}
			}
			inners = append(inners, in)
		}
	}
	for _, x := range []basics.AssetIndex{c35X, c35Y} {
		for _, a := range []basics.Address{c35S, c35A, c35B, c35P.Address()} {
			inners = append(inners, inner{kind: "axfer", asset: x, acct: a})
			inners = append(inners, inner{kind: "afrz", asset: x, acct: a})
		}
	}
	hex32 := func(a basics.Address) string { return "byte 0x" + hex.EncodeToString(a[:]) }
	source := func(in inner) string {
		var sb strings.Builder
		w := func(s string) { sb.WriteString(s + "\n") }
		w("itxn_begin")
		switch in.kind {
		case "appl":
			w("int appl")
			w("itxn_field TypeEnum")
			w(fmt.Sprintf("int %d", c35Callee(in.calleeVer)))
			w("itxn_field ApplicationID")
			for _, a := range in.accts {
				w(hex32(a))
				w("itxn_field Accounts")
			}
			for _, x := range in.assets {
				w(fmt.Sprintf("int %d", x))
				w("itxn_field Assets")
			}
			for _, p := range in.apps {
				w(fmt.Sprintf("int %d", p))
				w("itxn_field Applications")
			}
		case "axfer":
			w("int axfer")
			w("itxn_field TypeEnum")
			w(fmt.Sprintf("int %d", in.asset))
			w("itxn_field XferAsset")
			w(hex32(in.acct))
			w("itxn_field AssetReceiver")
		case "afrz":
			w("int afrz")
			w("itxn_field TypeEnum")
			w(fmt.Sprintf("int %d", in.asset))
			w("itxn_field FreezeAsset")
			w(hex32(in.acct))
			w("itxn_field FreezeAssetAccount")
			w("int 1")
			w("itxn_field FreezeAssetFrozen")
		}
		w("itxn_submit")
		w("int 1")
		return sb.String()
	}
	allCallees := []basics.AppIndex{}
	for _, cv := range c35CalleeVersions {
		allCallees = append(allCallees, c35Callee(cv))
	}
	type hctx struct {
		name string
		mk   func() []transactions.SignedTxn
	}
	ctxs := []hctx{
		{"alone", func() []transactions.SignedTxn { return nil }},
		{"appl-q-names-self-callees-x", func() []transactions.SignedTxn {
			t := c35Appl(c35B, c35Q)
			t.Txn.ForeignApps = append([]basics.AppIndex{c35Self}, allCallees...)
			t.Txn.ForeignAssets = []basics.AssetIndex{c35X}
			return []transactions.SignedTxn{t}
		}},
		{"appl-q-names-self-callees-p-x", func() []transactions.SignedTxn {
			t := c35Appl(c35B, c35Q)
			t.Txn.ForeignApps = append([]basics.AppIndex{c35Self, c35P}, allCallees...)
			t.Txn.ForeignAssets = []basics.AssetIndex{c35X}
			t.Txn.Accounts = []basics.Address{c35A}
			return []transactions.SignedTxn{t}
		}},
		{"axfer-x-S-B", func() []transactions.SignedTxn { ctx, _, _ := c35Contexts[4].mk(); return ctx }},
		{"afrz-y-A", func() []transactions.SignedTxn { ctx, _, _ := c35Contexts[5].mk(); return ctx }},
	}
	type hwork struct {
		ctx   int
		v     uint64
		accts []basics.Address
		asset []basics.AssetIndex
		apps  []basics.AppIndex
	}
	var works []hwork
	for ci := range ctxs {
		for _, v := range []uint64{sharedResourcesVersion, LogicVersion} {
			for m := 0; m < 8; m++ {
				w := hwork{ctx: ci, v: v}
				if m&1 != 0 {
					w.accts = []basics.Address{c35A}
				}
				if m&2 != 0 {
					w.asset = []basics.AssetIndex{c35X}
				}
				if m&4 != 0 {
					w.apps = []basics.AppIndex{c35P}
				}
				works = append(works, w)
			}
		}
	}
	var nEval, nSucc, nSubmitRefused, nFieldStage, nOther atomic.Int64
	c.r.ParallelFor(len(works), func(i int) {
		w := works[i]
		for _, in := range inners {
			e := c35Appl(c35S, c35Self)
			e.Txn.Accounts = w.accts
			e.Txn.ForeignAssets = w.asset
			e.Txn.ForeignApps = append([]basics.AppIndex{}, w.apps...)
			if in.kind == "appl" {
				e.Txn.ForeignApps = append(e.Txn.ForeignApps, c35Callee(in.calleeVer))
			}
			g := &c35Group{name: ctxs[w.ctx].name, txns: append(ctxs[w.ctx].mk(), e)}
			ref := c35NewRef(w.v, g)
			prog := c.program(w.v, source(in))
			if prog == nil {
				c.r.Report("C35:harness-asm", "layer H program does not assemble: "+source(in), nil)
				return
			}
			ledger := c35Ledger()
			for _, cv := range c35CalleeVersions {
				params := basics.AppParams{ApprovalProgram: c.intOne[cv], ClearStateProgram: c.intOne[cv]}
				ledger.NewApp(c35A, c35Callee(cv), params)
				ledger.NewAccount(c35Callee(cv).Address(), 50_000_000)
				for _, x := range []basics.AssetIndex{c35X, c35Y} {
					ledger.NewHolding(c35Callee(cv).Address(), x, 5, false)
				}
			}
			ep := NewAppEvalParams(transactions.WrapSignedTxnsWithAD(g.txns), c.proto, &transactions.SpecialAddresses{})
			ep.Ledger = ledger
			ep.SigLedger = ledger
			pass, _, err := EvalContract(prog, len(g.txns)-1, c35Self, ep)
			nEval.Add(1)
			// reference: the pairs the inner transaction would make accessible
			type pair struct {
				a     basics.Address
				x     basics.AssetIndex
				p     basics.AppIndex
				viaFA bool
			}
			var pairs []pair
			self := c35Self.Address()
			demand := true
			switch in.kind {
			case "appl":
				if in.calleeVer >= sharedResourcesVersion {
					demand = false // the callee checks availability itself
				}
				k := c35Callee(in.calleeVer)
				type acc struct {
					a  basics.Address
					fa bool
				}
				accs := []acc{{self, false}, {k.Address(), false}}
				for _, a := range in.accts {
					accs = append(accs, acc{a, false})
				}
				for _, p := range in.apps {
					accs = append(accs, acc{p.Address(), true})
				}
				for _, ac := range accs {
					for _, x := range in.assets {
						pairs = append(pairs, pair{a: ac.a, x: x, viaFA: ac.fa})
					}
					for _, p := range append([]basics.AppIndex{k}, in.apps...) {
						pairs = append(pairs, pair{a: ac.a, p: p, viaFA: ac.fa})
					}
				}
			case "axfer":
				pairs = []pair{{a: self, x: in.asset}, {a: in.acct, x: in.asset}}
			case "afrz":
				pairs = []pair{{a: in.acct, x: in.asset}}
			}
			allMust, reqMay := true, true
			var offending string
			for _, pr := range pairs {
				var mu, ma bool
				if pr.x != 0 {
					mu, ma = ref.mustHolding(pr.a, pr.x), ref.mayHolding(pr.a, pr.x)
				} else {
					mu, ma = ref.mustLocal(pr.a, pr.p), ref.mayLocal(pr.a, pr.p)
				}
				allMust = allMust && mu
				required := !pr.viaFA || in.calleeVer >= appAddressAvailableVersion
				if required && !ma {
					reqMay = false
					offending = fmt.Sprintf("(%s, asset %d / app %d)", c35AcctName(pr.a), pr.x, pr.p)
				}
			}
			what := fmt.Sprintf("v%d caller, group %s, E=%s: inner %s (callee v%d, Accounts %d, Assets %v, Applications %v, asset %d, account %s)",
				w.v, g.name, c35Describe(ref.e), in.kind, in.calleeVer, len(in.accts), in.assets, in.apps, in.asset, c35AcctName(in.acct))
			replay := map[string]any{"layer": "H", "group": g.name, "version": w.v, "E": c35Describe(ref.e), "inner": fmt.Sprintf("%+v", in), "source": source(in)}
			if _, isPanic := err.(panicError); isPanic {
				c.r.Report("C35:panic", what+fmt.Sprintf(": panicked: %v", err), replay)
				continue
			}
			outcome := "other-error"
			switch {
			case err == nil && pass:
				outcome = "success"
				nSucc.Add(1)
				if demand && !reqMay {
					key := "C35:inner-txn-exposes-unshared-cross-product:" + in.kind
					c.note(key, what+" offending "+offending)
					c.r.Report(key, what+" was SUBMITTED although it makes "+offending+" accessible, which no member of the group shared", replay)
				}
			case err != nil && strings.Contains(err.Error(), "would be accessible"):
				outcome = "submit-refused"
				nSubmitRefused.Add(1)
				if allMust && len(pairs) > 0 {
					key := "C35:inner-txn-refused-inside-MUST:" + in.kind
					c.note(key, what+" err="+err.Error())
					c.r.Report(key, what+fmt.Sprintf(" was refused although every cross product is plainly available: %v", err), replay)
				}
			case err != nil && c35IsUnavailable(err.Error()):
				outcome = "field-stage-unavailable"
				nFieldStage.Add(1)
			default:
				nOther.Add(1)
				if err != nil {
					c.mu.Lock()
					c.others["H "+in.kind+": "+regexp.MustCompile(`[0-9A-Z]{52,58}|\d+`).ReplaceAllString(strings.SplitN(err.Error(), ". Details", 2)[0], "#")]++
					c.mu.Unlock()
				}
			}
			c.r.Class(fmt.Sprintf("H|%s|callee=%d|demand=%v|reqMay=%v|allMust=%v|%s", in.kind, in.calleeVer, demand, reqMay, allMust, outcome))
		}
	})
	c.r.EvalN(int(nEval.Load()))
	c.r.Set("H_inner_submissions", nEval.Load())
	c.r.Set("H_success", nSucc.Load())
	c.r.Set("H_refused_at_submit", nSubmitRefused.Load())
	c.r.Set("H_failed_at_itxn_field", nFieldStage.Load())
	c.r.Set("H_other_error", nOther.Load())
}

func TestVerif_C35(t *testing.T) {
	r := ve.NewRun("C35", "exploration")
	c := &c35Runner{r: r, keys: map[string]int{}, others: map[string]int{}}
	c.proto = makeTestProto(func(p *config.ConsensusParams) {
		p.MaxAppProgramCost = 100_000
	})
	for v := uint64(2); v <= LogicVersion; v++ {
		c.intOne[v] = c.program(v, "int 1")
		if v >= LogicSigOffCurveVersion {
			c.intOne[v] = c.program(v, "#pragma autosalt false\nint 1") // keep callee programs one instruction long
		}
	}
	r.Assume("MUST/MAY are written from: ApplicationCallTxnFields field comments (application.go), the version constants' comments in opcodes.go, the resources.go comments on what each transaction type shares and on cross products, and the `_available_` wording of TEAL_opcodes; this tree's README no longer has a 'Resource availability' section")
	r.Assume("unavailability is recognised by error text; every account is opted in to every app and holds every asset so that other run-time errors are rare")
	r.Assume("context members are not executed (sharing is computed from the transactions), except the app-creating call, which runs first; the acfg creation is recorded through EvalParams.RecordAD as the block evaluator does")

	versions := []uint64{4, 6, 8, 9, 11, LogicVersion}
	if !ve.Thorough() {
		versions = []uint64{4, 6, 8, 9, LogicVersion}
	}
	accesses := c35Accesses(true)
	boxAccesses := c35BoxAccesses()

	type work struct {
		mode string
		e    transactions.SignedTxn
		ctx  int
		v    uint64
		acc  []c35Access
	}
	var items []work
	foreign := c35ForeignConfigs()
	boxcfg := c35BoxConfigs()
	acccfg := c35AccessConfigs()
	quickCtx := map[string]bool{"alone": true, "appl-p-foreign": true, "pay-S-A": true, "appl-create-c": true}
	for ci, cx := range c35Contexts {
		for _, v := range versions {
			for _, e := range foreign {
				items = append(items, work{"foreign", e, ci, v, accesses})
			}
			if v >= 8 {
				for _, e := range boxcfg {
					items = append(items, work{"boxes", e, ci, v, boxAccesses})
				}
			}
			if v >= 9 {
				if !ve.Thorough() && (!quickCtx[cx.name] || (v != 9 && v != LogicVersion)) {
					continue
				}
				for _, e := range acccfg {
					items = append(items, work{"access", e, ci, v, append(append([]c35Access{}, accesses...), boxAccesses...)})
				}
			}
		}
	}
	{
		// quick-tier work first, so that a capped thorough run still covers the quick bound
		isQuick := func(w work) bool {
			if w.v == 11 {
				return false
			}
			if c35Reversed(w.e.Txn.Accounts, []basics.Address{c35A, c35B}) || c35Reversed(w.e.Txn.ForeignAssets, []basics.AssetIndex{c35X, c35Y}) ||
				c35Reversed(w.e.Txn.ForeignApps, []basics.AppIndex{c35P, c35Q}) {
				return false
			}
			if w.mode == "access" && (!quickCtx[c35Contexts[w.ctx].name] || (w.v != 9 && w.v != LogicVersion)) {
				return false
			}
			return true
		}
		sort.SliceStable(items, func(i, j int) bool { return isQuick(items[i]) && !isQuick(items[j]) })
	}
	r.Set("configurations_foreign", len(foreign))
	r.Set("configurations_boxes", len(boxcfg))
	r.Set("configurations_access_lists", len(acccfg))
	r.Set("work_items", len(items))
	r.ParallelFor(len(items), func(i int) {
		w := items[i]
		ctx, ca, cp := c35Contexts[w.ctx].mk()
		g := &c35Group{name: c35Contexts[w.ctx].name, txns: append(ctx, w.e), createdAsset: ca, createdApp: cp}
		ref := c35NewRef(w.v, g)
		ledger := c35Ledger()
		classes := map[string]struct{}{}
		for _, a := range w.acc {
			c.run(g, ref, ledger, a, w.mode, classes)
		}
		for k := range classes {
			r.Class(k + " (op|must,may|outcome)")
		}
	})
	r.EvalN(int(c.evals.Load()))
	c.layerG()
	c.layerH()
	r.Set("accesses_evaluated", c.evals.Load())
	r.Set("accesses_in_MUST", c.nMust.Load())
	r.Set("accesses_between_MUST_and_MAY", c.nGray.Load())
	r.Set("accesses_outside_MAY", c.nNotMay.Load())
	r.Set("outcome_success", c.nSuccess.Load())
	r.Set("outcome_unavailable", c.nUnavail.Load())
	r.Set("outcome_other_error", c.nOther.Load())
	{
		var ks []string
		for k, n := range c.keys {
			ks = append(ks, fmt.Sprintf("%s x%d", k, n))
		}
		sort.Strings(ks)
		for _, k := range ks {
			t.Logf("violation-class %s", k)
		}
		for k, exs := range c.examples {
			for _, ex := range exs {
				t.Logf("example %s: %s", k, ex)
			}
		}
		var os []string
		for k, n := range c.others {
			os = append(os, fmt.Sprintf("%6d %s", n, k))
		}
		sort.Strings(os)
		if len(os) > 40 {
			os = os[len(os)-40:]
		}
		r.Set("other_errors_top", os)
	}
	r.Sample(map[string]any{"group": "pay S->A ; E(Assets[x])", "version": 9, "access": "asset_holding_get addr:A x", "must": false, "may": false, "expected": "unavailable Holding"})
	r.Sample(map[string]any{"group": "E(Apps[p] Boxes[(1,bp)])", "version": 8, "access": "box_get bp", "may": false, "expected": "invalid Box reference (the reference names p's box, not self's)"})
	nv := r.Finish(ve.Coverage{
		Rule: "every foreign-array subset (ordered) x 8 group contexts x versions {4,6,8,9,11,current} x every access form; every box-reference subset <= 2; " +
			"every tx.Access list of <= 2 basic entries (+1 derived) for versions >= 9 (quick: versions {4,6,8,9,current}, arrays in one order, access lists on 4 of the 8 contexts at v9/current)",
		Exhaustive: true,
	})
	if nv > 0 {
		t.Fatalf("%d violations", nv)
	}
}
