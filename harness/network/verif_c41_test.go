package network

// C41 — Decoding untrusted bytes is safe and bounded. Part "network": the identity-challenge
// handshake messages and the p2p peer-meta headers (network/msgp_gen.go). Engine, mutations
// and oracle: verif_c41_engine_test.go (identical copy of the one in harness/agreement).

import (
	"testing"

	ve "github.com/algorand/go-algorand/verifeng"
)

func TestVerif_C41_network(t *testing.T) {
	r := ve.NewRun("C41", "exploration")
	p := c41newPart(r, "network", c41bounds{
		expr: map[string]int{"network:maxAddressLen": maxAddressLen},
		typ: map[string][]int{
			"network.peerMetaValues":  {maxHeaderValues},
			"network.peerMetaHeaders": {maxHeaderKeys},
		},
	})
	// a realistic header set in addition to the reflection-built seeds
	hdr := peerMetaHeaders{
		"X-Algorand-TelId":         {"6f1d0c2e-aaaa-bbbb-cccc-0123456789ab"},
		"X-Algorand-InstanceName":  {"relay-1"},
		"X-Algorand-Version":       {"2.1", "3.0"},
		"X-Algorand-Peer-Features": {"ppzstd", "avvpack", "vpvpack1024"},
	}
	p.run([]c41target{
		{proto: new(identityChallengeSigned), pairs: true},
		{proto: new(identityChallengeResponseSigned), pairs: true},
		{proto: new(identityVerificationMessageSigned), pairs: true},
		{proto: new(identityChallenge)},
		{proto: new(peerMetaHeaders), extra: [][]byte{hdr.MarshalMsg(nil)}, pairs: true},
		{proto: new(peerMetaValues)},
	})
	n := r.Finish(ve.Coverage{
		Rule:       "part network: identityChallengeSigned / identityChallengeResponseSigned / identityVerificationMessageSigned / identityChallenge / peerMetaHeaders / peerMetaValues — same seeds, mutation classes (T,B,H,K,N,P,O) and oracle as part agreement",
		Exhaustive: true,
	})
	if n > 0 {
		t.Fatal("violations")
	}
}
