package testsuite

// C47 — attribution aid: the logical content of the two stores, decoded from the raw dumps
// into one common rendering per table. It is used only to attribute a disagreement to the
// WRITE that made the stored contents diverge (key "C47:<write method>:stored-<table>") and
// to stop expanding a state whose stores no longer hold the same data; read disagreements
// on stores with equal logical content are attributed to the read method.
//
// Depends on the private layouts of both backends (SQLite table/column names, the generickv
// key prefixes "xa".."xl"); if a layout is not recognised the table is reported as
// "unknown" on that side and the comparison of that table is skipped.

import (
	"encoding/binary"
	"fmt"
	"sort"
	"strings"

	"github.com/algorand/go-algorand/data/basics"
	"github.com/algorand/go-algorand/ledger/ledgercore"
	"github.com/algorand/go-algorand/ledger/store/trackerdb"
	"github.com/algorand/go-algorand/protocol"
)

// c47logicalTables lists the compared tables and the write kinds that target them.
var c47logicalTables = []struct {
	name  string
	kinds []c47kind
}{
	{"round", []c47kind{c47wRound}},
	{"accounts", []c47kind{c47wInsAcct, c47wUpdAcct, c47wDelAcct}},
	{"resources", []c47kind{c47wInsRes, c47wUpdRes, c47wDelRes, c47wDelAcct, c47wInsAcct}},
	{"creatables", []c47kind{c47wInsCrt, c47wDelCrt}},
	{"kv", []c47kind{c47wKvPut, c47wKvDel}},
	{"onlineaccounts", []c47kind{c47wOnIns, c47wOnDel}},
	{"onlineaccounts-balance-index", []c47kind{c47wOnIns, c47wOnDel}},
	{"onlineroundparams", []c47kind{c47wOrpPut, c47wOrpPrune}},
	{"txtail", []c47kind{c47wTailNew}},
	{"totals", []c47kind{c47wTotals}},
	{"stateproofverification", []c47kind{c47wSpStore, c47wSpDel}},
}

type c47creatableEntry struct {
	_struct     struct{} `codec:",omitempty,omitemptyarray"`
	Ctype       basics.CreatableType
	CreatorAddr []byte
}

func c47colIndex(t *c47table, name string) int {
	off := 0
	if t.useRowid {
		off = 1
	}
	for i, c := range t.cols {
		if strings.EqualFold(c, name) {
			return i + off
		}
	}
	return -1
}

func c47bytes(v any) []byte {
	switch x := v.(type) {
	case []byte:
		return x
	case string:
		return []byte(x)
	}
	return nil
}

func c47int(v any) int64 {
	if x, ok := v.(int64); ok {
		return x
	}
	return -1
}

func c47sortedLines(lines []string) string {
	sort.Strings(lines)
	return strings.Join(lines, "\n")
}

// c47logicalSQLite renders the SQLite dump; a missing entry means "layout not recognised".
func c47logicalSQLite(p *c47pair, d *c47dump) map[string]string {
	out := map[string]string{}
	tab := func(name string) (*c47table, [][]any) {
		for i := range p.tabs {
			if p.tabs[i].name == name {
				return &p.tabs[i], d.sqRows[i]
			}
		}
		return nil, nil
	}
	addrOf := map[int64][]byte{}
	if t, rows := tab("accountbase"); t != nil {
		ia, id, ii := c47colIndex(t, "address"), c47colIndex(t, "data"), c47colIndex(t, "addrid")
		if ia >= 0 && id >= 0 && ii >= 0 {
			var lines []string
			for _, r := range rows {
				addrOf[c47int(r[ii])] = c47bytes(r[ia])
				lines = append(lines, fmt.Sprintf("%x=%x", c47bytes(r[ia]), c47bytes(r[id])))
			}
			out["accounts"] = c47sortedLines(lines)
		}
	}
	if t, rows := tab("resources"); t != nil {
		ii, ix, id := c47colIndex(t, "addrid"), c47colIndex(t, "aidx"), c47colIndex(t, "data")
		if _, haveAccounts := out["accounts"]; haveAccounts && ii >= 0 && ix >= 0 && id >= 0 {
			var lines []string
			for _, r := range rows {
				a, ok := addrOf[c47int(r[ii])]
				if !ok {
					a = []byte(fmt.Sprintf("orphan-addrid-%d", c47int(r[ii])))
				}
				lines = append(lines, fmt.Sprintf("%x/%d=%x", a, c47int(r[ix]), c47bytes(r[id])))
			}
			out["resources"] = c47sortedLines(lines)
		}
	}
	if t, rows := tab("assetcreators"); t != nil {
		ia, ic, it := c47colIndex(t, "asset"), c47colIndex(t, "creator"), c47colIndex(t, "ctype")
		if ia >= 0 && ic >= 0 && it >= 0 {
			var lines []string
			for _, r := range rows {
				lines = append(lines, fmt.Sprintf("%d=%d/%x", c47int(r[ia]), c47int(r[it]), c47bytes(r[ic])))
			}
			out["creatables"] = c47sortedLines(lines)
		}
	}
	if t, rows := tab("kvstore"); t != nil {
		ik, iv := c47colIndex(t, "key"), c47colIndex(t, "value")
		if ik >= 0 && iv >= 0 {
			var lines []string
			for _, r := range rows {
				lines = append(lines, fmt.Sprintf("%x=%x", c47bytes(r[ik]), c47bytes(r[iv])))
			}
			out["kv"] = c47sortedLines(lines)
		}
	}
	if t, rows := tab("onlineaccounts"); t != nil {
		ia, iu, id, in := c47colIndex(t, "address"), c47colIndex(t, "updround"), c47colIndex(t, "data"), c47colIndex(t, "normalizedonlinebalance")
		if ia >= 0 && iu >= 0 && id >= 0 && in >= 0 {
			var lines, idx []string
			for _, r := range rows {
				lines = append(lines, fmt.Sprintf("%x@%d=%x", c47bytes(r[ia]), c47int(r[iu]), c47bytes(r[id])))
				idx = append(idx, fmt.Sprintf("%d/%d/%x=%x", c47int(r[iu]), c47int(r[in]), c47bytes(r[ia]), c47bytes(r[id])))
			}
			out["onlineaccounts"] = c47sortedLines(lines)
			out["onlineaccounts-balance-index"] = c47sortedLines(idx)
		}
	}
	simple := func(table, keycol, datacol, name string) {
		if t, rows := tab(table); t != nil {
			ik, id := c47colIndex(t, keycol), c47colIndex(t, datacol)
			if ik >= 0 && id >= 0 {
				var lines []string
				for _, r := range rows {
					lines = append(lines, fmt.Sprintf("%020d=%x", c47int(r[ik]), c47bytes(r[id])))
				}
				out[name] = c47sortedLines(lines)
			}
		}
	}
	simple("onlineroundparamstail", "rnd", "data", "onlineroundparams")
	simple("txtail", "rnd", "data", "txtail")
	simple("stateproofverification", "lastattestedround", "verificationcontext", "stateproofverification")
	if t, rows := tab("acctrounds"); t != nil {
		ii, ir := c47colIndex(t, "id"), c47colIndex(t, "rnd")
		if ii >= 0 && ir >= 0 {
			for _, r := range rows {
				if string(c47bytes(r[ii])) == "acctbase" {
					out["round"] = fmt.Sprint(c47int(r[ir]))
				}
			}
		}
	}
	if t, rows := tab("accounttotals"); t != nil {
		cols := []string{"id", "online", "onlinerewardunits", "offline", "offlinerewardunits", "notparticipating", "notparticipatingrewardunits", "rewardslevel"}
		idx := make([]int, len(cols))
		ok := true
		for i, c := range cols {
			if idx[i] = c47colIndex(t, c); idx[i] < 0 {
				ok = false
			}
		}
		if ok {
			var lines []string
			for _, r := range rows {
				id := string(c47bytes(r[idx[0]]))
				name := "live"
				if id == "catchpointStaging" {
					name = "staging"
				}
				vals := make([]string, 0, 7)
				for _, i := range idx[1:] {
					vals = append(vals, fmt.Sprint(uint64(c47int(r[i]))))
				}
				lines = append(lines, name+"="+strings.Join(vals, ","))
			}
			out["totals"] = c47sortedLines(lines)
		}
	}
	return out
}

// c47logicalKV renders the Pebble dump in the same format.
func c47logicalKV(d *c47dump) map[string]string {
	per := map[string][]string{}
	for _, n := range c47logicalTables {
		per[n.name] = nil
	}
	unknown := false
	u64 := func(b []byte) uint64 { return binary.BigEndian.Uint64(b) }
	for i, k := range d.kvKeys {
		v := d.kvVals[i]
		if len(k) < 2 {
			unknown = true
			continue
		}
		switch string(k[:2]) {
		case "xa":
			if len(k) == 35 {
				per["accounts"] = append(per["accounts"], fmt.Sprintf("%x=%x", k[3:], v))
			} else {
				unknown = true
			}
		case "xb":
			if len(k) == 44 {
				per["resources"] = append(per["resources"], fmt.Sprintf("%x/%d=%x", k[3:35], u64(k[36:]), v))
			} else {
				unknown = true
			}
		case "xc":
			per["kv"] = append(per["kv"], fmt.Sprintf("%x=%x", k[3:], v))
		case "xd":
			var e c47creatableEntry
			if len(k) == 11 && protocol.DecodeReflect(v, &e) == nil {
				per["creatables"] = append(per["creatables"], fmt.Sprintf("%d=%d/%x", u64(k[3:]), e.Ctype, e.CreatorAddr))
			} else {
				unknown = true
			}
		case "xe":
			if len(k) == 44 {
				per["onlineaccounts"] = append(per["onlineaccounts"], fmt.Sprintf("%x@%d=%x", k[3:35], u64(k[36:]), v))
			} else {
				unknown = true
			}
		case "xf":
			if len(k) == 53 {
				per["onlineaccounts-balance-index"] = append(per["onlineaccounts-balance-index"], fmt.Sprintf("%d/%d/%x=%x", u64(k[3:11]), u64(k[12:20]), k[21:], v))
			} else {
				unknown = true
			}
		case "xg":
			if len(v) == 8 {
				per["round"] = append(per["round"], fmt.Sprint(u64(v)))
			}
		case "xh":
		case "xi":
			var t ledgercore.AccountTotals
			if len(k) == 4 && protocol.Decode(v, &t) == nil {
				name := "live"
				if k[3] == 's' {
					name = "staging"
				}
				per["totals"] = append(per["totals"], fmt.Sprintf("%s=%d,%d,%d,%d,%d,%d,%d", name, t.Online.Money.Raw, t.Online.RewardUnits, t.Offline.Money.Raw, t.Offline.RewardUnits, t.NotParticipating.Money.Raw, t.NotParticipating.RewardUnits, t.RewardsLevel))
			} else {
				unknown = true
			}
		case "xj", "xk", "xl":
			name := map[string]string{"xj": "txtail", "xk": "onlineroundparams", "xl": "stateproofverification"}[string(k[:2])]
			if len(k) == 11 {
				per[name] = append(per[name], fmt.Sprintf("%020d=%x", u64(k[3:]), v))
			} else {
				unknown = true
			}
		default:
			unknown = true
		}
	}
	if unknown {
		return nil
	}
	out := map[string]string{}
	for n, lines := range per {
		out[n] = c47sortedLines(lines)
	}
	return out
}

// c47storedDiff returns the first table (in c47logicalTables order) whose logical content
// differs, with both renderings; "" when everything recognised is equal.
func c47storedDiff(p *c47pair, d *c47dump) (table, sq, kv string) {
	if p.kvraw == nil {
		return "", "", ""
	}
	ls := c47logicalSQLite(p, d)
	lk := c47logicalKV(d)
	if lk == nil {
		return "", "", ""
	}
	for _, t := range c47logicalTables {
		a, ok := ls[t.name]
		if !ok {
			continue
		}
		if b := lk[t.name]; a != b {
			return t.name, a, b
		}
	}
	return "", "", ""
}

var _ = trackerdb.ErrNotFound
