package ledger

// Plain in-package unit tests (package ledger; no explorer, no /verif engine) for the C16
// finding "unhashed partial balance records":
//
//   prepareNormalizedBalancesV6 adds NO account hash for a balance record whose
//   ExpectingMoreEntries flag is set (the account hash is expected from the final record of that
//   account), but WriteCatchpointStagingBalances stages that record's AccountData, keeps the
//   FIRST row when a later record has the same address, and nothing checks at the end of the
//   download that no account is still "expecting more entries".
//
// TestReproC16DanglingPartialRecord: the producer's catchpoint file + one extra trailing record
//   {new address, 1e12 microalgos, ExpectingMoreEntries=true}: trie root and label unchanged,
//   VerifyCatchpoint == nil, CompleteCatchup adopts it, the account exists with 1e12 microalgos.
// TestReproC16ShadowedFirstRecord: in front of a genuine record a forged one for the same address
//   {balance + 1e12, ExpectingMoreEntries=true}: the forged row is staged first and wins, the
//   genuine record supplies the hash: VerifyCatchpoint == nil, the node adopts the forged balance.
//
// Both FAIL on the unchanged tree (that is the demonstration) and pass with candidate-fix.patch.

import (
	"archive/tar"
	"compress/gzip"
	"context"
	"io"
	"strings"
	"testing"
	"time"

	"github.com/stretchr/testify/require"

	"github.com/algorand/go-algorand/agreement"
	"github.com/algorand/go-algorand/config"
	"github.com/algorand/go-algorand/crypto"
	"github.com/algorand/go-algorand/data/basics"
	"github.com/algorand/go-algorand/data/bookkeeping"
	"github.com/algorand/go-algorand/data/txntest"
	"github.com/algorand/go-algorand/ledger/encoded"
	"github.com/algorand/go-algorand/ledger/store/trackerdb"
	ledgertesting "github.com/algorand/go-algorand/ledger/testing"
	"github.com/algorand/go-algorand/logging"
	"github.com/algorand/go-algorand/protocol"
)

const reproEmeProto = protocol.ConsensusVersion("repro-c16-partial-record")

type reproEmeSection struct {
	name string
	data []byte
}

type reproEmeProducer struct {
	genBalances bookkeeping.GenesisBalances
	genHash     crypto.Digest
	addrs       []basics.Address
	blocks      []bookkeeping.Block
	label       string // label of catchpoint round 12
	file        []reproEmeSection
}

// reproEmeProduce runs a real catchpoint-producing ledger for 20 rounds (one payment per round)
// and returns its genuine catchpoint file + label of round 12.
func reproEmeProduce(t *testing.T) *reproEmeProducer {
	p := config.Consensus[protocol.ConsensusCurrentVersion]
	p.ApprovedUpgrades = map[protocol.ConsensusVersion]uint64{}
	p.SeedLookback, p.SeedRefreshInterval, p.MaxBalLookback, p.MaxTxnLife = 2, 2, 8, 8
	p.CatchpointLookback = 4
	p.StateProofInterval = 0
	config.Consensus[reproEmeProto] = p
	t.Cleanup(func() { delete(config.Consensus, reproEmeProto) })

	res := &reproEmeProducer{}
	res.genBalances, res.addrs, _ = ledgertesting.NewTestGenesis(ledgertesting.TurnOffRewards)
	res.genHash[0] = 0xc6
	cfg := config.GetDefaultLocal()
	cfg.CatchpointInterval = 4
	cfg.CatchpointTracking = 2
	cfg.CatchpointFileHistoryLength = -1
	l := newSimpleLedgerFull(t, res.genBalances, reproEmeProto, res.genHash, cfg)
	defer l.Close()
	flush := func() { // same as upstream's testCatchpointFlushRound
		l.WaitForCommit(l.Latest())
		l.trackers.mu.Lock()
		l.trackers.lastFlushTime = time.Time{}
		l.trackers.mu.Unlock()
		l.trackerMu.Lock()
		l.trackers.committedUpTo(l.Latest())
		l.trackerMu.Unlock()
		l.trackers.waitAccountsWriting()
	}
	for len(res.blocks) < 20 {
		ev := nextBlock(t, l)
		txn(t, l, ev, &txntest.Txn{Type: "pay", Sender: res.addrs[0], Receiver: res.addrs[1], Amount: 1000 + len(res.blocks)})
		vb := endBlock(t, l, ev)
		res.blocks = append(res.blocks, vb.Block())
		flush()
	}
	deadline := time.Now().Add(120 * time.Second)
	for {
		flush()
		if s, err := l.GetCatchpointStream(12); err == nil {
			gz, err := gzip.NewReader(s)
			require.NoError(t, err)
			tr := tar.NewReader(gz)
			for {
				h, err := tr.Next()
				if err == io.EOF {
					break
				}
				require.NoError(t, err)
				b, err := io.ReadAll(tr)
				require.NoError(t, err)
				res.file = append(res.file, reproEmeSection{h.Name, b})
			}
			s.Close()
			break
		}
		require.True(t, time.Now().Before(deadline), "no catchpoint file for round 12")
		time.Sleep(20 * time.Millisecond)
	}
	for _, s := range res.file {
		if s.name == CatchpointContentFileName {
			var h CatchpointFileHeader
			require.NoError(t, protocol.Decode(s.data, &h))
			res.label = h.Catchpoint
		}
	}
	require.NotEmpty(t, res.label)
	return res
}

// reproEmeTamper applies f to the first balances chunk that holds balance records.
func reproEmeTamper(t *testing.T, file []reproEmeSection, f func(chunk *CatchpointSnapshotChunkV6)) []reproEmeSection {
	out := make([]reproEmeSection, len(file))
	done := false
	for i, s := range file {
		out[i] = s
		if done || !strings.HasPrefix(s.name, "balances.") {
			continue
		}
		var chunk CatchpointSnapshotChunkV6
		require.NoError(t, protocol.Decode(s.data, &chunk))
		if len(chunk.Balances) == 0 {
			continue
		}
		f(&chunk)
		out[i].data = protocol.Encode(&chunk)
		done = true
	}
	require.True(t, done)
	return out
}

// reproEmeCatchup does what catchup.CatchpointCatchupService does with a downloaded file; it
// returns the fresh ledger and the first error of ProcessStagingBalances / BuildMerkleTrie /
// VerifyCatchpoint (nil = the file is accepted; the catchup is then completed).
func reproEmeCatchup(t *testing.T, p *reproEmeProducer, file []reproEmeSection) (*Ledger, error) {
	fresh := newSimpleLedgerFull(t, p.genBalances, reproEmeProto, p.genHash, config.GetDefaultLocal())
	acc := MakeCatchpointCatchupAccessor(fresh, logging.Base())
	ctx := context.Background()
	require.NoError(t, acc.ResetStagingBalances(ctx, true))
	require.NoError(t, acc.SetLabel(ctx, p.label))
	var progress CatchpointCatchupAccessorProgress
	for _, s := range file {
		if err := acc.ProcessStagingBalances(ctx, s.name, s.data, &progress); err != nil {
			return fresh, err
		}
	}
	if err := acc.BuildMerkleTrie(ctx, nil); err != nil {
		return fresh, err
	}
	top := p.blocks[11]
	if err := acc.VerifyCatchpoint(ctx, &top); err != nil {
		return fresh, err
	}
	require.NoError(t, acc.StoreBalancesRound(ctx, &top))
	require.NoError(t, acc.StoreFirstBlock(ctx, &top, &agreement.Certificate{}))
	for r := 10; r >= 0; r-- {
		require.NoError(t, acc.StoreBlock(ctx, &p.blocks[r], &agreement.Certificate{}))
	}
	require.NoError(t, acc.CompleteCatchup(ctx))
	return fresh, nil
}

func TestReproC16DanglingPartialRecord(t *testing.T) {
	p := reproEmeProduce(t)

	// sanity: the untouched file is accepted
	l0, err := reproEmeCatchup(t, p, p.file)
	require.NoError(t, err)
	l0.Close()

	var fake basics.Address
	for i := range fake {
		fake[i] = 0xfa
	}
	tampered := reproEmeTamper(t, p.file, func(chunk *CatchpointSnapshotChunkV6) {
		chunk.Balances = append(chunk.Balances, encoded.BalanceRecordV6{
			Address:              fake,
			AccountData:          protocol.Encode(&trackerdb.BaseAccountData{MicroAlgos: basics.MicroAlgos{Raw: 1_000_000_000_000}, UpdateRound: 1}),
			ExpectingMoreEntries: true, // "more records for this account follow" - none does
		})
	})
	fresh, err := reproEmeCatchup(t, p, tampered)
	defer fresh.Close()
	if err == nil {
		ad, _, err := fresh.LookupWithoutRewards(12, fake)
		require.NoError(t, err)
		t.Errorf("a catchpoint file with an extra, never completed partial record verifies against the producer's label %s; after CompleteCatchup the invented account %s holds %d microalgos (totals unchanged)", p.label, fake, ad.MicroAlgos.Raw)
	}
}

func TestReproC16ShadowedFirstRecord(t *testing.T) {
	p := reproEmeProduce(t)
	var victim basics.Address
	var genuine uint64
	tampered := reproEmeTamper(t, p.file, func(chunk *CatchpointSnapshotChunkV6) {
		rec := chunk.Balances[0]
		victim = rec.Address
		var bad trackerdb.BaseAccountData
		require.NoError(t, protocol.Decode(rec.AccountData, &bad))
		genuine = bad.MicroAlgos.Raw
		bad.MicroAlgos.Raw += 1_000_000_000_000
		forged := encoded.BalanceRecordV6{Address: rec.Address, AccountData: protocol.Encode(&bad), ExpectingMoreEntries: true}
		chunk.Balances = append([]encoded.BalanceRecordV6{forged}, chunk.Balances...) // forged record first, genuine record second
	})
	fresh, err := reproEmeCatchup(t, p, tampered)
	defer fresh.Close()
	if err == nil {
		ad, _, err := fresh.LookupWithoutRewards(12, victim)
		require.NoError(t, err)
		t.Errorf("a catchpoint file in which account %s is preceded by a forged partial record verifies against the producer's label %s; the node adopted balance %d instead of %d", victim, p.label, ad.MicroAlgos.Raw, genuine)
	}
}
