package ledger

import (
	"fmt"
	"testing"
	"time"

	ve "github.com/algorand/go-algorand/verifeng"
)

func TestVerif_C14(t *testing.T) {
	dir := ve.ScratchDir("c14")
	defer c14RemoveAll(dir)
	t0 := time.Now()
	t9 := time.Now()
	hq := c14HistQuiet(t, dir, c14ProtoA, 24)
	fmt.Println("quiet took", time.Since(t9), hq.Txns)
	t9 = time.Now()
	hq = c14HistBoxes(t, dir, c14ProtoA, 24)
	fmt.Println("boxes took", time.Since(t9), hq.Txns)
	hs := []*c14History{
		c14HistMixed(t, dir, "mixedA", c14ProtoA, c14DefaultVariant()),
		c14HistMixed(t, dir, "mixedB", c14ProtoB, c14DefaultVariant()),
		c14HistBoxes(t, dir, c14ProtoA, 24),
		c14HistAssets(t, dir, c14ProtoB, 24),
		c14HistAccounts(t, dir, c14ProtoB, 24),
		c14HistApps(t, dir, c14ProtoA, 24),
		c14HistQuiet(t, dir, c14ProtoB, 24),
	}
	fmt.Println("built histories in", time.Since(t0))
	for _, h := range hs[:3] {
		for _, stored := range []bool{true, false} {
			for _, mode := range []string{"ones", "zeros"} {
				t1 := time.Now()
				n, err := c14OpenNode(h.Gen, dir, fmt.Sprintf("n-%s-%v-%s", h.Name, stored, mode), c14NodeCfg{Stored: stored, InMem: true, NoLRU: mode == "zeros"})
				if err != nil {
					t.Fatal(err)
				}
				fmt.Println("open took", time.Since(t1))
				p0 := c14Plan{RestartAt: 10}
				p := p0
				if mode == "zeros" {
					p.Flush = make([]bool, h.rounds())
				}
				o, err := c14Run(n, h, p)
				fmt.Printf("%s stored=%v %s: err=%v labels=%v fs=%v roots=%d flushes=%v log=%d %v took %v\n", h.Name, stored, mode, err, len(o.Labels), c14SortedRounds(o.FirstStage), len(o.Roots), len(o.Flushes), o.LogProblems, o.LogMsgs, time.Since(t1))
				n.close()
			}
		}
	}
}
