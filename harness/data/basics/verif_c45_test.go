package basics

// C45 — Overflow-checked arithmetic is exact.
// Engine E-ENUM: the generic helpers are instantiated at uint8 (all 65 536 pairs) and
// uint16 (all 2^32 pairs in the thorough tier; quick: every pair with one operand in a
// 96-value boundary set), and every 64-bit entry point is run on all tuples of a
// boundary grid, against a math/big reference written from the doc comments.

import (
	"fmt"
	"math"
	"math/big"
	"sync/atomic"
	"testing"

	ve "github.com/algorand/go-algorand/verifeng"
)

func c45grid64() []uint64 {
	g := []uint64{0, 1, 2, 3, 5, 10, 999_999, 1_000_000, 1_000_001, 999_999_999_999, 1_000_000_000_000, 1_000_000_000_001}
	for _, k := range []uint{8, 16, 31, 32, 33, 63} {
		g = append(g, (uint64(1)<<k)-1, uint64(1)<<k, (uint64(1)<<k)+1)
	}
	g = append(g, math.MaxUint64-2, math.MaxUint64-1, math.MaxUint64, 0xffffffff00000000, 0x100000001, 18446744073709, 4294967295*4294967295)
	seen := map[uint64]bool{}
	var out []uint64
	for _, v := range g {
		if !seen[v] {
			seen[v] = true
			out = append(out, v)
		}
	}
	return out
}

type c45rep struct {
	r     *ve.Run
	fails atomic.Int64
}

func (c *c45rep) bad(fn string, args any, got, want any) {
	if c.fails.Add(1) > 3 {
		return
	}
	c.r.Report("C45:"+fn, fmt.Sprintf("%s%v = %v, reference says %v", fn, args, got, want),
		map[string]any{"engine": "enum", "fn": fn, "args": args})
}

func c45narrow[T uint8 | uint16](c *c45rep, name string, as, bs []uint32, maxv uint32) {
	r := c.r
	r.ParallelFor(len(as), func(i int) {
		a := as[i]
		var cl [12]bool
		for _, b := range bs {
			ta, tb := T(a), T(b)
			sum := a + b
			res, o := OAdd(ta, tb)
			if o != (sum > maxv) || (!o && uint32(res) != sum) {
				c.bad("OAdd["+name+"]", []uint32{a, b}, []any{res, o}, sum)
			}
			cl[b2i(o)] = true
			sat := AddSaturate(ta, tb)
			if (sum > maxv && uint32(sat) != maxv) || (sum <= maxv && uint32(sat) != sum) {
				c.bad("AddSaturate["+name+"]", []uint32{a, b}, sat, sum)
			}
			res, o = OSub(ta, tb)
			if o != (b > a) || (!o && uint32(res) != a-b) {
				c.bad("OSub["+name+"]", []uint32{a, b}, []any{res, o}, int64(a)-int64(b))
			}
			cl[2+b2i(o)] = true
			sat = SubSaturate(ta, tb)
			if (b > a && sat != 0) || (b <= a && uint32(sat) != a-b) {
				c.bad("SubSaturate["+name+"]", []uint32{a, b}, sat, int64(a)-int64(b))
			}
			prod := uint64(a) * uint64(b)
			res, o = OMul(ta, tb)
			if o != (prod > uint64(maxv)) || (!o && uint64(res) != prod) {
				c.bad("OMul["+name+"]", []uint32{a, b}, []any{res, o}, prod)
			}
			cl[4+b2i(o)] = true
			sat = MulSaturate(ta, tb)
			if (prod > uint64(maxv) && uint32(sat) != maxv) || (prod <= uint64(maxv) && uint64(sat) != prod) {
				c.bad("MulSaturate["+name+"]", []uint32{a, b}, sat, prod)
			}
			// DivCeil on its documented domain: denominator >= 1, numerator+denominator-1 representable
			if b >= 1 && a+b-1 <= maxv {
				want := (a + b - 1) / b
				if a%b == 0 {
					want = a / b
				} else {
					want = a/b + 1
				}
				if got := DivCeil(ta, tb); uint32(got) != want {
					c.bad("DivCeil["+name+"]", []uint32{a, b}, got, want)
				}
				cl[6] = true
			}
		}
		r.EvalN(len(bs) * 7)
		for k, v := range cl {
			if v {
				r.Class(fmt.Sprintf("%s/class%d", name, k))
			}
		}
	})
}

func b2i(b bool) int {
	if b {
		return 1
	}
	return 0
}

func c45all(n uint32) []uint32 {
	out := make([]uint32, n)
	for i := range out {
		out[i] = uint32(i)
	}
	return out
}

func TestVerif_C45(t *testing.T) {
	r := ve.NewRun("C45", "exploration")
	c := &c45rep{r: r}
	r.Assume("DivCeil is checked only on its documented domain (denominator >= 1 and numerator+denominator-1 representable)")
	r.Assume("Muldiv with divisor 0 is required to report overflow without panicking (a/0 is out of range)")
	r.Assume("FeeForUsage is checked for residue < 1e12 (the documented range of a residue)")

	// --- 8-bit: literally all pairs
	c45narrow[uint8](c, "uint8", c45all(256), c45all(256), 0xff)
	// --- 16-bit
	if ve.Thorough() {
		c45narrow[uint16](c, "uint16", c45all(65536), c45all(65536), 0xffff)
		r.Set("uint16_pairs", "all 2^32")
	} else {
		var bset []uint32
		seen := map[uint32]bool{}
		for _, k := range []uint32{0, 1, 2, 3, 127, 128, 129, 254, 255, 256, 257, 511, 512, 1023, 1024, 4095, 4096, 16383, 16384, 32767, 32768, 32769, 65533, 65534, 65535, 181, 182, 362, 363, 21845, 21846, 43690, 13107} {
			for _, d := range []uint32{0, 1, 0xffff} {
				v := (k + d) & 0xffff
				if !seen[v] {
					seen[v] = true
					bset = append(bset, v)
				}
			}
		}
		c45narrow[uint16](c, "uint16", bset, c45all(65536), 0xffff)
		c45narrow[uint16](c, "uint16", c45all(65536), bset, 0xffff)
		r.Set("uint16_pairs", fmt.Sprintf("every pair with one operand among %d boundary values", len(bset)))
	}

	// --- 64-bit grid
	g := c45grid64()
	two64 := new(big.Int).Lsh(big.NewInt(1), 64)
	bi := func(x uint64) *big.Int { return new(big.Int).SetUint64(x) }
	fits := func(x *big.Int) bool { return x.Sign() >= 0 && x.Cmp(two64) < 0 }
	n := len(g)
	r.ParallelFor(n*n, func(ij int) {
		a, b := g[ij/n], g[ij%n]
		A, Bb := bi(a), bi(b)
		// OAdd/OSub/OMul + saturating + tracker
		sum := new(big.Int).Add(A, Bb)
		res, o := OAdd(a, b)
		if o == fits(sum) || (!o && bi(res).Cmp(sum) != 0) {
			c.bad("OAdd[uint64]", []uint64{a, b}, []any{res, o}, sum.String())
		}
		r.Class(fmt.Sprintf("OAdd64/%v", o))
		if s := AddSaturate(a, b); (fits(sum) && bi(s).Cmp(sum) != 0) || (!fits(sum) && s != math.MaxUint64) {
			c.bad("AddSaturate[uint64]", []uint64{a, b}, s, sum.String())
		}
		if s := (MicroAlgos{Raw: a}).AddSaturate(MicroAlgos{Raw: b}); (fits(sum) && bi(s.Raw).Cmp(sum) != 0) || (!fits(sum) && s.Raw != math.MaxUint64) {
			c.bad("MicroAlgos.AddSaturate", []uint64{a, b}, s, sum.String())
		}
		diff := new(big.Int).Sub(A, Bb)
		res, o = OSub(a, b)
		if o == fits(diff) || (!o && bi(res).Cmp(diff) != 0) {
			c.bad("OSub[uint64]", []uint64{a, b}, []any{res, o}, diff.String())
		}
		r.Class(fmt.Sprintf("OSub64/%v", o))
		if s := SubSaturate(a, b); (fits(diff) && bi(s).Cmp(diff) != 0) || (!fits(diff) && s != 0) {
			c.bad("SubSaturate[uint64]", []uint64{a, b}, s, diff.String())
		}
		if s := (MicroAlgos{Raw: a}).SubSaturate(MicroAlgos{Raw: b}); (fits(diff) && bi(s.Raw).Cmp(diff) != 0) || (!fits(diff) && s.Raw != 0) {
			c.bad("MicroAlgos.SubSaturate", []uint64{a, b}, s, diff.String())
		}
		if s := Round(a).SubSaturate(Round(b)); (fits(diff) && bi(uint64(s)).Cmp(diff) != 0) || (!fits(diff) && s != 0) {
			c.bad("Round.SubSaturate", []uint64{a, b}, s, diff.String())
		}
		prod := new(big.Int).Mul(A, Bb)
		res, o = OMul(a, b)
		if o == fits(prod) || (!o && bi(res).Cmp(prod) != 0) {
			c.bad("OMul[uint64]", []uint64{a, b}, []any{res, o}, prod.String())
		}
		r.Class(fmt.Sprintf("OMul64/%v", o))
		if s := MulSaturate(a, b); (fits(prod) && bi(s).Cmp(prod) != 0) || (!fits(prod) && s != math.MaxUint64) {
			c.bad("MulSaturate[uint64]", []uint64{a, b}, s, prod.String())
		}
		if b <= math.MaxInt64 {
			if s := MulAIntSaturate(MicroAlgos{Raw: a}, int(b)); (fits(prod) && bi(s.Raw).Cmp(prod) != 0) || (!fits(prod) && s.Raw != math.MaxUint64) {
				c.bad("MulAIntSaturate", []uint64{a, b}, s, prod.String())
			}
		}
		// tracker: sticky flag, wraps like the unchecked op
		var tr OverflowTracker
		x := tr.Add(a, b)
		if tr.Overflowed == fits(sum) || x != a+b {
			c.bad("OverflowTracker.Add", []uint64{a, b}, []any{x, tr.Overflowed}, sum.String())
		}
		tr = OverflowTracker{}
		x = tr.Sub(a, b)
		if tr.Overflowed == fits(diff) || (fits(diff) && x != a-b) {
			c.bad("OverflowTracker.Sub", []uint64{a, b}, []any{x, tr.Overflowed}, diff.String())
		}
		tr = OverflowTracker{}
		x = tr.Mul(a, b)
		if tr.Overflowed == fits(prod) || (fits(prod) && bi(x).Cmp(prod) != 0) {
			c.bad("OverflowTracker.Mul", []uint64{a, b}, []any{x, tr.Overflowed}, prod.String())
		}
		tr = OverflowTracker{Overflowed: true}
		tr.Add(0, 0)
		tr.Sub(0, 0)
		tr.Mul(1, 1)
		if !tr.Overflowed {
			c.bad("OverflowTracker.sticky", []uint64{a, b}, false, true)
		}
		// ODiff
		d, od := ODiff(a, b)
		inRange := diff.IsInt64()
		if od == inRange || (!od && big.NewInt(d).Cmp(diff) != 0) {
			c.bad("ODiff", []uint64{a, b}, []any{d, od}, diff.String())
		}
		r.Class(fmt.Sprintf("ODiff/%v/%d", od, diff.Sign()))
		// Micros.Mul, MulMicros: a*b/1e6 saturating
		q := new(big.Int).Div(prod, big.NewInt(1_000_000))
		m, om := Micros(a).Mul(Micros(b))
		if om == fits(q) || (!om && bi(uint64(m)).Cmp(q) != 0) || (om && uint64(m) != math.MaxUint64) {
			c.bad("Micros.Mul", []uint64{a, b}, []any{m, om}, q.String())
		}
		ma, oma := (MicroAlgos{Raw: a}).MulMicros(Micros(b))
		if oma == fits(q) || (!oma && bi(ma.Raw).Cmp(q) != 0) || (oma && ma.Raw != math.MaxUint64) {
			c.bad("MicroAlgos.MulMicros", []uint64{a, b}, []any{ma, oma}, q.String())
		}
		r.Class(fmt.Sprintf("MulMicros/%v", oma))
		// Micros.MulInt for both signs of the int
		for _, iv := range []int{int(int64(b)), -int(int64(b & math.MaxInt64))} {
			mi, omi := Micros(a).MulInt(iv)
			if iv < 0 {
				if !omi {
					c.bad("Micros.MulInt(neg)", []any{a, iv}, []any{mi, omi}, "overflow")
				}
				continue
			}
			p := new(big.Int).Mul(A, big.NewInt(int64(iv)))
			if omi == fits(p) || (!omi && bi(uint64(mi)).Cmp(p) != 0) || (omi && uint64(mi) != math.MaxUint64) {
				c.bad("Micros.MulInt", []any{a, iv}, []any{mi, omi}, p.String())
			}
		}
		r.EvalN(24)
		// three-operand: Muldiv(a,b,c), Divvy
		for _, cc := range g {
			quo, ov := safeMuldiv(a, b, cc)
			if cc == 0 {
				if quo != "ok" && quo != "" {
					c.bad("Muldiv(c=0)", []uint64{a, b, cc}, quo, "overflow reported, no panic")
				}
				if !ov {
					c.bad("Muldiv(c=0)", []uint64{a, b, cc}, ov, "overflow")
				}
				r.Class("Muldiv/div0")
				continue
			}
			want := new(big.Int).Div(prod, bi(cc))
			got, ovf := Muldiv(a, b, cc)
			if ovf == fits(want) || (!ovf && bi(got).Cmp(want) != 0) {
				c.bad("Muldiv", []uint64{a, b, cc}, []any{got, ovf}, want.String())
			}
			r.Class(fmt.Sprintf("Muldiv/%v", ovf))
			q2, rem, ovf2 := muldiv(a, b, cc)
			if !ovf2 {
				back := new(big.Int).Add(new(big.Int).Mul(bi(q2), bi(cc)), bi(rem))
				if back.Cmp(prod) != 0 || rem >= cc {
					c.bad("muldiv.rem", []uint64{a, b, cc}, []any{q2, rem}, prod.String())
				}
			}
			// Divvy with proper fraction b/cc applied to a
			if b <= cc {
				f := NewFraction(b, cc)
				first, second := f.Divvy(a)
				if bi(first).Cmp(want) != 0 || first+second != a || second > a {
					c.bad("Fraction.Divvy", []uint64{a, b, cc}, []any{first, second}, want.String())
				}
				fa, sa := f.DivvyAlgos(MicroAlgos{Raw: a})
				if fa.Raw != first || sa.Raw != second {
					c.bad("Fraction.DivvyAlgos", []uint64{a, b, cc}, []any{fa, sa}, []any{first, second})
				}
				r.Class(fmt.Sprintf("Divvy/rem%v", second != a-first))
			}
			r.EvalN(3)
		}
	})
	// four-operand: Mul2div on a reduced grid (every value of g for a,b; c,d over g) and FeeForUsage
	S := new(big.Int).SetUint64(1_000_000_000_000)
	resid := []uint64{0, 1, 2, 499_999_999_999, 999_999_999_998, 999_999_999_999}
	r.ParallelFor(n*n, func(ij int) {
		a, b := g[ij/n], g[ij%n]
		ab := new(big.Int).Mul(bi(a), bi(b))
		for _, cc := range g {
			abc := new(big.Int).Mul(ab, bi(cc))
			for _, d := range g {
				if d == 0 {
					continue // not permitted: no documented behaviour for a zero divisor
				}
				quo, rem, ov := Mul2div(a, b, cc, d)
				want, wrem := new(big.Int).DivMod(abc, bi(d), new(big.Int))
				if ov == fits(want) {
					c.bad("Mul2div.flag", []uint64{a, b, cc, d}, []any{quo, rem, ov}, want.String())
				} else if !ov && (bi(quo).Cmp(want) != 0 || bi(rem).Cmp(wrem) != 0) {
					c.bad("Mul2div.value", []uint64{a, b, cc, d}, []any{quo, rem, ov}, []string{want.String(), wrem.String()})
				} else if ov && (quo != math.MaxUint64 || rem != 0) {
					c.bad("Mul2div.saturate", []uint64{a, b, cc, d}, []any{quo, rem, ov}, "MaxUint64,0")
				}
				r.Class(fmt.Sprintf("Mul2div/%v", ov))
				r.Eval()
			}
			// FeeForUsage(base=a, usage=b, multiplier=cc, residue)
			for _, rs := range resid {
				fee, nr, ov := (MicroAlgos{Raw: a}).FeeForUsage(Micros(b), Micros(cc), rs)
				// reference: fee*S - newResidue == a*b*cc - residue with 0 <= newResidue < S
				t := new(big.Int).Sub(abc, bi(rs))
				wfee, m := new(big.Int).DivMod(t, S, new(big.Int)) // floor div, m in [0,S)
				wres := new(big.Int)
				if m.Sign() != 0 {
					wfee.Add(wfee, big.NewInt(1))
					wres.Sub(S, m)
				}
				if wfee.Sign() < 0 { // product smaller than the residue: nothing charged, residue shrinks
					wfee.SetInt64(0)
					wres.Sub(bi(rs), abc)
				}
				if ov == fits(wfee) {
					c.bad("FeeForUsage.flag", []uint64{a, b, cc, rs}, []any{fee, nr, ov}, wfee.String())
				} else if !ov && (bi(fee.Raw).Cmp(wfee) != 0 || bi(nr).Cmp(wres) != 0) {
					c.bad("FeeForUsage.value", []uint64{a, b, cc, rs}, []any{fee, nr, ov}, []string{wfee.String(), wres.String()})
				} else if ov && (fee.Raw != math.MaxUint64 || nr != rs) {
					c.bad("FeeForUsage.saturate", []uint64{a, b, cc, rs}, []any{fee, nr, ov}, "MaxUint64, residue unchanged")
				}
				r.Class(fmt.Sprintf("FeeForUsage/%v/%v", ov, m.Sign() != 0))
				r.Eval()
			}
		}
	})
	r.Sample(map[string]any{"fn": "Mul2div", "args": []uint64{g[5], g[7], g[9], g[10]}})
	r.Sample(map[string]any{"fn": "OMul[uint8]", "args": []int{16, 16}})
	r.Sample(map[string]any{"fn": "ODiff", "args": []uint64{0, 1 << 63}})
	r.Set("grid64_size", n)
	nv := r.Finish(ve.Coverage{
		Rule:       "all uint8 pairs; uint16 pairs per tier; all tuples over a 64-bit boundary grid for every entry point of overflow.go/fraction.go/units.go; classes = (function, outcome kind)",
		Exhaustive: true,
	})
	if nv > 0 {
		t.Fatalf("%d violations", nv)
	}
}

// safeMuldiv runs Muldiv and converts a panic into a string.
func safeMuldiv(a, b, c uint64) (status string, overflow bool) {
	defer func() {
		if e := recover(); e != nil {
			status = fmt.Sprintf("panic: %v", e)
		}
	}()
	_, o := Muldiv(a, b, c)
	return "ok", o
}
