package transactions

// Plain reproduction (no explorer) of the C40 finding: a Transaction whose HeartbeatTxnFields
// pointer is non-nil but points at an all-zero struct has TWO encodings — the generated
// MarshalMsg emits "hb":{} (it only checks the pointer for nil), go-codec omits the field (its
// RecursiveEmptyCheck looks through the pointer). Transaction.ID() (msgp path) therefore
// differs from the hash over the go-codec encoding of the very same object, and the go-codec
// decoder does not round-trip the bytes the msgp encoder produced.

import (
	"bytes"
	"testing"

	"github.com/algorand/go-algorand/crypto"
	"github.com/algorand/go-algorand/protocol"
)

func TestReproC40HeartbeatPointerToEmpty(t *testing.T) {
	var tx Transaction
	tx.Type = protocol.HeartbeatTx
	tx.Sender[0] = 1
	tx.HeartbeatTxnFields = &HeartbeatTxnFields{}

	e1 := protocol.Encode(&tx)
	e2 := protocol.EncodeReflect(&tx)
	t.Logf("msgp    %x", e1)
	t.Logf("reflect %x", e2)

	// the same bytes arrive from the wire: {"hb":{}, "snd":..., "type":"hb"}
	var viaMsgp, viaReflect Transaction
	if err := protocol.Decode(e1, &viaMsgp); err != nil {
		t.Fatal(err)
	}
	if err := protocol.DecodeReflect(e1, &viaReflect); err != nil {
		t.Fatal(err)
	}
	r1 := protocol.Encode(&viaMsgp)
	r2 := protocol.EncodeReflect(&viaReflect)
	idMsgp := tx.ID()
	idReflect := Txid(crypto.Hash(append([]byte(protocol.Transaction), e2...)))

	if !bytes.Equal(e1, e2) {
		t.Errorf("Encode != EncodeReflect for the same object (%d vs %d bytes)", len(e1), len(e2))
	}
	if !bytes.Equal(r1, r2) {
		t.Errorf("decode+re-encode differs between the codecs: msgp %x reflect %x", r1, r2)
	}
	if idMsgp != idReflect {
		t.Errorf("transaction id differs between code paths: %v (msgp) vs %v (go-codec)", idMsgp, idReflect)
	}
}
