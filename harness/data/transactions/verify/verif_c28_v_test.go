package verify

// C28 (part v) — Only the current authorizer can authorize a transaction: the stateless stage.
//
// Engine E-ENUM on the real verify.TxnGroup (-> txnGroupBatchPrep, stxnCoreChecks,
// crypto.MultisigBatchPrep, logicSigVerify, PQSig.Verify, batch verification), one transaction
// per call, under BOTH ed25519 batch verifiers (libsodium and ed25519consensus) and two protocols:
// the current version (LMsig + PQsig + EnforceAuthAddrSenderDiff) and v40 (legacy Lsig.Msig, no PQ).
// This part decides "valid for the CLAIMED authorizer" (SignedTxn.Authorizer(): AuthAddr, else
// Sender); that the claimed authorizer is the sender's CURRENT one is decided against ledger
// state by part e (package ledger/eval: verify.TxnGroup + BlockEvaluator.TransactionGroup).
//
// Enumerated (all keys from fixed seeds):
//   A  presence matrix: claimed authorizer in {ed25519 key, 2-of-3 multisig, PQ address} x every
//      subset of {Sig, Msig, Lsig, PQsig} (2^4), each present category the best possible one for that
//      authorizer (valid when one exists);
//   B  Sig by {sender key, auth key K, stranger} x AuthAddr {unset, K, stranger, = sender};
//   C  Msig v1 2-of-3 claimed through Sender and through AuthAddr: every subset of valid subsigs (2^3);
//      non-member key in the preimage, non-member signature in a member's slot, one valid + garbage,
//      two valid + garbage (bracketed), member duplicated in place of / in addition to another,
//      one signature copied into two slots, threshold 0/1/3, version 0/2, permuted keys, empty subsig
//      list, address != preimage (wrong sender, wrong AuthAddr); a multisig address whose preimage
//      legitimately repeats a key (recorded only);
//   D  Lsig program {approve, approve-only-this-txid, reject, error} x delegation {sender key, auth key
//      with/without AuthAddr, sender's key while AuthAddr names K, stranger, legacy Msig, LMsig
//      (2 and 1 subsigs), PQ, two delegations at once, contract account through Sender / through
//      AuthAddr, unsigned non-contract};
//   E  PQsig: right key through Sender / AuthAddr, other key's signature, other key's envelope, salt+1,
//      empty signature, no AuthAddr;
//   F  on every accepted case: every single-field mutation of the transaction (sender, fee, first/last
//      valid, note, genesis id, genesis hash, group, lease, rekey-to, receiver, amount, close-to),
//      AuthAddr set/cleared/flipped, byte flips (first, middle, last of R and of S) in every ed25519
//      signature present (Sig, each subsig, Lsig.Sig, Lsig msig subsigs), in multisig keys, in the
//      program (first/last byte), in the PQ signature / public key / salt;
//   G  on every accepted case, same txid but another authorization: each present category removed,
//      replaced by a stranger's signature, one subsig replaced, program swapped, a second category added;
//   H  the verified-transaction cache: each accepted case is verified through TxnGroup WITH a real
//      VerifiedTransactionCache, then the identical group (must hit: 55/55) and every F and G
//      presentation are looked up with GetUnverifiedTransactionGroups; groups the cache reports as
//      verified skip verification, the others go through TxnGroup — the way eval.Eval validates a
//      block. The resulting verdict must equal the oracle's (seeded change C28-A: cache no longer
//      compares AuthAddr, so "AuthAddr cleared" rides on the cached verification).
// Oracle: accepted iff exactly one category is present and it is valid for the claimed authorizer
// (an Lsig: properly delegated / contract account AND the program approves THIS transaction), and
// AuthAddr != Sender where the protocol enforces it. After a post-signing mutation: rejected — except
// that a logic signature does not sign the transaction: under an approve-everything program a
// transaction mutation that keeps the claimed authorizer is still (legitimately) accepted; the
// txid-pinning program makes the mutation rejected. Bracketed (recorded, nothing demanded): two valid
// subsigs + an invalid third (code is stricter), repeated key in a preimage, Lsig.Args changes (args
// are documented as unsigned).
//
// Not covered: groups > 1, cost-exceeding programs, byte positions other than the 6 sampled per
// signature in the quick tier (thorough: all 64 bytes, one bit each), heartbeat/state-proof special cases.
// Unexported identifiers used: none (TxnGroup, logic.NoHeaderLedger, crypto.SetEd25519BatchVerifier).
//
// Mutants (bin/mut C28 ... --only, quick tier) — all DETECTED:
//   M1 crypto/multisig.go MultisigBatchPrep: threshold compared with the number of key slots instead of
//      the number of signatures (0 or 1 subsig passes a 2-of-3)          -> part v section C (44), part e
//   M2 data/transactions/verify/txn.go: delegated Lsig.Sig verified against Txn.Sender instead of the
//      authorizer (the old key keeps authorizing after a rekey)          -> part v section D, part e pipeline
//   M3 verify/txn.go checkTxnSigTypeCounts: two categories tolerated (own) -> part v section A, part e
// Seeded changes by independent agents: C28-A (verified-txn cache no longer compares AuthAddr) MISSED by the
// first version, DETECTED since sections G/H here and the Eval-with-warm-cache pipeline of part e; C28-B
// (PaysetGroups exits before the last workset is queued) DETECTED by part p (verif_c28_p_test.go).
//   M4 ledger/eval/eval.go transaction(): authorizer compared only when the account has an AuthAddr
//      (own; a plain account accepts any self-declared AuthAddr)          -> part e stage 2 / pipeline

import (
	"encoding/hex"
	"fmt"
	"strings"
	"sync/atomic"
	"testing"

	"github.com/algorand/go-algorand/config"
	"github.com/algorand/go-algorand/crypto"
	"github.com/algorand/go-algorand/data/basics"
	"github.com/algorand/go-algorand/data/bookkeeping"
	"github.com/algorand/go-algorand/data/transactions"
	"github.com/algorand/go-algorand/data/transactions/logic"
	"github.com/algorand/go-algorand/protocol"
	ve "github.com/algorand/go-algorand/verifeng"
)

type c28case struct {
	Proto  string
	Sect   string
	Name   string
	stxn   transactions.SignedTxn
	accept bool
	demand bool   // false: bracketed, outcome recorded only
	kind   string // how the txn is bound: "txn-signed" | "lsig-any" | "lsig-pinned"
}

type c28env struct {
	ver                 protocol.ConsensusVersion
	label               string
	proto               config.ConsensusParams
	hdr                 bookkeeping.BlockHeader
	S, K, X, A, B, C, D *crypto.SignatureSecrets
	M, M2, Mother       basics.Address
	R                   basics.Address
	P, Q                crypto.FalconSigner
	pqP, pqQ            transactions.PQSig
	addrP, addrQ        basics.Address
	approve, reject, er []byte
	cases               []c28case
}

func c28key(i byte) *crypto.SignatureSecrets {
	var seed crypto.Seed
	seed[0], seed[1] = i, 0x28
	return crypto.GenerateSignatureSecrets(seed)
}

func c28addr(k *crypto.SignatureSecrets) basics.Address { return basics.Address(k.SignatureVerifier) }

func c28asm(src string) []byte {
	ops, err := logic.AssembleStringWithVersion(src, 3)
	if err != nil {
		panic(fmt.Sprintf("harness: assemble %q: %v", src, err))
	}
	return ops.Program
}

// c28msig builds a multisig by hand: slot i carries keys[i]'s public key and, when signers[i] is
// non-nil, signers[i]'s signature of msg.
func c28msig(msg crypto.Hashable, ver, thr uint8, keys []*crypto.SignatureSecrets, signers []*crypto.SignatureSecrets) crypto.MultisigSig {
	m := crypto.MultisigSig{Version: ver, Threshold: thr, Subsigs: make([]crypto.MultisigSubsig, len(keys))}
	for i, k := range keys {
		m.Subsigs[i].Key = k.SignatureVerifier
		if i < len(signers) && signers[i] != nil {
			m.Subsigs[i].Sig = signers[i].Sign(msg)
		}
	}
	return m
}

func c28msigAddr(ver, thr uint8, keys ...*crypto.SignatureSecrets) basics.Address {
	var pks []crypto.PublicKey
	for _, k := range keys {
		pks = append(pks, k.SignatureVerifier)
	}
	d, err := crypto.MultisigAddrGen(ver, thr, pks)
	if err != nil {
		panic(err)
	}
	return basics.Address(d)
}

func c28newEnv(ver protocol.ConsensusVersion, label string) *c28env {
	e := &c28env{ver: ver, proto: config.Consensus[ver], label: label}
	e.hdr = bookkeeping.BlockHeader{Round: 50, GenesisHash: crypto.Digest{0xc2, 0x8}, UpgradeState: bookkeeping.UpgradeState{CurrentProtocol: ver}}
	e.hdr.FeeSink[0], e.hdr.RewardsPool[0] = 0xf5, 0x9f
	e.S, e.K, e.X, e.A, e.B, e.C, e.D = c28key(1), c28key(2), c28key(3), c28key(4), c28key(5), c28key(6), c28key(7)
	e.M = c28msigAddr(1, 2, e.A, e.B, e.C)
	e.M2 = c28msigAddr(1, 2, e.A, e.A, e.B)
	e.Mother = c28msigAddr(1, 2, e.A, e.B, e.D)
	e.R = c28addr(c28key(9))
	mkpq := func(b byte) (crypto.FalconSigner, transactions.PQSig, basics.Address) {
		var seed crypto.FalconSeed
		seed[0], seed[1] = b, 0x28
		s, err := crypto.GenerateFalconSigner(seed)
		if err != nil {
			panic(err)
		}
		salt, addr, err := basics.CanonicalPQAddressSalt(protocol.PQSchemeFalcon1024, s.PublicKey[:])
		if err != nil {
			panic(err)
		}
		return s, transactions.PQSig{Scheme: protocol.PQSchemeFalcon1024, Salt: salt, PublicKey: append([]byte{}, s.PublicKey[:]...)}, addr
	}
	e.P, e.pqP, e.addrP = mkpq(1)
	e.Q, e.pqQ, e.addrQ = mkpq(2)
	e.approve, e.reject, e.er = c28asm("int 1"), c28asm("int 0"), c28asm("err")
	return e
}

func (e *c28env) txn(sender basics.Address) transactions.Transaction {
	return transactions.Transaction{Type: protocol.PaymentTx,
		Header:           transactions.Header{Sender: sender, Fee: basics.MicroAlgos{Raw: 10 * e.proto.MinTxnFee}, FirstValid: 40, LastValid: 60, GenesisHash: e.hdr.GenesisHash, Note: []byte("c28")},
		PaymentTxnFields: transactions.PaymentTxnFields{Receiver: e.R, Amount: basics.MicroAlgos{Raw: 1234}}}
}

func (e *c28env) pqsign(s *crypto.FalconSigner, env transactions.PQSig, msg crypto.Hashable) transactions.PQSig {
	sig, err := s.Sign(msg)
	if err != nil {
		panic(err)
	}
	env.Signature = append([]byte{}, sig...)
	return env
}

func (e *c28env) add(sect, name string, st transactions.SignedTxn, accept, demand bool, kind string) {
	e.cases = append(e.cases, c28case{Proto: e.label, Sect: sect, Name: name, stxn: st, accept: accept, demand: demand, kind: kind})
}

func (e *c28env) pinned(tx transactions.Transaction) []byte {
	id := tx.ID()
	return c28asm(fmt.Sprintf("txn TxID\nbyte 0x%s\n==", hex.EncodeToString(id[:])))
}

func (e *c28env) build() {
	pq := e.proto.PQSigEnabled()
	abc := []*crypto.SignatureSecrets{e.A, e.B, e.C}
	// lsig msig delegation available in this protocol (legacy Msig field or LMsig)
	lsigMsig := func(lsig *transactions.LogicSig, addr basics.Address, keys, signers []*crypto.SignatureSecrets, thr uint8, legacy bool) {
		if legacy {
			lsig.Msig = c28msig(logic.Program(lsig.Logic), 1, thr, keys, signers)
		} else {
			lsig.LMsig = c28msig(logic.MultisigProgram{Addr: crypto.Digest(addr), Program: lsig.Logic}, 1, thr, keys, signers)
		}
	}
	useLegacy := e.proto.LogicSigMsig && !e.proto.LogicSigLMsig

	// ---- A: presence matrix
	for _, auth := range []string{"ed", "msig", "pq"} {
		sender := map[string]basics.Address{"ed": c28addr(e.S), "msig": e.M, "pq": e.addrP}[auth]
		for mask := 0; mask < 16; mask++ {
			tx := e.txn(sender)
			st := transactions.SignedTxn{Txn: tx}
			var present []string
			valid := map[string]bool{}
			if mask&1 != 0 {
				st.Sig = e.S.Sign(tx)
				present = append(present, "Sig")
				valid["Sig"] = auth == "ed"
			}
			if mask&2 != 0 {
				st.Msig = c28msig(tx, 1, 2, abc, []*crypto.SignatureSecrets{e.A, e.B, nil})
				present = append(present, "Msig")
				valid["Msig"] = auth == "msig"
			}
			if mask&4 != 0 {
				st.Lsig.Logic = e.approve
				switch auth {
				case "ed":
					st.Lsig.Sig = e.S.Sign(logic.Program(e.approve))
					valid["Lsig"] = true
				case "msig":
					lsigMsig(&st.Lsig, e.M, abc, []*crypto.SignatureSecrets{e.A, e.B, nil}, 2, useLegacy)
					valid["Lsig"] = e.proto.LogicSigMsig || e.proto.LogicSigLMsig
				case "pq":
					st.Lsig.PQsig = e.pqsign(&e.P, e.pqP, logic.PQDelegatedProgram{Addr: e.addrP, Program: e.approve})
					valid["Lsig"] = pq
				}
				present = append(present, "Lsig")
			}
			if mask&8 != 0 {
				st.PQsig = e.pqsign(&e.P, e.pqP, tx)
				present = append(present, "PQsig")
				valid["PQsig"] = auth == "pq" && pq
			}
			accept := len(present) == 1 && valid[present[0]]
			if !pq && (mask&8 != 0 || (mask&4 != 0 && auth == "pq")) {
				accept = false // any PQ material is rejected before the protocol enables it
			}
			kind := "txn-signed"
			if accept && present[0] == "Lsig" {
				kind = "lsig-any"
			}
			e.add("A", fmt.Sprintf("authorizer=%s present=%v", auth, present), st, accept, true, kind)
		}
	}

	// ---- B: single signature
	sAddr := c28addr(e.S)
	for _, signer := range []struct {
		n string
		k *crypto.SignatureSecrets
	}{{"sender-key", e.S}, {"auth-key", e.K}, {"stranger", e.X}} {
		for _, aa := range []struct {
			n string
			a basics.Address
		}{{"unset", basics.Address{}}, {"K", c28addr(e.K)}, {"stranger", c28addr(e.X)}, {"=sender", sAddr}} {
			tx := e.txn(sAddr)
			st := transactions.SignedTxn{Txn: tx, Sig: signer.k.Sign(tx), AuthAddr: aa.a}
			accept := c28addr(signer.k) == st.Authorizer()
			if aa.a == sAddr && e.proto.EnforceAuthAddrSenderDiff {
				accept = false
			}
			e.add("B", fmt.Sprintf("Sig by %s, AuthAddr %s", signer.n, aa.n), st, accept, true, "txn-signed")
		}
	}

	// ---- C: multisig
	for _, via := range []string{"sender", "authaddr"} {
		sender, aa := e.M, basics.Address{}
		if via == "authaddr" {
			sender, aa = sAddr, e.M
		}
		tx := e.txn(sender)
		mk := func(m crypto.MultisigSig) transactions.SignedTxn {
			return transactions.SignedTxn{Txn: tx, Msig: m, AuthAddr: aa}
		}
		ve.Subsets(3, func(mask uint) {
			signers := make([]*crypto.SignatureSecrets, 3)
			n := 0
			for i := 0; i < 3; i++ {
				if mask&(1<<uint(i)) != 0 {
					signers[i] = abc[i]
					n++
				}
			}
			e.add("C", fmt.Sprintf("msig via %s, valid subsigs %03b", via, mask), mk(c28msig(tx, 1, 2, abc, signers)), n >= 2, true, "txn-signed")
		})
		garbage := func(m crypto.MultisigSig, slot int) crypto.MultisigSig {
			for i := range m.Subsigs[slot].Sig {
				m.Subsigs[slot].Sig[i] = byte(0x5a + i)
			}
			return m
		}
		e.add("C", "msig via "+via+": non-member key in preimage [A,B,D], A+D sign", mk(c28msig(tx, 1, 2, []*crypto.SignatureSecrets{e.A, e.B, e.D}, []*crypto.SignatureSecrets{e.A, nil, e.D})), false, true, "")
		e.add("C", "msig via "+via+": non-member D signs in C's slot, A valid", mk(c28msig(tx, 1, 2, abc, []*crypto.SignatureSecrets{e.A, nil, e.D})), false, true, "")
		e.add("C", "msig via "+via+": A valid + garbage in B's slot", mk(garbage(c28msig(tx, 1, 2, abc, []*crypto.SignatureSecrets{e.A, nil, nil}), 1)), false, true, "")
		e.add("C", "msig via "+via+": A,B valid + garbage in C's slot (bracketed)", mk(garbage(c28msig(tx, 1, 2, abc, []*crypto.SignatureSecrets{e.A, e.B, nil}), 2)), false, false, "")
		e.add("C", "msig via "+via+": member duplicated in place of C [A,B,A]", mk(c28msig(tx, 1, 2, []*crypto.SignatureSecrets{e.A, e.B, e.A}, []*crypto.SignatureSecrets{e.A, nil, e.A})), false, true, "")
		e.add("C", "msig via "+via+": member duplicated in addition [A,B,C,A]", mk(c28msig(tx, 1, 2, []*crypto.SignatureSecrets{e.A, e.B, e.C, e.A}, []*crypto.SignatureSecrets{e.A, nil, nil, e.A})), false, true, "")
		e.add("C", "msig via "+via+": A's signature copied into B's slot", mk(c28msig(tx, 1, 2, abc, []*crypto.SignatureSecrets{e.A, e.A, nil})), false, true, "")
		e.add("C", "msig via "+via+": threshold 1, one subsig", mk(c28msig(tx, 1, 1, abc, []*crypto.SignatureSecrets{e.A, nil, nil})), false, true, "")
		e.add("C", "msig via "+via+": threshold 0, two subsigs", mk(c28msig(tx, 1, 0, abc, []*crypto.SignatureSecrets{e.A, e.B, nil})), false, true, "")
		e.add("C", "msig via "+via+": threshold 3, three subsigs", mk(c28msig(tx, 1, 3, abc, abc)), false, true, "")
		e.add("C", "msig via "+via+": version 0", mk(c28msig(tx, 0, 2, abc, []*crypto.SignatureSecrets{e.A, e.B, nil})), false, true, "")
		e.add("C", "msig via "+via+": version 2", mk(c28msig(tx, 2, 2, abc, []*crypto.SignatureSecrets{e.A, e.B, nil})), false, true, "")
		e.add("C", "msig via "+via+": keys permuted [B,A,C]", mk(c28msig(tx, 1, 2, []*crypto.SignatureSecrets{e.B, e.A, e.C}, []*crypto.SignatureSecrets{e.B, e.A, nil})), false, true, "")
		e.add("C", "msig via "+via+": no subsigs", mk(crypto.MultisigSig{Version: 1, Threshold: 2}), false, true, "")
	}
	{
		tx := e.txn(c28addr(e.X))
		e.add("C", "msig for M but sender is a stranger address", transactions.SignedTxn{Txn: tx, Msig: c28msig(tx, 1, 2, abc, []*crypto.SignatureSecrets{e.A, e.B, nil})}, false, true, "")
		tx = e.txn(sAddr)
		e.add("C", "msig for M but AuthAddr names another multisig", transactions.SignedTxn{Txn: tx, AuthAddr: e.Mother, Msig: c28msig(tx, 1, 2, abc, []*crypto.SignatureSecrets{e.A, e.B, nil})}, false, true, "")
		tx = e.txn(e.M2)
		aab := []*crypto.SignatureSecrets{e.A, e.A, e.B}
		e.add("C", "preimage [A,A,B]: A signs both of its slots (bracketed)", transactions.SignedTxn{Txn: tx, Msig: c28msig(tx, 1, 2, aab, []*crypto.SignatureSecrets{e.A, e.A, nil})}, true, false, "")
		e.add("C", "preimage [A,A,B]: A signs one slot only", transactions.SignedTxn{Txn: tx, Msig: c28msig(tx, 1, 2, aab, []*crypto.SignatureSecrets{e.A, nil, nil})}, false, true, "")
	}

	// ---- D: logic signatures
	type prog struct {
		n       string
		approve bool
		pinned  bool
		code    func(tx transactions.Transaction) []byte
	}
	progs := []prog{
		{"approve", true, false, func(transactions.Transaction) []byte { return e.approve }},
		{"approve-this-txid", true, true, e.pinned},
		{"reject", false, false, func(transactions.Transaction) []byte { return e.reject }},
		{"error", false, false, func(transactions.Transaction) []byte { return e.er }},
	}
	for _, p := range progs {
		kind := "lsig-any"
		if p.pinned {
			kind = "lsig-pinned"
		}
		ed := func(name string, sender, aa basics.Address, signer *crypto.SignatureSecrets, valid bool) {
			tx := e.txn(sender)
			code := p.code(tx)
			st := transactions.SignedTxn{Txn: tx, AuthAddr: aa, Lsig: transactions.LogicSig{Logic: code}}
			if signer != nil {
				st.Lsig.Sig = signer.Sign(logic.Program(code))
			}
			e.add("D", fmt.Sprintf("lsig %s, %s", p.n, name), st, valid && p.approve, true, kind)
		}
		ed("delegated by sender key", sAddr, basics.Address{}, e.S, true)
		ed("delegated by auth key K, AuthAddr=K", sAddr, c28addr(e.K), e.K, true)
		ed("delegated by K, AuthAddr unset", sAddr, basics.Address{}, e.K, false)
		ed("delegated by sender key while AuthAddr=K", sAddr, c28addr(e.K), e.S, false)
		ed("delegated by stranger", sAddr, basics.Address{}, e.X, false)
		ed("unsigned, sender is not the contract", sAddr, basics.Address{}, nil, false)
		for _, legacy := range []bool{true, false} {
			for _, nsig := range []int{2, 1} {
				tx := e.txn(e.M)
				code := p.code(tx)
				st := transactions.SignedTxn{Txn: tx, Lsig: transactions.LogicSig{Logic: code}}
				signers := []*crypto.SignatureSecrets{e.A, e.B, nil}
				if nsig == 1 {
					signers = []*crypto.SignatureSecrets{e.A, nil, nil}
				}
				lsigMsig(&st.Lsig, e.M, abc, signers, 2, legacy)
				enabled := (legacy && e.proto.LogicSigMsig) || (!legacy && e.proto.LogicSigLMsig)
				e.add("D", fmt.Sprintf("lsig %s, multisig-delegated (legacy-field=%v, %d subsigs)", p.n, legacy, nsig), st, enabled && nsig == 2 && p.approve, true, kind)
			}
		}
		{
			tx := e.txn(e.addrP)
			code := p.code(tx)
			st := transactions.SignedTxn{Txn: tx, Lsig: transactions.LogicSig{Logic: code}}
			st.Lsig.PQsig = e.pqsign(&e.P, e.pqP, logic.PQDelegatedProgram{Addr: e.addrP, Program: code})
			e.add("D", fmt.Sprintf("lsig %s, PQ-delegated", p.n), st, pq && p.approve, true, kind)
			st2 := st
			st2.Lsig.PQsig = e.pqsign(&e.Q, e.pqQ, logic.PQDelegatedProgram{Addr: e.addrP, Program: code})
			e.add("D", fmt.Sprintf("lsig %s, PQ-delegated by another PQ key", p.n), st2, false, true, kind)
		}
		{
			tx := e.txn(sAddr)
			code := p.code(tx)
			st := transactions.SignedTxn{Txn: tx, Lsig: transactions.LogicSig{Logic: code, Sig: e.S.Sign(logic.Program(code))}}
			lsigMsig(&st.Lsig, e.M, abc, []*crypto.SignatureSecrets{e.A, e.B, nil}, 2, useLegacy)
			e.add("D", fmt.Sprintf("lsig %s, two delegation signatures", p.n), st, false, true, kind)
		}
		// contract accounts. The txid-pinning program cannot be its own sender (circular), so the
		// through-Sender form exists for the fixed programs only.
		if !p.pinned {
			code := p.code(transactions.Transaction{})
			laddr := basics.Address(logic.HashProgram(code))
			tx := e.txn(laddr)
			e.add("D", fmt.Sprintf("lsig %s, contract account is the sender", p.n), transactions.SignedTxn{Txn: tx, Lsig: transactions.LogicSig{Logic: code}}, p.approve, true, kind)
			tx = e.txn(c28addr(e.X))
			e.add("D", fmt.Sprintf("lsig %s, contract program but sender is another address", p.n), transactions.SignedTxn{Txn: tx, Lsig: transactions.LogicSig{Logic: code}}, false, true, kind)
		}
		{
			tx := e.txn(sAddr)
			code := p.code(tx)
			laddr := basics.Address(logic.HashProgram(code))
			e.add("D", fmt.Sprintf("lsig %s, contract account through AuthAddr", p.n), transactions.SignedTxn{Txn: tx, AuthAddr: laddr, Lsig: transactions.LogicSig{Logic: code}}, p.approve, true, kind)
			e.add("D", fmt.Sprintf("lsig %s, contract program, AuthAddr names K", p.n), transactions.SignedTxn{Txn: tx, AuthAddr: c28addr(e.K), Lsig: transactions.LogicSig{Logic: code}}, false, true, kind)
		}
	}

	// ---- E: PQ signatures
	{
		tx := e.txn(e.addrP)
		e.add("E", "PQsig by the sender's PQ key", transactions.SignedTxn{Txn: tx, PQsig: e.pqsign(&e.P, e.pqP, tx)}, pq, true, "txn-signed")
		e.add("E", "PQsig: P's envelope, signature made by Q", transactions.SignedTxn{Txn: tx, PQsig: e.pqsign(&e.Q, e.pqP, tx)}, false, true, "")
		e.add("E", "PQsig: Q's envelope and signature, sender is P's address", transactions.SignedTxn{Txn: tx, PQsig: e.pqsign(&e.Q, e.pqQ, tx)}, false, true, "")
		salted := e.pqsign(&e.P, e.pqP, tx)
		salted.Salt++
		e.add("E", "PQsig: salt+1", transactions.SignedTxn{Txn: tx, PQsig: salted}, false, true, "")
		empty := e.pqP
		e.add("E", "PQsig: empty signature", transactions.SignedTxn{Txn: tx, PQsig: empty}, false, true, "")
		tx = e.txn(sAddr)
		e.add("E", "PQsig through AuthAddr", transactions.SignedTxn{Txn: tx, AuthAddr: e.addrP, PQsig: e.pqsign(&e.P, e.pqP, tx)}, pq, true, "txn-signed")
		e.add("E", "PQsig, ed25519 sender, no AuthAddr", transactions.SignedTxn{Txn: tx, PQsig: e.pqsign(&e.P, e.pqP, tx)}, false, true, "")
	}
}

func c28flipSig(s *crypto.Signature, where int) { s[where] ^= 0x04 }

// c28sigPos: byte positions flipped in every ed25519 signature: first/middle/last of R and of S in the
// quick tier, all 64 bytes in the thorough tier.
var c28sigPos = func() []int {
	if !ve.Thorough() {
		return []int{0, 15, 31, 32, 47, 63}
	}
	var all []int
	for i := 0; i < 64; i++ {
		all = append(all, i)
	}
	return all
}()

// mutations derives section F from an accepted, demanded case.
func (e *c28env) mutations(c c28case) []c28case {
	var out []c28case
	orig := c.stxn
	add := func(name string, st transactions.SignedTxn, accept, demand bool) {
		out = append(out, c28case{Proto: c.Proto, Sect: "F", Name: "[" + c.Sect + ": " + c.Name + "] " + name, stxn: st, accept: accept, demand: demand, kind: c.kind})
	}
	// --- transaction fields
	type tm struct {
		n string
		f func(*transactions.Transaction)
	}
	tms := []tm{
		{"sender", func(t *transactions.Transaction) { t.Sender = c28addr(e.D) }},
		{"fee+1", func(t *transactions.Transaction) { t.Fee.Raw++ }},
		{"firstvalid+1", func(t *transactions.Transaction) { t.FirstValid++ }},
		{"lastvalid+1", func(t *transactions.Transaction) { t.LastValid++ }},
		{"note", func(t *transactions.Transaction) { t.Note = append(append([]byte{}, t.Note...), '!') }},
		{"genesisid", func(t *transactions.Transaction) { t.GenesisID = "c28-net" }},
		{"genesishash", func(t *transactions.Transaction) { t.GenesisHash[31] ^= 1 }},
		{"group", func(t *transactions.Transaction) {
			t.Group = crypto.Digest{}
			t.Group = crypto.HashObj(transactions.TxGroup{TxGroupHashes: []crypto.Digest{crypto.Digest(t.ID())}})
		}},
		{"lease", func(t *transactions.Transaction) { t.Lease[7] ^= 1 }},
		{"rekeyto", func(t *transactions.Transaction) { t.RekeyTo = c28addr(e.X) }},
		{"receiver", func(t *transactions.Transaction) { t.Receiver = c28addr(e.X) }},
		{"amount+1", func(t *transactions.Transaction) { t.Amount.Raw++ }},
		{"closeto", func(t *transactions.Transaction) { t.CloseRemainderTo = c28addr(e.X) }},
	}
	for _, m := range tms {
		st := orig
		m.f(&st.Txn)
		accept := false
		if c.kind == "lsig-any" {
			// nothing signs the transaction: the approve-everything program still approves, provided
			// the claimed authorizer (which the delegation / contract hash is bound to) is unchanged
			accept = st.Authorizer() == orig.Authorizer()
		}
		add("txn."+m.n, st, accept, true)
	}
	// --- AuthAddr
	if orig.AuthAddr.IsZero() {
		st := orig
		st.AuthAddr = c28addr(e.D)
		add("authaddr set", st, false, true)
	} else {
		st := orig
		st.AuthAddr = basics.Address{}
		// AuthAddr is not signed; clearing it matters because it changes the claimed authorizer
		// (it does not when AuthAddr merely repeated the sender, legal before EnforceAuthAddrSenderDiff)
		add("authaddr cleared", st, st.Authorizer() == orig.Authorizer(), true)
		st = orig
		st.AuthAddr[13] ^= 1
		add("authaddr flipped", st, false, true)
	}
	// --- signatures
	if !orig.Sig.Blank() {
		for _, p := range c28sigPos {
			st := orig
			c28flipSig(&st.Sig, p)
			add(fmt.Sprintf("sig byte %d", p), st, false, true)
		}
	}
	flipMsig := func(get func(*transactions.SignedTxn) *crypto.MultisigSig, label string) {
		if get(&orig).Blank() {
			return
		}
		for slot := range get(&orig).Subsigs {
			st := orig
			m := get(&st)
			m.Subsigs = append([]crypto.MultisigSubsig{}, m.Subsigs...)
			m.Subsigs[slot].Key[3] ^= 1
			add(fmt.Sprintf("%s key[%d] flipped", label, slot), st, false, true)
			if get(&orig).Subsigs[slot].Sig.Blank() {
				continue
			}
			for _, p := range c28sigPos {
				st := orig
				m := get(&st)
				m.Subsigs = append([]crypto.MultisigSubsig{}, m.Subsigs...)
				c28flipSig(&m.Subsigs[slot].Sig, p)
				add(fmt.Sprintf("%s subsig[%d] byte %d", label, slot, p), st, false, true)
			}
		}
		st := orig
		get(&st).Threshold--
		add(label+" threshold-1", st, false, true)
		st = orig
		get(&st).Version++
		add(label+" version+1", st, false, true)
	}
	flipMsig(func(s *transactions.SignedTxn) *crypto.MultisigSig { return &s.Msig }, "msig")
	flipMsig(func(s *transactions.SignedTxn) *crypto.MultisigSig { return &s.Lsig.Msig }, "lsig.msig")
	flipMsig(func(s *transactions.SignedTxn) *crypto.MultisigSig { return &s.Lsig.LMsig }, "lsig.lmsig")
	if orig.Lsig.HasProgram() {
		if !orig.Lsig.Sig.Blank() {
			for _, p := range c28sigPos {
				st := orig
				c28flipSig(&st.Lsig.Sig, p)
				add(fmt.Sprintf("lsig.sig byte %d", p), st, false, true)
			}
		}
		for _, pos := range []int{0, len(orig.Lsig.Logic) - 1} {
			st := orig
			st.Lsig.Logic = append([]byte{}, orig.Lsig.Logic...)
			st.Lsig.Logic[pos] ^= 1
			add(fmt.Sprintf("lsig program byte %d", pos), st, false, true)
		}
		st := orig
		st.Lsig.Args = [][]byte{{1}}
		add("lsig args added (bracketed: args are unsigned)", st, true, false)
	}
	flipPQ := func(get func(*transactions.SignedTxn) *transactions.PQSig, label string) {
		if get(&orig).Blank() {
			return
		}
		n := len(get(&orig).Signature)
		for _, pos := range []int{0, 1, n / 2, n - 1} {
			st := orig
			q := get(&st)
			q.Signature = append([]byte{}, q.Signature...)
			q.Signature[pos] ^= 0x04
			add(fmt.Sprintf("%s signature byte %d/%d", label, pos, n), st, false, pos != n-1)
		}
		for _, pos := range []int{0, len(get(&orig).PublicKey) / 2, len(get(&orig).PublicKey) - 1} {
			st := orig
			q := get(&st)
			q.PublicKey = append([]byte{}, q.PublicKey...)
			q.PublicKey[pos] ^= 0x04
			add(fmt.Sprintf("%s public key byte %d", label, pos), st, false, true)
		}
		st := orig
		get(&st).Salt++
		add(label+" salt+1", st, false, true)
	}
	flipPQ(func(s *transactions.SignedTxn) *transactions.PQSig { return &s.PQsig }, "pqsig")
	flipPQ(func(s *transactions.SignedTxn) *transactions.PQSig { return &s.Lsig.PQsig }, "lsig.pqsig")
	return out
}

// swaps derives "authorization swapped / removed / added" presentations of an accepted case: same
// transaction (same txid), different authorization material.
func (e *c28env) swaps(c c28case) []c28case {
	var out []c28case
	orig := c.stxn
	add := func(name string, st transactions.SignedTxn, accept bool) {
		out = append(out, c28case{Proto: c.Proto, Sect: "G", Name: "[" + c.Sect + ": " + c.Name + "] " + name, stxn: st, accept: accept, demand: true, kind: c.kind})
	}
	xsig := e.X.Sign(orig.Txn)
	if xsig == orig.Sig { // the case is itself signed by X: use another stranger
		xsig = e.D.Sign(orig.Txn)
	}
	if !orig.Sig.Blank() {
		st := orig
		st.Sig = crypto.Signature{}
		add("sig removed", st, false)
		st = orig
		st.Sig = xsig
		add("sig replaced by a stranger's signature", st, false)
	} else {
		st := orig
		st.Sig = xsig
		add("stranger's sig added as a second category", st, false)
	}
	if !orig.Msig.Blank() {
		st := orig
		st.Msig = crypto.MultisigSig{}
		add("msig removed", st, false)
		st = orig
		st.Msig.Subsigs = append([]crypto.MultisigSubsig{}, orig.Msig.Subsigs...)
		for i := range st.Msig.Subsigs {
			if !st.Msig.Subsigs[i].Sig.Blank() {
				st.Msig.Subsigs[i].Sig = xsig
				break
			}
		}
		add("one subsig replaced by a stranger's signature", st, false)
	}
	if orig.Lsig.HasProgram() {
		st := orig
		st.Lsig = transactions.LogicSig{}
		add("lsig removed", st, false)
		st = orig
		st.Lsig.Logic = e.reject
		add("lsig program swapped for the rejecting one", st, false)
		if !orig.Lsig.Sig.Blank() {
			st = orig
			st.Lsig.Sig = e.X.Sign(logic.Program(orig.Lsig.Logic))
			add("lsig delegation replaced by a stranger's", st, false)
		}
	} else {
		st := orig
		st.Lsig = transactions.LogicSig{Logic: e.approve}
		add("approving lsig added as a second category", st, false)
	}
	if !orig.PQsig.Blank() {
		st := orig
		st.PQsig = transactions.PQSig{}
		add("pqsig removed", st, false)
	}
	return out
}

func TestVerif_C28_v(t *testing.T) {
	r := ve.NewRun("C28", "exploration")
	r.Assume("part v decides validity for the CLAIMED authorizer (AuthAddr, else Sender); that it equals the sender's current authorizer in the ledger is part e")
	r.Assume("a logic signature binds the program, not the transaction: post-signing transaction mutations are demanded to be rejected only for Sig/Msig/PQsig and for the txid-pinning program")
	r.Assume("bracketed (recorded only): two valid subsigs plus an invalid third, repeated key in a multisig preimage, Lsig.Args changes, the last byte of a Falcon compressed signature (padding bits)")
	defer crypto.SetEd25519BatchVerifier(false)

	var all []c28case
	envs := map[string]*c28env{}
	for _, pv := range []struct {
		label string
		ver   protocol.ConsensusVersion
	}{{"current", protocol.ConsensusCurrentVersion}, {"v40", protocol.ConsensusV40}} {
		ver := pv.label
		e := c28newEnv(pv.ver, pv.label)
		e.build()
		envs[pv.label] = e
		all = append(all, e.cases...)
		nAcc := 0
		for _, c := range e.cases {
			if c.accept && c.demand {
				all = append(all, e.mutations(c)...)
				nAcc++
			}
		}
		r.Set("base_cases_"+ver, len(e.cases))
		r.Set("accepted_base_cases_"+ver, nAcc)
	}
	total := 0
	for _, consensusBV := range []bool{false, true} {
		crypto.SetEd25519BatchVerifier(consensusBV)
		bv := map[bool]string{false: "libsodium", true: "ed25519consensus"}[consensusBV]
		visited := r.ParallelFor(len(all), func(i int) {
			c := all[i]
			e := envs[c.Proto]
			hdr := e.hdr
			_, err := TxnGroup([]transactions.SignedTxn{c.stxn}, &hdr, nil, &logic.NoHeaderLedger{})
			r.Eval()
			got := err == nil
			outcome := "rejected"
			if got {
				outcome = "accepted"
			}
			sect := c.Sect
			if c.Sect == "F" {
				sect = "F/" + c.kind
			}
			if !c.demand {
				r.Class(fmt.Sprintf("v/%s/%s/bracketed/%s", c.Proto, sect, outcome))
				lbl := c.Name
				if k := strings.LastIndex(lbl, "] "); k >= 0 {
					lbl = lbl[k+2:]
				}
				lbl = strings.Map(func(c rune) rune {
					if c >= '0' && c <= '9' || c == '/' {
						return -1
					}
					return c
				}, lbl)
				if len(lbl) > 28 {
					lbl = lbl[:28]
				}
				r.Add("bracketed["+lbl+"]_"+outcome, 1)
				return
			}
			r.Class(fmt.Sprintf("v/%s/%s/%s", c.Proto, sect, outcome))
			if i%211 == 0 {
				r.Sample(map[string]any{"part": "v", "protocol": c.Proto, "verifier": bv, "case": c.Name, "outcome": outcome})
			}
			if got != c.accept {
				r.Report(fmt.Sprintf("C28:verify:%s:expected-%v", c.Sect, c.accept),
					fmt.Sprintf("protocol %s, %s batch verifier, section %s: %s -> TxnGroup accepted=%v (err %v), oracle says accepted=%v", c.Proto, bv, c.Sect, c.Name, got, err, c.accept),
					map[string]any{"engine": "enum", "part": "v", "protocol": c.Proto, "verifier": bv, "section": c.Sect, "case": c.Name})
			}
		})
		total += int(visited)
	}

	// ---- H: the verified-transaction cache must not launder a changed authorization.
	// For every accepted case: verify + cache it through the real TxnGroup(cache) path, then present
	// the identical group (must hit) and every post-signing presentation (sections F and G) with the
	// cache warm, exactly as eval.Eval does: groups GetUnverifiedTransactionGroups reports as verified
	// skip signature verification, the others are verified from scratch.
	crypto.SetEd25519BatchVerifier(false)
	type c28warm struct {
		base  c28case
		pres  []c28case
		label string
	}
	var warm []c28warm
	for _, lab := range []string{"current", "v40"} {
		e := envs[lab]
		for _, c := range e.cases {
			if c.accept && c.demand {
				warm = append(warm, c28warm{base: c, pres: append(e.mutations(c), e.swaps(c)...), label: lab})
			}
		}
	}
	var cacheEvals, cacheTotal int64
	for _, w := range warm {
		cacheTotal += int64(len(w.pres) + 1)
	}
	visitedH := r.ParallelFor(len(warm), func(i int) {
		w := warm[i]
		e := envs[w.label]
		hdr := e.hdr
		spec := transactions.SpecialAddresses{FeeSink: hdr.FeeSink, RewardsPool: hdr.RewardsPool}
		cache := MakeVerifiedTransactionCache(64)
		if _, err := TxnGroup([]transactions.SignedTxn{w.base.stxn}, &hdr, cache, &logic.NoHeaderLedger{}); err != nil {
			r.Report("C28:cache:warmup-rejected", fmt.Sprintf("protocol %s: accepted case %q rejected when verified with a cache: %v", w.label, w.base.Name, err), map[string]any{"part": "v", "section": "H", "case": w.base.Name})
			return
		}
		n := 1
		if unv := cache.GetUnverifiedTransactionGroups([][]transactions.SignedTxn{{w.base.stxn}}, spec, hdr.CurrentProtocol); len(unv) == 0 {
			r.Add("cache_hits_on_identical_group", 1)
			r.Class("v/H/identical/hit")
		} else {
			r.Add("cache_misses_on_identical_group", 1)
			r.Class("v/H/identical/miss")
		}
		for _, m := range w.pres {
			n++
			unv := cache.GetUnverifiedTransactionGroups([][]transactions.SignedTxn{{m.stxn}}, spec, hdr.CurrentProtocol)
			cacheSaysVerified := len(unv) == 0
			accepted := cacheSaysVerified
			if !cacheSaysVerified {
				_, err := TxnGroup([]transactions.SignedTxn{m.stxn}, &hdr, nil, &logic.NoHeaderLedger{})
				accepted = err == nil
			}
			if cacheSaysVerified {
				r.Add("cache_reports_changed_group_as_verified", 1)
			}
			if !m.demand {
				r.Class(fmt.Sprintf("v/H/%s/bracketed/cache-verified=%v", m.Sect, cacheSaysVerified))
				continue
			}
			r.Class(fmt.Sprintf("v/H/%s/%s/cache-verified=%v/accepted=%v", m.Sect, m.kind, cacheSaysVerified, accepted))
			if accepted != m.accept {
				r.Report(fmt.Sprintf("C28:cache:%s:expected-%v", m.Sect, m.accept),
					fmt.Sprintf("protocol %s, warm verified-transaction cache: %s -> cache reports verified=%v, pipeline (cache, else TxnGroup) accepted=%v, oracle says accepted=%v", w.label, m.Name, cacheSaysVerified, accepted, m.accept),
					map[string]any{"engine": "enum", "part": "v", "section": "H", "protocol": w.label, "case": m.Name})
			}
		}
		r.EvalN(n)
		atomic.AddInt64(&cacheEvals, int64(n))
	})
	r.Set("cache_presentations", cacheTotal)
	cov := ve.Coverage{
		Rule:       fmt.Sprintf("part v: %d signed-transaction cases (2 protocols x {2^4 presence matrix x 3 authorizer kinds, Sig x AuthAddr grid, 2-of-3 multisig: all 2^3 subsig subsets + 16 malformed variants x 2 claim routes, Lsig 4 programs x 15 delegation forms, PQsig forms} + every single-field / signature-byte mutation of each accepted case), each through verify.TxnGroup under both ed25519 batch verifiers; plus %d presentations (identical group, every mutation, authorization swapped/removed/added) against a verified-transaction cache warmed with the accepted case (GetUnverifiedTransactionGroups, then TxnGroup for the unverified ones, as eval.Eval does)", len(all), cacheTotal),
		Exhaustive: total == 2*len(all) && visitedH == int64(len(warm)) && atomic.LoadInt64(&cacheEvals) == cacheTotal,
	}
	if n := r.Finish(cov); n > 0 {
		t.Fatalf("C28 part v: %d violation(s)", n)
	}
}
