package testsuite

// Plain unit tests (no explorer) reproducing every disagreement class that TestVerif_C47
// reports on the unchanged tree between the SQLite tracker store and the Pebble/generickv
// tracker store. Copy this file into ledger/store/trackerdb/testsuite/ and run
//   go test -run 'TestReproC47' ./ledger/store/trackerdb/testsuite/
// Every subtest asserts that the two backends AGREE, so it FAILS on the current tree and
// passes once the named behaviour is made identical. The subtest name is the violation key.
//
// Root causes (details in README.md):
//   R1 generickv "TODO: catchpoint" bodies silently return zero values
//   R2 generickv LookupKeysByPrefix / LookupKeysByPrefixCursor scan the raw key space
//      without the "xc-" application-kv prefix (and do not refuse "strange" prefixes)
//   R3 generickv AccountsOnlineTop iterates the (round, balance, address) index: round-major
//      order, offline rows included, older rows of the same account not skipped
//   R4 generickv OnlineAccountsDelete treats forgetBefore as inclusive
//   R5 sqlitedriver LookupOnlineHistory fails for an address without rows (LEFT JOIN row of NULLs)
//   R6 OnlineAccountsAll: generickv fills Round with the db round, sqlitedriver leaves 0
//   R7 generickv UpdateAccountsRound accepts a lower round, sqlitedriver refuses it

import (
	"context"
	"testing"

	"github.com/stretchr/testify/require"

	"github.com/algorand/go-algorand/config"
	"github.com/algorand/go-algorand/data/basics"
	"github.com/algorand/go-algorand/ledger/ledgercore"
	"github.com/algorand/go-algorand/ledger/store/trackerdb"
	"github.com/algorand/go-algorand/ledger/store/trackerdb/pebbledbdriver"
	"github.com/algorand/go-algorand/ledger/store/trackerdb/sqlitedriver"
	"github.com/algorand/go-algorand/protocol"
)

func reproC47Open(t *testing.T) (sq, kv trackerdb.Store) {
	sq, _ = sqlitedriver.OpenForTesting(t, true)
	kv = pebbledbdriver.OpenForTesting(t, true)
	seedDb(t, sq)
	seedDb(t, kv)
	t.Cleanup(func() { sq.Close(); kv.Close() })
	return
}

// reproC47Both runs the same write transaction on both stores.
func reproC47Both(t *testing.T, sq, kv trackerdb.Store, fn func(tx trackerdb.TransactionScope) error) (errSq, errKv error) {
	errSq = sq.Transaction(func(ctx context.Context, tx trackerdb.TransactionScope) error { return fn(tx) })
	errKv = kv.Transaction(func(ctx context.Context, tx trackerdb.TransactionScope) error { return fn(tx) })
	return
}

var reproC47A = basics.Address{0x0a, 1}
var reproC47B = basics.Address{0x0b, 1}

func reproC47Online(stake uint64) trackerdb.BaseOnlineAccountData {
	var d trackerdb.BaseOnlineAccountData
	if stake > 0 {
		d.MicroAlgos = basics.MicroAlgos{Raw: stake}
		d.VoteFirstValid, d.VoteLastValid, d.VoteKeyDilution = 1, 50, 10
		d.VoteID[0] = 1
	}
	return d
}

func reproC47InsertOnline(t *testing.T, sq, kv trackerdb.Store, addr basics.Address, stake uint64, rnd uint64) {
	proto := config.Consensus[protocol.ConsensusCurrentVersion]
	e1, e2 := reproC47Both(t, sq, kv, func(tx trackerdb.TransactionScope) error {
		w, err := tx.MakeOnlineAccountsOptimizedWriter(true)
		require.NoError(t, err)
		defer w.Close()
		d := reproC47Online(stake)
		_, err = w.InsertOnlineAccount(addr, d.NormalizedOnlineBalance(proto.RewardUnit), d, rnd, uint64(d.VoteLastValid))
		return err
	})
	require.NoError(t, e1)
	require.NoError(t, e2)
}

// R1 -------------------------------------------------------------------------------------------
func TestReproC47_R1_KVStubs(t *testing.T) {
	sq, kv := reproC47Open(t)
	proto := config.Consensus[protocol.ConsensusCurrentVersion]
	e1, e2 := reproC47Both(t, sq, kv, func(tx trackerdb.TransactionScope) error {
		w, err := tx.MakeAccountsOptimizedWriter(true, true, true, true)
		require.NoError(t, err)
		defer w.Close()
		acct := trackerdb.BaseAccountData{MicroAlgos: basics.MicroAlgos{Raw: 1000}, UpdateRound: 1}
		ref, err := w.InsertAccount(reproC47A, acct.NormalizedOnlineBalance(proto.RewardUnit), acct)
		require.NoError(t, err)
		_, err = w.InsertResource(ref, 1, trackerdb.ResourcesData{Amount: 5})
		require.NoError(t, err)
		require.NoError(t, w.UpsertKvPair("a", []byte("1")))
		aw, err := tx.MakeAccountsWriter()
		require.NoError(t, err)
		return aw.UpdateAccountsHashRound(context.Background(), 7)
	})
	require.NoError(t, e1)
	require.NoError(t, e2)
	reproC47InsertOnline(t, sq, kv, reproC47A, 1_000_000, 1)

	rs, err := sq.MakeAccountsReader()
	require.NoError(t, err)
	rk, err := kv.MakeAccountsReader()
	require.NoError(t, err)
	ctx := context.Background()
	u64 := func(f func(r trackerdb.AccountsReaderExt) (uint64, error)) (uint64, uint64) {
		a, err := f(rs)
		require.NoError(t, err)
		b, err := f(rk)
		require.NoError(t, err)
		return a, b
	}
	t.Run("C47:TotalAccounts:total", func(t *testing.T) {
		a, b := u64(func(r trackerdb.AccountsReaderExt) (uint64, error) { return r.TotalAccounts(ctx) })
		require.Equal(t, a, b)
	})
	t.Run("C47:TotalResources:total", func(t *testing.T) {
		a, b := u64(func(r trackerdb.AccountsReaderExt) (uint64, error) { return r.TotalResources(ctx) })
		require.Equal(t, a, b)
	})
	t.Run("C47:TotalKVs:total", func(t *testing.T) {
		a, b := u64(func(r trackerdb.AccountsReaderExt) (uint64, error) { return r.TotalKVs(ctx) })
		require.Equal(t, a, b)
	})
	t.Run("C47:TotalOnlineAccountRows:total", func(t *testing.T) {
		a, b := u64(func(r trackerdb.AccountsReaderExt) (uint64, error) { return r.TotalOnlineAccountRows(ctx) })
		require.Equal(t, a, b)
	})
	t.Run("C47:TotalOnlineRoundParams:total", func(t *testing.T) {
		a, b := u64(func(r trackerdb.AccountsReaderExt) (uint64, error) { return r.TotalOnlineRoundParams(ctx) })
		require.Equal(t, a, b)
	})
	t.Run("C47:AccountsHashRound:round", func(t *testing.T) {
		a, b := u64(func(r trackerdb.AccountsReaderExt) (uint64, error) {
			x, err := r.AccountsHashRound(ctx)
			return uint64(x), err
		})
		require.Equal(t, a, b) // sqlite 7, generickv 0 (UpdateAccountsHashRound/AccountsHashRound are empty bodies)
	})
	t.Run("C47:LookupAccountAddressFromAddressID:addr", func(t *testing.T) {
		refS, err := rs.LookupAccountRowID(reproC47A)
		require.NoError(t, err)
		refK, err := rk.LookupAccountRowID(reproC47A)
		require.NoError(t, err)
		a, err := rs.LookupAccountAddressFromAddressID(ctx, refS)
		require.NoError(t, err)
		b, err := rk.LookupAccountAddressFromAddressID(ctx, refK)
		require.NoError(t, err)
		require.Equal(t, a, b) // generickv returns the zero address
	})
	t.Run("C47:LookupAccountAddressFromAddressID:error-ness", func(t *testing.T) {
		_, errS := rs.LookupAccountAddressFromAddressID(ctx, nil)
		_, errK := rk.LookupAccountAddressFromAddressID(ctx, nil)
		require.Equal(t, errS != nil, errK != nil) // sqlite: "no matching address could be found for rowid = nil", generickv: nil
	})
}

// R2 -------------------------------------------------------------------------------------------
func TestReproC47_R2_KVPrefixScan(t *testing.T) {
	sq, kv := reproC47Open(t)
	e1, e2 := reproC47Both(t, sq, kv, func(tx trackerdb.TransactionScope) error {
		w, err := tx.MakeAccountsOptimizedWriter(false, false, true, false)
		require.NoError(t, err)
		defer w.Close()
		return w.UpsertKvPair("a", []byte("1"))
	})
	require.NoError(t, e1)
	require.NoError(t, e2)
	rs, err := sq.MakeAccountsOptimizedReader()
	require.NoError(t, err)
	rk, err := kv.MakeAccountsOptimizedReader()
	require.NoError(t, err)

	t.Run("C47:LookupKeysByPrefix:keys-count:pebble-deviates", func(t *testing.T) {
		resS, resK := map[string]bool{}, map[string]bool{}
		_, err := rs.LookupKeysByPrefix("a", 10, resS, 0)
		require.NoError(t, err)
		_, err = rk.LookupKeysByPrefix("a", 10, resK, 0)
		require.NoError(t, err)
		require.Equal(t, resS, resK) // sqlite {"a":true}, generickv {} (scans ["a","b") of the raw key space, kv pairs live under "xc-")
	})
	t.Run("C47:LookupKeysByPrefixCursor:keys-count:pebble-deviates", func(t *testing.T) {
		_, resS, moreS, err := rs.LookupKeysByPrefixCursor("a", "", 0, 0, true, nil)
		require.NoError(t, err)
		_, resK, moreK, err := rk.LookupKeysByPrefixCursor("a", "", 0, 0, true, nil)
		require.NoError(t, err)
		require.Equal(t, len(resS), len(resK))
		require.Equal(t, moreS, moreK)
	})
	t.Run("C47:LookupKeysByPrefix:error-ness", func(t *testing.T) {
		_, errS := rs.LookupKeysByPrefix("", 10, map[string]bool{}, 0)
		resK := map[string]bool{}
		_, errK := rk.LookupKeysByPrefix("", 10, resK, 0)
		// sqlite: "lookup by strange prefix"; generickv: no error and internal keys ("xc-a", "xg", ...) in the result
		require.Equal(t, errS != nil, errK != nil, "generickv returned %v", resK)
	})
	t.Run("C47:LookupKeysByPrefixCursor:error-ness", func(t *testing.T) {
		_, _, _, errS := rs.LookupKeysByPrefixCursor("", "", 0, 0, true, nil)
		_, resK, _, errK := rk.LookupKeysByPrefixCursor("", "", 0, 0, true, nil)
		require.Equal(t, errS != nil, errK != nil, "generickv returned %v", resK)
	})
}

// R3 -------------------------------------------------------------------------------------------
func reproC47Top(t *testing.T, st trackerdb.Store, rnd basics.Round, offset, n uint64) map[basics.Address]ledgercore.OnlineAccount {
	r, err := st.MakeAccountsReader()
	require.NoError(t, err)
	proto := config.Consensus[protocol.ConsensusCurrentVersion]
	m, err := r.AccountsOnlineTop(rnd, offset, n, proto.RewardUnit)
	require.NoError(t, err)
	out := map[basics.Address]ledgercore.OnlineAccount{}
	for a, oa := range m {
		out[a] = *oa
	}
	return out
}

func TestReproC47_R3_KVAccountsOnlineTop(t *testing.T) {
	t.Run("C47:AccountsOnlineTop:accounts-count:pebble-deviates", func(t *testing.T) {
		sq, kv := reproC47Open(t)
		reproC47InsertOnline(t, sq, kv, reproC47A, 0, 1) // an offline ("zero") entry
		require.Equal(t, reproC47Top(t, sq, 1, 0, 1), reproC47Top(t, kv, 1, 0, 1)) // sqlite {}, generickv {A: zero stake}
	})
	t.Run("C47:AccountsOnlineTop:accounts-items:pebble-deviates", func(t *testing.T) {
		sq, kv := reproC47Open(t)
		reproC47InsertOnline(t, sq, kv, reproC47A, 1_000_000, 1)
		reproC47InsertOnline(t, sq, kv, reproC47B, 0, 2)
		require.Equal(t, reproC47Top(t, sq, 2, 0, 1), reproC47Top(t, kv, 2, 0, 1)) // sqlite {A}, generickv {B (offline, newer round)}
	})
	t.Run("C47:AccountsOnlineTop:account-data-items:pebble-deviates", func(t *testing.T) {
		sq, kv := reproC47Open(t)
		reproC47InsertOnline(t, sq, kv, reproC47A, 2_000_000, 1)
		reproC47InsertOnline(t, sq, kv, reproC47B, 1_000_000, 1)
		reproC47InsertOnline(t, sq, kv, reproC47A, 1_000_000, 2)
		// top: B (1M), A (1M, latest); second of them is A with its round-2 data.
		// generickv returns A with the superseded round-1 data (2M)
		require.Equal(t, reproC47Top(t, sq, 2, 1, 1), reproC47Top(t, kv, 2, 1, 1))
	})
}

// R4, R5, R6 ------------------------------------------------------------------------------------
func reproC47History(t *testing.T, st trackerdb.Store, addr basics.Address) ([]basics.Round, error) {
	r, err := st.MakeOnlineAccountsOptimizedReader()
	require.NoError(t, err)
	defer r.Close()
	hist, _, err := r.LookupOnlineHistory(addr)
	var out []basics.Round
	for _, h := range hist {
		out = append(out, h.UpdRound)
	}
	return out, err
}

func TestReproC47_R4_KVOnlineAccountsDeleteInclusive(t *testing.T) {
	// key C47:OnlineAccountsDelete:stored-onlineaccounts
	sq, kv := reproC47Open(t)
	reproC47InsertOnline(t, sq, kv, reproC47A, 0, 1) // offline entry at round 1
	e1, e2 := reproC47Both(t, sq, kv, func(tx trackerdb.TransactionScope) error {
		aw, err := tx.MakeAccountsWriter()
		require.NoError(t, err)
		return aw.OnlineAccountsDelete(1) // forget rows with updround < 1: nothing
	})
	require.NoError(t, e1)
	require.NoError(t, e2)
	hs, err := reproC47History(t, sq, reproC47A)
	require.NoError(t, err)
	hk, err := reproC47History(t, kv, reproC47A)
	require.NoError(t, err)
	require.Equal(t, hs, hk) // sqlite [1], generickv [] (row with updround == forgetBefore was deleted)
}

func TestReproC47_R5_SQLiteLookupOnlineHistoryNoRows(t *testing.T) {
	// key C47:LookupOnlineHistory:error-ness
	sq, kv := reproC47Open(t)
	_, errS := reproC47History(t, sq, reproC47B)
	_, errK := reproC47History(t, kv, reproC47B)
	// sqlite: `sql: Scan error on column index 0, name "rowid": converting NULL to int64 is unsupported`
	require.Equal(t, errS != nil, errK != nil, "sqlite err: %v, generickv err: %v", errS, errK)
}

func TestReproC47_R6_OnlineAccountsAllRound(t *testing.T) {
	// key C47:OnlineAccountsAll:row-rounds-items
	sq, kv := reproC47Open(t)
	reproC47InsertOnline(t, sq, kv, reproC47A, 1_000_000, 1)
	e1, e2 := reproC47Both(t, sq, kv, func(tx trackerdb.TransactionScope) error {
		aw, err := tx.MakeAccountsWriter()
		require.NoError(t, err)
		return aw.UpdateAccountsRound(1)
	})
	require.NoError(t, e1)
	require.NoError(t, e2)
	rs, err := sq.MakeAccountsReader()
	require.NoError(t, err)
	rk, err := kv.MakeAccountsReader()
	require.NoError(t, err)
	as, err := rs.OnlineAccountsAll(0)
	require.NoError(t, err)
	ak, err := rk.OnlineAccountsAll(0)
	require.NoError(t, err)
	require.Len(t, as, 1)
	require.Len(t, ak, 1)
	require.Equal(t, as[0].Round, ak[0].Round) // sqlite 0, generickv 1
}

// R7 -------------------------------------------------------------------------------------------
func TestReproC47_R7_KVUpdateAccountsRoundBackwards(t *testing.T) {
	// key C47:UpdateAccountsRound:error-ness
	sq, kv := reproC47Open(t)
	errS, errK := reproC47Both(t, sq, kv, func(tx trackerdb.TransactionScope) error {
		aw, err := tx.MakeAccountsWriter()
		require.NoError(t, err)
		if err = aw.UpdateAccountsRound(1); err != nil {
			return err
		}
		return aw.UpdateAccountsRound(0)
	})
	// sqlite: "newRound 0 is not after base 1" (transaction rolled back); generickv: nil, round is now 0
	require.Equal(t, errS != nil, errK != nil, "sqlite err: %v, generickv err: %v", errS, errK)
}
