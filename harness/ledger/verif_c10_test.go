package ledger

// C10 — Paginated listings return each resource exactly once.
//
// Engine E-ENUM over ledger states built with the LH driver (common_c08_driver_test.go: real
// Ledger, real transactions through the real BlockEvaluator, synchronous flush), level
// model_checking: every explored case is a paged scan of the real listing code over a real
// memory/disk split.
//
// States. A population of 5 index positions; position i owns
//   - box name_i of app P0, names "a", "a\x00", "ab", "b", "\xff" (prefix-sharing);
//   - B's holding of asset X_i and B's local state of app P_i (X_i, P_i created by A in round 1);
//   - an asset Y_i and an app Q_i created (and destroyed) by A itself; A also opts into its own
//     Q_i when creating it and, at positions 0/2/4, closes out again in the next round (opted
//     in on disk + closed out in deltas; created, opted in and closed out all in deltas).
// The box of position 1 ("a\x00") always has a ZERO-LENGTH value.
// Each position has a placement in {absent, on disk, created in deltas, on disk but deleted
// in deltas, on disk + deleted in deltas + re-created in deltas (new value; new id for Y/Q)}.
// A placement vector is realised by round 2 (things that must be on disk), round 3
// (creations / deletions in deltas), round 4 (re-creations) and ONE flush of rounds 1-2,
// placed either between round 2 and 3 (MaxAcctLookback 0) or after round 4
// (MaxAcctLookback 2), thorough also after a reloadLedger. Quick: all vectors with at most 3
// positions that are not plainly on disk (821 vectors); thorough: all 5^5.
//
// Scans, for every state: Ledger.LookupAssets and LookupApplications (with and without
// params) for B (holder), A (creator/holder) and a never-existing address, page limits 1..7
// with the REST handler's protocol (ask limit+1, keep limit, next token = last id), from
// start tokens {0, every id of the population, ids in between}; LookupKvPairsByPrefix at
// EVERY round 0..latest+1, limits 1..7, prefixes = every prefix of a name (+ a non-matching
// one), start cursors {"", every key, keys in between / outside the prefix}, byte caps {none,
// 0, 1, size of 1 and 2 items -1/0/+1}, with and without values, pulling pages with the last
// key as next cursor while moreData is reported.
//
// Oracle: the concatenation of the pages equals the reference listing at the reported round
// (fold of the evaluator's StateDeltas): every present resource exactly once, strictly
// increasing, values as in R[round] (holding / local state / creator / params / box value);
// the scan terminates; asset/app listings report round == latest; KV rounds outside
// [tracker DB round, latest] are refused. A spurious empty last page is tolerated; page
// sizes are not constrained (limits and byte caps are documented as best-effort).
//
// Not covered: concurrent commit during a scan (E-SCHED), the REST token encoding, pebbledb.
//
// Mutants (bin/mut ... --only), outcomes:
//  M1 sqlitedriver/sql.go processKvRows: `key <= cursor` -> `key < cursor`        DETECTED
//  M2 acctupdates.go LookupKvPairsByPrefix: cutoff filter dropped (needs a byte cap
//     that shortens the DB page + a delta-created key beyond it + more DB rows)  DETECTED
//  M3 acctupdates.go lookupAssetResources: no over-request for in-memory deletions DETECTED
//  M4 acctupdates.go lookupApplicationResources: delta-only ids beyond the DB page
//     merged (`dbHasMore && appID > dbMaxID` dropped)                            MISSED -
//     equivalent: the over-request keeps >= limit DB survivors on a full page, so
//     anything merged beyond dbMaxID is cut by the final sort+truncate; replaced by:
//  M5 acctupdates.go LookupKvPairsByPrefix delta walk: `keyInRound <= cursor` -> `<` DETECTED
//  M6 acctupdates.go lookupApplicationResources: creator-only DB rows dropped      DETECTED
//  Independently seeded (/verif/seeded): C10-A, C10-B DETECTED; C10-r2A (creator that opted into
//  and closed out of its own app in deltas listed twice) and C10-r2B (zero-length box in the
//  deltas treated as deleted) were MISSED by the first version and are DETECTED since the
//  creator's own local state and the zero-length box were added to the population.

import (
	"bytes"
	"encoding/json"
	"fmt"
	"sort"
	"strings"
	"sync/atomic"
	"testing"

	"github.com/algorand/avm-abi/apps"

	"github.com/algorand/go-algorand/data/basics"
	"github.com/algorand/go-algorand/data/transactions"
	"github.com/algorand/go-algorand/data/txntest"
	"github.com/algorand/go-algorand/ledger/ledgercore"
	ve "github.com/algorand/go-algorand/verifeng"
)

const (
	c10Absent = iota
	c10Disk
	c10DeltaCreated
	c10DeltaDeleted
	c10Recreated
	c10NumPlacements
)

var c10PlacementNames = []string{"absent", "disk", "delta-created", "delta-deleted", "deleted+recreated"}

var c10BoxNames = []string{"a", "a\x00", "ab", "b", "\xff"}

const c10N = 5

const c10Per = 7 // transactions emitted by one "create" group

const (
	c10FlushEarly  = iota // lookback 0: flush right after round 2
	c10FlushLate          // lookback 2: flush after round 4 (persists rounds 1-2)
	c10FlushReload        // lookback 2: reloadLedger after round 4 (persists rounds 1-2, replays 3-4)
)

var c10ModeNames = []string{"flush-early", "flush-late", "reload"}

type c10State struct {
	h       *c08LH
	w       *c08World
	x, p    [c10N]uint64 // long-lived assets / apps (round 1)
	ids     []uint64     // every creatable id that ever existed, sorted
	boxApp  uint64
	scans   int64
	pages   int64
	classes map[string]struct{}
}

// c10BoxVal: the box of position 1 ("a\x00") always has a ZERO-LENGTH value.
func c10BoxVal(i int, r basics.Round) []byte {
	if i == 1 {
		return []byte{}
	}
	return c10Val(i, r)
}

func c10Val(i int, r basics.Round) []byte {
	v := c08Val(r)
	v[0] = byte(0x10 + i)
	return v
}

// c10Build realises one placement vector.
func c10Build(w *c08World, place [c10N]int, mode int) (*c10State, error) {
	cfg := c08Cfg{Name: c10ModeNames[mode], Lookback: 0, LRU: c08LRUSmall}
	if mode != c10FlushEarly {
		cfg.Lookback = 2
	}
	h, err := c08Open(w, cfg)
	if err != nil {
		return nil, fmt.Errorf("harness: OpenLedger: %v", err)
	}
	st := &c10State{h: h, w: w, classes: map[string]struct{}{}}
	fail := func(f string, a ...any) (*c10State, error) {
		h.Close()
		return nil, fmt.Errorf("harness: "+f, a...)
	}
	addIDs := func() {
		for _, stxn := range h.LastBlock.Payset {
			if id := uint64(stxn.ApplyData.ConfigAsset); id != 0 {
				st.ids = append(st.ids, id)
			}
			if id := uint64(stxn.ApplyData.ApplicationID); id != 0 {
				st.ids = append(st.ids, id)
			}
		}
	}
	block := func(what string, txs []*txntest.Txn) error {
		if len(txs) == 0 {
			txs = []*txntest.Txn{w.txPay(w.A, w.B, 1000)}
		}
		en, err := h.AddBlock(txs...)
		if err != nil {
			return err
		}
		if !en {
			return fmt.Errorf("harness: evaluator rejected the %s block", what)
		}
		addIDs()
		return nil
	}
	// round 1: X_i, P_i
	var txs []*txntest.Txn
	for i := 0; i < c10N; i++ {
		txs = append(txs, w.txAssetCreate(w.A, fmt.Sprintf("x%d", i)))
	}
	for i := 0; i < c10N; i++ {
		txs = append(txs, w.txAppCreate(w.A))
	}
	if err := block("setup", txs); err != nil {
		return fail("%v", err)
	}
	for i := 0; i < c10N; i++ {
		st.x[i] = uint64(h.LastBlock.Payset[i].ApplyData.ConfigAsset)
		st.p[i] = uint64(h.LastBlock.Payset[c10N+i].ApplyData.ApplicationID)
		if st.x[i] == 0 || st.p[i] == 0 {
			return fail("setup ids missing")
		}
	}
	st.boxApp = st.p[0]
	// own[i] = live (Y_i, Q_i) ids
	var ownAsset, ownApp [c10N]uint64
	// create emits c10Per transactions; basePos is the index of the first one in its block, so
	// that the id of the app created by the 6th can be predicted (TxnCounter + position) and A
	// can opt into its own new app in the same block.
	create := func(i int, r basics.Round, basePos int) []*txntest.Txn {
		hdr, _ := h.l.BlockHdr(h.l.Latest())
		newApp := basics.AppIndex(hdr.TxnCounter + uint64(basePos) + 6)
		return []*txntest.Txn{
			w.txBoxPut(w.A, basics.AppIndex(st.boxApp), c10BoxNames[i], c10BoxVal(i, r)),
			w.txAssetXfer(w.B, w.B, basics.AssetIndex(st.x[i]), 0),
			w.txAssetXfer(w.A, w.B, basics.AssetIndex(st.x[i]), uint64(i+1)+uint64(r)),
			w.txAppCall(w.B, basics.AppIndex(st.p[i]), transactions.OptInOC, []byte("lset"), c10Val(i, r)),
			w.txAssetCreate(w.A, fmt.Sprintf("y%d", i)),
			w.txAppCreate(w.A),
			w.txAppCall(w.A, newApp, transactions.OptInOC, []byte("lset"), c10Val(i, r)),
		}
	}
	// positions 0, 2, 4: the creator closes out of its own app in the round after creating it
	closesOut := func(i int) bool { return i%2 == 0 }
	closeOut := func(i int) *txntest.Txn {
		return w.txAppCall(w.A, basics.AppIndex(ownApp[i]), transactions.CloseOutOC)
	}
	remove := func(i int, optedIn bool) []*txntest.Txn {
		var pre []*txntest.Txn
		if optedIn {
			pre = append(pre, closeOut(i))
		}
		return append(pre, []*txntest.Txn{
			w.txBoxDel(w.A, basics.AppIndex(st.boxApp), c10BoxNames[i]),
			w.txAssetCloseOut(w.B, w.A, basics.AssetIndex(st.x[i])),
			w.txAppCall(w.B, basics.AppIndex(st.p[i]), transactions.CloseOutOC),
			w.txAssetDestroy(w.A, basics.AssetIndex(ownAsset[i])),
			w.txAppCall(w.A, basics.AppIndex(ownApp[i]), transactions.DeleteApplicationOC),
		}...)
	}
	// record the ids created by `create` calls in the block just added
	recordOwn := func(order []int, shift int) error {
		const per = c10Per
		if len(h.LastBlock.Payset) < shift+per*len(order) {
			return fmt.Errorf("harness: payset shorter than expected")
		}
		for k, i := range order {
			ownAsset[i] = uint64(h.LastBlock.Payset[shift+k*per+4].ApplyData.ConfigAsset)
			ownApp[i] = uint64(h.LastBlock.Payset[shift+k*per+5].ApplyData.ApplicationID)
			if ownAsset[i] == 0 || ownApp[i] == 0 {
				return fmt.Errorf("harness: created ids missing")
			}
			if got := h.LastBlock.Payset[shift+k*per+6].Txn.ApplicationID; uint64(got) != ownApp[i] {
				return fmt.Errorf("harness: predicted app id %d, created %d", got, ownApp[i])
			}
		}
		return nil
	}
	// round 2: fund the box app's account (box minimum balance), then everything that must be
	// on disk
	txs = []*txntest.Txn{w.txPay(w.A, basics.AppIndex(st.boxApp).Address(), 2_000_000)}
	var order []int
	for i := 0; i < c10N; i++ {
		if place[i] == c10Disk || place[i] == c10DeltaDeleted || place[i] == c10Recreated {
			order = append(order, i)
			txs = append(txs, create(i, 2, len(txs))...)
		}
	}
	if err := block("round-2", txs); err != nil {
		return fail("%v", err)
	}
	if err := recordOwn(order, 1); err != nil {
		return fail("%v", err)
	}
	if mode == c10FlushEarly {
		if en, err := h.Flush(2); err != nil || !en {
			return fail("flush(2): enabled=%v err=%v", en, err)
		}
	}
	// round 3: creations and deletions in deltas
	txs, order = nil, nil
	for i := 0; i < c10N; i++ {
		if place[i] == c10DeltaCreated {
			order = append(order, i)
			txs = append(txs, create(i, 3, len(txs))...)
		}
	}
	for i := 0; i < c10N; i++ {
		if place[i] == c10DeltaDeleted || place[i] == c10Recreated {
			txs = append(txs, remove(i, true)...)
		}
	}
	for i := 0; i < c10N; i++ {
		if place[i] == c10Disk && closesOut(i) {
			txs = append(txs, closeOut(i)) // opted in on disk, closed out in deltas
		}
	}
	if err := block("round-3", txs); err != nil {
		return fail("%v", err)
	}
	if err := recordOwn(order, 0); err != nil {
		return fail("%v", err)
	}
	// round 4: re-creations
	txs, order = nil, nil
	for i := 0; i < c10N; i++ {
		if place[i] == c10Recreated {
			order = append(order, i)
			txs = append(txs, create(i, 4, len(txs))...)
		}
	}
	for i := 0; i < c10N; i++ {
		if place[i] == c10DeltaCreated && closesOut(i) {
			txs = append(txs, closeOut(i)) // created, opted in and closed out, all in deltas
		}
	}
	if err := block("round-4", txs); err != nil {
		return fail("%v", err)
	}
	if err := recordOwn(order, 0); err != nil {
		return fail("%v", err)
	}
	switch mode {
	case c10FlushLate:
		if en, err := h.Flush(2); err != nil || !en {
			return fail("late flush(2): enabled=%v err=%v", en, err)
		}
	case c10FlushReload:
		if err := h.Reload(); err != nil {
			h.Close()
			return nil, err
		}
	}
	if h.dbRound != 2 || h.Latest() != 4 {
		return fail("unexpected rounds db %d latest %d", h.dbRound, h.Latest())
	}
	sort.Slice(st.ids, func(a, b int) bool { return st.ids[a] < st.ids[b] })
	return st, nil
}

// ---- reference listings ----

type c10AssetItem struct {
	id      uint64
	holding string
	creator basics.Address
	params  string
}

func c10RefAssets(ref *c08Ref, addr basics.Address, gt uint64) []c10AssetItem {
	var out []c10AssetItem
	for k, res := range ref.res {
		if k.addr != addr || k.ctype != basics.AssetCreatable || res.AssetHolding == nil || uint64(k.idx) <= gt {
			continue
		}
		it := c10AssetItem{id: uint64(k.idx), holding: fmt.Sprintf("%+v", *res.AssetHolding), params: "-"}
		if c, ok := ref.creator[k.idx]; ok && c.ctype == basics.AssetCreatable {
			it.creator = c.creator
			if cr := ref.res[c08ResKey{c.creator, k.idx, basics.AssetCreatable}]; cr.AssetParams != nil {
				it.params = fmt.Sprintf("%+v", *cr.AssetParams)
			}
		}
		out = append(out, it)
	}
	sort.Slice(out, func(a, b int) bool { return out[a].id < out[b].id })
	return out
}

type c10AppItem struct {
	id      uint64
	local   string
	creator basics.Address
	params  string
}

func c10RefApps(ref *c08Ref, addr basics.Address, gt uint64, includeParams bool) []c10AppItem {
	seen := map[uint64]bool{}
	var out []c10AppItem
	add := func(idx basics.CreatableIndex) {
		if seen[uint64(idx)] || uint64(idx) <= gt {
			return
		}
		res := ref.res[c08ResKey{addr, idx, basics.AppCreatable}]
		c, created := ref.creator[idx]
		created = created && c.ctype == basics.AppCreatable
		if res.AppLocalState == nil && !(created && c.creator == addr) {
			return
		}
		seen[uint64(idx)] = true
		it := c10AppItem{id: uint64(idx), local: "-", params: "-"}
		if res.AppLocalState != nil {
			it.local = fmt.Sprintf("%+v", *res.AppLocalState)
		}
		if created {
			it.creator = c.creator
			if includeParams {
				if cr := ref.res[c08ResKey{c.creator, idx, basics.AppCreatable}]; cr.AppParams != nil {
					it.params = fmt.Sprintf("%+v", *cr.AppParams)
				}
			}
		}
		out = append(out, it)
	}
	for k := range ref.res {
		if k.addr == addr && k.ctype == basics.AppCreatable {
			add(k.idx)
		}
	}
	for idx, c := range ref.creator {
		if c.ctype == basics.AppCreatable && c.creator == addr {
			add(idx)
		}
	}
	sort.Slice(out, func(a, b int) bool { return out[a].id < out[b].id })
	return out
}

func c10RefKv(ref *c08Ref, prefix, cursor string) []ledgercore.KvPairResult {
	var out []ledgercore.KvPairResult
	for k, v := range ref.kv {
		if strings.HasPrefix(k, prefix) && k > cursor {
			out = append(out, ledgercore.KvPairResult{Key: k, Value: v})
		}
	}
	sort.Slice(out, func(a, b int) bool { return out[a].Key < out[b].Key })
	return out
}

// ---- scans ----

func (st *c10State) class(k string) { st.classes[k] = struct{}{} }

func (st *c10State) scanAssets(addr basics.Address, who string, start uint64, limit uint64) error {
	l := st.h.l
	latest := st.h.Latest()
	var got []c10AssetItem
	token := start
	st.scans++
	for page := 0; ; page++ {
		if page > 2*c10N+12 {
			return ve.Violationf("C10:assets-no-termination", "LookupAssets(%s) start %d limit %d: no end after %d pages", who, start, limit, page)
		}
		recs, rnd, err := l.LookupAssets(addr, basics.AssetIndex(token), limit+1)
		st.pages++
		if err != nil {
			return ve.Violationf("C10:assets-error", "LookupAssets(%s, >%d, %d) failed: %v", who, token, limit+1, err)
		}
		if rnd != latest {
			return ve.Violationf("C10:assets-round", "LookupAssets(%s) reported round %d, latest is %d", who, rnd, latest)
		}
		more := uint64(len(recs)) > limit
		if more {
			recs = recs[:limit]
		}
		for _, rc := range recs {
			it := c10AssetItem{id: uint64(rc.AssetID), creator: rc.Creator, holding: "-", params: "-"}
			if rc.AssetHolding != nil {
				it.holding = fmt.Sprintf("%+v", *rc.AssetHolding)
			}
			if rc.AssetParams != nil {
				it.params = fmt.Sprintf("%+v", *rc.AssetParams)
			}
			got = append(got, it)
		}
		if !more {
			break
		}
		token = uint64(recs[len(recs)-1].AssetID)
	}
	want := c10RefAssets(st.h.ref[latest], addr, start)
	if fmt.Sprint(got) != fmt.Sprint(want) {
		return ve.Violationf("C10:assets-listing", "LookupAssets(%s) from >%d with page limit %d (db %d, latest %d): pages concatenate to ids %v, reference listing is %v; full: got %v want %v",
			who, start, limit, st.h.dbRound, latest, c10AssetIDs(got), c10AssetIDs(want), got, want)
	}
	st.class(fmt.Sprintf("assets/%s/n%d/pages>1:%v", who, len(want), uint64(len(want)) > limit))
	return nil
}

func c10AssetIDs(l []c10AssetItem) []uint64 {
	out := make([]uint64, len(l))
	for i := range l {
		out[i] = l[i].id
	}
	return out
}

func c10AppIDs(l []c10AppItem) []uint64 {
	out := make([]uint64, len(l))
	for i := range l {
		out[i] = l[i].id
	}
	return out
}

func (st *c10State) scanApps(addr basics.Address, who string, start uint64, limit uint64, includeParams bool) error {
	l := st.h.l
	latest := st.h.Latest()
	var got []c10AppItem
	token := start
	st.scans++
	for page := 0; ; page++ {
		if page > 2*c10N+12 {
			return ve.Violationf("C10:apps-no-termination", "LookupApplications(%s) start %d limit %d: no end after %d pages", who, start, limit, page)
		}
		recs, rnd, err := l.LookupApplications(addr, basics.AppIndex(token), limit+1, includeParams)
		st.pages++
		if err != nil {
			return ve.Violationf("C10:apps-error", "LookupApplications(%s, >%d, %d) failed: %v", who, token, limit+1, err)
		}
		if rnd != latest {
			return ve.Violationf("C10:apps-round", "LookupApplications(%s) reported round %d, latest is %d", who, rnd, latest)
		}
		more := uint64(len(recs)) > limit
		if more {
			recs = recs[:limit]
		}
		for _, rc := range recs {
			it := c10AppItem{id: uint64(rc.AppID), creator: rc.Creator, local: "-", params: "-"}
			if rc.AppLocalState != nil {
				it.local = fmt.Sprintf("%+v", *rc.AppLocalState)
			}
			if rc.AppParams != nil {
				it.params = fmt.Sprintf("%+v", *rc.AppParams)
			}
			got = append(got, it)
		}
		if !more {
			break
		}
		token = uint64(recs[len(recs)-1].AppID)
	}
	want := c10RefApps(st.h.ref[latest], addr, start, includeParams)
	if fmt.Sprint(got) != fmt.Sprint(want) {
		return ve.Violationf("C10:apps-listing", "LookupApplications(%s, params %v) from >%d with page limit %d (db %d, latest %d): pages concatenate to ids %v, reference listing is %v; full: got %v want %v",
			who, includeParams, start, limit, st.h.dbRound, latest, c10AppIDs(got), c10AppIDs(want), got, want)
	}
	st.class(fmt.Sprintf("apps/%s/n%d/pages>1:%v", who, len(want), uint64(len(want)) > limit))
	return nil
}

func c10Keys(l []ledgercore.KvPairResult) []string {
	out := make([]string, len(l))
	for i := range l {
		out[i] = fmt.Sprintf("%x", l[i].Key)
	}
	return out
}

func (st *c10State) scanKv(r basics.Round, prefix, cursor string, limit, maxBytes uint64, includeValues bool) error {
	l := st.h.l
	latest := st.h.Latest()
	served := r >= st.h.dbRound && r <= latest
	var got []ledgercore.KvPairResult
	cur := cursor
	st.scans++
	for page := 0; ; page++ {
		if page > 2*c10N+12 {
			return ve.Violationf("C10:kv-no-termination", "LookupKvPairsByPrefix(round %d, prefix %x, cursor %x, limit %d, maxBytes %d): no end after %d pages", r, prefix, cursor, limit, maxBytes, page)
		}
		res, rnd, more, err := l.LookupKvPairsByPrefix(r, prefix, cur, limit, maxBytes, includeValues)
		st.pages++
		if err != nil {
			if served {
				return ve.Violationf("C10:kv-error", "LookupKvPairsByPrefix(round %d (db %d, latest %d), prefix %x, cursor %x) failed: %v", r, st.h.dbRound, latest, prefix, cur, err)
			}
			st.class("kv/refused-round")
			return nil
		}
		if !served {
			return ve.Violationf("C10:kv-unserved-round", "LookupKvPairsByPrefix answered for round %d outside [%d,%d]", r, st.h.dbRound, latest)
		}
		if rnd != r {
			return ve.Violationf("C10:kv-round", "LookupKvPairsByPrefix(round %d) reported round %d", r, rnd)
		}
		got = append(got, res...)
		if !(more && len(res) > 0) {
			break
		}
		cur = res[len(res)-1].Key
	}
	want := c10RefKv(st.h.ref[r], prefix, cursor)
	ok := len(got) == len(want)
	for i := 0; ok && i < len(got); i++ {
		if got[i].Key != want[i].Key {
			ok = false
		}
		if includeValues && !bytes.Equal(got[i].Value, want[i].Value) {
			ok = false
		}
		if !includeValues && got[i].Value != nil {
			ok = false
		}
	}
	if !ok {
		return ve.Violationf("C10:kv-listing", "LookupKvPairsByPrefix(round %d (db %d, latest %d), prefix %x, start cursor %x, limit %d, maxBytes %d, values %v): pages concatenate to %v, reference listing is %v (values got %v want %v)",
			r, st.h.dbRound, latest, prefix, cursor, limit, maxBytes, includeValues, c10Keys(got), c10Keys(want), got, want)
	}
	st.class(fmt.Sprintf("kv/n%d/pages>1:%v/bytes:%v", len(want), uint64(len(want)) > limit, maxBytes != c10NoCap))
	return nil
}

const c10NoCap = uint64(1 << 40)

// c10ScanAll runs every query shape on one state.
func (st *c10State) scanAll() error {
	w := st.w
	// asset/app listings
	starts := []uint64{0}
	for _, id := range st.ids {
		starts = append(starts, id)
	}
	if len(st.ids) > 0 {
		starts = append(starts, st.ids[0]-1, st.ids[len(st.ids)-1]+1)
	}
	who := []struct {
		name string
		addr basics.Address
	}{{"B", w.B}, {"A", w.A}, {"Z", w.Z}}
	for _, p := range who {
		for limit := uint64(1); limit <= 7; limit++ {
			for _, s := range starts {
				if p.name == "Z" && s != 0 && limit > 2 {
					continue
				}
				if err := st.scanAssets(p.addr, p.name, s, limit); err != nil {
					return err
				}
				for _, ip := range []bool{true, false} {
					if err := st.scanApps(p.addr, p.name, s, limit, ip); err != nil {
						return err
					}
				}
			}
		}
	}
	// boxes
	base := apps.MakeBoxKey(st.boxApp, "")
	var prefixes []string
	seenP := map[string]bool{}
	for _, n := range append(append([]string{}, c10BoxNames...), "c") {
		for k := 0; k <= len(n); k++ {
			if p := base + n[:k]; !seenP[p] {
				seenP[p] = true
				prefixes = append(prefixes, p)
			}
		}
	}
	cursorsFor := func(prefix string) []string {
		cs := []string{""}
		if prefix != base {
			return append(cs, base+"a", base+"\xff") // a key inside / outside the prefix range
		}
		for _, n := range c10BoxNames {
			cs = append(cs, base+n)
		}
		return append(cs, base+"a\x00\x00", base+"aa", base+"c", base+"\xff\xff", base[:len(base)-1], "bx:") // between keys, beyond, below
	}
	itemSize := uint64(len(base) + 1 + 8) // shortest name, 8-byte value
	caps := []uint64{c10NoCap, 0, 1, itemSize - 1, itemSize, itemSize + 1, 2*itemSize + 1, 2*itemSize + 2, 2*itemSize + 3}
	for r := basics.Round(0); r <= st.h.Latest()+1; r++ {
		if r < st.h.dbRound || r > st.h.Latest() {
			// must be refused; one shape per prefix is enough
			for _, prefix := range prefixes {
				if err := st.scanKv(r, prefix, "", 3, c10NoCap, true); err != nil {
					return err
				}
			}
			continue
		}
		for _, prefix := range prefixes {
			limits := []uint64{1, 2, 3, 4, 5, 6, 7}
			if prefix != base {
				limits = []uint64{1, 2, 7}
			}
			for _, cursor := range cursorsFor(prefix) {
				for _, limit := range limits {
					for _, iv := range []bool{true, false} {
						if err := st.scanKv(r, prefix, cursor, limit, c10NoCap, iv); err != nil {
							return err
						}
					}
				}
				for _, cp := range caps[1:] {
					for _, limit := range []uint64{2, 7} {
						if err := st.scanKv(r, prefix, cursor, limit, cp, true); err != nil {
							return err
						}
					}
					if err := st.scanKv(r, prefix, cursor, 3, cp, false); err != nil {
						return err
					}
				}
			}
		}
	}
	return nil
}

func TestVerif_C10(t *testing.T) {
	r := ve.NewRun("C10", "model_checking")
	w, err := c08MakeWorld(nil)
	if err != nil {
		t.Fatalf("harness: %v", err)
	}
	// placement vectors
	var vectors [][c10N]int
	maxOdd := ve.Pick(3, c10N)
	var rec func(i int, cur [c10N]int, odd int)
	rec = func(i int, cur [c10N]int, odd int) {
		if i == c10N {
			vectors = append(vectors, cur)
			return
		}
		for p := 0; p < c10NumPlacements; p++ {
			o := odd
			if p != c10Disk {
				o++
			}
			if o > maxOdd {
				continue
			}
			cur[i] = p
			rec(i+1, cur, o)
		}
	}
	rec(0, [c10N]int{}, 0)
	modes := ve.Pick([]int{c10FlushEarly, c10FlushLate}, []int{c10FlushEarly, c10FlushLate, c10FlushReload})
	type job struct {
		place [c10N]int
		mode  int
	}
	var jobs []job
	for _, m := range modes {
		for _, v := range vectors {
			odd := 0
			for _, p := range v {
				if p != c10Disk {
					odd++
				}
			}
			if !ve.Thorough() && m != c10FlushEarly && odd > 2 {
				continue // quick: the late flush placement only for vectors with <= 2 such positions
			}
			jobs = append(jobs, job{v, m})
		}
	}
	if raw := r.ReplayRequest(); raw != nil {
		// vcheck C10 --replay <file>: re-run exactly one (placement, flush mode) state
		var req struct {
			Placement [c10N]int `json:"placement"`
			Mode      string    `json:"mode"`
		}
		if json.Unmarshal(raw, &req) == nil {
			jobs = nil
			for m, n := range c10ModeNames {
				if n == req.Mode {
					jobs = []job{{req.Placement, m}}
				}
			}
		}
	}
	var states, transitions, scans, pages atomic.Int64
	visited := r.ParallelFor(len(jobs), func(i int) {
		if r.Violations() > 0 {
			return
		}
		j := jobs[i]
		replay := map[string]any{"engine": "enum", "placement": j.place, "mode": c10ModeNames[j.mode]}
		st, err := c10Build(w, j.place, j.mode)
		if err != nil {
			key := "C10:harness"
			if v, ok := err.(*ve.Violation); ok {
				key = v.Key
			}
			r.Report(key, fmt.Sprintf("placement %v mode %s: %v", c10Names(j.place), c10ModeNames[j.mode], err), replay)
			return
		}
		defer st.h.Close()
		states.Add(1)
		transitions.Add(5)
		if err := st.scanAll(); err != nil {
			key := "C10:scan"
			if v, ok := err.(*ve.Violation); ok {
				key = v.Key
			}
			r.Report(key, fmt.Sprintf("placement %v mode %s: %v", c10Names(j.place), c10ModeNames[j.mode], err), replay)
		}
		scans.Add(st.scans)
		pages.Add(st.pages)
		r.EvalN(int(st.scans))
		for k := range st.classes {
			r.Class(c10ModeNames[j.mode] + "/" + k)
		}
		if i%97 == 0 {
			r.Sample(map[string]any{"placement": c10Names(j.place), "mode": c10ModeNames[j.mode], "scans": st.scans, "pages": st.pages})
		}
	})
	r.Set("ledger_states", states.Load())
	r.Set("paged_scans", scans.Load())
	r.Set("pages_pulled", pages.Load())
	exhaustive := visited == int64(len(jobs)) && r.Violations() == 0
	cov := ve.Coverage{
		Rule:   fmt.Sprintf("every placement vector of 5 prefix-sharing positions over {absent, disk, created-in-deltas, deleted-in-deltas, deleted+recreated} with at most %d positions not plainly on disk (%d vectors) x flush placement %v, each realised by real transactions + one synchronous flush on a real Ledger; per state: LookupAssets / LookupApplications (params on/off) for holder, creator and a non-existent address, page limits 1..7, every start token; LookupKvPairsByPrefix at every round 0..latest+1, limits 1..7, every name prefix, start cursors on/between/outside keys, 9 byte caps, values on/off; pages pulled with the returned next token until exhaustion and compared with the fold of the evaluator's deltas; evaluations = paged scans; a distinct class = (flush placement, listing kind, queried party, length of the reference listing, more than one page?, byte cap?)", maxOdd, len(vectors), c10ModesUsed(modes)),
		States: states.Load(), Transitions: transitions.Load(), Traces: scans.Load(), Exhaustive: exhaustive,
	}
	r.Assume("reference listing = fold of the StateDeltas returned by the real BlockEvaluator")
	r.Assume("asset/app pages are pulled with the REST handler's protocol (request limit+1, keep limit, next token = last kept id); box pages with next cursor = last returned key while moreData")
	r.Assume("page sizes are not checked (limit and byte caps are documented as best-effort); a scan must end within 22 pages")
	r.Assume("sequential: no commit runs during a scan (E-SCHED not available)")
	if r.Finish(cov) > 0 {
		t.Fatal("violations")
	}
}

func c10Names(p [c10N]int) []string {
	out := make([]string, c10N)
	for i := range p {
		out[i] = c10PlacementNames[p[i]]
	}
	return out
}

func c10ModesUsed(m []int) []string {
	var out []string
	for _, x := range m {
		out = append(out, c10ModeNames[x])
	}
	return out
}
